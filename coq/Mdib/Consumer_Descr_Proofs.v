(* DescriptionModificationReports on the consumer (C06) and the mirror step / mirror history for descriptor
   transactions (C01).  The models are Mdib/Model.v (provider) and Mdib/Consumer.v (consumer); nothing is
   redefined here, helper definitions (the report of a descriptor transaction, well-formedness) are local. *)
From Coq Require Import List ZArith Bool Lia Permutation.
From SDC Require Import Mdib.Model Mdib.Proofs Mdib.Proofs_Ctx Mdib.Consumer Mdib.Consumer_Proofs.
Import ListNotations.
Open Scope Z_scope.

(* ================================================================ small list facts *)
Lemma memz_In h l : memz h l = true <-> In h l.
Proof.
  unfold memz. rewrite existsb_exists. split.
  - intros (x & Hi & E). apply Z.eqb_eq in E. now subst.
  - intros Hi. exists h. split; [assumption|apply Z.eqb_refl].
Qed.

Lemma memz_false h l : memz h l = false <-> ~ In h l.
Proof. rewrite <- memz_In. destruct (memz h l); split; intros; congruence. Qed.

Lemma memz_cons h a l : memz h (a :: l) = Z.eqb h a || memz h l.
Proof. reflexivity. Qed.

Lemma add_dom_In h l x : In x (add_dom h l) <-> x = h \/ In x l.
Proof.
  unfold add_dom. destruct (memz h l) eqn:E.
  - apply memz_In in E. split; [now right|]. intros [->|Hi]; assumption.
  - rewrite in_app_iff. cbn. intuition.
Qed.

Lemma add_dom_known h l : In h l -> add_dom h l = l.
Proof. intros Hi. unfold add_dom. apply memz_In in Hi. now rewrite Hi. Qed.

Lemma add_dom_incl h l : incl l (add_dom h l).
Proof. intros x Hx. apply add_dom_In. now right. Qed.

Lemma fold_inv {A B} (P : A -> Prop) (f : A -> B -> A) l :
  (forall a b, P a -> P (f a b)) -> forall a, P a -> P (fold_left f l a).
Proof. intros Hf. induction l as [|b l IH]; intros a Ha; cbn [fold_left]; [exact Ha|]. apply IH, Hf, Ha. Qed.

Lemma fold_inv_in {A B} (P : A -> Prop) (f : A -> B -> A) l :
  (forall a b, In b l -> P a -> P (f a b)) -> forall a, P a -> P (fold_left f l a).
Proof.
  induction l as [|b l IH]; intros Hf a Ha; cbn [fold_left]; [exact Ha|].
  apply IH; [intros a0 b0 Hi; apply Hf; now right|]. apply Hf; [now left|exact Ha].
Qed.

(* ================================================================ frames of the consumer's table updates *)
(* everything but the three tables and the two handle domains *)
Definition hdr_same (c c' : cmdib) : Prop :=
  cm_ver c' = cm_ver c /\ cm_seq c' = cm_seq c /\ cm_inst c' = cm_inst c /\ cm_mode c' = cm_mode c /\
  cm_buf c' = cm_buf c.

Lemma hdr_same_refl c : hdr_same c c.
Proof. repeat split. Qed.
Lemma hdr_same_trans a b c : hdr_same a b -> hdr_same b c -> hdr_same a c.
Proof. unfold hdr_same. intuition congruence. Qed.

(* the handle domains only grow *)
Definition doms_le (c c' : cmdib) : Prop := incl (cm_ddom c) (cm_ddom c') /\ incl (cm_cdom c) (cm_cdom c').
Lemma doms_le_refl c : doms_le c c.
Proof. split; apply incl_refl. Qed.
Lemma doms_le_trans a b c : doms_le a b -> doms_le b c -> doms_le a c.
Proof. intros [A B] [C D]. split; eapply incl_tran; eassumption. Qed.

(* every descriptor / context state the consumer holds is listed in its handle domain (the model's stand-in
   for "the lookup can enumerate it") *)
Definition cdom_ok (c : cmdib) : Prop :=
  (forall h, cm_descrs c h <> None -> In h (cm_ddom c)) /\ (forall h, cm_cstates c h <> None -> In h (cm_cdom c)).

(* filtered removal of context states: the shape of both inner loops of the model
   (crm_one: states of a removed descriptor; UPDATE of a context descriptor: states that are not listed) *)
Definition cfold (P : H -> cstate -> bool) (l : list H) (c : cmdib) : cmdib :=
  fold_left (fun c' ch => match cm_cstates c' ch with
                          | Some s => if P ch s then put_cc c' ch None else c'
                          | None => c'
                          end) l c.

Lemma cfold_cons P a l c :
  cfold P (a :: l) c = cfold P l (match cm_cstates c a with
                                  | Some s => if P a s then put_cc c a None else c
                                  | None => c end).
Proof. reflexivity. Qed.

Lemma cfold_frame P l : forall c,
  cm_descrs (cfold P l c) = cm_descrs c /\ cm_states (cfold P l c) = cm_states c /\
  cm_ddom (cfold P l c) = cm_ddom c /\ hdr_same c (cfold P l c) /\ doms_le c (cfold P l c).
Proof.
  induction l as [|a l IH]; intros c; [repeat split; apply incl_refl|]. rewrite cfold_cons.
  set (c1 := match cm_cstates c a with Some s => if P a s then put_cc c a None else c | None => c end).
  destruct (IH c1) as (A & B & C & D & E).
  assert (F : cm_descrs c1 = cm_descrs c /\ cm_states c1 = cm_states c /\ cm_ddom c1 = cm_ddom c /\
              hdr_same c c1 /\ doms_le c c1).
  { subst c1. destruct (cm_cstates c a) as [s|]; [destruct (P a s)|]; cbn;
      repeat split; try apply incl_refl. apply add_dom_incl. }
  destruct F as (A1 & B1 & C1 & D1 & E1).
  split; [congruence|]. split; [congruence|]. split; [congruence|].
  split; [eapply hdr_same_trans; eassumption|eapply doms_le_trans; eassumption].
Qed.

Lemma cfold_cstates P l : forall c ch,
  cm_cstates (cfold P l c) ch =
  match cm_cstates c ch with
  | Some s => if memz ch l && P ch s then None else Some s
  | None => None
  end.
Proof.
  induction l as [|a l IH]; intros c ch; [cbn; destruct (cm_cstates c ch); reflexivity|].
  rewrite cfold_cons, IH, memz_cons.
  destruct (cm_cstates c a) as [sa|] eqn:Ea.
  - destruct (P a sa) eqn:Pa.
    + rewrite put_cc_cstates. destruct (Z.eqb_spec a ch) as [->|Hne].
      * rewrite Ea, Z.eqb_refl, Pa. reflexivity.
      * destruct (Z.eqb_spec ch a); [congruence|]. reflexivity.
    + destruct (Z.eqb_spec ch a) as [->|Hne]; [|reflexivity].
      rewrite Ea, Pa. rewrite andb_false_r. reflexivity.
  - destruct (Z.eqb_spec ch a) as [->|Hne]; [|reflexivity]. rewrite Ea. reflexivity.
Qed.

Lemma cfold_cdom P l : forall c, incl l (cm_cdom c) -> cm_cdom (cfold P l c) = cm_cdom c.
Proof.
  induction l as [|a l IH]; intros c Hi; [reflexivity|]. rewrite cfold_cons.
  assert (Ha : In a (cm_cdom c)) by (apply Hi; now left).
  assert (Hl : incl l (cm_cdom c)) by (intros x Hx; apply Hi; now right).
  destruct (cm_cstates c a) as [s|]; [destruct (P a s)|]; try (now apply IH).
  rewrite IH; cbn [put_cc cm_cdom]; rewrite add_dom_known by assumption; [reflexivity|assumption].
Qed.

(* ---------------------------------------------------------------- crm_one / removal of a handle list *)
Lemma crm_one_eq c h :
  crm_one c h =
  cfold (fun _ s => Z.eqb (c_dh s) h) (cm_cdom c)
        (mkCMdib (upd (cm_descrs c) h None) (upd (cm_states c) h None) (cm_cstates c) (cm_ver c) (cm_seq c)
                 (cm_inst c) (cm_mode c) (cm_buf c) (add_dom h (cm_ddom c)) (cm_cdom c)).
Proof. reflexivity. Qed.

Lemma crm_one_spec c h :
  (forall x, cm_descrs (crm_one c h) x = if Z.eqb h x then None else cm_descrs c x) /\
  (forall x, cm_states (crm_one c h) x = if Z.eqb h x then None else cm_states c x) /\
  (forall ch, cm_cstates (crm_one c h) ch =
              match cm_cstates c ch with
              | Some s => if memz ch (cm_cdom c) && Z.eqb (c_dh s) h then None else Some s
              | None => None
              end) /\
  cm_ddom (crm_one c h) = add_dom h (cm_ddom c) /\ cm_cdom (crm_one c h) = cm_cdom c /\
  hdr_same c (crm_one c h).
Proof.
  rewrite crm_one_eq.
  match goal with |- context [cfold ?P ?l ?c0] =>
    destruct (cfold_frame P l c0) as (A & B & C & D & _); pose proof (cfold_cstates P l c0) as E;
    pose proof (cfold_cdom P l c0 (incl_refl _)) as F end.
  split; [intros x; rewrite A; reflexivity|]. split; [intros x; rewrite B; reflexivity|].
  split; [intros ch; rewrite E; reflexivity|]. split; [rewrite C; reflexivity|]. split; [exact F|exact D].
Qed.

Lemma crm_list_spec l : forall c,
  (forall x, cm_descrs (fold_left crm_one l c) x = if memz x l then None else cm_descrs c x) /\
  (forall x, cm_states (fold_left crm_one l c) x = if memz x l then None else cm_states c x) /\
  (forall ch, cm_cstates (fold_left crm_one l c) ch =
              match cm_cstates c ch with
              | Some s => if memz ch (cm_cdom c) && memz (c_dh s) l then None else Some s
              | None => None
              end) /\
  incl (cm_ddom c) (cm_ddom (fold_left crm_one l c)) /\ cm_cdom (fold_left crm_one l c) = cm_cdom c /\
  hdr_same c (fold_left crm_one l c).
Proof.
  induction l as [|a l IH]; intros c; cbn [fold_left].
  - repeat split; try apply incl_refl. intros ch. cbn. rewrite andb_false_r. destruct (cm_cstates c ch); reflexivity.
  - destruct (crm_one_spec c a) as (A1 & B1 & C1 & D1 & E1 & F1).
    destruct (IH (crm_one c a)) as (A & B & C & D & E & F).
    split; [|split; [|split; [|split; [|split]]]].
    + intros x. rewrite A, A1, memz_cons. rewrite (Z.eqb_sym x a).
      destruct (memz x l), (a =? x); reflexivity.
    + intros x. rewrite B, B1, memz_cons. rewrite (Z.eqb_sym x a).
      destruct (memz x l), (a =? x); reflexivity.
    + intros ch. rewrite C, C1, E1.
      destruct (cm_cstates c ch) as [s|]; [|reflexivity]. rewrite memz_cons.
      destruct (memz ch (cm_cdom c)); cbn [andb]; [|reflexivity].
      destruct (c_dh s =? a); cbn [orb]; reflexivity.
    + eapply incl_tran; [|exact D]. rewrite D1. apply add_dom_incl.
    + congruence.
    + eapply hdr_same_trans; eassumption.
Qed.

(* ================================================================ C06 (a): published-only *)
(* [pub Ds Ss Cs c c']: every table entry of c' is the entry of c or one of the listed items *)
Definition pub (Ds : list (H * descr)) (Ss : list (H * state)) (Cs : list (H * cstate)) (c c' : cmdib) : Prop :=
  (forall h d, cm_descrs c' h = Some d -> cm_descrs c h = Some d \/ In (h, d) Ds) /\
  (forall h s, cm_states c' h = Some s -> cm_states c h = Some s \/ In (h, s) Ss) /\
  (forall h s, cm_cstates c' h = Some s -> cm_cstates c h = Some s \/ In (h, s) Cs).

Lemma pub_refl Ds Ss Cs c : pub Ds Ss Cs c c.
Proof. repeat split; intros; now left. Qed.

Lemma pub_trans Ds Ss Cs a b c : pub Ds Ss Cs a b -> pub Ds Ss Cs b c -> pub Ds Ss Cs a c.
Proof.
  intros (A1 & A2 & A3) (B1 & B2 & B3). repeat split; intros h x E.
  - destruct (B1 h x E) as [E1|E1]; [now apply A1|now right].
  - destruct (B2 h x E) as [E1|E1]; [now apply A2|now right].
  - destruct (B3 h x E) as [E1|E1]; [now apply A3|now right].
Qed.

Lemma pub_mono Ds Ss Cs Ds' Ss' Cs' a b :
  incl Ds Ds' -> incl Ss Ss' -> incl Cs Cs' -> pub Ds Ss Cs a b -> pub Ds' Ss' Cs' a b.
Proof.
  intros I1 I2 I3 (A1 & A2 & A3). repeat split; intros h x E.
  - destruct (A1 h x E); [now left|right; now apply I1].
  - destruct (A2 h x E); [now left|right; now apply I2].
  - destruct (A3 h x E); [now left|right; now apply I3].
Qed.

Lemma pub_put_cd Ds Ss Cs c h d : In (h, d) Ds -> pub Ds Ss Cs c (put_cd c h (Some d)).
Proof.
  intros Hi. repeat split; intros x y E; try (now left).
  cbn in E. unfold upd in E. destruct (Z.eqb_spec h x) as [->|_]; [injection E as <-; now right|now left].
Qed.
Lemma pub_put_cs Ds Ss Cs c h s : In (h, s) Ss -> pub Ds Ss Cs c (put_cs c h s).
Proof.
  intros Hi. repeat split; intros x y E; try (now left).
  rewrite put_cs_states in E. destruct (Z.eqb_spec h x) as [->|_]; [injection E as <-; now right|now left].
Qed.
Lemma pub_put_cc Ds Ss Cs c h s : In (h, s) Cs -> pub Ds Ss Cs c (put_cc c h (Some s)).
Proof.
  intros Hi. repeat split; intros x y E; try (now left).
  rewrite put_cc_cstates in E. destruct (Z.eqb_spec h x) as [->|_]; [injection E as <-; now right|now left].
Qed.
Lemma pub_cfold Ds Ss Cs P l c : pub Ds Ss Cs c (cfold P l c).
Proof.
  destruct (cfold_frame P l c) as (A & B & _). repeat split; intros x y E; left.
  - now rewrite A in E.
  - now rewrite B in E.
  - rewrite cfold_cstates in E. destruct (cm_cstates c x) as [s|]; [|discriminate].
    destruct (memz x l && P x s); [discriminate|exact E].
Qed.
Lemma pub_crm_list Ds Ss Cs l c : pub Ds Ss Cs c (fold_left crm_one l c).
Proof.
  destruct (crm_list_spec l c) as (A & B & C & _). repeat split; intros x y E; left.
  - rewrite A in E. destruct (memz x l); [discriminate|exact E].
  - rewrite B in E. destruct (memz x l); [discriminate|exact E].
  - rewrite C in E. destruct (cm_cstates c x) as [s|]; [|discriminate].
    destruct (memz x (cm_cdom c) && memz (c_dh s) l); [discriminate|exact E].
Qed.

(* the three kinds of report part, one loop at a time *)
Definition create_step (acc : cmdib * list notif * bool) (e : H * descr) : cmdib * list notif * bool :=
  let '(c0, ns, failed) := acc in
  if failed then acc else
  match cm_descrs c0 (fst e) with
  | Some _ => (c0, ns, true)
  | None => (put_cd c0 (fst e) (Some (snd e)), ns ++ [(N_NEW, fst e)], false)
  end.

Definition upd_descr_step (cs : list (H * cstate)) (c' : cmdib) (e : H * descr) : cmdib :=
  let c'' := match cm_descrs c' (fst e) with Some _ => put_cd c' (fst e) (Some (snd e)) | None => c' end in
  if Z.eqb (d_kind (snd e)) K_CTX then
    cfold (fun ch s => Z.eqb (c_dh s) (fst e) && negb (alist_has cs ch)) (cm_cdom c'') c''
  else c''.

Definition del_step (acc : cmdib * list notif) (e : H * descr) : cmdib * list notif :=
  let '(c0, ns0) := acc in
  let sub := csubtree c0 (fst e) in
  (fold_left crm_one sub c0, ns0 ++ map (fun h => (N_DEL, h)) sub).

Lemma apply_part_eq c p :
  apply_part c p =
  if Z.eqb (dp_mod p) 0 then
    let '(c1, ns, failed) := fold_left create_step (dp_descrs p) (c, [], false) in
    if failed then (c1, ns, true) else
    let c2 := fold_left (fun c' e => put_cs c' (fst e) (snd e)) (dp_states p) c1 in
    let c3 := fold_left (fun c' e => put_cc c' (fst e) (Some (snd e))) (dp_cstates p) c2 in
    (c3, ns, false)
  else if Z.eqb (dp_mod p) 1 then
    let c1 := fold_left (upd_descr_step (dp_cstates p)) (dp_descrs p) c in
    let c2 := fold_left (fun c' e => match cm_states c' (fst e) with Some _ => put_cs c' (fst e) (snd e) | None => c' end)
                        (dp_states p) c1 in
    let c3 := fold_left (fun c' e => match cm_cstates c' (fst e) with Some _ => put_cc c' (fst e) (Some (snd e)) | None => c' end)
                        (dp_cstates p) c2 in
    (c3, map (fun e => (N_UPD, fst e)) (dp_descrs p), false)
  else
    let '(c1, ns) := fold_left del_step (dp_descrs p) (c, []) in (c1, ns, false).
Proof. reflexivity. Qed.

(* a relation that holds across every elementary table update holds across a whole part / report *)
Section PartRel.
  Variable R : list (H * descr) -> list (H * state) -> list (H * cstate) -> cmdib -> cmdib -> Prop.
  Hypothesis R_refl : forall Ds Ss Cs c, R Ds Ss Cs c c.
  Hypothesis R_trans : forall Ds Ss Cs a b c, R Ds Ss Cs a b -> R Ds Ss Cs b c -> R Ds Ss Cs a c.
  Hypothesis R_mono : forall Ds Ss Cs Ds' Ss' Cs' a b,
    incl Ds Ds' -> incl Ss Ss' -> incl Cs Cs' -> R Ds Ss Cs a b -> R Ds' Ss' Cs' a b.
  Hypothesis R_cd : forall Ds Ss Cs c h d, In (h, d) Ds -> R Ds Ss Cs c (put_cd c h (Some d)).
  Hypothesis R_cs : forall Ds Ss Cs c h s, In (h, s) Ss -> R Ds Ss Cs c (put_cs c h s).
  Hypothesis R_cc : forall Ds Ss Cs c h s, In (h, s) Cs -> R Ds Ss Cs c (put_cc c h (Some s)).
  Hypothesis R_cfold : forall Ds Ss Cs P l c, R Ds Ss Cs c (cfold P l c).
  Hypothesis R_rm : forall Ds Ss Cs l c, R Ds Ss Cs c (fold_left crm_one l c).

  Lemma part_rel c p : R (dp_descrs p) (dp_states p) (dp_cstates p) c (fst (fst (apply_part c p))).
  Proof.
    set (Ds := dp_descrs p). set (Ss := dp_states p). set (Cs := dp_cstates p).
    rewrite apply_part_eq. destruct (dp_mod p =? 0).
    - assert (G : R Ds Ss Cs c (fst (fst (fold_left create_step (dp_descrs p) (c, [], false))))).
      { apply (fold_inv_in (fun acc => R Ds Ss Cs c (fst (fst acc)))); [|apply R_refl].
        intros [[c0 ns] failed] e Hi Ha. cbn [fst] in Ha. unfold create_step.
        destruct failed; [exact Ha|]. destruct (cm_descrs c0 (fst e)); cbn [fst]; [exact Ha|].
        eapply R_trans; [exact Ha|]. apply R_cd. subst Ds. now destruct e. }
      destruct (fold_left create_step (dp_descrs p) (c, [], false)) as [[c1 ns] failed]. cbn [fst] in G.
      destruct failed; cbn [fst]; [exact G|].
      apply (fold_inv_in (fun c' => R Ds Ss Cs c c')).
      { intros c' e Hi Ha. eapply R_trans; [exact Ha|]. apply R_cc. subst Cs. now destruct e. }
      apply (fold_inv_in (fun c' => R Ds Ss Cs c c')); [|exact G].
      intros c' e Hi Ha. eapply R_trans; [exact Ha|]. apply R_cs. subst Ss. now destruct e.
    - destruct (dp_mod p =? 1); cbn [fst].
      + apply (fold_inv_in (fun c' => R Ds Ss Cs c c')).
        { intros c' e Hi Ha. destruct (cm_cstates c' (fst e)); [|exact Ha].
          eapply R_trans; [exact Ha|]. apply R_cc. subst Cs. now destruct e. }
        apply (fold_inv_in (fun c' => R Ds Ss Cs c c')).
        { intros c' e Hi Ha. destruct (cm_states c' (fst e)); [|exact Ha].
          eapply R_trans; [exact Ha|]. apply R_cs. subst Ss. now destruct e. }
        apply (fold_inv_in (fun c' => R Ds Ss Cs c c')); [|apply R_refl].
        intros c' e Hi Ha. eapply R_trans; [exact Ha|]. unfold upd_descr_step.
        assert (G : R Ds Ss Cs c' (match cm_descrs c' (fst e) with
                                   | Some _ => put_cd c' (fst e) (Some (snd e)) | None => c' end)).
        { destruct (cm_descrs c' (fst e)); [|apply R_refl]. apply R_cd. subst Ds. now destruct e. }
        destruct (d_kind (snd e) =? K_CTX); [|exact G]. eapply R_trans; [exact G|apply R_cfold].
      + assert (G : R Ds Ss Cs c (fst (fold_left del_step (dp_descrs p) (c, [])))).
        { apply (fold_inv (fun acc => R Ds Ss Cs c (fst acc))); [|apply R_refl].
          intros [c0 ns0] e Ha. cbn [fst] in *. eapply R_trans; [exact Ha|apply R_rm]. }
        destruct (fold_left del_step (dp_descrs p) (c, [])) as [c1 ns]. exact G.
  Qed.

  Lemma parts_rel ps : forall c,
    R (concat (map dp_descrs ps)) (concat (map dp_states ps)) (concat (map dp_cstates ps)) c (fst (apply_parts c ps)).
  Proof.
    induction ps as [|p ps IH]; intros c; cbn [apply_parts]; [apply R_refl|].
    pose proof (part_rel c p) as G. destruct (apply_part c p) as [[c1 ns] failed]. cbn [fst] in G.
    cbn [map concat].
    assert (G1 : R (dp_descrs p ++ concat (map dp_descrs ps)) (dp_states p ++ concat (map dp_states ps))
                   (dp_cstates p ++ concat (map dp_cstates ps)) c c1).
    { eapply R_mono; [| | |exact G]; apply incl_appl, incl_refl. }
    destruct failed; cbn [fst]; [exact G1|].
    specialize (IH c1). destruct (apply_parts c1 ps) as [c2 ns2]. cbn [fst] in *.
    eapply R_trans; [exact G1|]. eapply R_mono; [| | |exact IH]; apply incl_appr, incl_refl.
  Qed.
End PartRel.

Lemma apply_parts_pub ps c :
  pub (concat (map dp_descrs ps)) (concat (map dp_states ps)) (concat (map dp_cstates ps)) c (fst (apply_parts c ps)).
Proof.
  apply (parts_rel pub); [apply pub_refl|apply pub_trans|apply pub_mono|apply pub_put_cd|apply pub_put_cs|
                          apply pub_put_cc|apply pub_cfold|apply pub_crm_list].
Qed.

Lemma in_concat_map {A} (f : dpart -> list A) ps x : In x (concat (map f ps)) -> exists p, In p ps /\ In x (f p).
Proof.
  intros Hi. apply in_concat in Hi. destruct Hi as (l & Hl & Hx). apply in_map_iff in Hl.
  destruct Hl as (p & <- & Hp). now exists p.
Qed.

(* C06 for description modification reports, published-only: whatever the report (stale, duplicated, out of
   order, interrupted by the KeyError of a CREATE of an existing handle), every descriptor / state / context
   state the consumer holds afterwards is the one it held before or an item of one of the report's parts *)
Theorem descr_report_published_only c vg parts :
  let c' := fst (process c (RDescr vg parts)) in
  (forall h d, cm_descrs c' h = Some d ->
     cm_descrs c h = Some d \/ exists p, In p parts /\ In (h, d) (dp_descrs p)) /\
  (forall h s, cm_states c' h = Some s ->
     cm_states c h = Some s \/ exists p, In p parts /\ In (h, s) (dp_states p)) /\
  (forall h s, cm_cstates c' h = Some s ->
     cm_cstates c h = Some s \/ exists p, In p parts /\ In (h, s) (dp_cstates p)).
Proof.
  cbv zeta. unfold process. cbn [report_vg]. destruct (vg_ver vg <? cm_ver c).
  - cbn [fst]. repeat split; intros; now left.
  - destruct (apply_parts_pub parts (set_vg c vg)) as (A & B & C).
    repeat split; intros h x E.
    + destruct (A h x E) as [E1|E1]; [now left|right; now apply in_concat_map].
    + destruct (B h x E) as [E1|E1]; [now left|right; now apply in_concat_map].
    + destruct (C h x E) as [E1|E1]; [now left|right; now apply in_concat_map].
Qed.

(* hence: no version counter goes back, PROVIDED no item of the report is older than what is held.  (The
   model - like the code - applies the states of a description modification report without StateVersion gate;
   see [descr_report_ungated_regression] for what happens otherwise.) *)
Theorem descr_report_no_regression c vg parts :
  let c' := fst (process c (RDescr vg parts)) in
  (forall h d d', cm_descrs c h = Some d -> cm_descrs c' h = Some d' ->
     (forall p x, In p parts -> In (h, x) (dp_descrs p) -> d_ver d <= d_ver x) -> d_ver d <= d_ver d') /\
  (forall h s s', cm_states c h = Some s -> cm_states c' h = Some s' ->
     (forall p x, In p parts -> In (h, x) (dp_states p) -> s_ver s <= s_ver x) -> s_ver s <= s_ver s') /\
  (forall h s s', cm_cstates c h = Some s -> cm_cstates c' h = Some s' ->
     (forall p x, In p parts -> In (h, x) (dp_cstates p) -> c_ver s <= c_ver x) -> c_ver s <= c_ver s').
Proof.
  destruct (descr_report_published_only c vg parts) as (A & B & C). cbv zeta in *.
  repeat split; intros h x x' E E' Hle.
  - destruct (A h x' E') as [E1|(p & Hp & Hi)]; [rewrite E in E1; injection E1 as <-; lia|now apply (Hle p)].
  - destruct (B h x' E') as [E1|(p & Hp & Hi)]; [rewrite E in E1; injection E1 as <-; lia|now apply (Hle p)].
  - destruct (C h x' E') as [E1|(p & Hp & Hi)]; [rewrite E in E1; injection E1 as <-; lia|now apply (Hle p)].
Qed.

(* the proviso is necessary: a description modification report whose MdibVersion is not stale but which
   carries an older state than the one held takes the state's version back (no StateVersion gate on this path) *)
Theorem descr_report_ungated_regression :
  exists c vg parts h s s',
    cm_ver c <= vg_ver vg /\ cm_mode c = CInitialized /\ vg_seq vg = cm_seq c /\ vg_inst vg = cm_inst c /\
    cm_states c h = Some s /\ cm_states (fst (receive c (RDescr vg parts))) h = Some s' /\ s_ver s' < s_ver s.
Proof.
  exists (mkCMdib (fun h => if Z.eqb h 7 then Some (mkDescr None K_METRIC 2 1) else None)
                  (fun h => if Z.eqb h 7 then Some (mkState 2 5 1) else None) (fun _ => None)
                  10 1 1 CInitialized [] [7] []),
         (mkVg 10 1 1),
         [mkDPart 1 [(7, mkDescr None K_METRIC 2 1)] [(7, mkState 2 3 9)] []],
         7, (mkState 2 5 1), (mkState 2 3 9).
  vm_compute. repeat split; try reflexivity; discriminate.
Qed.

(* ================================================================ pointwise effect of the loops of a report part *)
(* a loop that visits a key list and overwrites the entry of each key with [val old new] *)
Section KeyedFold.
  Variables (St V W : Type) (get : St -> H -> option W) (step : St -> H * V -> St) (val : option W -> V -> option W).
  Hypothesis step_get : forall c k v y, get (step c (k, v)) y = if Z.eqb k y then val (get c k) v else get c y.

  Lemma keyed_fold l : forall c, NoDup (map fst l) ->
    forall y, get (fold_left step l c) y = match alist_get l y with Some v => val (get c y) v | None => get c y end.
  Proof.
    induction l as [|[k v] r IH]; intros c Hnd y; cbn [fold_left alist_get]; [reflexivity|].
    inversion Hnd as [|? ? Hk Hr]; subst. rewrite (IH _ Hr), !step_get.
    destruct (alist_get r y) as [v'|] eqn:G.
    - destruct (Z.eqb_spec y k) as [->|Hne].
      + exfalso. apply Hk. apply alist_get_some_in in G. now apply (in_map fst) in G.
      + destruct (Z.eqb_spec k y); [congruence|reflexivity].
    - destruct (Z.eqb_spec y k) as [->|Hne]; [now rewrite Z.eqb_refl|].
      destruct (Z.eqb_spec k y); [congruence|reflexivity].
  Qed.
End KeyedFold.

Definition rk_state_step (c' : cmdib) (e : H * state) : cmdib :=
  match cm_states c' (fst e) with Some _ => put_cs c' (fst e) (snd e) | None => c' end.
Definition rk_cstate_step (c' : cmdib) (e : H * cstate) : cmdib :=
  match cm_cstates c' (fst e) with Some _ => put_cc c' (fst e) (Some (snd e)) | None => c' end.
Definition known_val {A} (old : option A) (new : A) : option A := match old with Some _ => Some new | None => None end.

Lemma rk_states_spec S c : NoDup (map fst S) ->
  (forall y, cm_states (fold_left rk_state_step S c) y =
             match alist_get S y with Some s => known_val (cm_states c y) s | None => cm_states c y end) /\
  cm_descrs (fold_left rk_state_step S c) = cm_descrs c /\ cm_cstates (fold_left rk_state_step S c) = cm_cstates c.
Proof.
  intros Hnd. split; [|split].
  - apply (keyed_fold cmdib state state cm_states rk_state_step known_val); [|exact Hnd].
    intros c0 k v y. unfold rk_state_step. cbn [fst snd].
    destruct (cm_states c0 k) eqn:E; [now rewrite put_cs_states|].
    cbn. destruct (Z.eqb_spec k y) as [<-|]; [now rewrite E|reflexivity].
  - apply (fold_inv (fun c' => cm_descrs c' = cm_descrs c)); [|reflexivity].
    intros c0 e E. unfold rk_state_step. destruct (cm_states c0 (fst e)); exact E.
  - apply (fold_inv (fun c' => cm_cstates c' = cm_cstates c)); [|reflexivity].
    intros c0 e E. unfold rk_state_step. destruct (cm_states c0 (fst e)); exact E.
Qed.

Lemma rk_cstates_spec CS c : NoDup (map fst CS) ->
  (forall y, cm_cstates (fold_left rk_cstate_step CS c) y =
             match alist_get CS y with Some s => known_val (cm_cstates c y) s | None => cm_cstates c y end) /\
  cm_descrs (fold_left rk_cstate_step CS c) = cm_descrs c /\ cm_states (fold_left rk_cstate_step CS c) = cm_states c.
Proof.
  intros Hnd. split; [|split].
  - apply (keyed_fold cmdib cstate cstate cm_cstates rk_cstate_step known_val); [|exact Hnd].
    intros c0 k v y. unfold rk_cstate_step. cbn [fst snd].
    destruct (cm_cstates c0 k) eqn:E; [now rewrite put_cc_cstates|].
    cbn. destruct (Z.eqb_spec k y) as [<-|]; [now rewrite E|reflexivity].
  - apply (fold_inv (fun c' => cm_descrs c' = cm_descrs c)); [|reflexivity].
    intros c0 e E. unfold rk_cstate_step. destruct (cm_cstates c0 (fst e)); exact E.
  - apply (fold_inv (fun c' => cm_states c' = cm_states c)); [|reflexivity].
    intros c0 e E. unfold rk_cstate_step. destruct (cm_cstates c0 (fst e)); exact E.
Qed.

Lemma put_states_spec S c : NoDup (map fst S) ->
  (forall y, cm_states (fold_left (fun c' e => put_cs c' (fst e) (snd e)) S c) y =
             match alist_get S y with Some s => Some s | None => cm_states c y end) /\
  cm_descrs (fold_left (fun c' e => put_cs c' (fst e) (snd e)) S c) = cm_descrs c /\
  cm_cstates (fold_left (fun c' e => put_cs c' (fst e) (snd e)) S c) = cm_cstates c.
Proof.
  intros Hnd. split; [|split].
  - apply (keyed_fold cmdib state state cm_states (fun c' e => put_cs c' (fst e) (snd e)) (fun _ v => Some v));
      [|exact Hnd]. intros c0 k v y. apply put_cs_states.
  - apply (fold_inv (fun c' => cm_descrs c' = cm_descrs c)); [|reflexivity]. intros c0 e E. exact E.
  - apply (fold_inv (fun c' => cm_cstates c' = cm_cstates c)); [|reflexivity]. intros c0 e E. exact E.
Qed.

Lemma put_cstates_spec CS c : NoDup (map fst CS) ->
  (forall y, cm_cstates (fold_left (fun c' e => put_cc c' (fst e) (Some (snd e))) CS c) y =
             match alist_get CS y with Some s => Some s | None => cm_cstates c y end) /\
  cm_descrs (fold_left (fun c' e => put_cc c' (fst e) (Some (snd e))) CS c) = cm_descrs c /\
  cm_states (fold_left (fun c' e => put_cc c' (fst e) (Some (snd e))) CS c) = cm_states c.
Proof.
  intros Hnd. split; [|split].
  - apply (keyed_fold cmdib cstate cstate cm_cstates (fun c' e => put_cc c' (fst e) (Some (snd e))) (fun _ v => Some v));
      [|exact Hnd]. intros c0 k v y. apply put_cc_cstates.
  - apply (fold_inv (fun c' => cm_descrs c' = cm_descrs c)); [|reflexivity]. intros c0 e E. exact E.
  - apply (fold_inv (fun c' => cm_states c' = cm_states c)); [|reflexivity]. intros c0 e E. exact E.
Qed.

(* ---------------------------------------------------------------- one UPDATE part for one descriptor *)
Lemma upd_part_spec c h d S CS :
  cm_descrs c h <> None -> NoDup (map fst S) -> NoDup (map fst CS) ->
  (d_kind d = K_CTX -> forall ch s, cm_cstates c ch = Some s -> c_dh s = h -> alist_has CS ch = true) ->
  exists c', apply_part c (mkDPart 1 [(h, d)] S CS) = (c', [(N_UPD, h)], false) /\
  (forall y, cm_descrs c' y = if Z.eqb h y then Some d else cm_descrs c y) /\
  (forall y, cm_states c' y = match alist_get S y with Some s => known_val (cm_states c y) s | None => cm_states c y end) /\
  (forall y, cm_cstates c' y = match alist_get CS y with Some s => known_val (cm_cstates c y) s | None => cm_cstates c y end).
Proof.
  intros Hk HS HCS Hall. rewrite apply_part_eq. cbn [dp_mod dp_descrs dp_states dp_cstates map fst].
  change (1 =? 0) with false. change (1 =? 1) with true. cbv iota. cbv zeta.
  eexists. split; [reflexivity|].
  cbn [fold_left].
  set (c1 := upd_descr_step CS c (h, d)).
  assert (D1 : (forall y, cm_descrs c1 y = if Z.eqb h y then Some d else cm_descrs c y) /\
               cm_states c1 = cm_states c /\ (forall y, cm_cstates c1 y = cm_cstates c y)).
  { subst c1. unfold upd_descr_step. cbn [fst snd].
    destruct (cm_descrs c h) as [o|] eqn:E; [|contradiction].
    destruct (d_kind d =? K_CTX) eqn:K.
    - match goal with |- context [cfold ?P ?l ?c0] =>
        destruct (cfold_frame P l c0) as (A & B & _); pose proof (cfold_cstates P l c0) as C end.
      split; [intros y; rewrite A; reflexivity|]. split; [rewrite B; reflexivity|].
      intros y. rewrite C. cbn [put_cd cm_cstates cm_cdom].
      destruct (cm_cstates c y) as [s|] eqn:Es; [|reflexivity].
      destruct (Z.eqb_spec (c_dh s) h) as [Eh|]; [|now rewrite andb_false_r].
      apply Z.eqb_eq in K. rewrite (Hall K y s Es Eh). cbn. now rewrite andb_false_r.
    - repeat split; reflexivity. }
  destruct D1 as (Dd & Ds & Dc).
  change (fun c' e => match cm_states c' (fst e) with Some _ => put_cs c' (fst e) (snd e) | None => c' end)
    with rk_state_step.
  change (fun c' e => match cm_cstates c' (fst e) with Some _ => put_cc c' (fst e) (Some (snd e)) | None => c' end)
    with rk_cstate_step.
  destruct (rk_states_spec S c1 HS) as (S2 & D2 & C2).
  destruct (rk_cstates_spec CS (fold_left rk_state_step S c1) HCS) as (C3 & D3 & S3).
  split; [|split].
  - intros y. rewrite D3, D2. apply Dd.
  - intros y. rewrite S3, S2, Ds. reflexivity.
  - intros y. rewrite C3, C2, Dc. reflexivity.
Qed.

(* ---------------------------------------------------------------- one CREATE part for one descriptor *)
Lemma crt_part_spec c h d S CS :
  cm_descrs c h = None -> NoDup (map fst S) -> NoDup (map fst CS) ->
  exists c', apply_part c (mkDPart 0 [(h, d)] S CS) = (c', [(N_NEW, h)], false) /\
  (forall y, cm_descrs c' y = if Z.eqb h y then Some d else cm_descrs c y) /\
  (forall y, cm_states c' y = match alist_get S y with Some s => Some s | None => cm_states c y end) /\
  (forall y, cm_cstates c' y = match alist_get CS y with Some s => Some s | None => cm_cstates c y end).
Proof.
  intros Hk HS HCS. rewrite apply_part_eq. cbn [dp_mod dp_descrs dp_states dp_cstates].
  change (0 =? 0) with true. cbv iota. cbn [fold_left create_step fst snd]. rewrite Hk. cbn [app].
  eexists. split; [reflexivity|].
  destruct (put_states_spec S (put_cd c h (Some d)) HS) as (S2 & D2 & C2).
  destruct (put_cstates_spec CS (fold_left (fun c' e => put_cs c' (fst e) (snd e)) S (put_cd c h (Some d))) HCS)
    as (C3 & D3 & S3).
  split; [|split].
  - intros y. rewrite D3, D2. reflexivity.
  - intros y. rewrite S3, S2. reflexivity.
  - intros y. rewrite C3, C2. reflexivity.
Qed.

(* a CREATE of a handle the consumer already holds raises (KeyError in the code): the part is abandoned before
   any table is touched *)
Lemma crt_part_existing c h d S CS :
  cm_descrs c h <> None -> apply_part c (mkDPart 0 [(h, d)] S CS) = (c, [], true).
Proof.
  intros Hk. rewrite apply_part_eq. cbn [dp_mod dp_descrs dp_states dp_cstates].
  change (0 =? 0) with true. cbv iota. cbn [fold_left create_step fst snd].
  destruct (cm_descrs c h); [reflexivity|contradiction].
Qed.

(* ---------------------------------------------------------------- C06 (c): DELETE parts *)
Definition crm_sub (c : cmdib) (h : H) : cmdib := fold_left crm_one (csubtree c h) c.

(* a DELETE part removes, descriptor by descriptor, the subtree below it *)
Lemma del_part_eq c p : dp_mod p <> 0 -> dp_mod p <> 1 ->
  fst (fst (apply_part c p)) = fold_left (fun c' e => crm_sub c' (fst e)) (dp_descrs p) c /\ snd (apply_part c p) = false.
Proof.
  intros H0 H1. rewrite apply_part_eq.
  destruct (Z.eqb_spec (dp_mod p) 0); [contradiction|]. destruct (Z.eqb_spec (dp_mod p) 1); [contradiction|].
  assert (G : forall l acc, fst (fold_left del_step l acc) = fold_left (fun c' e => crm_sub c' (fst e)) l (fst acc)).
  { induction l as [|e l IH]; intros [c0 ns0]; cbn [fold_left]; [reflexivity|]. rewrite IH. reflexivity. }
  specialize (G (dp_descrs p) (c, [])). destruct (fold_left del_step (dp_descrs p) (c, [])) as [c1 ns].
  cbn [fst snd] in *. split; [exact G|reflexivity].
Qed.

(* frame of the removal of the subtree below h: exactly the descriptors of the subtree, exactly their states,
   exactly the context states that belong to them; nothing else changes *)
Theorem crm_sub_frame c h :
  let sub := csubtree c h in
  (forall x, cm_descrs (crm_sub c h) x = if memz x sub then None else cm_descrs c x) /\
  (forall x, cm_states (crm_sub c h) x = if memz x sub then None else cm_states c x) /\
  (forall ch, cm_cstates (crm_sub c h) ch =
              match cm_cstates c ch with
              | Some s => if memz ch (cm_cdom c) && memz (c_dh s) sub then None else Some s
              | None => None
              end) /\
  cm_ver (crm_sub c h) = cm_ver c /\ cm_seq (crm_sub c h) = cm_seq c /\ cm_inst (crm_sub c h) = cm_inst c /\
  cm_mode (crm_sub c h) = cm_mode c.
Proof.
  cbv zeta. unfold crm_sub. destruct (crm_list_spec (csubtree c h) c) as (A & B & C & _ & _ & (V & S & I & M & _)).
  repeat split; assumption.
Qed.

Lemma del_part_single c h d S CS m0 : m0 <> 0 -> m0 <> 1 ->
  apply_part c (mkDPart m0 [(h, d)] S CS) = (crm_sub c h, map (fun x => (N_DEL, x)) (csubtree c h), false).
Proof.
  intros H0 H1. rewrite apply_part_eq. cbn [dp_mod dp_descrs].
  destruct (Z.eqb_spec m0 0); [contradiction|]. destruct (Z.eqb_spec m0 1); [contradiction|]. reflexivity.
Qed.

(* which handles the subtree consists of *)
Lemma csubtree_In c root x :
  In x (csubtree c root) <->
  In x (cm_ddom c) /\ cm_descrs c x <> None /\ creaches c (length (cm_ddom c)) x root = true.
Proof.
  unfold csubtree. rewrite filter_In. destruct (cm_descrs c x); [|intuition congruence].
  intuition congruence.
Qed.

(* ---------------------------------------------------------------- invariants across any report *)
Lemma apply_parts_hdr ps c : hdr_same c (fst (apply_parts c ps)).
Proof.
  apply (parts_rel (fun _ _ _ => hdr_same)); intros; try apply hdr_same_refl; try (repeat split; fail).
  - eapply hdr_same_trans; eassumption.
  - assumption.
  - now destruct (cfold_frame P l c0) as (_ & _ & _ & A & _).
  - now destruct (crm_list_spec l c0) as (_ & _ & _ & _ & _ & A).
Qed.

Lemma apply_parts_cdom_ok ps c : cdom_ok c -> cdom_ok (fst (apply_parts c ps)).
Proof.
  apply (parts_rel (fun _ _ _ c0 c1 => cdom_ok c0 -> cdom_ok c1)); clear.
  - intros; assumption.
  - intros Ds Ss Cs a b c0 H1 H2 H0. auto.
  - intros Ds Ss Cs Ds' Ss' Cs' a b _ _ _ H0. exact H0.
  - intros Ds Ss Cs c h d _ [A B]. split; cbn; [|exact B]. intros x Hx. apply add_dom_In. unfold upd in Hx.
    destruct (Z.eqb_spec h x) as [->|]; [now left|right; now apply A].
  - intros Ds Ss Cs c h s _ H0. exact H0.
  - intros Ds Ss Cs c h s _ [A B]. split; cbn; [exact A|]. intros x Hx. apply add_dom_In. unfold upd in Hx.
    destruct (Z.eqb_spec h x) as [->|]; [now left|right; now apply B].
  - intros Ds Ss Cs P l c [A B]. destruct (cfold_frame P l c) as (Fd & _ & Fdd & _ & (_ & Fc)).
    split; [rewrite Fd, Fdd; exact A|]. intros x Hx. apply Fc, B. rewrite cfold_cstates in Hx.
    destruct (cm_cstates c x); [discriminate|contradiction].
  - intros Ds Ss Cs l c [A B]. destruct (crm_list_spec l c) as (Fd & _ & Fc & Fdd & Fcd & _). split.
    + intros x Hx. apply Fdd, A. rewrite Fd in Hx. destruct (memz x l); [contradiction|exact Hx].
    + intros x Hx. rewrite Fcd. apply B. rewrite Fc in Hx. destruct (cm_cstates c x); [discriminate|contradiction].
Qed.

(* ================================================================ the parent relation of a descriptor table *)
Section Graph.
  Definition par (D : H -> option descr) (x : H) : option H :=
    match D x with Some d => d_parent d | None => None end.

  Fixpoint greach (D : H -> option descr) (fuel : nat) (h root : H) : bool :=
    if Z.eqb h root then true else
    match fuel with
    | O => false
    | S f => match par D h with Some p => greach D f p root | None => false end
    end.

  (* h lies below root (or is root): reachability along parent handles, without fuel *)
  Inductive reachR (D : H -> option descr) : H -> H -> Prop :=
  | reach_refl h : reachR D h h
  | reach_step h p r : par D h = Some p -> reachR D p r -> reachR D h r.

  Lemma reaches_greach m n : forall h r, reaches m n h r = greach (descrs m) n h r.
  Proof.
    induction n as [|n IH]; intros h r; cbn [reaches greach]; [reflexivity|].
    unfold par. destruct (h =? r); [reflexivity|]. destruct (descrs m h) as [d|]; [|reflexivity].
    destruct (d_parent d); [apply IH|reflexivity].
  Qed.
  Lemma creaches_greach c n : forall h r, creaches c n h r = greach (cm_descrs c) n h r.
  Proof.
    induction n as [|n IH]; intros h r; cbn [creaches greach]; [reflexivity|].
    unfold par. destruct (h =? r); [reflexivity|]. destruct (cm_descrs c h) as [d|]; [|reflexivity].
    destruct (d_parent d); [apply IH|reflexivity].
  Qed.

  Lemma greach_ext D D' n : (forall x, D x = D' x) -> forall h r, greach D n h r = greach D' n h r.
  Proof.
    intros E. induction n as [|n IH]; intros h r; cbn [greach]; [reflexivity|].
    unfold par. rewrite E. destruct (h =? r); [reflexivity|]. destruct (D' h) as [d|]; [|reflexivity].
    destruct (d_parent d); [apply IH|reflexivity].
  Qed.

  Lemma greach_sound D n : forall h r, greach D n h r = true -> reachR D h r.
  Proof.
    induction n as [|n IH]; intros h r; cbn [greach].
    - destruct (Z.eqb_spec h r) as [->|]; [constructor|discriminate].
    - destruct (Z.eqb_spec h r) as [->|]; [constructor|].
      destruct (par D h) as [p|] eqn:E; [|discriminate]. intros G. eapply reach_step; [exact E|now apply IH].
  Qed.

  Lemma greach_S D n : forall h r, greach D n h r = true -> greach D (S n) h r = true.
  Proof.
    induction n as [|n IH]; intros h r; cbn [greach].
    - destruct (h =? r); [reflexivity|discriminate].
    - destruct (h =? r); [reflexivity|]. destruct (par D h) as [p|]; [|discriminate]. intros G.
      specialize (IH p r G). cbn [greach] in IH. exact IH.
  Qed.
  Lemma greach_mono D n n' h r : (n <= n')%nat -> greach D n h r = true -> greach D n' h r = true.
  Proof. induction 1 as [|n' Hle IH]; [easy|]. intros G. now apply greach_S, IH. Qed.

  Lemma reachR_trans D a b c : reachR D a b -> reachR D b c -> reachR D a c.
  Proof. induction 1 as [|h p r E _ IH]; [easy|]. intros G. eapply reach_step; [exact E|now apply IH]. Qed.

  (* parent chains are linear: two handles above the same handle are comparable *)
  Lemma reachR_linear D x a b : reachR D x a -> reachR D x b -> reachR D a b \/ reachR D b a.
  Proof.
    induction 1 as [h|h p r E Hr IH]; intros G; [now left|].
    inversion G as [|? p' ? E' Hr']; subst.
    - right. eapply reach_step; eassumption.
    - rewrite E in E'. injection E' as <-. now apply IH.
  Qed.

  (* a table that keeps the parent of everything that lies below r, and adds or re-parents only handles that
     are not below r to parents that are not below r, has the same handles below r *)
  Lemma reachR_stable D D' r :
    (forall x, par D' x = par D x \/
               (~ reachR D x r /\ forall p, par D' x = Some p -> ~ reachR D p r)) ->
    forall x, reachR D' x r <-> reachR D x r.
  Proof.
    intros Hs x. split.
    - induction 1 as [|h p r E Hr IH]; [constructor|].
      destruct (Hs h) as [Es|[_ Hn]].
      + eapply reach_step; [rewrite <- Es; exact E|exact (IH Hs)].
      + exfalso. exact (Hn p E (IH Hs)).
    - induction 1 as [|h p r E Hr IH]; [constructor|].
      destruct (Hs h) as [Es|[Hn _]].
      + eapply reach_step; [rewrite Es; exact E|exact (IH Hs)].
      + exfalso. apply Hn. eapply reach_step; eassumption.
  Qed.

  Lemma reachR_sub D D' : (forall x p, par D x = Some p -> par D' x = Some p) ->
    forall x r, reachR D x r -> reachR D' x r.
  Proof. intros Hs x r. induction 1 as [|h p r E _ IH]; [constructor|]. eapply reach_step; [apply Hs, E|exact IH]. Qed.

  (* --- the fuel [length dom] is enough when every descriptor is listed in dom --- *)
  Inductive pathR (D : H -> option descr) : list H -> H -> H -> Prop :=
  | path_nil h : pathR D [] h h
  | path_cons h p r l : par D h = Some p -> pathR D l p r -> pathR D (h :: l) h r.

  Lemma pathR_suffix D l1 : forall h l2 p r, pathR D (l1 ++ h :: l2) p r -> pathR D (h :: l2) h r.
  Proof.
    induction l1 as [|a l1 IH]; intros h l2 p r G; cbn [app] in G.
    - inversion G; subst. assumption.
    - inversion G as [|? p' ? ? E G']; subst. eapply IH. exact G'.
  Qed.

  Lemma nodup_app_r {A} (l1 l2 : list A) : NoDup (l1 ++ l2) -> NoDup l2.
  Proof. induction l1 as [|a l1 IH]; cbn [app]; [easy|]. intros G. inversion G; subst. now apply IH. Qed.

  Lemma reachR_path D h r : reachR D h r -> exists l, pathR D l h r /\ NoDup l.
  Proof.
    induction 1 as [h|h p r E _ (l & Hp & Hn)]; [exists []; split; constructor|].
    destruct (in_dec Z.eq_dec h l) as [Hi|Hi].
    - apply in_split in Hi. destruct Hi as (l1 & l2 & ->). exists (h :: l2). split.
      + eapply pathR_suffix. exact Hp.
      + now apply nodup_app_r in Hn.
    - exists (h :: l). split; [econstructor; eassumption|now constructor].
  Qed.

  Lemma pathR_dom D l h r : pathR D l h r -> forall x, In x l -> D x <> None.
  Proof.
    induction 1 as [|h p r l E _ IH]; intros x Hx; [contradiction|].
    destruct Hx as [<-|Hx]; [|now apply IH]. unfold par in E. destruct (D h); discriminate.
  Qed.

  Lemma pathR_greach D l h r : pathR D l h r -> greach D (length l) h r = true.
  Proof.
    induction 1 as [h|h p r l E _ IH]; cbn [length greach]; [now rewrite Z.eqb_refl|].
    destruct (h =? r); [reflexivity|]. rewrite E. exact IH.
  Qed.

  Lemma greach_complete D dom h r :
    (forall x, D x <> None -> In x dom) -> reachR D h r -> greach D (length dom) h r = true.
  Proof.
    intros Hd G. destruct (reachR_path D h r G) as (l & Hp & Hn).
    apply (greach_mono D (length l)); [|now apply pathR_greach].
    apply NoDup_incl_length; [exact Hn|]. intros x Hx. apply Hd. eapply pathR_dom; eassumption.
  Qed.
End Graph.

(* the subtree lists of both models, semantically *)
Lemma subtree_In m root x : (forall y, descrs m y <> None -> In y (ddom m)) ->
  In x (subtree m root) <-> descrs m x <> None /\ reachR (descrs m) x root.
Proof.
  intros Hd. unfold subtree. rewrite filter_In. destruct (descrs m x) as [d|] eqn:E; [|intuition congruence].
  rewrite reaches_greach. split.
  - intros [_ G]. split; [discriminate|now apply greach_sound in G].
  - intros [_ G]. split; [apply Hd; congruence|now apply greach_complete].
Qed.

Lemma csubtree_In_sem c root x : cdom_ok c ->
  In x (csubtree c root) <-> cm_descrs c x <> None /\ reachR (cm_descrs c) x root.
Proof.
  intros [Hd _]. rewrite csubtree_In, creaches_greach. split.
  - intros (_ & E & G). split; [exact E|now apply greach_sound in G].
  - intros [E G]. split; [now apply Hd|]. split; [exact E|now apply greach_complete].
Qed.

(* ================================================================ provider: table updates of a descriptor commit *)
Lemma alist_get_app {A} (l1 l2 : list (H * A)) y :
  alist_get (l1 ++ l2) y = match alist_get l1 y with Some v => Some v | None => alist_get l2 y end.
Proof.
  induction l1 as [|[k v] r IH]; cbn [app alist_get]; [reflexivity|]. destruct (y =? k); [reflexivity|apply IH].
Qed.

Lemma alist_get_none {A} (l : list (H * A)) y : alist_get l y = None <-> ~ In y (map fst l).
Proof.
  induction l as [|[k v] r IH]; cbn [alist_get map fst In]; [tauto|].
  destruct (Z.eqb_spec y k) as [->|Hne]; [split; [discriminate|intros G; exfalso; apply G; now left]|].
  rewrite IH. split; [intros G [E|E]; [congruence|contradiction]|tauto].
Qed.

Lemma alist_get_key {A} (l : list (H * A)) y v : alist_get l y = Some v -> In y (map fst l).
Proof. intros E. apply alist_get_some_in in E. now apply (in_map fst) in E. Qed.

Definition pfold (P : H -> cstate -> bool) (l : list H) (m : mdib) : mdib :=
  fold_left (fun m' ch => match cstates m' ch with
                          | Some c => if P ch c then put_cstate m' ch None else m'
                          | None => m'
                          end) l m.

Lemma pfold_cons P a l m :
  pfold P (a :: l) m = pfold P l (match cstates m a with
                                  | Some c => if P a c then put_cstate m a None else m
                                  | None => m end).
Proof. reflexivity. Qed.

Lemma pfold_frame P l : forall m,
  descrs (pfold P l m) = descrs m /\ states (pfold P l m) = states m /\ ddom (pfold P l m) = ddom m /\
  ver (pfold P l m) = ver m /\ (incl l (cdom m) -> cdom (pfold P l m) = cdom m).
Proof.
  induction l as [|a l IH]; intros m; [repeat split|]. rewrite pfold_cons.
  set (m1 := match cstates m a with Some c => if P a c then put_cstate m a None else m | None => m end).
  destruct (IH m1) as (A & B & C & D & E).
  assert (F : descrs m1 = descrs m /\ states m1 = states m /\ ddom m1 = ddom m /\ ver m1 = ver m /\
              (In a (cdom m) -> cdom m1 = cdom m)).
  { subst m1. destruct (cstates m a) as [c|]; [destruct (P a c)|]; cbn; repeat split.
    intros Hi. now apply add_dom_known. }
  destruct F as (A1 & B1 & C1 & D1 & E1).
  repeat split; try congruence. intros Hi.
  assert (Ha : In a (cdom m)) by (apply Hi; now left).
  rewrite E; [now apply E1|]. rewrite (E1 Ha). intros x Hx. apply Hi. now right.
Qed.

Lemma pfold_cstates P l : forall m ch,
  cstates (pfold P l m) ch =
  match cstates m ch with
  | Some s => if memz ch l && P ch s then None else Some s
  | None => None
  end.
Proof.
  induction l as [|a l IH]; intros m ch; [cbn; destruct (cstates m ch); reflexivity|].
  rewrite pfold_cons, IH, memz_cons.
  destruct (cstates m a) as [sa|] eqn:Ea.
  - destruct (P a sa) eqn:Pa.
    + rewrite put_cstate_cstates. destruct (Z.eqb_spec a ch) as [->|Hne].
      * rewrite Ea, Z.eqb_refl, Pa. reflexivity.
      * destruct (Z.eqb_spec ch a); [congruence|]. reflexivity.
    + destruct (Z.eqb_spec ch a) as [->|Hne]; [|reflexivity].
      rewrite Ea, Pa. rewrite andb_false_r. reflexivity.
  - destruct (Z.eqb_spec ch a) as [->|Hne]; [|reflexivity]. rewrite Ea. reflexivity.
Qed.

Lemma rm_one_spec m h :
  (forall x, descrs (rm_one m h) x = if Z.eqb h x then None else descrs m x) /\
  (forall x, states (rm_one m h) x = if Z.eqb h x then None else states m x) /\
  (forall ch, cstates (rm_one m h) ch =
              match cstates m ch with
              | Some s => if memz ch (cdom m) && Z.eqb (c_dh s) h then None else Some s
              | None => None
              end) /\
  ddom (rm_one m h) = add_dom h (ddom m) /\ cdom (rm_one m h) = cdom m /\ ver (rm_one m h) = ver m.
Proof.
  unfold rm_one.
  set (m1 := set_descr m h None).
  set (m2 := match states m1 h with
             | Some s => mkMdib (descrs m1) (upd (states m1) h None) (cstates m1) (ver m1) (sv_d m1)
                                (upd (sv_s m1) h (Some (s_ver s))) (sv_c m1) (ddom m1) (cdom m1)
             | None => m1 end).
  assert (F : (forall x, descrs m2 x = if Z.eqb h x then None else descrs m x) /\
              (forall x, states m2 x = if Z.eqb h x then None else states m x) /\
              cstates m2 = cstates m /\ ddom m2 = add_dom h (ddom m) /\ cdom m2 = cdom m /\ ver m2 = ver m).
  { subst m2. destruct (states m1 h) as [s|] eqn:E; subst m1; cbn in *.
    - repeat split.
    - repeat split. intros x. destruct (Z.eqb_spec h x) as [<-|]; [exact E|reflexivity]. }
  destruct F as (A & B & C & D & E & V).
  change (fold_left _ (cdom m2) m2) with (pfold (fun _ c => Z.eqb (c_dh c) h) (cdom m2) m2).
  destruct (pfold_frame (fun _ c => Z.eqb (c_dh c) h) (cdom m2) m2) as (A1 & B1 & C1 & D1 & E1).
  split; [intros x; rewrite A1; apply A|]. split; [intros x; rewrite B1; apply B|].
  split; [intros ch; rewrite pfold_cstates, C, E; reflexivity|].
  split; [congruence|]. split; [rewrite E1; [exact E|apply incl_refl]|congruence].
Qed.

Lemma rm_list_spec l : forall m,
  (forall x, descrs (fold_left rm_one l m) x = if memz x l then None else descrs m x) /\
  (forall x, states (fold_left rm_one l m) x = if memz x l then None else states m x) /\
  (forall ch, cstates (fold_left rm_one l m) ch =
              match cstates m ch with
              | Some s => if memz ch (cdom m) && memz (c_dh s) l then None else Some s
              | None => None
              end) /\
  incl (ddom m) (ddom (fold_left rm_one l m)) /\ cdom (fold_left rm_one l m) = cdom m.
Proof.
  induction l as [|a l IH]; intros m; cbn [fold_left].
  - repeat split; try apply incl_refl. intros ch. cbn. rewrite andb_false_r. destruct (cstates m ch); reflexivity.
  - destruct (rm_one_spec m a) as (A1 & B1 & C1 & D1 & E1 & _).
    destruct (IH (rm_one m a)) as (A & B & C & D & E).
    split; [|split; [|split; [|split]]].
    + intros x. rewrite A, A1, memz_cons. rewrite (Z.eqb_sym x a).
      destruct (memz x l), (a =? x); reflexivity.
    + intros x. rewrite B, B1, memz_cons. rewrite (Z.eqb_sym x a).
      destruct (memz x l), (a =? x); reflexivity.
    + intros ch. rewrite C, C1, E1.
      destruct (cstates m ch) as [s|]; [|reflexivity]. rewrite memz_cons.
      destruct (memz ch (cdom m)); cbn [andb]; [|reflexivity].
      destruct (c_dh s =? a); cbn [orb]; reflexivity.
    + eapply incl_tran; [|exact D]. rewrite D1. apply add_dom_incl.
    + congruence.
Qed.

(* _update_corresponding_state, pointwise on the transaction's item lists *)
Definition corr_cstate (dv : Z) (c : cstate) : cstate :=
  mkCState (c_dh c) dv (c_ver c + 1) (c_assoc c) (c_bind c) (c_unbind c) (c_pay c).
Definition corr_state (m : mdib) (ts : list (H * state)) (h : H) (dv : Z) : option state :=
  match alist_get ts h with
  | Some n => Some (mkState dv (s_ver n) (s_pay n))
  | None => match states m h with Some o => Some (mkState dv (s_ver o + 1) (s_pay o)) | None => None end
  end.

Definition ucs_step (m : mdib) (h : H) (dv : Z) (t' : tx) (ch : H) : tx :=
  match cstates m ch with
  | Some c =>
      if negb (Z.eqb (c_dh c) h) then t' else
      match alist_get (t_c t') ch with
      | Some (Some n) => mkTx (t_d t') (t_s t')
                              (alist_set (t_c t') ch (Some (mkCState (c_dh n) dv (c_ver n + 1) (c_assoc n) (c_bind n) (c_unbind n) (c_pay n))))
      | Some None => t'
      | None => mkTx (t_d t') (t_s t')
                     (alist_set (t_c t') ch (Some (mkCState (c_dh c) dv (c_ver c + 1) (c_assoc c) (c_bind c) (c_unbind c) (c_pay c))))
      end
  | None => t'
  end.

Lemma ucs_ctx_fold m h dv l : forall t, NoDup l -> NoDup (map fst (t_c t)) ->
  (forall ch c, In ch l -> cstates m ch = Some c -> c_dh c = h -> alist_get (t_c t) ch = None) ->
  let t' := fold_left (ucs_step m h dv) l t in
  t_d t' = t_d t /\ t_s t' = t_s t /\ NoDup (map fst (t_c t')) /\
  forall ch, alist_get (t_c t') ch =
             match cstates m ch with
             | Some c => if memz ch l && Z.eqb (c_dh c) h then Some (Some (corr_cstate dv c)) else alist_get (t_c t) ch
             | None => alist_get (t_c t) ch
             end.
Proof.
  induction l as [|a l IH]; intros t Hl Hn Hf; cbn [fold_left].
  - repeat split; try assumption. intros ch. cbn. destruct (cstates m ch); reflexivity.
  - inversion Hl as [|? ? Ha Hl']; subst.
    set (t1 := ucs_step m h dv t a).
    assert (F : t_d t1 = t_d t /\ t_s t1 = t_s t /\ NoDup (map fst (t_c t1)) /\
                forall ch, alist_get (t_c t1) ch =
                  match cstates m a with
                  | Some c => if Z.eqb ch a && Z.eqb (c_dh c) h then Some (Some (corr_cstate dv c)) else alist_get (t_c t) ch
                  | None => alist_get (t_c t) ch end).
    { subst t1. unfold ucs_step. destruct (cstates m a) as [c|] eqn:Ea; [|repeat split; assumption].
      destruct (Z.eqb_spec (c_dh c) h) as [Eh|Hne]; cbn [negb].
      - rewrite (Hf a c (or_introl eq_refl) Ea Eh). cbn [t_d t_s t_c].
        split; [reflexivity|]. split; [reflexivity|]. split; [now apply alist_set_keys|].
        intros ch. rewrite alist_get_set. rewrite andb_true_r. reflexivity.
      - repeat split; try assumption. intros ch. now rewrite andb_false_r. }
    destruct F as (F1 & F2 & F3 & F4).
    destruct (IH t1 Hl' F3) as (I1 & I2 & I3 & I4).
    { intros ch c Hi Ec Eh. rewrite F4. destruct (cstates m a) as [ca|]; [|apply (Hf ch c); auto; now right].
      destruct (Z.eqb_spec ch a) as [->|]; [contradiction|]. cbn [andb]. apply (Hf ch c); auto. now right. }
    cbv zeta. split; [congruence|]. split; [congruence|]. split; [exact I3|].
    intros ch. rewrite I4, F4, memz_cons.
    destruct (cstates m ch) as [c|] eqn:Ec.
    + destruct (Z.eqb_spec ch a) as [->|Hne].
      * rewrite Ec. cbn [orb andb]. destruct (c_dh c =? h) eqn:Eh.
        -- destruct (memz a l); reflexivity.
        -- rewrite andb_false_r. reflexivity.
      * cbn [orb]. destruct (memz ch l && (c_dh c =? h)); [reflexivity|].
        destruct (cstates m a); reflexivity.
    + destruct (cstates m a) as [ca|] eqn:Eca; [|reflexivity].
      destruct (Z.eqb_spec ch a) as [->|Hne]; [congruence|reflexivity].
Qed.

Lemma ucs_spec m t h dv k :
  NoDup (cdom m) -> NoDup (map fst (t_s t)) -> NoDup (map fst (t_c t)) ->
  (forall ch c, cstates m ch = Some c -> c_dh c = h -> alist_get (t_c t) ch = None) ->
  let t' := upd_corr_state m t h dv k in
  t_d t' = t_d t /\ NoDup (map fst (t_s t')) /\ NoDup (map fst (t_c t')) /\
  (forall y, alist_get (t_s t') y =
             if negb (Z.eqb k K_CTX) && Z.eqb y h then corr_state m (t_s t) h dv else alist_get (t_s t) y) /\
  (forall ch, alist_get (t_c t') ch =
              match cstates m ch with
              | Some c => if Z.eqb k K_CTX && memz ch (cdom m) && Z.eqb (c_dh c) h
                          then Some (Some (corr_cstate dv c)) else alist_get (t_c t) ch
              | None => alist_get (t_c t) ch
              end).
Proof.
  intros Hcd Hs Hc Hf. cbv zeta. unfold upd_corr_state. destruct (k =? K_CTX) eqn:K; cbn [negb andb].
  - change (fold_left _ (cdom m) t) with (fold_left (ucs_step m h dv) (cdom m) t).
    destruct (ucs_ctx_fold m h dv (cdom m) t Hcd Hc) as (A & B & C & D); [intros; eapply Hf; eassumption|].
    cbv zeta in *. split; [exact A|]. split; [now rewrite B|]. split; [exact C|]. split; [now rewrite B|exact D].
  - unfold corr_state.
    assert (G : forall s0, let t' := mkTx (t_d t) (alist_set (t_s t) h s0) (t_c t) in
                t_d t' = t_d t /\ NoDup (map fst (t_s t')) /\ NoDup (map fst (t_c t')) /\
                (forall y, alist_get (t_s t') y = if y =? h then Some s0 else alist_get (t_s t) y) /\
                (forall ch, alist_get (t_c t') ch = alist_get (t_c t) ch)).
    { intros s0. cbn. repeat split; try assumption; [now apply alist_set_keys|]. intros y. apply alist_get_set. }
    assert (Gc : forall ch, alist_get (t_c t) ch =
                   match cstates m ch with Some _ => alist_get (t_c t) ch | None => alist_get (t_c t) ch end).
    { intros ch. destruct (cstates m ch); reflexivity. }
    destruct (alist_get (t_s t) h) as [n|] eqn:En.
    + destruct (G (mkState dv (s_ver n) (s_pay n))) as (A & B & C & D & E). cbv zeta in *.
      split; [exact A|]. split; [exact B|]. split; [exact C|]. split; [exact D|].
      intros ch. rewrite E. apply Gc.
    + destruct (states m h) as [o|].
      * destruct (G (mkState dv (s_ver o + 1) (s_pay o))) as (A & B & C & D & E). cbv zeta in *.
        split; [exact A|]. split; [exact B|]. split; [exact C|]. split; [exact D|].
        intros ch. rewrite E. apply Gc.
      * split; [reflexivity|]. split; [exact Hs|]. split; [exact Hc|]. split; [|exact Gc].
        intros y. destruct (Z.eqb_spec y h) as [->|]; [exact En|reflexivity].
Qed.

(* ================================================================ the report of a descriptor transaction *)
(* DescriptorTransaction.process_transaction collects, while it walks over descriptor_updates, the lists
   descr_updated / descr_created / descr_deleted of its TransactionResult (transactions.py); SdcProvider.
   _send_episodic_reports hands them with all_states() to DescriptionEventService.send_descriptor_updates, which
   emits one report part per descriptor - updated first, then created, then deleted - each with the states whose
   DescriptorHandle is that descriptor's handle (descriptioneventserviceimpl.py).  Mdib/Model.v's process_item
   does not keep these lists, so they are recomputed here next to it. *)
Definition bump_d (o : descr) : descr := mkDescr (d_parent o) (d_kind o) (d_ver o + 1) (d_pay o).

Definition rlists := (list (H * descr) * list (H * descr) * list (H * descr))%type.   (* updated, created, deleted *)

(* _increment_parent_descriptor_version appends the incremented parent (if it exists and was not skipped) *)
Definition parent_upd (m1 : mdib) (skip : bool) (p : H) : list (H * descr) :=
  if skip then [] else match descrs m1 p with Some o => [(p, bump_d o)] | None => [] end.

Definition descrs_of (m : mdib) (l : list H) : list (H * descr) :=
  flat_map (fun x => match descrs m x with Some dx => [(x, dx)] | None => [] end) l.

Definition item_lists (cr up de : list H) (m : mdib) (bumped : list H) (e : H * option descr) : rlists :=
  let h := fst e in
  match snd e, descrs m h with
  | Some d, None =>
      (match d_parent d with
       | Some p => parent_upd (set_descr m h (Some d)) (memz p cr || memz p up || memz p bumped) p
       | None => []
       end, [(h, d)], [])
  | None, Some o =>
      (match d_parent o with
       | Some p => parent_upd (fold_left rm_one (subtree m h) m) (memz p de || memz p up || memz p bumped) p
       | None => []
       end, [], descrs_of m (subtree m h))
  | Some d, Some _ => ([(h, d)], [], [])
  | None, None => ([], [], [])
  end.

Definition pstate := (mdib * tx * list H * rlists)%type.

Definition process_item_r (cr up de : list H) (acc : pstate) (e : H * option descr) : pstate :=
  let mtb := fst acc in
  let il := item_lists cr up de (fst (fst mtb)) (snd mtb) e in
  (process_item cr up de mtb e,
   (fst (fst (snd acc)) ++ fst (fst il), snd (fst (snd acc)) ++ snd (fst il), snd (snd acc) ++ snd il)).

Definition tx_run (m : mdib) (t : tx) : pstate :=
  let cr := map fst (filter (is_create m) (t_d t)) in
  let up := map fst (filter (is_update m) (t_d t)) in
  let de := removed_handles m t in
  fold_left (process_item_r cr up de) (t_d t) (bump_ver m, t, [], ([], [], [])).

(* TransactionResult.descr_updated / descr_created / descr_deleted of the committed transaction *)
Definition tx_updated (m : mdib) (t : tx) : list (H * descr) := fst (fst (snd (tx_run m t))).
Definition tx_created (m : mdib) (t : tx) : list (H * descr) := snd (fst (snd (tx_run m t))).
Definition tx_deleted (m : mdib) (t : tx) : list (H * descr) := snd (snd (tx_run m t)).

Lemma fold_process_item_r cr up de l : forall acc,
  fst (fold_left (process_item_r cr up de) l acc) = fold_left (process_item cr up de) l (fst acc).
Proof. induction l as [|e l IH]; intros acc; cbn [fold_left]; [reflexivity|]. rewrite IH. reflexivity. Qed.

Lemma commit_descr_run m t : t_d t <> [] ->
  commit_descr m t = handle_state_updates (fst (fst (fst (tx_run m t)))) (snd (fst (fst (tx_run m t)))).
Proof.
  intros Hne. unfold commit_descr, tx_run. destruct (t_d t) as [|e0 l0] eqn:E; [contradiction|].
  rewrite fold_process_item_r. cbn [fst].
  match goal with |- context [fold_left ?f ?l ?a] => destruct (fold_left f l a) as [[m1 t1] b1] end. reflexivity.
Qed.

(* one report part per descriptor, with the states that belong to it *)
Definition part_for (t1 : tx) (modi : Z) (e : H * descr) : dpart :=
  mkDPart modi [e] (filter (fun x => Z.eqb (fst x) (fst e)) (t_s t1))
          (filter (fun x => Z.eqb (c_dh (snd x)) (fst e)) (ctx_report_items t1)).

Definition descr_report (m : mdib) (t : tx) (seq inst : Z) : report :=
  let st := tx_run m t in
  let t1 := snd (fst (fst st)) in
  let U := fst (fst (snd st)) in let C := snd (fst (snd st)) in let D := snd (snd st) in
  RDescr (mkVg (ver m + 1) seq inst) (map (part_for t1 1) U ++ map (part_for t1 0) C ++ map (part_for t1 2) D).

(* ================================================================ well-formedness *)
(* provider MDIB: the lookups can enumerate what they hold; no state without descriptor, no context state
   without descriptor *)
Record pm_ok (m : mdib) : Prop := {
  pm_dd : forall h, descrs m h <> None -> In h (ddom m);
  pm_cd : forall h, cstates m h <> None -> In h (cdom m);
  pm_nd : NoDup (cdom m);
  pm_st : forall h, states m h <> None -> descrs m h <> None;
  pm_cs : forall ch c, cstates m ch = Some c -> descrs m (c_dh c) <> None
}.

(* x does not lie in a subtree that the transaction deletes *)
Definition undel (m : mdib) (t : tx) (x : H) : Prop :=
  forall r, In (r, None) (t_d t) -> ~ reachR (descrs m) x r.

Record dtx_ok (m : mdib) (t : tx) : Prop := {
  (* shape: what the API calls of a descriptor transaction build (see body_dshape) *)
  dx_c : t_c t = [];
  dx_nd : NoDup (map fst (t_d t));
  dx_ns : NoDup (map fst (t_s t));
  dx_st : forall h s, In (h, s) (t_s t) ->
            (exists d, In (h, Some d) (t_d t)) /\ (descrs m h <> None -> states m h <> None);
  dx_del : forall r, In (r, None) (t_d t) -> descrs m r <> None;
  dx_upd : forall h d o, In (h, Some d) (t_d t) -> descrs m h = Some o ->
             d_parent d = d_parent o /\ d_kind d = d_kind o;
  (* the check process_transaction makes before it changes anything: nothing is created or updated inside a
     subtree that the transaction removes *)
  dx_nc : subtree_conflict m t = false;
  (* residue: the parent handle of a removed descriptor is not a descriptor that this transaction creates
     (it follows when every parent handle of the MDIB refers to an existing descriptor, see tree_ok) *)
  dx_par : forall r o p, In (r, None) (t_d t) -> descrs m r = Some o -> d_parent o = Some p ->
             memz p (map fst (filter (is_create m) (t_d t))) = false
}.

Definition cr_of (m : mdib) (t : tx) : list H := map fst (filter (is_create m) (t_d t)).
Definition up_of (m : mdib) (t : tx) : list H := map fst (filter (is_update m) (t_d t)).
Definition de_of (m : mdib) (t : tx) : list H := removed_handles m t.

Lemma cr_of_spec m t h : memz h (cr_of m t) = true <-> exists d, In (h, Some d) (t_d t) /\ descrs m h = None.
Proof.
  rewrite memz_In. unfold cr_of. rewrite in_map_iff. split.
  - intros ([h' x] & <- & Hi). apply filter_In in Hi. destruct Hi as [Hi Hc]. unfold is_create in Hc. cbn [fst snd] in *.
    destruct x as [d|]; [|discriminate]. destruct (descrs m h') eqn:E; [discriminate|]. now exists d.
  - intros (d & Hi & E). exists (h, Some d). split; [reflexivity|]. apply filter_In. split; [exact Hi|].
    unfold is_create. cbn [fst snd]. now rewrite E.
Qed.
Lemma up_of_spec m t h : memz h (up_of m t) = true <-> exists d, In (h, Some d) (t_d t) /\ descrs m h <> None.
Proof.
  rewrite memz_In. unfold up_of. rewrite in_map_iff. split.
  - intros ([h' x] & <- & Hi). apply filter_In in Hi. destruct Hi as [Hi Hc]. unfold is_update in Hc. cbn [fst snd] in *.
    destruct x as [d|]; [|discriminate]. destruct (descrs m h') eqn:E; [|discriminate]. exists d. split; [exact Hi|discriminate].
  - intros (d & Hi & E). exists (h, Some d). split; [reflexivity|]. apply filter_In. split; [exact Hi|].
    unfold is_update. cbn [fst snd]. destruct (descrs m h); [reflexivity|contradiction].
Qed.
Lemma de_of_spec m t y : (forall x, descrs m x <> None -> In x (ddom m)) ->
  memz y (de_of m t) = true <->
  descrs m y <> None /\ exists r, In (r, None) (t_d t) /\ descrs m r <> None /\ reachR (descrs m) y r.
Proof.
  intros Hd. rewrite memz_In. unfold de_of, removed_handles. rewrite in_flat_map. split.
  - intros ([r x] & Hi & Hy). unfold is_delete in Hy. cbn [fst snd] in Hy.
    destruct x as [d|]; [contradiction|]. destruct (descrs m r) eqn:Er; [|contradiction].
    apply (subtree_In m r y Hd) in Hy. destruct Hy as [Ey G]. split; [exact Ey|]. exists r. repeat split; [exact Hi|congruence|exact G].
  - intros (Ey & r & Hi & Er & G). exists (r, None). split; [exact Hi|]. unfold is_delete. cbn [fst snd].
    destruct (descrs m r); [|contradiction]. apply (subtree_In m r y Hd). now split.
Qed.

Lemma existsb_false {A} (f : A -> bool) l : existsb f l = false -> forall x, In x l -> f x = false.
Proof.
  intros E x Hx. destruct (f x) eqn:Ef; [|reflexivity].
  assert (G : existsb f l = true) by (apply existsb_exists; now exists x). congruence.
Qed.

Lemma memz_app h l1 l2 : memz h (l1 ++ l2) = memz h l1 || memz h l2.
Proof. unfold memz. apply existsb_app. Qed.

Lemma descrs_of_keys m l : (forall x, In x l -> descrs m x <> None) -> map fst (descrs_of m l) = l.
Proof.
  unfold descrs_of. induction l as [|a l IH]; intros Hx; cbn [flat_map map]; [reflexivity|].
  rewrite map_app, IH by (intros x Hi; apply Hx; now right).
  destruct (descrs m a) eqn:E; [reflexivity|]. exfalso. apply (Hx a); [now left|exact E].
Qed.

Lemma nodup_mid {A} (pre post : list (H * A)) e : NoDup (map fst (pre ++ e :: post)) -> ~ In (fst e) (map fst pre).
Proof.
  rewrite map_app. cbn [map]. intros Hn Hi. apply NoDup_remove_2 in Hn. apply Hn. apply in_or_app. now left.
Qed.

(* every parent handle of the MDIB refers to an existing descriptor *)
Definition tree_ok (m : mdib) : Prop :=
  forall h d p, descrs m h = Some d -> d_parent d = Some p -> descrs m p <> None.

(* no orphan is created: the parent of a created descriptor exists or is given by the same transaction *)
Definition dpar_ok (m : mdib) (t : tx) : Prop :=
  forall h d p, In (h, Some d) (t_d t) -> descrs m h = None -> d_parent d = Some p ->
                descrs m p <> None \/ exists d', In (p, Some d') (t_d t).

Lemma reach_transfer D D' r :
  (forall x p, par D' x = Some p -> par D x = Some p \/ ~ reachR D p r) ->
  forall y, reachR D' y r -> reachR D y r.
Proof.
  intros Hs y G. induction G as [|h p r E _ IH]; [constructor|].
  destruct (Hs h p E) as [E'|Hn]; [eapply reach_step; [exact E'|exact (IH Hs)]|exfalso; exact (Hn (IH Hs))].
Qed.

Lemma reach_forward D D' (S : H -> Prop) r :
  (forall h p, par D h = Some p -> ~ S h -> par D' h = Some p /\ ~ S p) ->
  forall y, reachR D y r -> ~ S y -> reachR D' y r.
Proof.
  intros Hs y G. induction G as [|h p r E _ IH]; intros Hn; [constructor|].
  destruct (Hs h p E Hn) as [E' Hp]. eapply reach_step; [exact E'|exact (IH Hp)].
Qed.

Section DescrCommit.
  Variables (m : mdib) (t : tx).
  Hypothesis Hm : pm_ok m.
  Hypothesis Ht : dtx_ok m t.

  Definition ovl (T D : H -> option descr) (y : H) : option descr := match T y with Some d => Some d | None => D y end.
  Definition corr_s (T : H -> option descr) (y : H) : option state :=
    match T y with
    | Some d => if Z.eqb (d_kind d) K_CTX then alist_get (t_s t) y else corr_state m (t_s t) y (d_ver d)
    | None => alist_get (t_s t) y
    end.
  Definition corr_c (T : H -> option descr) (ch : H) : option (option cstate) :=
    match cstates m ch with
    | Some c => match T (c_dh c) with
                | Some d => if Z.eqb (d_kind d) K_CTX then Some (Some (corr_cstate (d_ver d) c)) else None
                | None => None
                end
    | None => None
    end.
  Definition tset (T : H -> option descr) (k : H) (d : descr) : H -> option descr :=
    fun y => if Z.eqb y k then Some d else T y.

  Record minv (T : H -> option descr) (Dh : list H) (mi : mdib) : Prop := {
    mi_d : forall y, descrs mi y = if memz y Dh then None else ovl T (descrs m) y;
    mi_s : forall y, states mi y = if memz y Dh then None else states m y;
    mi_c : forall ch, cstates mi ch = match cstates m ch with
                                      | Some c => if memz (c_dh c) Dh then None else Some c
                                      | None => None end;
    mi_cdom : cdom mi = cdom m;
    mi_ddom : forall y, descrs mi y <> None -> In y (ddom mi);
    mi_ver : ver mi = ver m + 1
  }.

  Record tinv (T : H -> option descr) (ti : tx) : Prop := {
    ti_d : t_d ti = t_d t;
    ti_s : forall y, alist_get (t_s ti) y = corr_s T y;
    ti_sn : NoDup (map fst (t_s ti));
    ti_c : forall ch, alist_get (t_c ti) ch = corr_c T ch;
    ti_cn : NoDup (map fst (t_c ti))
  }.

  Lemma minv_ext T T' Dh mi : (forall y, T y = T' y) -> minv T Dh mi -> minv T' Dh mi.
  Proof.
    intros E [A B C D F G]. constructor; try assumption. intros y. rewrite A. unfold ovl. now rewrite E.
  Qed.
  Lemma tinv_ext T T' ti : (forall y, T y = T' y) -> tinv T ti -> tinv T' ti.
  Proof.
    intros E [A B C D F]. constructor; try assumption.
    - intros y. rewrite B. unfold corr_s. now rewrite E.
    - intros ch. rewrite D. unfold corr_c. destruct (cstates m ch); [now rewrite E|reflexivity].
  Qed.

  Lemma minv_set T Dh mi k d : minv T Dh mi -> memz k Dh = false -> minv (tset T k d) Dh (set_descr mi k (Some d)).
  Proof.
    intros [A B C D F G] Hk. constructor; cbn [set_descr descrs states cstates cdom ddom ver]; try assumption.
    - intros y. unfold upd, ovl, tset. rewrite (Z.eqb_sym y k). destruct (Z.eqb_spec k y) as [<-|Hne].
      + now rewrite Hk.
      + rewrite A. reflexivity.
    - intros y Hy. apply add_dom_In. unfold upd in Hy. destruct (Z.eqb_spec k y) as [E|Hne]; [now left|right; now apply F].
  Qed.

  Lemma mi_c_some T Dh mi ch c : minv T Dh mi -> cstates mi ch = Some c ->
    cstates m ch = Some c /\ memz (c_dh c) Dh = false.
  Proof.
    intros Hi E. rewrite (mi_c _ _ _ Hi) in E. destruct (cstates m ch) as [c0|]; [|discriminate].
    destruct (memz (c_dh c0) Dh) eqn:Em; [discriminate|]. injection E as <-. now split.
  Qed.

  Lemma minv_rm T Dh mi l : minv T Dh mi -> minv T (Dh ++ l) (fold_left rm_one l mi).
  Proof.
    intros Hi. destruct (rm_list_spec l mi) as (A & B & C & D & E). destruct Hi as [A0 B0 C0 D0 F0 G0].
    constructor.
    - intros y. rewrite A, A0, memz_app. destruct (memz y Dh), (memz y l); reflexivity.
    - intros y. rewrite B, B0, memz_app. destruct (memz y Dh), (memz y l); reflexivity.
    - intros ch. rewrite C, C0. destruct (cstates m ch) as [c|] eqn:E0; [|reflexivity].
      rewrite memz_app. destruct (memz (c_dh c) Dh); [reflexivity|]. cbn [orb].
      assert (Hin : memz ch (cdom mi) = true).
      { rewrite D0. apply memz_In. apply (pm_cd _ Hm). congruence. }
      rewrite Hin. reflexivity.
    - congruence.
    - intros y Hy. apply D, F0. rewrite A in Hy. destruct (memz y l); [contradiction|exact Hy].
    - rewrite fold_rm_one_ver. exact G0.
  Qed.

  Lemma tinv_ucs T T0 Dh mi ti k d :
    minv T0 Dh mi -> tinv T ti -> T k = None -> memz k Dh = false ->
    tinv (tset T k d) (upd_corr_state mi ti k (d_ver d) (d_kind d)).
  Proof.
    intros Hi [A B C D F] HT Hk.
    destruct (ucs_spec mi ti k (d_ver d) (d_kind d)) as (U1 & U2 & U3 & U4 & U5); try assumption.
    { rewrite (mi_cdom _ _ _ Hi). apply (pm_nd _ Hm). }
    { intros ch c Ec Eh. destruct (mi_c_some _ _ _ _ _ Hi Ec) as [E0 _].
      rewrite D. unfold corr_c. rewrite E0, Eh, HT. reflexivity. }
    cbv zeta in *. constructor; try assumption.
    - congruence.
    - intros y. rewrite U4. unfold corr_s, tset. destruct (Z.eqb_spec y k) as [->|Hne].
      + rewrite andb_true_r. destruct (d_kind d =? K_CTX); cbn [negb].
        * rewrite B. unfold corr_s. now rewrite HT.
        * unfold corr_state. rewrite B. unfold corr_s. rewrite HT.
          rewrite (mi_s _ _ _ Hi), Hk. reflexivity.
      + rewrite andb_false_r. rewrite B. reflexivity.
    - intros ch. rewrite U5. unfold corr_c, tset. rewrite (mi_c _ _ _ Hi).
      destruct (cstates m ch) as [c0|] eqn:E0.
      + destruct (Z.eqb_spec (c_dh c0) k) as [Ek|Nk].
        * rewrite Ek, Hk.
          assert (Hin : memz ch (cdom mi) = true).
          { rewrite (mi_cdom _ _ _ Hi). apply memz_In. apply (pm_cd _ Hm). congruence. }
          rewrite Hin, Ek, Z.eqb_refl, andb_true_r, andb_true_r.
          destruct (d_kind d =? K_CTX); [reflexivity|].
          rewrite D. unfold corr_c. rewrite E0, Ek, HT. reflexivity.
        * destruct (memz (c_dh c0) Dh).
          -- rewrite D. unfold corr_c. rewrite E0. reflexivity.
          -- destruct (Z.eqb_spec (c_dh c0) k); [contradiction|]. rewrite andb_false_r.
             rewrite D. unfold corr_c. rewrite E0. reflexivity.
      + rewrite D. unfold corr_c. rewrite E0. reflexivity.
  Qed.

  (* ---------------------------------------------------------------- the lists collected so far *)
  Notation cr := (cr_of m t).
  Notation up := (up_of m t).
  Notation de := (de_of m t).

  Record binv (pre : list (H * option descr)) (b : list H) (U C D : list (H * descr)) : Prop := {
    bi_b : b = rev (map fst U);
    bi_nd : NoDup (map fst (U ++ C));
    bi_U : forall h d, In (h, d) U ->
             (exists o, descrs m h = Some o /\ d_parent d = d_parent o /\ d_kind d = d_kind o) /\ undel m t h /\
             (In (h, Some d) pre \/ (memz h cr = false /\ memz h up = false));
    bi_C : forall h d, In (h, d) C -> In (h, Some d) pre /\ descrs m h = None;
    bi_Cc : forall h d, In (h, Some d) pre -> descrs m h = None -> In (h, d) C;
    bi_Uc : forall h d, In (h, Some d) pre -> descrs m h <> None -> In (h, d) U;
    bi_D : forall y, In y (map fst D) <-> descrs m y <> None /\ exists r, In (r, None) pre /\ reachR (descrs m) y r
  }.

  Lemma get_ins_U (U C : list (H * descr)) k d : ~ In k (map fst (U ++ C)) ->
    forall y, alist_get ((U ++ [(k, d)]) ++ C) y = tset (alist_get (U ++ C)) k d y.
  Proof.
    intros Hk y. unfold tset. rewrite !alist_get_app. cbn [alist_get].
    destruct (Z.eqb_spec y k) as [->|Hne].
    - assert (E : alist_get U k = None).
      { apply alist_get_none. intros Hi. apply Hk. rewrite map_app. apply in_or_app. now left. }
      now rewrite E.
    - destruct (alist_get U y); reflexivity.
  Qed.
  Lemma get_ins_C (U C : list (H * descr)) k d : ~ In k (map fst (U ++ C)) ->
    forall y, alist_get (U ++ (C ++ [(k, d)])) y = tset (alist_get (U ++ C)) k d y.
  Proof.
    intros Hk y. unfold tset. rewrite !alist_get_app. cbn [alist_get].
    destruct (Z.eqb_spec y k) as [->|Hne].
    - assert (E : alist_get U k = None).
      { apply alist_get_none. intros Hi. apply Hk. rewrite map_app. apply in_or_app. now left. }
      assert (E2 : alist_get C k = None).
      { apply alist_get_none. intros Hi. apply Hk. rewrite map_app. apply in_or_app. now right. }
      now rewrite E, E2.
    - destruct (alist_get U y); [reflexivity|]. destruct (alist_get C y); reflexivity.
  Qed.
  Lemma nodup_ins_U (U C : list (H * descr)) k d : ~ In k (map fst (U ++ C)) -> NoDup (map fst (U ++ C)) ->
    NoDup (map fst ((U ++ [(k, d)]) ++ C)).
  Proof.
    intros Hk Hn. rewrite !map_app in *. cbn [map fst]. rewrite <- app_assoc. cbn [app].
    eapply Permutation_NoDup; [apply Permutation_middle|]. now constructor.
  Qed.
  Lemma nodup_ins_C (U C : list (H * descr)) k d : ~ In k (map fst (U ++ C)) -> NoDup (map fst (U ++ C)) ->
    NoDup (map fst (U ++ (C ++ [(k, d)]))).
  Proof.
    intros Hk Hn. rewrite app_assoc, map_app. cbn [map fst].
    eapply Permutation_NoDup; [apply Permutation_cons_append|]. now constructor.
  Qed.

  Lemma root_exists r : In (r, None) (t_d t) -> exists o, descrs m r = Some o.
  Proof. intros Hr. pose proof (dx_del _ _ Ht r Hr) as E. destruct (descrs m r) as [o|]; [now exists o|contradiction]. Qed.

  Lemma new_not_below r y : In (r, None) (t_d t) -> descrs m y = None -> ~ reachR (descrs m) y r.
  Proof.
    intros Hr En G. inversion G as [|? p ? E G']; subst.
    - destruct (root_exists r Hr) as (o & Eo). congruence.
    - unfold par in E. rewrite En in E. discriminate.
  Qed.

  (* a handle that exists and is not removed by the transaction is not below anything it removes *)
  Lemma kept_undel x : descrs m x <> None -> memz x de = false -> undel m t x.
  Proof.
    intros Ex En r Hr G. assert (E : memz x de = true).
    { apply de_of_spec; [apply (pm_dd _ Hm)|]. split; [exact Ex|]. exists r. split; [exact Hr|]. split; [|exact G].
      now apply (dx_del _ _ Ht). }
    congruence.
  Qed.

  (* what the conflict check of process_transaction gives *)
  Lemma nc_upd h d : In (h, Some d) (t_d t) -> descrs m h <> None -> undel m t h.
  Proof.
    intros Hin Ex. apply kept_undel; [exact Ex|].
    pose proof (existsb_false _ _ (dx_nc _ _ Ht) (h, Some d) Hin) as E. cbn [fst snd] in E.
    apply orb_false_elim in E. apply E.
  Qed.

  Lemma nc_par h d p : In (h, Some d) (t_d t) -> d_parent d = Some p -> undel m t p.
  Proof.
    intros Hin Ep. destruct (descrs m p) eqn:Ex.
    - apply kept_undel; [congruence|].
      pose proof (existsb_false _ _ (dx_nc _ _ Ht) (h, Some d) Hin) as E. cbn [fst snd] in E.
      apply orb_false_elim in E. destruct E as [_ E]. now rewrite Ep in E.
    - intros r Hr. now apply new_not_below.
  Qed.

  Section AtRoot.
    Variables (pre : list (H * option descr)) (b : list H) (U C D : list (H * descr)) (mi : mdib) (r : H).
    Hypothesis Hb : binv pre b U C D.
    Hypothesis Hi : minv (alist_get (U ++ C)) (map fst D) mi.
    Hypothesis Hinc : incl pre (t_d t).
    Hypothesis Hr : In (r, None) (t_d t).

    (* what has been removed so far is closed under "child of" *)
    Lemma Dh_closed h p : par (descrs m) h = Some p -> In p (map fst D) -> In h (map fst D).
    Proof.
      intros E Hp. apply (bi_D _ _ _ _ _ Hb) in Hp. destruct Hp as (Ep & r' & Hr' & G).
      apply (bi_D _ _ _ _ _ Hb). split; [unfold par in E; destruct (descrs m h); discriminate|].
      exists r'. split; [exact Hr'|]. eapply reach_step; eassumption.
    Qed.

    Lemma mi_par_back x p : par (descrs mi) x = Some p -> par (descrs m) x = Some p \/ ~ reachR (descrs m) p r.
    Proof.
      unfold par at 1. rewrite (mi_d _ _ _ Hi). destruct (memz x (map fst D)); [discriminate|]. unfold ovl.
      destruct (alist_get (U ++ C) x) as [d|] eqn:EL; [|intros E; now left].
      apply alist_get_some_in in EL. apply in_app_or in EL. destruct EL as [HU|HC]; intros Ep.
      - destruct (bi_U _ _ _ _ _ Hb _ _ HU) as ((o & Eo & Ep' & _) & _). left. unfold par. rewrite Eo. congruence.
      - destruct (bi_C _ _ _ _ _ Hb _ _ HC) as [Hpre _]. right. exact (nc_par x d p (Hinc _ Hpre) Ep r Hr).
    Qed.

    Lemma mi_par_fwd h p : par (descrs m) h = Some p -> ~ In h (map fst D) ->
      par (descrs mi) h = Some p /\ ~ In p (map fst D).
    Proof.
      intros E Hn. split; [|intros Hp; apply Hn; eapply Dh_closed; eassumption].
      unfold par. rewrite (mi_d _ _ _ Hi). apply memz_false in Hn. rewrite Hn. unfold ovl.
      destruct (alist_get (U ++ C) h) as [d|] eqn:EL; [|exact E].
      apply alist_get_some_in in EL. apply in_app_or in EL. destruct EL as [HU|HC].
      - destruct (bi_U _ _ _ _ _ Hb _ _ HU) as ((o & Eo & Ep' & _) & _). unfold par in E. rewrite Eo in E. congruence.
      - destruct (bi_C _ _ _ _ _ Hb _ _ HC) as [_ En]. unfold par in E. rewrite En in E. discriminate.
    Qed.

    (* the subtree found at the time of the removal: what lies below r in the MDIB before the commit, minus what
       went already with an earlier removal *)
    Lemma sub_exact y :
      In y (subtree mi r) <-> descrs m y <> None /\ reachR (descrs m) y r /\ ~ In y (map fst D).
    Proof.
      rewrite subtree_In by (apply (mi_ddom _ _ _ Hi)). split.
      - intros [Ey G]. apply (reach_transfer (descrs m) (descrs mi) r mi_par_back) in G.
        rewrite (mi_d _ _ _ Hi) in Ey. destruct (memz y (map fst D)) eqn:Em; [contradiction|].
        apply memz_false in Em. split; [|split; [exact G|exact Em]]. unfold ovl in Ey.
        destruct (alist_get (U ++ C) y) as [d|] eqn:EL; [|exact Ey].
        apply alist_get_some_in in EL. apply in_app_or in EL. destruct EL as [HU|HC].
        + destruct (bi_U _ _ _ _ _ Hb _ _ HU) as ((o & Eo & _) & _). rewrite Eo. discriminate.
        + destruct (bi_C _ _ _ _ _ Hb _ _ HC) as [_ En]. exfalso. exact (new_not_below r y Hr En G).
      - intros (Ey & G & Hn). split.
        + rewrite (mi_d _ _ _ Hi). apply memz_false in Hn. rewrite Hn. unfold ovl.
          destruct (alist_get (U ++ C) y); [discriminate|exact Ey].
        + exact (reach_forward (descrs m) (descrs mi) (fun x => In x (map fst D)) r mi_par_fwd y G Hn).
    Qed.
  End AtRoot.

  (* ---------------------------------------------------------------- what one entry of descriptor_updates does *)
  Lemma pir_upd mi ti b U C D h d o : descrs mi h = Some o ->
    process_item_r cr up de (mi, ti, b, (U, C, D)) (h, Some d) =
    (set_descr mi h (Some d), upd_corr_state (set_descr mi h (Some d)) ti h (d_ver d) (d_kind d), h :: b,
     (U ++ [(h, d)], C ++ [], D ++ [])).
  Proof. intros E. unfold process_item_r, process_item, item_lists. cbn [fst snd]. rewrite E. reflexivity. Qed.

  Lemma pir_crt mi ti b U C D h d : descrs mi h = None ->
    process_item_r cr up de (mi, ti, b, (U, C, D)) (h, Some d) =
    let m1 := set_descr mi h (Some d) in
    let plain := (m1, upd_corr_state m1 ti h (d_ver d) (d_kind d), b, (U ++ [], C ++ [(h, d)], D ++ [])) in
    match d_parent d with
    | Some p =>
        if memz p cr || memz p up || memz p b then plain else
        match descrs m1 p with
        | Some o =>
            let m2 := set_descr m1 p (Some (bump_d o)) in
            let t2 := upd_corr_state m2 ti p (d_ver (bump_d o)) (d_kind (bump_d o)) in
            (m2, upd_corr_state m2 t2 h (d_ver d) (d_kind d), p :: b, (U ++ [(p, bump_d o)], C ++ [(h, d)], D ++ []))
        | None => plain
        end
    | None => plain
    end.
  Proof.
    intros E. unfold process_item_r, process_item, item_lists. cbn [fst snd]. rewrite E. cbv zeta.
    destruct (d_parent d) as [p|]; [|reflexivity]. unfold parent_upd, bump_parent.
    destruct (memz p cr || memz p up || memz p b); [reflexivity|].
    destruct (descrs (set_descr mi h (Some d)) p) as [o|]; reflexivity.
  Qed.

  Lemma pir_del mi ti b U C D h o : descrs mi h = Some o ->
    process_item_r cr up de (mi, ti, b, (U, C, D)) (h, None) =
    let l := subtree mi h in
    let m1 := fold_left rm_one l mi in
    let plain := (m1, ti, b, (U ++ [], C ++ [], D ++ descrs_of mi l)) in
    match d_parent o with
    | Some p =>
        if memz p de || memz p up || memz p b then plain else
        match descrs m1 p with
        | Some op =>
            let m2 := set_descr m1 p (Some (bump_d op)) in
            (m2, upd_corr_state m2 ti p (d_ver (bump_d op)) (d_kind (bump_d op)), p :: b,
             (U ++ [(p, bump_d op)], C ++ [], D ++ descrs_of mi l))
        | None => plain
        end
    | None => plain
    end.
  Proof.
    intros E. unfold process_item_r, process_item, item_lists. cbn [fst snd]. rewrite E. cbv zeta.
    destruct (d_parent o) as [p|]; [|reflexivity]. unfold parent_upd, bump_parent.
    destruct (memz p de || memz p up || memz p b); [reflexivity|].
    destruct (descrs (fold_left rm_one (subtree mi h) mi) p) as [op|]; reflexivity.
  Qed.

  Lemma pir_skip mi ti b U C D h : descrs mi h = None ->
    process_item_r cr up de (mi, ti, b, (U, C, D)) (h, None) = (mi, ti, b, (U ++ [], C ++ [], D ++ [])).
  Proof. intros E. unfold process_item_r, process_item, item_lists. cbn [fst snd]. rewrite E. reflexivity. Qed.

  (* ---------------------------------------------------------------- bookkeeping steps *)
  Lemma in_snoc {A} (l : list A) a x : In x (l ++ [a]) <-> In x l \/ x = a.
  Proof. rewrite in_app_iff. cbn. intuition. Qed.

  Lemma binv_bp pre b U C D p o :
    binv pre b U C D -> descrs m p = Some o -> undel m t p -> memz p cr = false -> memz p up = false ->
    ~ In p (map fst (U ++ C)) -> binv pre (p :: b) (U ++ [(p, bump_d o)]) C D.
  Proof.
    intros [B1 B2 B3 B4 B5 B6 B7] Eo Hu Hc Hup Hk. constructor; try assumption.
    - rewrite map_app. cbn [map fst]. rewrite rev_unit. now rewrite B1.
    - now apply nodup_ins_U.
    - intros h d Hi. apply in_snoc in Hi. destruct Hi as [Hi|[= -> ->]]; [now apply B3|].
      split; [exists o; repeat split; assumption|]. split; [assumption|]. right. now split.
    - intros h d Hi Hn. apply in_snoc. left. now apply B6.
  Qed.

  Lemma binv_up pre b U C D h d o :
    binv pre b U C D -> In (h, Some d) (t_d t) -> descrs m h = Some o ->
    ~ In h (map fst (U ++ C)) -> binv (pre ++ [(h, Some d)]) (h :: b) (U ++ [(h, d)]) C D.
  Proof.
    intros [B1 B2 B3 B4 B5 B6 B7] Hin Eo Hk.
    destruct (dx_upd _ _ Ht h d o Hin Eo) as (Ep & Ek).
    assert (Hu : undel m t h) by (apply (nc_upd h d Hin); congruence). constructor.
    - rewrite map_app. cbn [map fst]. rewrite rev_unit. now rewrite B1.
    - now apply nodup_ins_U.
    - intros h0 d0 Hi. apply in_snoc in Hi. destruct Hi as [Hi|[= -> ->]].
      + destruct (B3 _ _ Hi) as (X & Y & [Z|Z]); (split; [exact X|]); (split; [exact Y|]); [left; apply in_snoc; now left|now right].
      + split; [exists o; repeat split; assumption|]. split; [assumption|]. left. apply in_snoc. now right.
    - intros h0 d0 Hi. destruct (B4 _ _ Hi) as [X Y]. split; [apply in_snoc; now left|exact Y].
    - intros h0 d0 Hi Hn. apply in_snoc in Hi. destruct Hi as [Hi|[= -> ->]]; [now apply B5|congruence].
    - intros h0 d0 Hi Hn. apply in_snoc in Hi. apply in_snoc. destruct Hi as [Hi|[= -> ->]]; [left; now apply B6|now right].
    - intros y. rewrite B7. split; intros (X & r & Hr & G); (split; [exact X|]); exists r; (split; [|exact G]).
      + apply in_snoc. now left.
      + apply in_snoc in Hr. destruct Hr as [Hr|Hr]; [exact Hr|discriminate].
  Qed.

  Lemma binv_cr pre b U C D h d :
    binv pre b U C D -> descrs m h = None ->
    ~ In h (map fst (U ++ C)) -> binv (pre ++ [(h, Some d)]) b U (C ++ [(h, d)]) D.
  Proof.
    intros [B1 B2 B3 B4 B5 B6 B7] En Hk. constructor.
    - exact B1.
    - now apply nodup_ins_C.
    - intros h0 d0 Hi. destruct (B3 _ _ Hi) as (X & Y & [Z|Z]); (split; [exact X|]); (split; [exact Y|]);
        [left; apply in_snoc; now left|now right].
    - intros h0 d0 Hi. apply in_snoc in Hi. destruct Hi as [Hi|[= -> ->]].
      + destruct (B4 _ _ Hi) as [X Y]. split; [apply in_snoc; now left|exact Y].
      + split; [apply in_snoc; now right|exact En].
    - intros h0 d0 Hi Hn. apply in_snoc in Hi. apply in_snoc. destruct Hi as [Hi|[= -> ->]]; [left; now apply B5|now right].
    - intros h0 d0 Hi Hn. apply in_snoc in Hi. destruct Hi as [Hi|[= -> ->]]; [now apply B6|congruence].
    - intros y. rewrite B7. split; intros (X & r & Hr & G); (split; [exact X|]); exists r; (split; [|exact G]).
      + apply in_snoc. now left.
      + apply in_snoc in Hr. destruct Hr as [Hr|Hr]; [exact Hr|discriminate].
  Qed.

  Lemma binv_de pre b U C D h D' :
    binv pre b U C D ->
    (forall y, In y (map fst D') <-> descrs m y <> None /\ reachR (descrs m) y h /\ ~ In y (map fst D)) ->
    binv (pre ++ [(h, None)]) b U C (D ++ D').
  Proof.
    intros [B1 B2 B3 B4 B5 B6 B7] HD. constructor; try assumption.
    - intros h0 d0 Hi. destruct (B3 _ _ Hi) as (X & Y & [Z|Z]); (split; [exact X|]); (split; [exact Y|]);
        [left; apply in_snoc; now left|now right].
    - intros h0 d0 Hi. destruct (B4 _ _ Hi) as [X Y]. split; [apply in_snoc; now left|exact Y].
    - intros h0 d0 Hi Hn. apply in_snoc in Hi. destruct Hi as [Hi|Hi]; [now apply B5|discriminate].
    - intros h0 d0 Hi Hn. apply in_snoc in Hi. destruct Hi as [Hi|Hi]; [now apply B6|discriminate].
    - intros y. rewrite map_app, in_app_iff, HD. split.
      + intros [Hy|(X & G & _)].
        * apply B7 in Hy. destruct Hy as (X & r & Hr & G). split; [exact X|]. exists r. split; [apply in_snoc; now left|exact G].
        * split; [exact X|]. exists h. split; [apply in_snoc; now right|exact G].
      + intros (X & r & Hr & G). apply in_snoc in Hr. destruct Hr as [Hr|[= ->]].
        * left. apply B7. split; [exact X|]. now exists r.
        * destruct (memz y (map fst D)) eqn:Em; [left; now apply memz_In|right]. apply memz_false in Em. now repeat split.
  Qed.

  (* the entry of a descriptor that went already with an ancestor's subtree *)
  Lemma binv_skip pre b U C D h :
    binv pre b U C D -> In h (map fst D) -> binv (pre ++ [(h, None)]) b U C D.
  Proof.
    intros Hb Hh. replace D with (D ++ []) by apply app_nil_r. apply binv_de; [exact Hb|].
    intros y. cbn [map]. split; [intros []|]. intros (X & G & Hn). apply Hn.
    apply (bi_D _ _ _ _ _ Hb) in Hh. destruct Hh as (_ & r & Hr & G').
    apply (bi_D _ _ _ _ _ Hb). split; [exact X|]. exists r. split; [exact Hr|]. eapply reachR_trans; eassumption.
  Qed.

  (* ---------------------------------------------------------------- the invariant of the commit loop *)
  Definition pinv (pre : list (H * option descr)) (st : pstate) : Prop :=
    let '(mi, ti, b, (U, C, D)) := st in
    minv (alist_get (U ++ C)) (map fst D) mi /\ tinv (alist_get (U ++ C)) ti /\ binv pre b U C D.

  Lemma pinv_step pre e post st :
    pre ++ e :: post = t_d t -> pinv pre st -> pinv (pre ++ [e]) (process_item_r cr up de st e).
  Proof.
    intros Hsplit Hp. destruct st as [[[mi ti] b] [[U C] D]]. destruct Hp as (Hi & Hti & Hb). destruct e as [h x].
    assert (Hin : In (h, x) (t_d t)) by (rewrite <- Hsplit; apply in_or_app; right; now left).
    assert (Hinc : incl pre (t_d t)) by (intros z Hz; rewrite <- Hsplit; apply in_or_app; now left).
    assert (Hnp : ~ In h (map fst pre)).
    { pose proof (dx_nd _ _ Ht) as N. rewrite <- Hsplit in N. exact (nodup_mid pre post (h, x) N). }
    assert (HL : ~ In h (map fst (U ++ C))).
    { intros Hk. rewrite map_app in Hk. apply in_app_or in Hk.
      destruct Hk as [Hk|Hk]; apply in_map_iff in Hk; destruct Hk as ([h0 d0] & E0 & Hk); cbn in E0; subst h0.
      - destruct (bi_U _ _ _ _ _ Hb _ _ Hk) as (_ & Hu & [Hpre|[Hc Hup]]).
        + apply Hnp. now apply (in_map fst) in Hpre.
        + destruct x as [d|].
          * destruct (descrs m h) eqn:Eo.
            -- assert (memz h up = true) by (apply up_of_spec; exists d; split; [exact Hin|congruence]). congruence.
            -- assert (memz h cr = true) by (apply cr_of_spec; exists d; now split). congruence.
          * apply (Hu h Hin). constructor.
      - destruct (bi_C _ _ _ _ _ Hb _ _ Hk) as [Hpre _]. apply Hnp. now apply (in_map fst) in Hpre. }
    assert (HT : alist_get (U ++ C) h = None) by now apply alist_get_none.
    assert (HD : forall d, x = Some d -> memz h (map fst D) = false).
    { intros d ->. apply memz_false. intros Hy. apply (bi_D _ _ _ _ _ Hb) in Hy. destruct Hy as (Ey & r & Hr & G).
      exact (nc_upd h d Hin Ey r (Hinc _ Hr) G). }
    assert (Edi : descrs mi h = if memz h (map fst D) then None else descrs m h).
    { rewrite (mi_d _ _ _ Hi). unfold ovl. now rewrite HT. }
    destruct x as [d|].
    - specialize (HD d eq_refl). rewrite HD in Edi. destruct (descrs m h) as [o|] eqn:Eo.
      + (* update *)
        rewrite (pir_upd _ _ _ _ _ _ _ _ o) by congruence. rewrite !app_nil_r.
        split; [|split].
        * eapply minv_ext; [intros y; symmetry; apply get_ins_U; exact HL|]. now apply minv_set.
        * eapply tinv_ext; [intros y; symmetry; apply get_ins_U; exact HL|].
          eapply tinv_ucs; [apply minv_set; eassumption|exact Hti|exact HT|exact HD].
        * eapply binv_up; eassumption.
      + (* create *)
        rewrite pir_crt by congruence. cbv zeta.
        set (m1 := set_descr mi h (Some d)).
        assert (Hm1 : minv (alist_get (U ++ (C ++ [(h, d)]))) (map fst D) m1).
        { eapply minv_ext; [intros y; symmetry; apply get_ins_C; exact HL|]. now apply minv_set. }
        assert (Plain : pinv (pre ++ [(h, Some d)])
                          (m1, upd_corr_state m1 ti h (d_ver d) (d_kind d), b, (U ++ [], C ++ [(h, d)], D ++ []))).
        { rewrite !app_nil_r. split; [exact Hm1|]. split; [|now apply binv_cr].
          eapply tinv_ext; [intros y; symmetry; apply get_ins_C; exact HL|].
          eapply tinv_ucs; [exact Hm1|exact Hti|exact HT|exact HD]. }
        destruct (d_parent d) as [p|] eqn:Ep; [|exact Plain].
        destruct (memz p cr || memz p up || memz p b) eqn:Esk; [exact Plain|].
        apply orb_false_elim in Esk. destruct Esk as [Esk Epb]. apply orb_false_elim in Esk. destruct Esk as [Epc Epu].
        assert (Hup : undel m t p) by exact (nc_par h d p Hin Ep).
        assert (Hph : p <> h).
        { intros ->. assert (memz h cr = true) by (apply cr_of_spec; exists d; now split). congruence. }
        assert (HpL : ~ In p (map fst (U ++ C))).
        { rewrite map_app. intros Hk. apply in_app_or in Hk. destruct Hk as [Hk|Hk].
          - apply memz_false in Epb. apply Epb. rewrite (bi_b _ _ _ _ _ Hb). now apply -> in_rev.
          - apply in_map_iff in Hk. destruct Hk as ([p0 d0] & E0 & Hk). cbn in E0. subst p0.
            destruct (bi_C _ _ _ _ _ Hb _ _ Hk) as [Hpre En].
            assert (memz p cr = true) by (apply cr_of_spec; exists d0; split; [apply Hinc, Hpre|exact En]). congruence. }
        assert (HpD : memz p (map fst D) = false).
        { apply memz_false. intros Hy. apply (bi_D _ _ _ _ _ Hb) in Hy. destruct Hy as (_ & r & Hr & G).
          exact (Hup r (Hinc _ Hr) G). }
        assert (Ep1 : descrs m1 p = descrs m p).
        { subst m1. cbn [set_descr descrs]. unfold upd. destruct (Z.eqb_spec h p); [congruence|].
          rewrite (mi_d _ _ _ Hi), HpD. unfold ovl. apply alist_get_none in HpL. now rewrite HpL. }
        rewrite Ep1. destruct (descrs m p) as [o|] eqn:Eop; [|exact Plain].
        set (d' := bump_d o). set (m2 := set_descr m1 p (Some d')).
        assert (HpL2 : ~ In p (map fst (U ++ (C ++ [(h, d)])))).
        { rewrite app_assoc, map_app. cbn [map fst]. intros Hk. apply in_app_or in Hk.
          destruct Hk as [Hk|[Hk|[]]]; [now apply HpL|congruence]. }
        assert (Hm2 : minv (alist_get ((U ++ [(p, d')]) ++ (C ++ [(h, d)]))) (map fst D) m2).
        { eapply minv_ext; [intros y; symmetry; apply get_ins_U; exact HpL2|]. now apply minv_set. }
        assert (HhL2 : ~ In h (map fst ((U ++ [(p, d')]) ++ C))).
        { rewrite <- app_assoc. cbn [app]. rewrite map_app. cbn [map fst]. intros Hk. apply in_app_or in Hk.
          destruct Hk as [Hk|[Hk|Hk]].
          - apply HL. rewrite map_app. apply in_or_app. now left.
          - congruence.
          - apply HL. rewrite map_app. apply in_or_app. now right. }
        rewrite (app_nil_r D). split; [exact Hm2|]. split.
        * eapply tinv_ext; [intros y; symmetry; apply get_ins_C; exact HhL2|].
          eapply tinv_ucs; [exact Hm2| |now apply alist_get_none|exact HD].
          eapply tinv_ext; [intros y; symmetry; apply get_ins_U; exact HpL|].
          eapply tinv_ucs; [exact Hm2|exact Hti|now apply alist_get_none|exact HpD].
        * apply binv_cr; [|exact Eo|exact HhL2]. now apply binv_bp.
    - (* delete *)
      destruct (root_exists h Hin) as (o & Eo). rewrite Eo in Edi.
      destruct (memz h (map fst D)) eqn:Eh.
      { (* went already with an ancestor's subtree: skipped *)
        rewrite pir_skip by exact Edi. rewrite !app_nil_r.
        split; [exact Hi|]. split; [exact Hti|]. apply binv_skip; [exact Hb|now apply memz_In]. }
      rewrite (pir_del _ _ _ _ _ _ _ o) by exact Edi. cbv zeta.
      set (l := subtree mi h). set (m1 := fold_left rm_one l mi).
      assert (Hsub : forall y, In y l <-> descrs m y <> None /\ reachR (descrs m) y h /\ ~ In y (map fst D)).
      { intros y. exact (sub_exact pre b U C D mi h Hb Hi Hinc Hin y). }
      assert (Hkeys : map fst (descrs_of mi l) = l).
      { apply descrs_of_keys. intros x Hx. subst l. unfold subtree in Hx. apply filter_In in Hx.
        destruct Hx as [_ Hx]. destruct (descrs mi x); discriminate. }
      assert (Hm1 : minv (alist_get (U ++ C)) (map fst (D ++ descrs_of mi l)) m1).
      { rewrite map_app, Hkeys. now apply minv_rm. }
      assert (Hb1 : binv (pre ++ [(h, None)]) b U C (D ++ descrs_of mi l)).
      { apply binv_de; [exact Hb|]. rewrite Hkeys. exact Hsub. }
      assert (Plain : pinv (pre ++ [(h, None)]) (m1, ti, b, (U ++ [], C ++ [], D ++ descrs_of mi l))).
      { rewrite !app_nil_r. split; [exact Hm1|]. split; [exact Hti|exact Hb1]. }
      destruct (d_parent o) as [p|] eqn:Ep; [|exact Plain].
      destruct (memz p de || memz p up || memz p b) eqn:Esk; [exact Plain|].
      apply orb_false_elim in Esk. destruct Esk as [Esk Epb]. apply orb_false_elim in Esk. destruct Esk as [Epd Epu].
      assert (Epc : memz p cr = false) by exact (dx_par _ _ Ht h o p Hin Eo Ep).
      assert (HpL : ~ In p (map fst (U ++ C))).
      { rewrite map_app. intros Hk. apply in_app_or in Hk. destruct Hk as [Hk|Hk].
        - apply memz_false in Epb. apply Epb. rewrite (bi_b _ _ _ _ _ Hb). now apply -> in_rev.
        - apply in_map_iff in Hk. destruct Hk as ([p0 d0] & E0 & Hk). cbn in E0. subst p0.
          destruct (bi_C _ _ _ _ _ Hb _ _ Hk) as [Hpre En].
          assert (memz p cr = true) by (apply cr_of_spec; exists d0; split; [apply Hinc, Hpre|exact En]). congruence. }
      assert (Ep0 : descrs (fold_left rm_one l mi) p = descrs m1 p) by reflexivity.
      destruct (descrs m p) as [op|] eqn:Eop.
      2:{ (* the parent handle refers to nothing *)
        assert (E1 : descrs m1 p = None).
        { rewrite (mi_d _ _ _ Hm1). destruct (memz p (map fst (D ++ descrs_of mi l))); [reflexivity|].
          unfold ovl. apply alist_get_none in HpL. now rewrite HpL. }
        rewrite E1. exact Plain. }
      assert (Hup : undel m t p) by (apply kept_undel; [congruence|exact Epd]).
      assert (HpD : memz p (map fst (D ++ descrs_of mi l)) = false).
      { apply memz_false. intros Hy. apply (bi_D _ _ _ _ _ Hb1) in Hy. destruct Hy as (_ & r & Hr & G).
        apply in_snoc in Hr. destruct Hr as [Hr|[= ->]]; [exact (Hup r (Hinc _ Hr) G)|exact (Hup h Hin G)]. }
      assert (Ep1 : descrs m1 p = Some op).
      { rewrite (mi_d _ _ _ Hm1), HpD. unfold ovl. apply alist_get_none in HpL. now rewrite HpL. }
      rewrite Ep1.
      rewrite !app_nil_r. split; [|split].
      + eapply minv_ext; [intros y; symmetry; apply get_ins_U; exact HpL|]. now apply minv_set.
      + eapply tinv_ext; [intros y; symmetry; apply get_ins_U; exact HpL|].
        eapply tinv_ucs; [apply minv_set; eassumption|exact Hti|now apply alist_get_none|exact HpD].
      + now apply binv_bp.
  Qed.

  Lemma pinv_fold post : forall pre st,
    pre ++ post = t_d t -> pinv pre st -> pinv (pre ++ post) (fold_left (process_item_r cr up de) post st).
  Proof.
    induction post as [|e post IH]; intros pre st E Hp; cbn [fold_left]; [now rewrite app_nil_r|].
    replace (pre ++ e :: post) with ((pre ++ [e]) ++ post) by (rewrite <- app_assoc; reflexivity).
    apply IH; [rewrite <- app_assoc; exact E|]. eapply pinv_step; eassumption.
  Qed.

  Lemma tx_run_inv : pinv (t_d t) (tx_run m t).
  Proof.
    apply (pinv_fold (t_d t) [] (bump_ver m, t, [], ([], [], []))); [reflexivity|].
    split; [|split].
    - constructor.
      + intros y. reflexivity.
      + intros y. reflexivity.
      + intros ch. cbn. destruct (cstates m ch); reflexivity.
      + reflexivity.
      + exact (pm_dd _ Hm).
      + reflexivity.
    - constructor; try reflexivity; try apply (dx_ns _ _ Ht).
      + intros ch. rewrite (dx_c _ _ Ht). unfold corr_c. cbn. destruct (cstates m ch); reflexivity.
      + rewrite (dx_c _ _ Ht). constructor.
    - constructor; cbn; try reflexivity; try constructor; try contradiction; try (intros; contradiction).
      intros (_ & r & [] & _).
  Qed.

  (* ---------------------------------------------------------------- the committed tables *)
  Section Final.
    Variables (m1 : mdib) (t1 : tx) (b : list H) (U C D : list (H * descr)).
    Hypothesis Hrun : pinv (t_d t) (m1, t1, b, (U, C, D)).

    Let Hi : minv (alist_get (U ++ C)) (map fst D) m1 := proj1 Hrun.
    Let Hti : tinv (alist_get (U ++ C)) t1 := proj1 (proj2 Hrun).
    Let Hb : binv (t_d t) b U C D := proj2 (proj2 Hrun).

    Definition F_d (y : H) : option descr :=
      if memz y (map fst D) then None else ovl (alist_get (U ++ C)) (descrs m) y.
    Definition F_s (y : H) : option state :=
      match alist_get (t_s t1) y with
      | Some s => Some s
      | None => if memz y (map fst D) then None else states m y
      end.
    Definition F_c (ch : H) : option cstate :=
      match alist_get (t_c t1) ch with
      | Some x => x
      | None => match cstates m ch with
                | Some c => if memz (c_dh c) (map fst D) then None else Some c
                | None => None
                end
      end.

    Lemma commit_tables :
      let m' := handle_state_updates m1 t1 in
      (forall y, descrs m' y = F_d y) /\ (forall y, states m' y = F_s y) /\ (forall ch, cstates m' ch = F_c ch) /\
      ver m' = ver m + 1.
    Proof.
      cbv zeta. unfold handle_state_updates.
      set (ma := fold_left (fun m' e => put_state m' (fst e) (snd e)) (t_s t1) m1).
      destruct (fold_put_state_frame (t_s t1) m1) as (A1 & A2 & _). fold ma in A1, A2.
      pose proof (fold_put_state_states (t_s t1) m1 (ti_sn _ _ Hti)) as A3. fold ma in A3.
      destruct (fold_put_cstate_frame2 (t_c t1) ma) as (B1 & B2 & B3 & _).
      destruct (fold_put_cstate_point (t_c t1) ma (ti_cn _ _ Hti)) as [B4 _].
      cbv zeta in *. split; [|split; [|split]].
      - intros y. rewrite B1, A1. apply (mi_d _ _ _ Hi).
      - intros y. rewrite B2, A3. unfold F_s. now rewrite (mi_s _ _ _ Hi).
      - intros ch. rewrite B4, A2. unfold F_c. now rewrite (mi_c _ _ _ Hi).
      - rewrite B3. unfold ma. rewrite fold_put_state_ver. apply (mi_ver _ _ _ Hi).
    Qed.

    (* facts about the collected lists *)
    Lemma L_get h d : In (h, d) (U ++ C) -> alist_get (U ++ C) h = Some d.
    Proof. apply alist_get_in. apply (bi_nd _ _ _ _ _ Hb). Qed.

    Lemma L_not_deleted h : In h (map fst (U ++ C)) -> memz h (map fst D) = false.
    Proof.
      intros Hk. apply memz_false. intros Hy. apply (bi_D _ _ _ _ _ Hb) in Hy. destruct Hy as (Ey & r & Hr & G).
      apply in_map_iff in Hk. destruct Hk as ([h0 d0] & E0 & Hk). cbn in E0. subst h0.
      apply in_app_or in Hk. destruct Hk as [Hk|Hk].
      - destruct (bi_U _ _ _ _ _ Hb _ _ Hk) as (_ & Hu & _). exact (Hu r Hr G).
      - destruct (bi_C _ _ _ _ _ Hb _ _ Hk) as [_ En]. contradiction.
    Qed.

    Lemma ts_keys y : alist_get (U ++ C) y = None -> alist_get (t_s t1) y = None.
    Proof.
      intros E. rewrite (ti_s _ _ Hti). unfold corr_s. rewrite E.
      destruct (alist_get (t_s t) y) as [s|] eqn:Es; [|reflexivity]. exfalso.
      apply alist_get_some_in in Es. destruct (dx_st _ _ Ht y s Es) as [(d & Hd) _].
      apply alist_get_none in E. apply E. rewrite map_app. apply in_or_app.
      destruct (descrs m y) eqn:Ed.
      - left. apply (in_map fst) with (x := (y, d)). apply (bi_Uc _ _ _ _ _ Hb); [exact Hd|congruence].
      - right. apply (in_map fst) with (x := (y, d)). now apply (bi_Cc _ _ _ _ _ Hb).
    Qed.

    Lemma ts_known h d s : In (h, d) U -> alist_get (t_s t1) h = Some s -> states m h <> None.
    Proof.
      intros HU E. rewrite (ti_s _ _ Hti) in E. unfold corr_s in E.
      rewrite (L_get h d) in E by (apply in_or_app; now left).
      destruct (bi_U _ _ _ _ _ Hb _ _ HU) as ((o & Eo & _) & _).
      assert (G : forall n, alist_get (t_s t) h = Some n -> states m h <> None).
      { intros n En. apply alist_get_some_in in En. destruct (dx_st _ _ Ht h n En) as [_ K]. apply K. congruence. }
      destruct (d_kind d =? K_CTX); [exact (G s E)|].
      unfold corr_state in E. destruct (alist_get (t_s t) h) as [n|] eqn:En; [exact (G n eq_refl)|].
      destruct (states m h); [discriminate|discriminate].
    Qed.

    Lemma t1_no_deletion : no_deletion t1.
    Proof.
      intros h Hin. apply (alist_get_in _ _ _ (ti_cn _ _ Hti)) in Hin. rewrite (ti_c _ _ Hti) in Hin.
      unfold corr_c in Hin. destruct (cstates m h) as [c|]; [|discriminate].
      destruct (alist_get (U ++ C) (c_dh c)) as [d|]; [|discriminate].
      destruct (d_kind d =? K_CTX); discriminate.
    Qed.

    (* the context items of the report *)
    Lemma items_get ch :
      alist_get (ctx_report_items t1) ch =
      match cstates m ch with
      | Some c => match alist_get (U ++ C) (c_dh c) with
                  | Some d => if Z.eqb (d_kind d) K_CTX then Some (corr_cstate (d_ver d) c) else None
                  | None => None
                  end
      | None => None
      end.
    Proof.
      rewrite (ctx_report_items_get t1 ch t1_no_deletion), (ti_c _ _ Hti). unfold corr_c.
      destruct (cstates m ch) as [c|]; [|reflexivity].
      destruct (alist_get (U ++ C) (c_dh c)) as [d|]; [|reflexivity].
      destruct (d_kind d =? K_CTX); reflexivity.
    Qed.

    Lemma items_nodup : NoDup (map fst (ctx_report_items t1)).
    Proof. rewrite (ctx_report_items_keys t1 t1_no_deletion). apply (ti_cn _ _ Hti). Qed.

    (* ---------------------------------------------------------------- the consumer, part by part *)
    Lemma filter_key_get {A} (l : list (H * A)) k y :
      alist_get (filter (fun x => Z.eqb (fst x) k) l) y = if Z.eqb y k then alist_get l y else None.
    Proof.
      induction l as [|[a v] l IH]; cbn [filter alist_get fst]; [now destruct (y =? k)|].
      destruct (Z.eqb_spec a k) as [->|Hne]; cbn [alist_get].
      - rewrite IH. destruct (y =? k); reflexivity.
      - rewrite IH. destruct (Z.eqb_spec y k) as [E|]; [|reflexivity].
        destruct (Z.eqb_spec y a); [congruence|reflexivity].
    Qed.

    Lemma filter_keys_incl {A} (f : H * A -> bool) l x : In x (map fst (filter f l)) -> In x (map fst l).
    Proof.
      intros Hx. apply in_map_iff in Hx. destruct Hx as (e & <- & He). apply filter_In in He. apply in_map. apply He.
    Qed.

    Lemma nodup_filter_keys {A} (f : H * A -> bool) l : NoDup (map fst l) -> NoDup (map fst (filter f l)).
    Proof.
      induction l as [|a l IH]; cbn [filter map]; intros Hn; [constructor|]. inversion Hn as [|? ? Ha Hl]; subst.
      destruct (f a); cbn [map]; [|now apply IH]. constructor; [|now apply IH].
      intros Hx. apply Ha. eapply filter_keys_incl. exact Hx.
    Qed.

    Lemma filter_val_get (l : list (H * cstate)) k y : NoDup (map fst l) ->
      alist_get (filter (fun x => Z.eqb (c_dh (snd x)) k) l) y =
      match alist_get l y with Some x => if Z.eqb (c_dh x) k then Some x else None | None => None end.
    Proof.
      induction l as [|[a v] l IH]; intros Hn; cbn [filter alist_get snd]; [reflexivity|].
      inversion Hn as [|? ? Ha Hl]; subst. destruct (Z.eqb_spec y a) as [->|Hne].
      - destruct (c_dh v =? k) eqn:E; cbn [alist_get]; [now rewrite Z.eqb_refl|].
        apply alist_get_none. intros Hx. apply Ha. eapply filter_keys_incl. exact Hx.
      - destruct (c_dh v =? k); cbn [alist_get]; [destruct (Z.eqb_spec y a); [contradiction|]|]; now apply IH.
    Qed.

    Lemma alist_get_snoc {A} (Q : list (H * A)) k v y : ~ In k (map fst Q) ->
      alist_get (Q ++ [(k, v)]) y = if Z.eqb y k then Some v else alist_get Q y.
    Proof.
      intros Hk. rewrite alist_get_app. cbn [alist_get]. destruct (Z.eqb_spec y k) as [->|Hne].
      - apply alist_get_none in Hk. now rewrite Hk.
      - destruct (alist_get Q y); reflexivity.
    Qed.

    (* consumer tables after the parts for the descriptors in Q (a prefix of updated ++ created) *)
    Definition lin_s (Q : list (H * descr)) (y : H) : option state :=
      match alist_get Q y with
      | Some _ => match alist_get (t_s t1) y with Some s => Some s | None => states m y end
      | None => states m y
      end.
    Definition lin_c (Q : list (H * descr)) (ch : H) : option cstate :=
      match cstates m ch with
      | Some c0 => match alist_get Q (c_dh c0) with
                   | Some _ => match alist_get (ctx_report_items t1) ch with Some x => Some x | None => Some c0 end
                   | None => Some c0
                   end
      | None => None
      end.
    Definition linv (Q : list (H * descr)) (c' : cmdib) : Prop :=
      (forall y, cm_descrs c' y = ovl (alist_get Q) (descrs m) y) /\
      (forall y, cm_states c' y = lin_s Q y) /\ (forall ch, cm_cstates c' ch = lin_c Q ch).

    Lemma item_dh ch x c0 : alist_get (ctx_report_items t1) ch = Some x -> cstates m ch = Some c0 -> c_dh x = c_dh c0.
    Proof.
      intros Ex E0. rewrite items_get, E0 in Ex. destruct (alist_get (U ++ C) (c_dh c0)) as [d0|]; [|discriminate].
      destruct (d_kind d0 =? K_CTX); [|discriminate]. injection Ex as <-. reflexivity.
    Qed.

    Lemma lin_c_dh Q ch s : lin_c Q ch = Some s -> exists c0, cstates m ch = Some c0 /\ c_dh s = c_dh c0.
    Proof.
      unfold lin_c. destruct (cstates m ch) as [c0|] eqn:E0; [|discriminate]. intros E. exists c0. split; [reflexivity|].
      destruct (alist_get Q (c_dh c0)); [|now injection E as <-].
      destruct (alist_get (ctx_report_items t1) ch) as [x|] eqn:Ex; [|now injection E as <-].
      injection E as <-. eapply item_dh; eassumption.
    Qed.

    Lemma upd_step Q c1 h d : linv Q c1 -> In (h, d) U -> ~ In h (map fst Q) ->
      exists c', apply_part c1 (part_for t1 1 (h, d)) = (c', [(N_UPD, h)], false) /\ linv (Q ++ [(h, d)]) c'.
    Proof.
      intros (Ld & Ls & Lc) HU HQ.
      destruct (bi_U _ _ _ _ _ Hb _ _ HU) as ((o & Eo & Ep & Ek) & Hu & _).
      assert (HQh : alist_get Q h = None) by now apply alist_get_none.
      assert (HLh : alist_get (U ++ C) h = Some d) by (apply L_get; apply in_or_app; now left).
      unfold part_for. cbn [fst].
      set (S := filter (fun x => fst x =? h) (t_s t1)).
      set (CS := filter (fun x => c_dh (snd x) =? h) (ctx_report_items t1)).
      destruct (upd_part_spec c1 h d S CS) as (c' & Hp & Pd & Ps & Pc).
      - rewrite Ld. unfold ovl. rewrite HQh, Eo. discriminate.
      - apply nodup_filter_keys, (ti_sn _ _ Hti).
      - apply nodup_filter_keys, items_nodup.
      - intros Kc ch s Es Eh. unfold alist_has. subst CS. rewrite filter_val_get by apply items_nodup.
        rewrite Lc in Es. destruct (lin_c_dh Q ch s Es) as (c0 & E0 & Edh).
        rewrite items_get, E0. rewrite <- Edh, Eh, HLh. apply Z.eqb_eq in Kc. rewrite Kc.
        cbn [corr_cstate c_dh]. rewrite <- Edh, Eh, Z.eqb_refl. reflexivity.
      - exists c'. split; [exact Hp|]. split; [|split].
        + intros y. rewrite Pd, Ld. unfold ovl. rewrite (alist_get_snoc Q h d y HQ).
          destruct (Z.eqb_spec h y) as [<-|Hne]; [now rewrite Z.eqb_refl|].
          destruct (Z.eqb_spec y h); [congruence|reflexivity].
        + intros y. rewrite Ps. subst S. rewrite filter_key_get. unfold lin_s. rewrite (alist_get_snoc Q h d y HQ).
          destruct (Z.eqb_spec y h) as [->|Hne].
          * rewrite Ls. unfold lin_s. rewrite HQh. destruct (alist_get (t_s t1) h) as [s|] eqn:Es; [|reflexivity].
            unfold known_val. destruct (states m h) eqn:Em; [reflexivity|]. exfalso. exact (ts_known h d s HU Es Em).
          * rewrite Ls. reflexivity.
        + intros ch. rewrite Pc. subst CS. rewrite filter_val_get by apply items_nodup. rewrite Lc. unfold lin_c.
          destruct (cstates m ch) as [c0|] eqn:E0.
          * rewrite (alist_get_snoc Q h d (c_dh c0) HQ).
            destruct (alist_get (ctx_report_items t1) ch) as [x|] eqn:Ex.
            -- rewrite (item_dh ch x c0 Ex E0). destruct (Z.eqb_spec (c_dh c0) h) as [E|Hne].
               ++ rewrite E, HQh. reflexivity.
               ++ reflexivity.
            -- destruct (Z.eqb_spec (c_dh c0) h) as [E|Hne]; [rewrite E, HQh; reflexivity|reflexivity].
          * rewrite items_get, E0. reflexivity.
    Qed.

    Lemma crt_step Q c1 h d : linv Q c1 -> In (h, d) C -> ~ In h (map fst Q) ->
      exists c', apply_part c1 (part_for t1 0 (h, d)) = (c', [(N_NEW, h)], false) /\ linv (Q ++ [(h, d)]) c'.
    Proof.
      intros (Ld & Ls & Lc) HC HQ.
      destruct (bi_C _ _ _ _ _ Hb _ _ HC) as [_ En].
      assert (HQh : alist_get Q h = None) by now apply alist_get_none.
      unfold part_for. cbn [fst].
      set (S := filter (fun x => fst x =? h) (t_s t1)).
      set (CS := filter (fun x => c_dh (snd x) =? h) (ctx_report_items t1)).
      destruct (crt_part_spec c1 h d S CS) as (c' & Hp & Pd & Ps & Pc).
      - rewrite Ld. unfold ovl. now rewrite HQh.
      - apply nodup_filter_keys, (ti_sn _ _ Hti).
      - apply nodup_filter_keys, items_nodup.
      - exists c'. split; [exact Hp|]. split; [|split].
        + intros y. rewrite Pd, Ld. unfold ovl. rewrite (alist_get_snoc Q h d y HQ).
          destruct (Z.eqb_spec h y) as [<-|Hne]; [now rewrite Z.eqb_refl|].
          destruct (Z.eqb_spec y h); [congruence|reflexivity].
        + intros y. rewrite Ps. subst S. rewrite filter_key_get. unfold lin_s. rewrite (alist_get_snoc Q h d y HQ).
          destruct (Z.eqb_spec y h) as [->|Hne].
          * rewrite Ls. unfold lin_s. rewrite HQh. destruct (alist_get (t_s t1) h) as [s|] eqn:Es; [reflexivity|].
            reflexivity.
          * rewrite Ls. reflexivity.
        + intros ch. rewrite Pc. subst CS. rewrite filter_val_get by apply items_nodup. rewrite Lc. unfold lin_c.
          destruct (cstates m ch) as [c0|] eqn:E0.
          * assert (Hne : c_dh c0 <> h) by (intros E; apply (pm_cs _ Hm ch c0 E0); now rewrite E).
            rewrite (alist_get_snoc Q h d (c_dh c0) HQ).
            destruct (Z.eqb_spec (c_dh c0) h); [contradiction|].
            destruct (alist_get (ctx_report_items t1) ch) as [x|] eqn:Ex; [|reflexivity].
            rewrite (item_dh ch x c0 Ex E0). destruct (Z.eqb_spec (c_dh c0) h); [contradiction|reflexivity].
          * rewrite items_get, E0. reflexivity.
    Qed.

    Lemma apply_part_cdom_ok c0 p c' ns : apply_part c0 p = (c', ns, false) -> cdom_ok c0 -> cdom_ok c'.
    Proof.
      intros Hp Hc. pose proof (apply_parts_cdom_ok [p] c0 Hc) as G. cbn [apply_parts] in G. rewrite Hp in G. exact G.
    Qed.

    Lemma phase modi ntag (X : list (H * descr)) :
      (forall Q c1 h d, linv Q c1 -> In (h, d) X -> ~ In h (map fst Q) ->
         exists c', apply_part c1 (part_for t1 modi (h, d)) = (c', [(ntag, h)], false) /\ linv (Q ++ [(h, d)]) c') ->
      forall X2 X1 Q0 c1 rest, X1 ++ X2 = X -> NoDup (map fst (Q0 ++ X)) -> linv (Q0 ++ X1) c1 -> cdom_ok c1 ->
      exists cX, linv (Q0 ++ X) cX /\ cdom_ok cX /\
        apply_parts c1 (map (part_for t1 modi) X2 ++ rest) =
        (let '(c2, ns2) := apply_parts cX rest in (c2, map (fun e => (ntag, fst e)) X2 ++ ns2)).
    Proof.
      intros Hstep. induction X2 as [|[h d] X2 IH]; intros X1 Q0 c1 rest HX Hn Hl Hc.
      - rewrite app_nil_r in HX. subst X1. exists c1. split; [exact Hl|]. split; [exact Hc|]. cbn [map app].
        destruct (apply_parts c1 rest); reflexivity.
      - assert (HQ : ~ In h (map fst (Q0 ++ X1))).
        { rewrite <- HX, app_assoc in Hn. exact (nodup_mid (Q0 ++ X1) X2 (h, d) Hn). }
        destruct (Hstep (Q0 ++ X1) c1 h d Hl) as (c' & Hp & Hl'); [rewrite <- HX; apply in_or_app; right; now left|exact HQ|].
        rewrite <- app_assoc in Hl'.
        destruct (IH (X1 ++ [(h, d)]) Q0 c' rest) as (cX & HlX & HcX & HeX);
          [rewrite <- app_assoc; exact HX|exact Hn|exact Hl'|exact (apply_part_cdom_ok _ _ _ _ Hp Hc)|].
        exists cX. split; [exact HlX|]. split; [exact HcX|]. cbn [map app apply_parts fst]. rewrite Hp, HeX.
        destruct (apply_parts cX rest); reflexivity.
    Qed.

    (* ---------------------------------------------------------------- the DELETE parts *)
    Definition DL : H -> option descr := ovl (alist_get (U ++ C)) (descrs m).

    Lemma stable_prem_ovl r : In (r, None) (t_d t) -> forall x,
      par DL x = par (descrs m) x \/
      (~ reachR (descrs m) x r /\ forall p, par DL x = Some p -> ~ reachR (descrs m) p r).
    Proof.
      intros Hr x. unfold par at 1 3, DL, ovl. destruct (alist_get (U ++ C) x) as [d|] eqn:EL; [|now left].
      apply alist_get_some_in in EL. apply in_app_or in EL. destruct EL as [HU|HC].
      - destruct (bi_U _ _ _ _ _ Hb _ _ HU) as ((o & Eo & Ep & _) & _). left. unfold par. now rewrite Eo.
      - destruct (bi_C _ _ _ _ _ Hb _ _ HC) as [Hpre En]. unfold par. rewrite En.
        destruct (d_parent d) as [p|] eqn:Ep; [|now left]. right. split; [exact (new_not_below r x Hr En)|].
        intros p0 [= <-]. exact (nc_par x d p Hpre Ep r Hr).
    Qed.

    Lemma DL_exists y : descrs m y <> None -> DL y <> None.
    Proof. intros Ey. unfold DL, ovl. destruct (alist_get (U ++ C) y); [discriminate|exact Ey]. Qed.

    Definition dinv (cL : cmdib) (R : list H) (c' : cmdib) : Prop :=
      (forall y, cm_descrs c' y = if memz y R then None else cm_descrs cL y) /\
      (forall y, cm_states c' y = if memz y R then None else cm_states cL y) /\
      (forall ch, cm_cstates c' ch = match cm_cstates cL ch with
                                     | Some s => if memz (c_dh s) R then None else Some s
                                     | None => None end) /\
      cdom_ok c' /\ (forall y, In y R -> In y (map fst D)).

    Lemma ddel_step cL R c' x dx : linv (U ++ C) cL -> dinv cL R c' -> In x (map fst D) ->
      exists c'', apply_part c' (part_for t1 2 (x, dx)) = (c'', map (fun y => (N_DEL, y)) (csubtree c' x), false) /\
                  dinv cL (R ++ csubtree c' x) c'' /\ In x (R ++ csubtree c' x).
    Proof.
      intros (Ld & _ & _) (Id & Is & Ic & Icd & IR) Hx.
      assert (Hp : apply_part c' (part_for t1 2 (x, dx)) =
                   (crm_sub c' x, map (fun y => (N_DEL, y)) (csubtree c' x), false)).
      { unfold part_for. apply del_part_single; discriminate. }
      exists (crm_sub c' x). split; [exact Hp|].
      destruct (crm_sub_frame c' x) as (Fd & Fs & Fc & _). cbv zeta in *.
      apply (bi_D _ _ _ _ _ Hb) in Hx. destruct Hx as (Ex & r & Hr & Gx).
      pose proof (reachR_stable (descrs m) DL r (stable_prem_ovl r Hr)) as St.
      assert (Hsubin : forall y, In y (csubtree c' x) -> In y (map fst D)).
      { intros y Hy. apply (csubtree_In_sem c' x y Icd) in Hy. destruct Hy as [Ey Gy].
        assert (Gy' : reachR DL y x).
        { eapply reachR_sub; [|exact Gy]. intros z p. unfold par. rewrite Id, Ld.
          destruct (memz z R); [discriminate|]. intros E. exact E. }
        assert (Gr : reachR (descrs m) y r).
        { apply St. eapply reachR_trans; [exact Gy'|]. apply St. exact Gx. }
        apply (bi_D _ _ _ _ _ Hb). split; [|exists r; now split].
        rewrite Id, Ld in Ey. destruct (memz y R); [contradiction|]. fold DL in Ey. unfold DL, ovl in Ey.
        destruct (alist_get (U ++ C) y) as [d|] eqn:EL; [|exact Ey].
        apply alist_get_some_in in EL. apply in_app_or in EL. destruct EL as [HU|HC].
        - destruct (bi_U _ _ _ _ _ Hb _ _ HU) as ((o & Eo & _) & _). rewrite Eo. discriminate.
        - destruct (bi_C _ _ _ _ _ Hb _ _ HC) as [_ En]. exfalso. exact (new_not_below r y Hr En Gr). }
      split.
      - split; [|split; [|split; [|split]]].
        + intros y. rewrite Fd, Id, memz_app. destruct (memz y R), (memz y (csubtree c' x)); reflexivity.
        + intros y. rewrite Fs, Is, memz_app. destruct (memz y R), (memz y (csubtree c' x)); reflexivity.
        + intros ch. rewrite Fc. pose proof (Ic ch) as E. destruct (cm_cstates cL ch) as [s|]; [|now rewrite E].
          rewrite memz_app. destruct (memz (c_dh s) R); [now rewrite E|]. rewrite E.
          assert (Hin : memz ch (cm_cdom c') = true).
          { apply memz_In. apply (proj2 Icd). rewrite E. discriminate. }
          rewrite Hin. reflexivity.
        + exact (apply_part_cdom_ok _ _ _ _ Hp Icd).
        + intros y Hy. apply in_app_or in Hy. destruct Hy as [Hy|Hy]; [now apply IR|now apply Hsubin].
      - apply in_or_app. destruct (cm_descrs c' x) eqn:Ec.
        + right. apply (csubtree_In_sem c' x x Icd). split; [congruence|constructor].
        + left. rewrite Id in Ec. destruct (memz x R) eqn:Em; [now apply memz_In|].
          exfalso. rewrite Ld in Ec. exact (DL_exists x Ex Ec).
    Qed.

    Lemma del_phase cL : linv (U ++ C) cL -> forall D2 D1 R c', D1 ++ D2 = D -> dinv cL R c' ->
      (forall x, In x (map fst D1) -> In x R) ->
      exists cD added, dinv cL (R ++ added) cD /\ (forall x, In x (map fst D) -> In x (R ++ added)) /\
        apply_parts c' (map (part_for t1 2) D2) = (cD, map (fun y => (N_DEL, y)) added).
    Proof.
      intros HL. induction D2 as [|[x dx] D2 IH]; intros D1 R c' HD Hinv Hcov.
      - rewrite app_nil_r in HD. subst D1. exists c', []. rewrite app_nil_r. split; [exact Hinv|]. split; [exact Hcov|reflexivity].
      - assert (Hx : In x (map fst D)) by (rewrite <- HD, map_app; apply in_or_app; right; now left).
        destruct (ddel_step cL R c' x dx HL Hinv Hx) as (c'' & Hp & Hinv' & Hxin).
        destruct (IH (D1 ++ [(x, dx)]) (R ++ csubtree c' x) c'') as (cD & added & A & B & E);
          [rewrite <- app_assoc; exact HD|exact Hinv'| |].
        { intros y Hy. rewrite map_app in Hy. apply in_app_or in Hy. destruct Hy as [Hy|[<-|[]]]; [|exact Hxin].
          apply in_or_app. left. now apply Hcov. }
        exists cD, (csubtree c' x ++ added). rewrite app_assoc. split; [exact A|]. split; [exact B|].
        cbn [map apply_parts]. rewrite Hp, E, map_app. reflexivity.
    Qed.

    Lemma memz_ext y l1 l2 : (forall x, In x l1 <-> In x l2) -> memz y l1 = memz y l2.
    Proof.
      intros E. destruct (memz y l2) eqn:E2.
      - apply memz_In. apply E. now apply memz_In.
      - apply memz_false. intros Hx. apply memz_false in E2. apply E2. now apply E.
    Qed.

    Lemma nodup_app_l {A} (l1 l2 : list A) : NoDup (l1 ++ l2) -> NoDup l1.
    Proof.
      induction l1 as [|a l1 IH]; cbn [app]; [constructor|]. intros G. inversion G as [|? ? Ha Hl]; subst.
      constructor; [|now apply IH]. intros Hx. apply Ha. apply in_or_app. now left.
    Qed.

    (* ---------------------------------------------------------------- the consumer after the whole report *)
    Section Mirror.
      Variable c : cmdib.
      Hypothesis Hmir : mirrors c m.
      Hypothesis Hcd : cdom_ok c.

      Definition the_parts : list dpart :=
        map (part_for t1 1) U ++ map (part_for t1 0) C ++ map (part_for t1 2) D.

      Lemma consumer_tables :
        let c' := fst (receive c (RDescr (mkVg (ver m + 1) (cm_seq c) (cm_inst c)) the_parts)) in
        (forall y, cm_descrs c' y = F_d y) /\ (forall y, cm_states c' y = F_s y) /\
        (forall ch, cm_cstates c' ch = F_c ch) /\
        cm_ver c' = ver m + 1 /\ cm_mode c' = CInitialized /\ cm_seq c' = cm_seq c /\ cm_inst c' = cm_inst c /\
        cdom_ok c' /\
        exists R, (forall y, In y R <-> In y (map fst D)) /\
          snd (receive c (RDescr (mkVg (ver m + 1) (cm_seq c) (cm_inst c)) the_parts)) =
          map (fun e => (N_UPD, fst e)) U ++ map (fun e => (N_NEW, fst e)) C ++ map (fun y => (N_DEL, y)) R.
      Proof.
        destruct Hmir as (Md & Ms & Mc & Mv & Mm). cbv zeta.
        unfold receive. cbn [report_vg vg_seq vg_inst]. rewrite Mm, !Z.eqb_refl. cbn [andb].
        unfold process. cbn [report_vg vg_ver cm_ver]. rewrite Mv.
        replace (ver m + 1 <? ver m) with false by lia.
        set (c2 := set_vg _ _).
        assert (L0 : linv [] c2).
        { split; [|split].
          - intros y. subst c2. cbn. now rewrite Md.
          - intros y. subst c2. cbn. now rewrite Ms.
          - intros ch. subst c2. unfold lin_c. cbn. rewrite Mc. destruct (cstates m ch); reflexivity. }
        assert (Hc2 : cdom_ok c2) by exact Hcd.
        pose proof (apply_parts_hdr the_parts c2) as Hh.
        pose proof (apply_parts_cdom_ok the_parts c2 Hc2) as Hk.
        destruct (phase 1 N_UPD U upd_step U [] [] c2 (map (part_for t1 0) C ++ map (part_for t1 2) D))
          as (cU & LU & HcU & EU); [reflexivity| |exact L0|exact Hc2|].
        { cbn [app]. pose proof (bi_nd _ _ _ _ _ Hb) as N. rewrite map_app in N. now apply nodup_app_l in N. }
        destruct (phase 0 N_NEW C crt_step C [] U cU (map (part_for t1 2) D))
          as (cL & LL & HcL & EC); [reflexivity|exact (bi_nd _ _ _ _ _ Hb)|rewrite app_nil_r; exact LU|exact HcU|].
        destruct (del_phase cL LL D [] [] cL eq_refl) as (cD & R' & ID & Hcov & ED).
        { split; [|split; [|split; [|split]]]; try (intros; reflexivity); [|exact HcL|intros y []].
          intros ch. destruct (cm_cstates cL ch); reflexivity. }
        { intros x []. }
        cbn [app] in ID, Hcov.
        assert (Efin : apply_parts c2 the_parts =
                       (cD, map (fun e => (N_UPD, fst e)) U ++ map (fun e => (N_NEW, fst e)) C ++ map (fun y => (N_DEL, y)) R')).
        { unfold the_parts. cbn [app] in EU. rewrite EU, EC, ED. reflexivity. }
        rewrite Efin in *. cbn [fst snd] in *.
        destruct ID as (Id & Is & Ic & Icd & IR). destruct LL as (Ld & Ls & Lc).
        assert (HR : forall y, memz y R' = memz y (map fst D)).
        { intros y. apply memz_ext. intros x. split; [apply IR|apply Hcov]. }
        assert (HLn : forall y d0, alist_get (U ++ C) y = Some d0 -> memz y (map fst D) = false).
        { intros y d0 E. apply L_not_deleted. eapply alist_get_key. exact E. }
        split; [|split; [|split]].
        - intros y. rewrite Id, HR, Ld. reflexivity.
        - intros y. rewrite Is, HR, Ls. unfold F_s, lin_s.
          destruct (alist_get (U ++ C) y) as [d0|] eqn:EL.
          + rewrite (HLn y d0 EL). destruct (alist_get (t_s t1) y); reflexivity.
          + rewrite (ts_keys y EL). reflexivity.
        - intros ch. rewrite Ic, Lc. unfold F_c, lin_c. rewrite (ti_c _ _ Hti). unfold corr_c.
          destruct (cstates m ch) as [c0|] eqn:E0; [|reflexivity].
          destruct (alist_get (U ++ C) (c_dh c0)) as [d0|] eqn:EL.
          + rewrite items_get, E0, EL. destruct (d_kind d0 =? K_CTX).
            * cbn [corr_cstate c_dh]. rewrite HR, (HLn _ d0 EL). reflexivity.
            * rewrite HR, (HLn _ d0 EL). reflexivity.
          + rewrite HR. reflexivity.
        - destruct Hh as (V & S & I & M & _). subst c2. cbn in V, S, I, M.
          split; [exact V|]. split; [exact M|]. split; [exact S|]. split; [exact I|]. split; [exact Hk|].
          exists R'. split; [|reflexivity]. intros y. split; [apply IR|apply Hcov].
      Qed.
    End Mirror.

    (* the committed provider MDIB is well-formed again *)
    Lemma cdom_fold_put l : forall m0 x,
      In x (cdom (fold_left (fun m' e => put_cstate m' (fst e) (snd e)) l m0)) <-> In x (cdom m0) \/ In x (map fst l).
    Proof.
      induction l as [|e l IH]; intros m0 x; cbn [fold_left map]; [cbn; tauto|].
      rewrite IH. cbn [put_cstate cdom In]. rewrite add_dom_In. intuition.
    Qed.
    Lemma cdom_fold_put_nodup l : forall m0 : mdib, NoDup (cdom m0) ->
      NoDup (cdom (fold_left (fun m' e => put_cstate m' (fst e) (snd e)) l m0)).
    Proof.
      induction l as [|e l IH]; intros m0 Hn; cbn [fold_left]; [exact Hn|]. apply IH. cbn [put_cstate cdom].
      unfold add_dom. destruct (memz (fst e) (cdom m0)) eqn:E; [exact Hn|].
      apply memz_false in E. eapply Permutation_NoDup; [apply Permutation_cons_append|]. now constructor.
    Qed.
    Lemma ddom_fold_put l : forall m0 : mdib,
      ddom (fold_left (fun m' e => put_cstate m' (fst e) (snd e)) l m0) = ddom m0.
    Proof. induction l as [|e l IH]; intros m0; cbn [fold_left]; [reflexivity|]. now rewrite IH. Qed.

    Lemma commit_pm_ok : pm_ok (handle_state_updates m1 t1).
    Proof.
      destruct commit_tables as (Td & Ts & Tc & _). cbv zeta in *.
      assert (Edd : ddom (handle_state_updates m1 t1) = ddom m1).
      { unfold handle_state_updates. rewrite ddom_fold_put.
        now destruct (fold_put_state_frame (t_s t1) m1) as (_ & _ & _ & _ & A & _). }
      assert (Ecd0 : cdom (fold_left (fun m' e => put_state m' (fst e) (snd e)) (t_s t1) m1) = cdom m).
      { destruct (fold_put_state_frame (t_s t1) m1) as (_ & _ & _ & _ & _ & A). cbv zeta in A. rewrite A.
        apply (mi_cdom _ _ _ Hi). }
      assert (Fd_ok : forall y, descrs m y <> None -> memz y (map fst D) = false -> F_d y <> None).
      { intros y Ey En. unfold F_d. rewrite En. now apply DL_exists. }
      constructor.
      - intros y Hy. rewrite Edd. apply (mi_ddom _ _ _ Hi). rewrite Td in Hy. now rewrite (mi_d _ _ _ Hi).
      - intros ch Hy. unfold handle_state_updates. apply cdom_fold_put. rewrite Ecd0. rewrite Tc in Hy. unfold F_c in Hy.
        destruct (alist_get (t_c t1) ch) as [x|] eqn:E; [right; eapply alist_get_key; exact E|].
        left. apply (pm_cd _ Hm). destruct (cstates m ch); [discriminate|contradiction].
      - unfold handle_state_updates. apply cdom_fold_put_nodup. rewrite Ecd0. apply (pm_nd _ Hm).
      - intros y Hy. rewrite Td. rewrite Ts in Hy. unfold F_s in Hy.
        destruct (alist_get (t_s t1) y) as [s|] eqn:E.
        + destruct (alist_get (U ++ C) y) as [d0|] eqn:EL; [|rewrite (ts_keys y EL) in E; discriminate].
          unfold F_d. rewrite (L_not_deleted y) by (eapply alist_get_key; exact EL). unfold ovl. rewrite EL. discriminate.
        + destruct (memz y (map fst D)) eqn:En; [contradiction|]. apply Fd_ok; [|exact En]. now apply (pm_st _ Hm).
      - intros ch c0 Hc. rewrite Td. rewrite Tc in Hc. unfold F_c in Hc. rewrite (ti_c _ _ Hti) in Hc. unfold corr_c in Hc.
        destruct (cstates m ch) as [cm|] eqn:E0; [|discriminate].
        assert (Old : (if memz (c_dh cm) (map fst D) then None else Some cm) = Some c0 -> F_d (c_dh c0) <> None).
        { destruct (memz (c_dh cm) (map fst D)) eqn:En; [discriminate|]. intros [= <-].
          apply Fd_ok; [|exact En]. exact (pm_cs _ Hm ch cm E0). }
        destruct (alist_get (U ++ C) (c_dh cm)) as [d0|] eqn:EL; [|exact (Old Hc)].
        destruct (d_kind d0 =? K_CTX); [|exact (Old Hc)]. injection Hc as <-. cbn [corr_cstate c_dh].
        unfold F_d. rewrite (L_not_deleted (c_dh cm)) by (eapply alist_get_key; exact EL). unfold ovl. rewrite EL. discriminate.
    Qed.

    Lemma commit_tree_ok : tree_ok m -> dpar_ok m t -> tree_ok (handle_state_updates m1 t1).
    Proof.
      destruct commit_tables as (Td & _). cbv zeta in Td. intros Htr Hdp h d p Eh Ep. rewrite Td in *.
      assert (Keep : forall q, descrs m q <> None -> ~ In q (map fst D) -> F_d q <> None).
      { intros q Eq Hn. unfold F_d. apply memz_false in Hn. rewrite Hn. now apply DL_exists. }
      assert (Up : forall o, descrs m h = Some o -> d_parent o = Some p -> ~ In h (map fst D) -> F_d p <> None).
      { intros o Eo Epo Hn. apply Keep; [exact (Htr h o p Eo Epo)|].
        intros Hp. apply Hn. apply (Dh_closed (t_d t) b U C D Hb h p); [unfold par; now rewrite Eo|exact Hp]. }
      unfold F_d in Eh. destruct (memz h (map fst D)) eqn:Em; [discriminate|]. apply memz_false in Em. unfold ovl in Eh.
      destruct (alist_get (U ++ C) h) as [d0|] eqn:EL.
      - injection Eh as ->. apply alist_get_some_in in EL. apply in_app_or in EL. destruct EL as [HU|HC].
        + destruct (bi_U _ _ _ _ _ Hb _ _ HU) as ((o & Eo & Epar & _) & _). apply (Up o Eo); [congruence|exact Em].
        + destruct (bi_C _ _ _ _ _ Hb _ _ HC) as [Hpre En]. destruct (Hdp h d p Hpre En Ep) as [Ex|(d' & Hd')].
          * apply Keep; [exact Ex|]. intros Hp. apply (bi_D _ _ _ _ _ Hb) in Hp. destruct Hp as (_ & r & Hr & G).
            exact (nc_par h d p Hpre Ep r Hr G).
          * assert (HL : In (p, d') (U ++ C)).
            { apply in_or_app. destruct (descrs m p) eqn:Ex.
              - left. apply (bi_Uc _ _ _ _ _ Hb); [exact Hd'|congruence].
              - right. now apply (bi_Cc _ _ _ _ _ Hb). }
            unfold F_d. rewrite (L_not_deleted p) by (apply (in_map fst) in HL; exact HL).
            unfold ovl. rewrite (L_get p d' HL). discriminate.
      - apply (Up d Eh Ep Em).
    Qed.
  End Final.

  (* ================================================================ C01: mirror step for a descriptor transaction *)
  Theorem mirror_step_descr c :
    t_d t <> [] -> mirrors c m -> cdom_ok c ->
    let m' := commit_descr m t in
    let r := descr_report m t (cm_seq c) (cm_inst c) in
    let c' := fst (receive c r) in
    mirrors c' m' /\ cdom_ok c' /\ cm_seq c' = cm_seq c /\ cm_inst c' = cm_inst c /\ pm_ok m' /\
    exists R, (forall y, In y R <-> In y (map fst (tx_deleted m t))) /\
      snd (receive c r) = map (fun e => (N_UPD, fst e)) (tx_updated m t) ++
                          map (fun e => (N_NEW, fst e)) (tx_created m t) ++ map (fun y => (N_DEL, y)) R.
  Proof.
    intros Hne Hmir Hcd. cbv zeta. rewrite (commit_descr_run m t Hne). unfold descr_report, tx_updated, tx_created, tx_deleted.
    pose proof tx_run_inv as Hrun. destruct (tx_run m t) as [[[m1 t1] b] [[U C] D]]. cbn [fst snd].
    destruct (commit_tables m1 t1 b U C D Hrun) as (Td & Ts & Tc & Tv).
    destruct (consumer_tables m1 t1 b U C D Hrun c Hmir Hcd) as (Cd & Cs & Cc & Cv & Cm & Cq & Ci & Ck & Cn).
    cbv zeta in *. unfold the_parts in *.
    split; [|split; [exact Ck|split; [exact Cq|split; [exact Ci|split; [exact (commit_pm_ok m1 t1 b U C D Hrun)|exact Cn]]]]].
    split; [|split; [|split; [|split]]].
    - intros y. now rewrite Cd, Td.
    - intros y. now rewrite Cs, Ts.
    - intros ch. now rewrite Cc, Tc.
    - now rewrite Cv, Tv.
    - exact Cm.
  Qed.

  Theorem commit_descr_tree_ok : t_d t <> [] -> tree_ok m -> dpar_ok m t -> tree_ok (commit_descr m t).
  Proof.
    intros Hne Htr Hdp. rewrite (commit_descr_run m t Hne).
    pose proof tx_run_inv as Hrun. destruct (tx_run m t) as [[[m1 t1] b] [[U C] D]]. cbn [fst snd].
    exact (commit_tree_ok m1 t1 b U C D Hrun Htr Hdp).
  Qed.
End DescrCommit.

(* ================================================================ the well-formedness predicate, piecewise *)
(* what the API calls of a descriptor transaction guarantee by themselves *)
Record dshape (m : mdib) (t : tx) : Prop := {
  ds_c : t_c t = [];
  ds_nd : NoDup (map fst (t_d t));
  ds_ns : NoDup (map fst (t_s t));
  ds_st : forall h s, In (h, s) (t_s t) ->
            (exists d, In (h, Some d) (t_d t)) /\ (descrs m h <> None -> states m h <> None);
  ds_del : forall r, In (r, None) (t_d t) -> descrs m r <> None;
  ds_upd : forall h d o, In (h, Some d) (t_d t) -> descrs m h = Some o ->
             d_parent d = d_parent o /\ d_kind d = d_kind o
}.

(* the one thing neither the API calls nor the conflict check of process_transaction guarantee: the parent handle
   of a removed descriptor must not be a descriptor that the same transaction creates.  It holds whenever every
   parent handle of the MDIB refers to an existing descriptor: *)
Definition dpar_res (m : mdib) (t : tx) : Prop :=
  forall r o p, In (r, None) (t_d t) -> descrs m r = Some o -> d_parent o = Some p ->
                memz p (map fst (filter (is_create m) (t_d t))) = false.

Lemma tree_dpar_res m t : tree_ok m -> dpar_res m t.
Proof.
  intros Htr r o p Hr Eo Ep. destruct (memz p (map fst (filter (is_create m) (t_d t)))) eqn:E; [|reflexivity].
  apply (cr_of_spec m t p) in E. destruct E as (d & _ & En). exfalso. exact (Htr r o p Eo Ep En).
Qed.

Lemma dtx_ok_intro m t : dshape m t -> subtree_conflict m t = false -> dpar_res m t -> dtx_ok m t.
Proof. intros [A B C D E F] G I. constructor; assumption. Qed.

Lemma dtx_ok_elim m t : dtx_ok m t -> dshape m t /\ subtree_conflict m t = false /\ dpar_res m t.
Proof. intros [A B C D E F G I]. split; [constructor; assumption|split; assumption]. Qed.

(* --- the shape is what descriptor-transaction bodies build --- *)
Definition descr_action (a : action) : Prop :=
  match a with ADAdd _ _ _ _ _ | ADUpd _ _ | ADDel _ | ADState _ _ => True | _ => False end.
Definition descr_only (acts : list action) : Prop := forall a, In a acts -> descr_action a.

Lemma alist_set_keeps {A} (l : list (H * A)) h v e : alist_has l h = false -> In e l -> In e (alist_set l h v).
Proof.
  unfold alist_has. induction l as [|[k w] r IH]; cbn [alist_get alist_set]; [contradiction|].
  destruct (Z.eqb_spec h k) as [->|Hne]; [discriminate|]. intros Hn [<-|Hi]; [now left|right; now apply IH].
Qed.

Lemma alist_has_false_notin {A} (l : list (H * A)) h : alist_has l h = false -> ~ In h (map fst l).
Proof. unfold alist_has. intros E. apply alist_get_none. destruct (alist_get l h); [discriminate|reflexivity]. Qed.

Lemma empty_dshape m : dshape m empty_tx.
Proof. constructor; cbn; try reflexivity; try constructor; intros; contradiction. Qed.

Lemma dshape_add_d m t h x :
  dshape m t -> alist_has (t_d t) h = false ->
  (x = None -> descrs m h <> None) ->
  (forall d o, x = Some d -> descrs m h = Some o -> d_parent d = d_parent o /\ d_kind d = d_kind o) ->
  dshape m (mkTx (alist_set (t_d t) h x) (t_s t) (t_c t)).
Proof.
  intros [A B C D E F] Hf Hdel Hupd. constructor; cbn [t_d t_s t_c]; try assumption.
  - now apply alist_set_keys.
  - intros h0 s Hi. destruct (D h0 s Hi) as [(d & Hd) K]. split; [|exact K]. exists d. now apply alist_set_keeps.
  - intros r Hr. destruct (alist_set_in _ _ _ _ _ B Hr) as [[-> <-]|[_ Hold]]; [now apply Hdel|now apply E].
  - intros h0 d o Hi Eo. destruct (alist_set_in _ _ _ _ _ B Hi) as [[-> <-]|[_ Hold]]; [now apply (Hupd d o)|now apply (F h0 d o)].
Qed.

Lemma dshape_add_s m t h s :
  dshape m t -> (exists d, In (h, Some d) (t_d t)) -> (descrs m h <> None -> states m h <> None) ->
  dshape m (mkTx (t_d t) (alist_set (t_s t) h s) (t_c t)).
Proof.
  intros [A B C D E F] Hd Hk. constructor; cbn [t_d t_s t_c]; try assumption.
  - now apply alist_set_keys.
  - intros h0 s0 Hi. destruct (alist_set_in _ _ _ _ _ C Hi) as [[-> ->]|[_ Hold]]; [now split|exact (D h0 s0 Hold)].
Qed.

Lemma action_dshape m t a t' : descr_action a -> dshape m t -> apply_action 6 m t a = Ok t' -> dshape m t'.
Proof.
  intros Ha Hs. destruct a; cbn in Ha; try contradiction; cbn [apply_action].
  - (* add *) unfold d_add. destruct (alist_has (t_d t) h) eqn:Hf; [discriminate|].
    destruct (descrs m h) eqn:Ed; [discriminate|].
    set (d := mkDescr parent k (set_version (sv_d m) h 0) p).
    assert (S1 : dshape m (mkTx (alist_set (t_d t) h (Some d)) (t_s t) (t_c t))).
    { apply dshape_add_d; try assumption; [discriminate|]. intros d0 o _ Eo. congruence. }
    destruct (k =? K_CTX); [now intros [= <-]|]. destruct (alist_has (t_s t) h); [discriminate|]. intros [= <-].
    apply (dshape_add_s m _ h _ S1); cbn [t_d].
    + exists d. destruct (alist_set_keys (t_d t) h (Some d) (ds_nd _ _ Hs)) as [N1 _].
      apply alist_get_some_in. rewrite alist_get_set. now rewrite Z.eqb_refl.
    + intros Hn. congruence.
  - (* update *) unfold d_upd. destruct (alist_has (t_d t) h) eqn:Hf; [discriminate|].
    destruct (descrs m h) as [o|] eqn:Ed; [|discriminate]. intros [= <-].
    apply dshape_add_d; try assumption; [discriminate|]. intros d0 o0 [= <-] Eo. rewrite Ed in Eo. injection Eo as <-. now split.
  - (* delete *) unfold d_del. destruct (alist_has (t_d t) h) eqn:Hf; [discriminate|].
    destruct (descrs m h) as [o|] eqn:Ed; [|discriminate]. intros [= <-].
    apply dshape_add_d; try assumption; [intros _; congruence|discriminate].
  - (* state *) unfold d_state. destruct (alist_get (t_d t) h) as [[d|]|] eqn:Eg; try discriminate.
    destruct (d_kind d =? K_CTX); [discriminate|]. destruct (alist_has (t_s t) h); [discriminate|].
    destruct (states m h) as [s|] eqn:Es; [|discriminate]. intros [= <-].
    apply dshape_add_s; [exact Hs|exists d; now apply alist_get_some_in|intros _; congruence].
Qed.

Lemma body_dshape m : forall acts t t', descr_only acts -> dshape m t -> body 6 m t acts = Ok t' -> dshape m t'.
Proof.
  induction acts as [|a r IH]; intros t t' Ho Hs; cbn [body]; [now intros [= <-]|].
  destruct (apply_action 6 m t a) as [t1|e] eqn:E; [|discriminate].
  apply IH; [intros x Hx; apply Ho; now right|]. eapply action_dshape; [apply Ho; now left|exact Hs|exact E].
Qed.

(* --- a boolean twin of the well-formedness predicate (to evaluate it on concrete transactions) --- *)
Fixpoint nodupb (l : list H) : bool := match l with [] => true | a :: r => negb (memz a r) && nodupb r end.
Lemma nodupb_sound l : nodupb l = true -> NoDup l.
Proof.
  induction l as [|a r IH]; cbn [nodupb]; [constructor|]. intros E. apply andb_prop in E. destruct E as [E1 E2].
  constructor; [|now apply IH]. apply memz_false. now apply negb_true_iff in E1.
Qed.

Definition opt_h_eqb (a b : option H) : bool :=
  match a, b with Some x, Some y => Z.eqb x y | None, None => true | _, _ => false end.

Definition dtx_okb (m : mdib) (t : tx) : bool :=
  (match t_c t with [] => true | _ => false end) && nodupb (map fst (t_d t)) && nodupb (map fst (t_s t)) &&
  forallb (fun e => (match alist_get (t_d t) (fst e) with Some (Some _) => true | _ => false end) &&
                    (match descrs m (fst e), states m (fst e) with Some _, None => false | _, _ => true end)) (t_s t) &&
  forallb (fun e => match snd e, descrs m (fst e) with
                    | None, Some o => match d_parent o with
                                      | Some p => negb (memz p (map fst (filter (is_create m) (t_d t))))
                                      | None => true end
                    | None, None => false
                    | Some d, Some o => opt_h_eqb (d_parent d) (d_parent o) && Z.eqb (d_kind d) (d_kind o)
                    | Some d, None => true
                    end) (t_d t) &&
  negb (subtree_conflict m t).

Lemma dtx_okb_sound m t : dtx_okb m t = true -> dtx_ok m t.
Proof.
  intros E. unfold dtx_okb in E.
  apply andb_prop in E. destruct E as [E E6]. apply andb_prop in E. destruct E as [E E5]. apply andb_prop in E. destruct E as [E E4].
  apply andb_prop in E. destruct E as [E E3]. apply andb_prop in E. destruct E as [E1 E2].
  rewrite forallb_forall in E4, E5.
  constructor.
  - destruct (t_c t); [reflexivity|discriminate].
  - now apply nodupb_sound.
  - now apply nodupb_sound.
  - intros h s Hi. specialize (E4 _ Hi). cbn [fst] in E4. apply andb_prop in E4. destruct E4 as [X Y]. split.
    + destruct (alist_get (t_d t) h) as [[d|]|] eqn:G; try discriminate. exists d. now apply alist_get_some_in.
    + intros Hn. destruct (descrs m h); [|contradiction]. destruct (states m h); [discriminate|discriminate].
  - intros r Hr. specialize (E5 _ Hr). cbn [fst snd] in E5. destruct (descrs m r) as [o|]; [discriminate|discriminate].
  - intros h d o Hi Eo. specialize (E5 _ Hi). cbn [fst snd] in E5. rewrite Eo in E5.
    apply andb_prop in E5. destruct E5 as [X Y]. split; [|now apply Z.eqb_eq].
    unfold opt_h_eqb in X. destruct (d_parent d), (d_parent o); try discriminate; [apply Z.eqb_eq in X; now subst|reflexivity].
  - now apply negb_true_iff in E6.
  - intros r o p Hr Eo Ep. specialize (E5 _ Hr). cbn [fst snd] in E5. rewrite Eo, Ep in E5. now apply negb_true_iff in E5.
Qed.

(* a provider MDIB given by association lists is well-formed when the lists are *)
Lemma pm_ok_alists ds ss cs v a b c0 :
  nodupb (map fst cs) = true ->
  forallb (fun e => alist_has ds (fst e)) ss = true ->
  forallb (fun e => alist_has ds (c_dh (snd e))) cs = true ->
  pm_ok (mkMdib (fun h => alist_get ds h) (fun h => alist_get ss h) (fun h => alist_get cs h) v a b c0
                (map fst ds) (map fst cs)).
Proof.
  intros N S C. rewrite forallb_forall in S, C. constructor; cbn [descrs states cstates ddom cdom].
  - intros h Hh. destruct (alist_get ds h) eqn:E; [|contradiction]. eapply alist_get_key. exact E.
  - intros h Hh. destruct (alist_get cs h) eqn:E; [|contradiction]. eapply alist_get_key. exact E.
  - now apply nodupb_sound.
  - intros h Hh. destruct (alist_get ss h) as [s|] eqn:E; [|contradiction]. apply alist_get_some_in in E.
    specialize (S _ E). unfold alist_has in S. cbn [fst] in S. destruct (alist_get ds h); [discriminate|discriminate].
  - intros ch c1 E. apply alist_get_some_in in E. specialize (C _ E). unfold alist_has in C. cbn [fst snd] in C.
    destruct (alist_get ds (c_dh c1)); [discriminate|discriminate].
Qed.

(* ================================================================ the state reports that follow the description report *)
(* SdcProvider._send_episodic_reports sends, after the DescriptionModificationReport, the episodic metric / alert /
   component / context / operational / waveform reports of the same transaction with the same MdibVersion.  They
   carry states the description report has delivered already: the consumer ignores them. *)
Definition echo_of (m' : mdib) (seq inst : Z) (r : report) : Prop :=
  match r with
  | RState vg items => vg = mkVg (ver m') seq inst /\ forall h s, In (h, s) items -> states m' h = Some s
  | RCtx vg items => vg = mkVg (ver m') seq inst /\ forall h s, In (h, s) items -> cstates m' h = Some s
  | RDescr _ _ => False
  end.

Lemma echo_absorbed c m' r : mirrors c m' -> echo_of m' (cm_seq c) (cm_inst c) r ->
  let c' := fst (receive c r) in
  cm_descrs c' = cm_descrs c /\ cm_states c' = cm_states c /\ cm_cstates c' = cm_cstates c /\
  cm_ver c' = cm_ver c /\ cm_seq c' = cm_seq c /\ cm_inst c' = cm_inst c /\ cm_mode c' = cm_mode c /\
  cm_ddom c' = cm_ddom c /\ cm_cdom c' = cm_cdom c /\ snd (receive c r) = [].
Proof.
  intros (Md & Ms & Mc & Mv & Mm) He. cbv zeta. unfold receive.
  destruct r as [vg items|vg items|vg parts]; cbn [echo_of] in He; [| |contradiction]; destruct He as [-> Hit];
    cbn [report_vg vg_seq vg_inst]; rewrite Mm, !Z.eqb_refl; cbn [andb].
  - match goal with |- context [process ?c1 _] => rewrite (duplicate_state_report_noop c1 (mkVg (ver m') (cm_seq c) (cm_inst c)) items) end.
    + cbn. rewrite Mv. repeat split.
    + cbn. lia.
    + intros h s Hi. exists s. split; [cbn; rewrite Ms; now apply Hit|lia].
  - match goal with |- context [process ?c1 _] => rewrite (duplicate_ctx_report_noop c1 (mkVg (ver m') (cm_seq c) (cm_inst c)) items) end.
    + cbn. rewrite Mv. repeat split.
    + cbn. lia.
    + intros h s Hi. exists s. split; [cbn; rewrite Mc; now apply Hit|lia].
Qed.

Lemma echo_all m' rs : forall c, mirrors c m' -> cdom_ok c -> Forall (echo_of m' (cm_seq c) (cm_inst c)) rs ->
  let c' := receive_all c rs in
  mirrors c' m' /\ cdom_ok c' /\ cm_seq c' = cm_seq c /\ cm_inst c' = cm_inst c.
Proof.
  induction rs as [|r rs IH]; intros c Hmir Hcd Hf; cbn [receive_all]; [split; [exact Hmir|split; [exact Hcd|split; reflexivity]]|].
  inversion Hf as [|? ? Hr Hrs]; subst.
  destruct (echo_absorbed c m' r Hmir Hr) as (A & B & C & D & E & F & G & I & J & _). cbv zeta in *.
  destruct Hmir as (Md & Ms & Mc & Mv & Mm).
  assert (Hmir1 : mirrors (fst (receive c r)) m').
  { split; [|split; [|split; [|split]]]; [intros h; now rewrite A|intros h; now rewrite B|intros h; now rewrite C|congruence|congruence]. }
  assert (Hcd1 : cdom_ok (fst (receive c r))).
  { destruct Hcd as [X Y]. split; [rewrite A, I; exact X|rewrite C, J; exact Y]. }
  destruct (IH (fst (receive c r)) Hmir1 Hcd1) as (P & Q & R & S); [now rewrite E, F|].
  cbv zeta in *. split; [exact P|]. split; [exact Q|]. split; congruence.
Qed.

Definition kind_items (m' : mdib) (k : Z) (ts : list (H * state)) : list (H * state) :=
  filter (fun e => match kind_of m' (fst e) with Some k' => Z.eqb k' k | None => false end) ts.
Definition opt_report {A} (items : list A) (r : report) : list report := match items with [] => [] | _ => [r] end.

Definition echo_reports (m' : mdib) (t1 : tx) (seq inst : Z) : list report :=
  let vg := mkVg (ver m') seq inst in
  let st := fun k => opt_report (kind_items m' k (t_s t1)) (RState vg (kind_items m' k (t_s t1))) in
  st K_METRIC ++ st K_ALERT ++ st K_COMP ++
  opt_report (ctx_report_items t1) (RCtx vg (ctx_report_items t1)) ++ st K_OP ++ st K_RT.

Lemma echo_reports_ok m' t1 seq inst :
  (forall h s, In (h, s) (t_s t1) -> states m' h = Some s) ->
  (forall h s, In (h, s) (ctx_report_items t1) -> cstates m' h = Some s) ->
  Forall (echo_of m' seq inst) (echo_reports m' t1 seq inst).
Proof.
  intros Hs Hc. unfold echo_reports.
  assert (G : forall k, Forall (echo_of m' seq inst)
                (opt_report (kind_items m' k (t_s t1)) (RState (mkVg (ver m') seq inst) (kind_items m' k (t_s t1))))).
  { intros k. unfold opt_report. destruct (kind_items m' k (t_s t1)) eqn:E; [constructor|]. rewrite <- E.
    constructor; [|constructor]. split; [reflexivity|]. intros h s Hi. apply Hs. unfold kind_items in Hi.
    apply filter_In in Hi. apply Hi. }
  repeat (apply Forall_app; split); try apply G.
  unfold opt_report. destruct (ctx_report_items t1) eqn:E; [constructor|]. rewrite <- E in Hc |- *.
  constructor; [|constructor]. split; [reflexivity|exact Hc].
Qed.

(* everything the provider emits for a committed descriptor transaction *)
Definition descr_reports (m : mdib) (t : tx) (seq inst : Z) : list report :=
  descr_report m t seq inst :: echo_reports (commit_descr m t) (snd (fst (fst (tx_run m t)))) seq inst.

Theorem mirror_step_descr_all m t c :
  pm_ok m -> dtx_ok m t -> t_d t <> [] -> mirrors c m -> cdom_ok c ->
  let m' := commit_descr m t in
  let c' := receive_all c (descr_reports m t (cm_seq c) (cm_inst c)) in
  mirrors c' m' /\ cdom_ok c' /\ cm_seq c' = cm_seq c /\ cm_inst c' = cm_inst c /\ pm_ok m'.
Proof.
  intros Hm Ht Hne Hmir Hcd. cbv zeta. unfold descr_reports. cbn [receive_all].
  destruct (mirror_step_descr m t Hm Ht c Hne Hmir Hcd) as (M1 & K1 & S1 & I1 & P1 & _). cbv zeta in *.
  assert (He : Forall (echo_of (commit_descr m t) (cm_seq c) (cm_inst c))
                      (echo_reports (commit_descr m t) (snd (fst (fst (tx_run m t)))) (cm_seq c) (cm_inst c))).
  { rewrite (commit_descr_run m t Hne).
    pose proof (tx_run_inv m t Hm Ht) as Hrun. destruct (tx_run m t) as [[[m1 t1] b] [[U C] D]]. cbn [fst snd].
    destruct (commit_tables m t m1 t1 b U C D Hrun) as (_ & Ts & Tc & _). cbv zeta in *.
    pose proof (t1_no_deletion m t m1 t1 b U C D Hrun) as Hnd.
    pose proof (items_nodup m t m1 t1 b U C D Hrun) as Hin.
    destruct Hrun as (_ & Hti & _).
    apply echo_reports_ok.
    - intros h s Hi. rewrite Ts. unfold F_s. now rewrite (alist_get_in _ _ _ (ti_sn _ _ _ _ Hti) Hi).
    - intros h s Hi. apply (alist_get_in _ _ _ Hin) in Hi. rewrite (ctx_report_items_get t1 h Hnd) in Hi.
      rewrite Tc. unfold F_c. destruct (alist_get (t_c t1) h) as [[x|]|]; try discriminate. exact Hi. }
  set (c1 := fst (receive c (descr_report m t (cm_seq c) (cm_inst c)))) in *.
  rewrite <- S1, <- I1 in He |- *.
  destruct (echo_all (commit_descr m t) _ c1 M1 K1 He) as (A & B & C & D). cbv zeta in *.
  split; [exact A|]. split; [exact B|]. split; [congruence|]. split; [congruence|exact P1].
Qed.

(* ================================================================ invariants across state and context transactions *)
Lemma upd_states_doms items : forall c, cm_ddom (fst (upd_states c items)) = cm_ddom c /\ cm_cdom (fst (upd_states c items)) = cm_cdom c.
Proof.
  induction items as [|[h s] r IH]; intros c; cbn [upd_states]; [split; reflexivity|].
  set (acc := match cm_states c h with Some o => s_ver o <? s_ver s | None => true end).
  destruct (upd_states (if acc then put_cs c h s else c) r) as [c2 ns] eqn:E. cbn [fst].
  specialize (IH (if acc then put_cs c h s else c)). rewrite E in IH. cbn [fst] in IH.
  destruct IH as [A B]. destruct acc; cbn in *; split; congruence.
Qed.

Lemma upd_cstates_cdom_ok items : forall c, cdom_ok c -> cdom_ok (fst (upd_cstates c items)).
Proof.
  induction items as [|[h s] r IH]; intros c Hc; cbn [upd_cstates]; [exact Hc|].
  set (acc := match cm_cstates c h with Some o => c_ver o <? c_ver s | None => true end).
  destruct (upd_cstates (if acc then put_cc c h (Some s) else c) r) as [c2 ns] eqn:E. cbn [fst].
  specialize (IH (if acc then put_cc c h (Some s) else c)). rewrite E in IH. cbn [fst] in IH. apply IH.
  destruct acc; [|exact Hc]. destruct Hc as [A B]. split; cbn; [exact A|].
  intros x Hx. apply add_dom_In. unfold upd in Hx. destruct (Z.eqb_spec h x) as [->|]; [now left|right; now apply B].
Qed.

Lemma process_cdom_ok c r : cdom_ok c -> cdom_ok (fst (process c r)).
Proof.
  intros Hc. unfold process. destruct (vg_ver (report_vg r) <? cm_ver c); [exact Hc|].
  assert (H1 : cdom_ok (set_vg c (report_vg r))) by exact Hc.
  destruct r as [vg items|vg items|vg parts]; cbn [report_vg] in *.
  - destruct (upd_states_frame items (set_vg c vg)) as (A & B & _). destruct (upd_states_doms items (set_vg c vg)) as [C D].
    cbv zeta in *. destruct H1 as [X Y]. split; [rewrite A, C; exact X|rewrite B, D; exact Y].
  - now apply upd_cstates_cdom_ok.
  - now apply apply_parts_cdom_ok.
Qed.

Lemma receive_cdom_ok c r : cdom_ok c -> cdom_ok (fst (receive c r)).
Proof.
  intros Hc. unfold receive.
  set (mode1 := match cm_mode c with CInitialized => _ | m0 => m0 end).
  destruct mode1; cbn [fst]; [exact Hc|exact Hc|]. apply process_cdom_ok. exact Hc.
Qed.

Lemma receive_seq_inst c r : cm_seq (fst (receive c r)) = cm_seq c /\ cm_inst (fst (receive c r)) = cm_inst c.
Proof.
  unfold receive.
  destruct (cm_mode c); cbn [fst cm_seq cm_inst]; try (split; reflexivity).
  destruct ((vg_seq (report_vg r) =? cm_seq c) && (vg_inst (report_vg r) =? cm_inst c)) eqn:Es;
    cbn [fst cm_seq cm_inst]; [|split; reflexivity].
  apply andb_prop in Es. destruct Es as [E1 E2]. apply Z.eqb_eq in E1, E2.
  unfold process. cbn [cm_ver]. destruct (vg_ver (report_vg r) <? cm_ver c); [split; reflexivity|].
  match goal with |- context [set_vg ?c1 _] => set (c0 := c1) end.
  destruct r as [vg items|vg items|vg parts]; cbn [report_vg] in *.
  - destruct (upd_states_frame items (set_vg c0 vg)) as (_ & _ & _ & S & I & _). cbv zeta in *. rewrite S, I. cbn. now split.
  - destruct (upd_cstates_frame items (set_vg c0 vg)) as (_ & _ & _ & S & I & _). cbv zeta in *. rewrite S, I. cbn. now split.
  - destruct (apply_parts_hdr parts (set_vg c0 vg)) as (_ & S & I & _). rewrite S, I. cbn. now split.
Qed.

Lemma commit_states_doms_s m t : t_c t = [] ->
  ddom (commit_states m t) = ddom m /\ cdom (commit_states m t) = cdom m.
Proof.
  intros Hc. unfold commit_states, handle_state_updates. rewrite Hc. destruct (t_s t) as [|e l]; [split; reflexivity|].
  cbn [fold_left]. destruct (fold_put_state_frame l (put_state (bump_ver m) (fst e) (snd e))) as (_ & _ & _ & _ & A & B).
  cbv zeta in *. rewrite A, B. split; reflexivity.
Qed.

Lemma commit_states_pm_ok_state k m t : stx_ok k m t -> pm_ok m -> pm_ok (commit_states m t).
Proof.
  intros Hok [A B C D E]. destruct (commit_states_pointwise k m t Hok) as (S & Dd & Cc & _).
  destruct (commit_states_doms_s m t (sx_c _ _ _ Hok)) as [Fd Fc].
  constructor.
  - intros h. rewrite Dd, Fd. apply A.
  - intros h. rewrite Cc, Fc. apply B.
  - now rewrite Fc.
  - intros h. rewrite S, Dd. destruct (alist_get (t_s t) h) as [s|] eqn:G; [|apply D].
    intros _. apply alist_get_some_in in G. destruct (sx_items _ _ _ Hok _ _ G) as (o & Eo & _). apply D. congruence.
  - intros ch c0. rewrite Cc, Dd. apply E.
Qed.

Lemma commit_states_pm_ok_ctx m t : ctx_ok m t -> pm_ok m -> pm_ok (commit_states m t).
Proof.
  intros Hok [A B C D E]. destruct (commit_ctx_pointwise m t Hok) as (Dd & Ss & P & _).
  assert (Doms : ddom (commit_states m t) = ddom m /\
                 (forall x, In x (cdom (commit_states m t)) <-> In x (cdom m) \/ (t_c t <> [] /\ In x (map fst (t_c t)))) /\
                 NoDup (cdom (commit_states m t))).
  { unfold commit_states, handle_state_updates. rewrite (cx_s _ _ Hok). destruct (t_c t) as [|e l] eqn:El.
    - split; [reflexivity|]. split; [|exact C]. intros x. split; [now left|intros [Hx|[Hx _]]; [exact Hx|contradiction]].
    - rewrite <- El. cbn [fold_left]. split; [now rewrite ddom_fold_put|]. split.
      + intros x. rewrite cdom_fold_put. cbn [bump_ver cdom]. split; intros [Hx|Hx]; try (now left).
        * right. split; [rewrite El; discriminate|exact Hx].
        * right. apply Hx.
      + apply cdom_fold_put_nodup. exact C. }
  destruct Doms as (Fd & Fc & Fn).
  constructor.
  - intros h. rewrite Dd, Fd. apply A.
  - intros h Hh. apply Fc. rewrite P in Hh. destruct (alist_get (t_c t) h) as [x|] eqn:G; [|left; now apply B].
    right. split; [intros En; rewrite En in G; discriminate|eapply alist_get_key; exact G].
  - exact Fn.
  - intros h. rewrite Ss, Dd. apply D.
  - intros ch c0. rewrite P, Dd. destruct (alist_get (t_c t) ch) as [x|] eqn:G; [|apply E].
    intros ->. apply alist_get_some_in in G. pose proof (cx_items _ _ Hok _ _ G) as I. unfold item_ok in I.
    destruct (cstates m ch) as [o|] eqn:Eo.
    + destruct I as (_ & Edh & _). rewrite Edh. exact (E ch o Eo).
    + destruct I as (_ & d & Ed & _). congruence.
Qed.

(* ================================================================ C01: histories of all three kinds of transaction *)
(* provider and consumer side by side: every committed, non-empty transaction sends its report(s), which the
   consumer processes before the next transaction *)
Definition pc_step3 (seq inst : Z) (mc : mdib * cmdib) (x : txn) : mdib * cmdib :=
  let '(m, c) := mc in
  let '(k, ab, acts) := x in
  match ab, body k m empty_tx acts with
  | None, Ok t =>
      if Z.eqb k 6 then
        if subtree_conflict m t || orphan_create m t then (m, c)   (* ApiUsageError: nothing changes, nothing is sent *)
        else
        match t_d t with
        | [] => (m, c)
        | _ => (commit_descr m t, receive_all c (descr_reports m t seq inst))
        end
      else if Z.eqb k 5 then
        match t_c t with
        | [] => (m, c)
        | _ => let m' := commit_states m t in
               (m', fst (receive c (RCtx (mkVg (ver m') seq inst) (ctx_report_items t))))
        end
      else
        match t_s t with
        | [] => (m, c)
        | _ => let m' := commit_states m t in (m', fst (receive c (state_report m' seq inst t)))
        end
  | _, _ => (m, c)
  end.

(* process_transaction refuses a transaction that would create an orphan: what passes creates none *)
Lemma orphan_create_dpar_ok m t : orphan_create m t = false -> dpar_ok m t.
Proof.
  intros E h d p Hin En Ep. pose proof (existsb_false _ _ E (h, Some d) Hin) as G. cbn [fst snd] in G.
  unfold is_create in G. cbn [fst snd] in G. rewrite En, Ep in G. cbn [andb] in G.
  destruct (descrs m p) eqn:Ex; [left; discriminate|]. rewrite andb_true_r in G. apply negb_false_iff in G.
  right. apply (cr_of_spec m t p) in G. destruct G as (d' & Hd' & _). now exists d'.
Qed.

(* admissible transactions, relative to the MDIB they are applied to: state transactions of any kind; context
   transactions that report everything they do (no deletion through the entity interface - the known finding);
   descriptor transactions of ANY add / update / remove / get_state calls - what process_transaction refuses
   (subtree_conflict, orphan_create) changes nothing and sends nothing *)
Definition txn_ok (m : mdib) (x : txn) : Prop :=
  let '(k, ab, acts) := x in
  (0 <= k < 5 /\ state_only acts) \/
  (k = 5 /\ ctx_only acts /\ fresh_ok m acts /\ forall t, body 5 m empty_tx acts = Ok t -> no_deletion t) \/
  (k = 6 /\ descr_only acts).

Fixpoint hist_ok (m : mdib) (hist : list txn) : Prop :=
  match hist with
  | [] => True
  | x :: r => txn_ok m x /\ hist_ok (exec1 m x) r
  end.

Definition sys_ok (seq inst : Z) (m : mdib) (c : cmdib) : Prop :=
  mirrors c m /\ cdom_ok c /\ pm_ok m /\ tree_ok m /\ cm_seq c = seq /\ cm_inst c = inst.

Lemma pc_step3_ok seq inst m c x : txn_ok m x -> sys_ok seq inst m c ->
  fst (pc_step3 seq inst (m, c) x) = exec1 m x /\
  sys_ok seq inst (fst (pc_step3 seq inst (m, c) x)) (snd (pc_step3 seq inst (m, c) x)).
Proof.
  intros Hx (Hmir & Hcd & Hpm & Htr & Hs & Hi). destruct x as [[k ab] acts]. unfold pc_step3, exec1.
  assert (Same : sys_ok seq inst m c) by exact (conj Hmir (conj Hcd (conj Hpm (conj Htr (conj Hs Hi))))).
  destruct ab as [n|].
  { cbn [fst snd]. split; [symmetry; apply abort_never_commits|exact Same]. }
  unfold transaction. destruct (body k m empty_tx acts) as [t|e] eqn:B; [|cbn [fst snd]; split; [now destruct e|exact Same]].
  destruct Hx as [[Hk Ho]|[(-> & Ho & Hf & Hnd)|(-> & Ho)]].
  - (* state transaction *)
    assert (Hok : stx_ok k m t) by (eapply body_state_ok; try eassumption; apply empty_stx_ok).
    replace (k =? 6) with false by lia. replace (k =? 5) with false by lia. cbn [fst].
    destruct (t_s t) as [|i0 l0] eqn:Et.
    + cbn [fst snd]. split; [symmetry; apply commit_states_empty; [exact Et|apply (sx_c _ _ _ Hok)]|exact Same].
    + cbn [fst snd]. split; [reflexivity|].
      assert (Hne : t_s t <> []) by (rewrite Et; discriminate).
      destruct (mirror_step_state_tx k m t c Hok Hne Hmir) as [Mi _]. cbv zeta in Mi. subst seq inst.
      destruct (receive_seq_inst c (state_report (commit_states m t) (cm_seq c) (cm_inst c) t)) as [Rs Ri].
      split; [exact Mi|]. split; [now apply receive_cdom_ok|]. split; [eapply commit_states_pm_ok_state; eassumption|].
      split; [|now split].
      destruct (commit_states_pointwise k m t Hok) as (_ & Dd & _). unfold tree_ok. rewrite Dd. exact Htr.
  - (* context transaction *)
    assert (Hok : ctx_ok m t) by (eapply body_ctx_ok; try eassumption; apply empty_ctx_ok).
    change (5 =? 6) with false. change (5 =? 5) with true. cbv iota. cbn [fst].
    destruct (t_c t) as [|i0 l0] eqn:Et.
    + cbn [fst snd]. split; [symmetry; apply commit_states_empty; [apply (cx_s _ _ Hok)|exact Et]|exact Same].
    + cbn [fst snd]. split; [reflexivity|].
      assert (Hne : t_c t <> []) by (rewrite Et; discriminate).
      destruct (mirror_step_ctx_tx m t c Hok (Hnd t B) Hne Hmir) as [Mi _]. cbv zeta in Mi. subst seq inst.
      match goal with |- context [receive c ?r] => destruct (receive_seq_inst c r) as [Rs Ri] end.
      split; [exact Mi|]. split; [now apply receive_cdom_ok|]. split; [now apply commit_states_pm_ok_ctx|].
      split; [|now split].
      destruct (commit_ctx_pointwise m t Hok) as (Dd & _). unfold tree_ok. rewrite Dd. exact Htr.
  - (* descriptor transaction *)
    change (6 =? 6) with true. cbv iota.
    destruct (subtree_conflict m t) eqn:Ec; [cbn [orb fst snd]; split; [reflexivity|exact Same]|].
    destruct (orphan_create m t) eqn:Eor; [cbn [orb fst snd]; split; [reflexivity|exact Same]|].
    cbn [orb fst].
    destruct (t_d t) as [|i0 l0] eqn:Et.
    + cbn [fst snd]. split; [symmetry; now apply commit_descr_empty|exact Same].
    + cbn [fst snd]. split; [reflexivity|].
      assert (Hne : t_d t <> []) by (rewrite Et; discriminate).
      assert (Hok : dtx_ok m t).
      { apply dtx_ok_intro; [|exact Ec|now apply tree_dpar_res]. eapply body_dshape; [exact Ho|apply empty_dshape|exact B]. }
      subst seq inst.
      destruct (mirror_step_descr_all m t c Hpm Hok Hne Hmir Hcd) as (A1 & A2 & A3 & A4 & A5). cbv zeta in *.
      split; [exact A1|]. split; [exact A2|]. split; [exact A5|].
      split; [exact (commit_descr_tree_ok m t Hpm Hok Hne Htr (orphan_create_dpar_ok m t Eor))|now split].
Qed.

Theorem mirror_history3 seq inst hist : forall m c,
  hist_ok m hist -> sys_ok seq inst m c ->
  let '(m', c') := fold_left (pc_step3 seq inst) hist (m, c) in
  m' = exec m hist /\ sys_ok seq inst m' c'.
Proof.
  induction hist as [|x r IH]; intros m c Hh Hs; cbn [fold_left].
  - split; [reflexivity|exact Hs].
  - destruct Hh as [Hx Hr]. destruct (pc_step3_ok seq inst m c x Hx Hs) as [E S].
    destruct (pc_step3 seq inst (m, c) x) as [m1 c1]. cbn [fst snd] in *. subst m1.
    specialize (IH (exec1 m x) c1 Hr S).
    destruct (fold_left (pc_step3 seq inst) r (exec1 m x, c1)) as [m' c']. exact IH.
Qed.

(* ================================================================ statements used by Props/C06.v and Props/C01.v *)
Theorem del_part_frame c h d S CS modi : modi <> 0 -> modi <> 1 ->
  let sub := csubtree c h in
  let r := apply_part c (mkDPart modi [(h, d)] S CS) in
  let c' := fst (fst r) in
  snd r = false /\ snd (fst r) = map (fun x => (N_DEL, x)) sub /\
  (forall x, cm_descrs c' x = if memz x sub then None else cm_descrs c x) /\
  (forall x, cm_states c' x = if memz x sub then None else cm_states c x) /\
  (forall ch, cm_cstates c' ch =
              match cm_cstates c ch with
              | Some s => if memz ch (cm_cdom c) && memz (c_dh s) sub then None else Some s
              | None => None
              end) /\
  cm_ver c' = cm_ver c /\ cm_seq c' = cm_seq c /\ cm_inst c' = cm_inst c /\ cm_mode c' = cm_mode c.
Proof.
  intros H0 H1. cbv zeta. rewrite (del_part_single c h d S CS modi H0 H1). cbn [fst snd].
  destruct (crm_sub_frame c h) as (A & B & C & D & E & F & G). cbv zeta in *.
  split; [reflexivity|]. split; [reflexivity|]. split; [exact A|]. split; [exact B|]. split; [exact C|].
  split; [exact D|]. split; [exact E|]. split; [exact F|exact G].
Qed.

Lemma tx_deleted_spec m t : pm_ok m -> dtx_ok m t -> forall y,
  In y (map fst (tx_deleted m t)) <->
  descrs m y <> None /\ exists r, In (r, None) (t_d t) /\ reachR (descrs m) y r.
Proof.
  intros Hm Ht y. unfold tx_deleted. pose proof (tx_run_inv m t Hm Ht) as Hrun.
  destruct (tx_run m t) as [[[m1 t1] b] [[U C] D]]. cbn [fst snd]. destruct Hrun as (_ & _ & Hb).
  apply (bi_D _ _ _ _ _ _ _ Hb).
Qed.

Theorem descr_body_wellformed m acts t :
  descr_only acts -> body 6 m empty_tx acts = Ok t -> subtree_conflict m t || orphan_create m t = false ->
  tree_ok m -> dtx_ok m t /\ dpar_ok m t.
Proof.
  intros Ho B Hc Htr. apply orb_false_elim in Hc. destruct Hc as [Hc Hor].
  split; [|now apply orphan_create_dpar_ok]. apply dtx_ok_intro; [|exact Hc|now apply tree_dpar_res].
  eapply body_dshape; [exact Ho|apply empty_dshape|exact B].
Qed.

Definition dpar_okb (m : mdib) (t : tx) : bool :=
  forallb (fun e => match snd e, descrs m (fst e) with
                    | Some d, None => match d_parent d with
                                      | Some p => (match descrs m p with Some _ => true | None => false end) ||
                                                  (match alist_get (t_d t) p with Some (Some _) => true | _ => false end)
                                      | None => true
                                      end
                    | _, _ => true
                    end) (t_d t).

Lemma dpar_okb_sound m t : dpar_okb m t = true -> dpar_ok m t.
Proof.
  unfold dpar_okb. rewrite forallb_forall. intros E h d p Hin En Ep. specialize (E _ Hin). cbn [fst snd] in E.
  rewrite En, Ep in E. apply orb_prop in E. destruct E as [E|E].
  - left. destruct (descrs m p); [discriminate|discriminate].
  - right. destruct (alist_get (t_d t) p) as [[d'|]|] eqn:G; try discriminate. exists d'. now apply alist_get_some_in.
Qed.
