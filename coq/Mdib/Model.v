(* Executable model of the provider MDIB and its transactions
   (src/sdc11073/mdib/providermdib.py, transactions.py, mdibbase.py).  Definitions only.

   Handles are integers (the harness interns the handle strings).  Payloads are opaque tokens: the
   content of a descriptor / state apart from the handles, version counters and the context
   association bookkeeping (their XML round trip is C05/C18's business).

   Tables are total functions  H -> option _  (absent = None); [ddom]/[cdom] list every handle that
   was ever used, so that "all descriptors below X" / "all context states of descriptor X" are
   computable. *)
From Coq Require Import List ZArith Bool.
Import ListNotations.
Open Scope Z_scope.

Definition H := Z.

(* kinds of descriptors = which state transaction / report they belong to *)
Definition K_METRIC := 0.  Definition K_ALERT := 1.  Definition K_COMP := 2.
Definition K_OP := 3.      Definition K_RT := 4.     Definition K_CTX := 5.

Record descr := mkDescr { d_parent : option H; d_kind : Z; d_ver : Z; d_pay : Z }.
Record state := mkState { s_dver : Z; s_ver : Z; s_pay : Z }.
(* association: 0 = No (not associated), 1 = Pre, 2 = Assoc, 3 = Dis *)
Record cstate := mkCState { c_dh : H; c_dver : Z; c_ver : Z; c_assoc : Z;
                            c_bind : option Z; c_unbind : option Z; c_pay : Z }.

Record mdib := mkMdib {
  descrs : H -> option descr;
  states : H -> option state;             (* keyed by descriptor handle *)
  cstates : H -> option cstate;           (* keyed by context state handle *)
  ver : Z;                                (* MdibVersion *)
  sv_d : H -> option Z;                   (* descriptions.handle_version_lookup *)
  sv_s : H -> option Z;                   (* states.handle_version_lookup *)
  sv_c : H -> option Z;                   (* context_states.handle_version_lookup *)
  ddom : list H;                          (* every descriptor handle ever used *)
  cdom : list H                           (* every context state handle ever used *)
}.

Definition upd {A} (f : H -> option A) (h : H) (v : option A) : H -> option A :=
  fun h' => if Z.eqb h h' then v else f h'.

Definition memz (h : H) (l : list H) : bool := existsb (Z.eqb h) l.
Definition add_dom (h : H) (l : list H) : list H := if memz h l then l else l ++ [h].

(* ---------------------------------------------------------------- transaction items *)
(* TransactionItem(old, new): we only need the new value; old is looked up in the MDIB at commit *)
Record tx := mkTx {
  t_d : list (H * option descr);        (* descriptor_updates: Some d = create/update, None = delete *)
  t_s : list (H * state);               (* the five single-state update dictionaries *)
  t_c : list (H * option cstate)        (* context_state_updates: None = delete (entity interface) *)
}.
Definition empty_tx : tx := mkTx [] [] [].

Fixpoint alist_get {A} (l : list (H * A)) (h : H) : option A :=
  match l with
  | [] => None
  | (k, v) :: r => if Z.eqb h k then Some v else alist_get r h
  end.
Fixpoint alist_set {A} (l : list (H * A)) (h : H) (v : A) : list (H * A) :=
  match l with
  | [] => [(h, v)]
  | (k, w) :: r => if Z.eqb h k then (k, v) :: r else (k, w) :: alist_set r h v
  end.
Definition alist_has {A} (l : list (H * A)) (h : H) : bool :=
  match alist_get l h with Some _ => true | None => false end.

Inductive err := EKey | EValue | EApi.      (* KeyError | ValueError | ApiUsageError *)
Inductive res (A : Type) := Ok (a : A) | Rej (e : err).
Arguments Ok {A}. Arguments Rej {A}.

Definition kind_of (m : mdib) (h : H) : option Z :=
  match descrs m h with Some d => Some (d_kind d) | None => None end.

(* ---------------------------------------------------------------- state transactions *)
(* StateTransactionBase.get_state / write_entity for the transaction of kind k; the application then
   writes payload p into the copy *)
Definition st_get (k : Z) (m : mdib) (t : tx) (h : H) (p : Z) : res tx :=
  if alist_has (t_s t) h then Rej EValue else
  match states m h with
  | None => Rej EKey
  | Some s =>
      match kind_of m h with
      | Some k' => if Z.eqb k k' then
                     Ok (mkTx (t_d t) (alist_set (t_s t) h (mkState (s_dver s) (s_ver s + 1) p)) (t_c t))
                   else Rej EApi
      | None => Rej EApi
      end
  end.

(* ---------------------------------------------------------------- context transactions *)
Definition set_version (sv : H -> option Z) (h : H) (v0 : Z) : Z :=
  match sv h with Some v => v + 1 | None => v0 end.

(* mk_context_state(dh, handle, set_associated): [explicit] tells whether the application gave the handle
   (only then the saved version is consulted); binding version = version the commit will create *)
Definition ctx_mk (m : mdib) (t : tx) (dh h : H) (explicit assoc : bool) (p : Z) : res tx :=
  if alist_has (t_c t) h then Rej EValue else
  match descrs m dh with
  | None => Rej EKey
  | Some d =>
      if negb (Z.eqb (d_kind d) K_CTX) then Rej EValue else
      if explicit && (match cstates m h with Some _ => true | None => false end) then Rej EValue else
      let v := if explicit then set_version (sv_c m) h 0 else 0 in
      Ok (mkTx (t_d t) (t_s t)
               (alist_set (t_c t) h
                  (Some (mkCState dh (d_ver d) v (if assoc then 2 else 0)
                                  (if assoc then Some (ver m + 1) else None) None p))))
  end.

(* get_context_state(h) followed by the application's writes: payload p and optionally the association *)
Definition ctx_get (m : mdib) (t : tx) (h : H) (p : Z) (assoc : option Z) : res tx :=
  if alist_has (t_c t) h then Rej EValue else
  match cstates m h with
  | None => Rej EKey
  | Some c =>
      Ok (mkTx (t_d t) (t_s t)
               (alist_set (t_c t) h
                  (Some (mkCState (c_dh c) (c_dver c) (c_ver c + 1)
                                  (match assoc with Some a => a | None => c_assoc c end)
                                  (c_bind c) (c_unbind c) p))))
  end.

(* disassociate_all(dh, ignored) *)
Definition ctx_disall (m : mdib) (t : tx) (dh : H) (ignored : option H) : res tx :=
  Ok (fold_left
        (fun t' h =>
           match cstates m h with
           | Some c =>
               if negb (Z.eqb (c_dh c) dh) then t' else
               if (match ignored with Some i => Z.eqb i h | None => false end) || alist_has (t_c t') h then t' else
               if negb (Z.eqb (c_assoc c) 3) || (match c_unbind c with None => true | Some _ => false end) then
                 mkTx (t_d t') (t_s t')
                      (alist_set (t_c t') h
                         (Some (mkCState (c_dh c) (c_dver c) (c_ver c + 1) 3 (c_bind c)
                                         (match c_unbind c with None => Some (ver m + 1) | u => u end)
                                         (c_pay c))))
               else t'
           | None => t'
           end)
        (cdom m) t).

(* entity interface: delete a context state *)
Definition ctx_del (m : mdib) (t : tx) (h : H) : res tx :=
  match cstates m h with
  | None => Rej EKey
  | Some _ => Ok (mkTx (t_d t) (t_s t) (alist_set (t_c t) h None))
  end.

(* ---------------------------------------------------------------- descriptor transactions *)
Definition d_add (m : mdib) (t : tx) (h : H) (parent : option H) (k p sp : Z) : res tx :=
  if alist_has (t_d t) h then Rej EValue else
  match descrs m h with
  | Some _ => Rej EValue
  | None =>
      let dv := set_version (sv_d m) h 0 in
      let t1 := mkTx (alist_set (t_d t) h (Some (mkDescr parent k dv p))) (t_s t) (t_c t) in
      if Z.eqb k K_CTX then Ok t1 else
      if alist_has (t_s t) h then Rej EValue else
      Ok (mkTx (t_d t1) (alist_set (t_s t1) h (mkState dv (set_version (sv_s m) h 0) sp)) (t_c t1))
  end.

Definition d_upd (m : mdib) (t : tx) (h : H) (p : Z) : res tx :=
  if alist_has (t_d t) h then Rej EValue else
  match descrs m h with
  | None => Rej EKey
  | Some d => Ok (mkTx (alist_set (t_d t) h (Some (mkDescr (d_parent d) (d_kind d) (d_ver d + 1) p))) (t_s t) (t_c t))
  end.

Definition d_del (m : mdib) (t : tx) (h : H) : res tx :=
  if alist_has (t_d t) h then Rej EValue else
  match descrs m h with
  | None => Rej EKey
  | Some _ => Ok (mkTx (alist_set (t_d t) h None) (t_s t) (t_c t))
  end.

(* DescriptorTransaction.get_state *)
Definition d_state (m : mdib) (t : tx) (h : H) (p : Z) : res tx :=
  match alist_get (t_d t) h with
  | None | Some None => Rej EApi
  | Some (Some d) =>
      if Z.eqb (d_kind d) K_CTX then Rej EApi else
      if alist_has (t_s t) h then Rej EValue else
      match states m h with
      | None => Rej EKey
      | Some s => Ok (mkTx (t_d t) (alist_set (t_s t) h (mkState (s_dver s) (s_ver s + 1) p)) (t_c t))
      end
  end.

(* ---------------------------------------------------------------- commit *)
(* remove + add of a single state (remove saves the old version) *)
Definition put_state (m : mdib) (h : H) (s : state) : mdib :=
  mkMdib (descrs m) (upd (states m) h (Some s)) (cstates m) (ver m) (sv_d m)
         (match states m h with Some o => upd (sv_s m) h (Some (s_ver o)) | None => sv_s m end)
         (sv_c m) (ddom m) (cdom m).
Definition put_cstate (m : mdib) (h : H) (c : option cstate) : mdib :=
  mkMdib (descrs m) (states m) (upd (cstates m) h c) (ver m) (sv_d m) (sv_s m)
         (match cstates m h with Some o => upd (sv_c m) h (Some (c_ver o)) | None => sv_c m end)
         (ddom m) (add_dom h (cdom m)).

Definition handle_state_updates (m : mdib) (t : tx) : mdib :=
  let m1 := fold_left (fun m' e => put_state m' (fst e) (snd e)) (t_s t) m in
  fold_left (fun m' e => put_cstate m' (fst e) (snd e)) (t_c t) m1.

Definition bump_ver (m : mdib) : mdib :=
  mkMdib (descrs m) (states m) (cstates m) (ver m + 1) (sv_d m) (sv_s m) (sv_c m) (ddom m) (cdom m).

(* state / context transaction commit *)
Definition commit_states (m : mdib) (t : tx) : mdib :=
  match t_s t, t_c t with
  | [], [] => m
  | _, _ => handle_state_updates (bump_ver m) t
  end.

(* --- descriptor part --- *)
Fixpoint reaches (m : mdib) (fuel : nat) (h root : H) : bool :=
  if Z.eqb h root then true else
  match fuel with
  | O => false
  | S f => match descrs m h with
           | Some d => match d_parent d with Some p => reaches m f p root | None => false end
           | None => false
           end
  end.
Definition subtree (m : mdib) (root : H) : list H :=
  filter (fun h => match descrs m h with Some _ => reaches m (length (ddom m)) h root | None => false end) (ddom m).

Definition set_descr (m : mdib) (h : H) (d : option descr) : mdib :=
  mkMdib (upd (descrs m) h d) (states m) (cstates m) (ver m)
         (match d, descrs m h with None, Some o => upd (sv_d m) h (Some (d_ver o)) | _, _ => sv_d m end)
         (sv_s m) (sv_c m) (add_dom h (ddom m)) (cdom m).

(* rm_descriptors_and_states for one descriptor *)
Definition rm_one (m : mdib) (h : H) : mdib :=
  let m1 := set_descr m h None in
  let m2 := match states m1 h with
            | Some s => mkMdib (descrs m1) (upd (states m1) h None) (cstates m1) (ver m1) (sv_d m1)
                               (upd (sv_s m1) h (Some (s_ver s))) (sv_c m1) (ddom m1) (cdom m1)
            | None => m1
            end in
  fold_left (fun m' ch => match cstates m' ch with
                          | Some c => if Z.eqb (c_dh c) h then put_cstate m' ch None else m'
                          | None => m'
                          end) (cdom m2) m2.

(* _update_corresponding_state for descriptor h (taking its CURRENT version in the MDIB / transaction) *)
Definition upd_corr_state (m : mdib) (t : tx) (h : H) (dv k : Z) : tx :=
  if Z.eqb k K_CTX then
    fold_left (fun t' ch =>
                 match cstates m ch with
                 | Some c =>
                     if negb (Z.eqb (c_dh c) h) then t' else
                     match alist_get (t_c t') ch with
                     | Some (Some n) => mkTx (t_d t') (t_s t')
                                             (alist_set (t_c t') ch (Some (mkCState (c_dh n) dv (c_ver n + 1) (c_assoc n) (c_bind n) (c_unbind n) (c_pay n))))
                     | Some None => t'
                     | None => mkTx (t_d t') (t_s t')
                                    (alist_set (t_c t') ch (Some (mkCState (c_dh c) dv (c_ver c + 1) (c_assoc c) (c_bind c) (c_unbind c) (c_pay c))))
                     end
                 | None => t'
                 end) (cdom m) t
  else
    match alist_get (t_s t) h with
    | Some n => mkTx (t_d t) (alist_set (t_s t) h (mkState dv (s_ver n) (s_pay n))) (t_c t)
    | None => match states m h with
              | Some o => mkTx (t_d t) (alist_set (t_s t) h (mkState dv (s_ver o + 1) (s_pay o))) (t_c t)
              | None => t
              end
    end.

Definition is_create (m : mdib) (e : H * option descr) : bool :=
  match snd e, descrs m (fst e) with Some _, None => true | _, _ => false end.
Definition is_update (m : mdib) (e : H * option descr) : bool :=
  match snd e, descrs m (fst e) with Some _, Some _ => true | _, _ => false end.
Definition is_delete (m : mdib) (e : H * option descr) : bool :=
  match snd e, descrs m (fst e) with None, Some _ => true | _, _ => false end.

(* _increment_parent_descriptor_version *)
Definition bump_parent (m : mdib) (t : tx) (p : H) : mdib * tx :=
  match descrs m p with
  | Some d =>
      let d' := mkDescr (d_parent d) (d_kind d) (d_ver d + 1) (d_pay d) in
      let m' := set_descr m p (Some d') in
      (m', upd_corr_state m' t p (d_ver d') (d_kind d'))
  | None => (m, t)
  end.

(* one entry of descriptor_updates; [cr up de] = handles created / updated / deleted by this transaction *)
(* _increment_parent_descriptor_version is skipped for a parent that this transaction has already incremented
   (proc.descr_updated already holds it): [bumped] *)
Definition process_item (cr up de : list H) (mtb : mdib * tx * list H) (e : H * option descr) : mdib * tx * list H :=
  let '(m, t, bumped) := mtb in
  let h := fst e in
  match snd e, descrs m h with
  | Some d, None =>                                         (* create *)
      let m1 := set_descr m h (Some d) in
      let '(m2, t2, b2) :=
        match d_parent d with
        | Some p => if memz p cr || memz p up || memz p bumped then (m1, t, bumped)
                    else let '(mb, tb) := bump_parent m1 t p in
                         (mb, tb, match descrs m1 p with Some _ => p :: bumped | None => bumped end)
        | None => (m1, t, bumped)
        end in
      (m2, upd_corr_state m2 t2 h (d_ver d) (d_kind d), b2)
  | None, Some o =>                                         (* delete the whole subtree *)
      let m1 := fold_left rm_one (subtree m h) m in
      match d_parent o with
      | Some p => if memz p de || memz p up || memz p bumped then (m1, t, bumped)
                  else let '(mb, tb) := bump_parent m1 t p in
                       (mb, tb, match descrs m1 p with Some _ => p :: bumped | None => bumped end)
      | None => (m1, t, bumped)
      end
  | Some d, Some _ =>                                       (* update in place *)
      let m1 := set_descr m h (Some d) in
      (m1, upd_corr_state m1 t h (d_ver d) (d_kind d), h :: bumped)
  | None, None => (m, t, bumped)
  end.

(* every handle this transaction removes: a removal takes the whole subtree (as it is before the commit) *)
Definition removed_handles (m : mdib) (t : tx) : list H :=
  flat_map (fun e => if is_delete m e then subtree m (fst e) else []) (t_d t).

(* process_transaction refuses, before it changes anything, a transaction that creates or updates a descriptor
   inside a subtree that it removes (ApiUsageError) *)
Definition subtree_conflict (m : mdib) (t : tx) : bool :=
  let rm := removed_handles m t in
  existsb (fun e => match snd e with
                    | Some d => memz (fst e) rm || match d_parent d with Some p => memz p rm | None => false end
                    | None => false
                    end) (t_d t).

(* ... and a transaction that creates a descriptor whose parent neither exists nor is created by the same
   transaction (every descriptor except a root has an existing parent): ApiUsageError, nothing changed *)
Definition orphan_create (m : mdib) (t : tx) : bool :=
  let cr := map fst (filter (is_create m) (t_d t)) in
  existsb (fun e => is_create m e &&
                    match snd e with
                    | Some d => match d_parent d with
                                | Some p => negb (memz p cr) && match descrs m p with Some _ => false | None => true end
                                | None => false
                                end
                    | None => false
                    end) (t_d t).

Definition commit_descr (m : mdib) (t : tx) : mdib :=
  match t_d t with
  | [] => m
  | _ =>
      let m0 := bump_ver m in
      let cr := map fst (filter (is_create m) (t_d t)) in
      let up := map fst (filter (is_update m) (t_d t)) in
      (* a removed descriptor's parent is not versioned when the parent is removed as well; an entry whose
         descriptor already went with an ancestor's subtree is skipped (the [None, None] case of process_item) *)
      let de := removed_handles m t in
      let '(m1, t1, _) := fold_left (process_item cr up de) (t_d t) (m0, t, []) in
      handle_state_updates m1 t1
  end.

(* ---------------------------------------------------------------- whole transactions as op lists *)
Inductive action :=
| AState (h : H) (p : Z)                                     (* state transaction of the enclosing kind *)
| ACtxMk (dh h : H) (explicit assoc : bool) (p : Z)
| ACtxGet (h : H) (p : Z) (assoc : option Z)
| ACtxDisAll (dh : H) (ignored : option H)
| ACtxDel (h : H)
| ADAdd (h : H) (parent : option H) (k p sp : Z)
| ADUpd (h : H) (p : Z)
| ADDel (h : H)
| ADState (h : H) (p : Z).

(* kind of transaction: 0..4 state kinds, 5 context, 6 descriptor *)
Definition apply_action (k : Z) (m : mdib) (t : tx) (a : action) : res tx :=
  match a with
  | AState h p => if Z.ltb k 5 then st_get k m t h p else Rej EApi
  | ACtxMk dh h ex assoc p => ctx_mk m t dh h ex assoc p
  | ACtxGet h p assoc => ctx_get m t h p assoc
  | ACtxDisAll dh ig => ctx_disall m t dh ig
  | ACtxDel h => ctx_del m t h
  | ADAdd h parent kk p sp => d_add m t h parent kk p sp
  | ADUpd h p => d_upd m t h p
  | ADDel h => d_del m t h
  | ADState h p => d_state m t h p
  end.

Fixpoint body (k : Z) (m : mdib) (t : tx) (acts : list action) : res tx :=
  match acts with
  | [] => Ok t
  | a :: r => match apply_action k m t a with
              | Ok t' => body k m t' r
              | Rej e => Rej e
              end
  end.

(* one transaction: the body (a rejected call abandons the transaction; [abort] = the application raised
   after the first n actions), then commit.  Result code: 0 committed, 1 KeyError, 2 ValueError,
   3 ApiUsageError, 4 aborted by the application *)
Definition transaction (k : Z) (abort : option nat) (acts : list action) (m : mdib) : mdib * Z :=
  let acts' := match abort with Some n => firstn n acts | None => acts end in
  match body k m empty_tx acts' with
  | Rej EKey => (m, 1)
  | Rej EValue => (m, 2)
  | Rej EApi => (m, 3)
  | Ok t =>
      match abort with
      | Some _ => (m, 4)
      | None => if Z.eqb k 6 then (if subtree_conflict m t || orphan_create m t then (m, 3) else (commit_descr m t, 0))
                else (commit_states m t, 0)
      end
  end.
