(* What the provider model predicts on the wire for every step of a history (descriptor transactions:
   [descr_reports] of Mdib/Consumer_Descr_Proofs.v; state and context transactions: the episodic reports of
   SdcProvider._send_episodic_reports), and a comparison with the reports seen on the wire that ignores exactly
   the orders the wire does not fix.  Definitions only. *)
From Coq Require Import List ZArith Bool.
From SDC Require Import Common.Corr Mdib.Model Mdib.Run Mdib.Consumer Mdib.Consumer_Proofs Mdib.Consumer_Descr_Proofs.
Import ListNotations.
Open Scope Z_scope.

(* ---------------------------------------------------------------- predicted reports, step by step *)
(* one transaction (same triple as [run] / [exec]): the reports it makes the provider emit, in emission order.
     descriptor transaction, committed and not empty : description modification report, then the episodic metric /
                                                       alert / component / context / operational / waveform reports
                                                       of the same transaction ([descr_reports])
     state / context transaction, committed, not empty: one episodic report per kind that has items (a state
                                                       transaction has one kind: this is [state_report]; a context
                                                       transaction: the RCtx of the C01 step theorem; a context
                                                       transaction that only deletes reports nothing)
     refused (subtree_conflict / orphan_create), rejected call, aborted, empty: nothing *)
Definition step_reports (seq inst : Z) (m : mdib) (x : Z * option nat * list action) : list report :=
  let '(k, ab, acts) := x in
  match ab, body k m empty_tx acts with
  | None, Ok t =>
      if Z.eqb k 6 then
        if subtree_conflict m t || orphan_create m t then [] else
        match t_d t with
        | [] => []
        | _ => descr_reports m t seq inst
        end
      else
        match t_s t, t_c t with
        | [], [] => []
        | _, _ => echo_reports (commit_states m t) t seq inst
        end
  | _, _ => []
  end.

Fixpoint dreports (seq inst : Z) (m : mdib) (hist : list (Z * option nat * list action)) : list (list report) :=
  match hist with
  | [] => []
  | (k, ab, acts) :: r =>
      step_reports seq inst m (k, ab, acts) :: dreports seq inst (fst (transaction k ab acts m)) r
  end.

(* ---------------------------------------------------------------- canonical forms *)
Fixpoint ins_key {A} (key : A -> Z) (x : A) (l : list A) : list A :=
  match l with
  | [] => [x]
  | y :: r => if Z.leb (key x) (key y) then x :: l else y :: ins_key key x r
  end.
(* stable insertion sort *)
Definition sort_key {A} (key : A -> Z) (l : list A) : list A := fold_right (ins_key key) [] l.

Definition oh_eqb : option H -> option H -> bool := option_eqb Z.eqb.
Definition descr_eqb (a b : descr) : bool :=
  oh_eqb (d_parent a) (d_parent b) && Z.eqb (d_kind a) (d_kind b) && Z.eqb (d_ver a) (d_ver b) && Z.eqb (d_pay a) (d_pay b).
Definition state_eqb (a b : state) : bool :=
  Z.eqb (s_dver a) (s_dver b) && Z.eqb (s_ver a) (s_ver b) && Z.eqb (s_pay a) (s_pay b).
Definition cstate_eqb (a b : cstate) : bool :=
  Z.eqb (c_dh a) (c_dh b) && Z.eqb (c_dver a) (c_dver b) && Z.eqb (c_ver a) (c_ver b) && Z.eqb (c_assoc a) (c_assoc b) &&
  oh_eqb (c_bind a) (c_bind b) && oh_eqb (c_unbind a) (c_unbind b) && Z.eqb (c_pay a) (c_pay b).
Definition vg_eqb (a b : vgroup) : bool :=
  Z.eqb (vg_ver a) (vg_ver b) && Z.eqb (vg_seq a) (vg_seq b) && Z.eqb (vg_inst a) (vg_inst b).

(* items of one report / one report part: compared as sorted by handle (the wire does not fix their order) *)
Definition items_eqb {A} (eqb : A -> A -> bool) (l1 l2 : list (H * A)) : bool :=
  list_eqb (prod_eqb Z.eqb eqb) (sort_key fst l1) (sort_key fst l2).

Definition part_eqb (a b : dpart) : bool :=
  Z.eqb (dp_mod a) (dp_mod b) && items_eqb descr_eqb (dp_descrs a) (dp_descrs b) &&
  items_eqb state_eqb (dp_states a) (dp_states b) && items_eqb cstate_eqb (dp_cstates a) (dp_cstates b).

(* DELETE parts: the library lists a removed subtree children first, root last; the model in the order of first
   use of the handles.  Both list subtree after subtree, in the order of the removals.  Canonical form of the
   trailing block of DELETE parts (one descriptor each): every part gets the index of the first part of the block
   that belongs to the same removed tree (same topmost removed ancestor); parts are sorted by that index, then by
   handle.  So the order of the removed trees stays significant, the order inside one tree does not. *)
Definition del_entry (p : dpart) : option (H * option H) :=
  if Z.eqb (dp_mod p) 2 then
    match dp_descrs p with
    | [(h, d)] => Some (h, d_parent d)
    | _ => None
    end
  else None.

Fixpoint split_del (ps : list dpart) : list dpart * list dpart :=
  match ps with
  | [] => ([], [])
  | p :: r => if Z.eqb (dp_mod p) 2 then ([], ps) else let '(a, b) := split_del r in (p :: a, b)
  end.

(* topmost removed ancestor of h; [tbl] = removed handle -> its parent handle *)
Fixpoint top_removed (tbl : list (H * option H)) (fuel : nat) (h : H) : H :=
  match fuel with
  | O => h
  | S f => match alist_get tbl h with
           | Some (Some p) => if alist_has tbl p then top_removed tbl f p else h
           | _ => h
           end
  end.

Fixpoint index_of_top (tbl : list (H * option H)) (top : H) (es : list (H * option H)) (i : Z) : Z :=
  match es with
  | [] => i
  | (h, _) :: r => if Z.eqb (top_removed tbl (length tbl) h) top then i else index_of_top tbl top r (i + 1)
  end.

Definition canon_del (b : list dpart) : list dpart :=
  let es := flat_map (fun p => match del_entry p with Some e => [e] | None => [] end) b in
  if negb (Nat.eqb (length es) (length b)) then b       (* not a pure block of one-descriptor DELETE parts: as is *)
  else
    let handle := fun p => match del_entry p with Some (h, _) => h | None => 0 end in
    let group := fun p => index_of_top es (top_removed es (length es) (handle p)) es 0 in
    sort_key group (sort_key handle b).

Definition canon_parts (ps : list dpart) : list dpart :=
  let '(a, b) := split_del ps in a ++ canon_del b.

Definition report_eqb (a b : report) : bool :=
  match a, b with
  | RState v i, RState w j => vg_eqb v w && items_eqb state_eqb i j
  | RCtx v i, RCtx w j => vg_eqb v w && items_eqb cstate_eqb i j
  | RDescr v p, RDescr w q => vg_eqb v w && list_eqb part_eqb (canon_parts p) (canon_parts q)
  | _, _ => false
  end.

(* the reports of one step: same reports in the same order, each up to the two orders above *)
Definition reports_eqb (l1 l2 : list report) : bool := list_eqb report_eqb l1 l2.

(* whole histories: per step *)
Definition dtrace_eqb (l1 l2 : list (list report)) : bool := list_eqb reports_eqb l1 l2.

(* for diagnostics: the steps (0-based) whose reports differ *)
Fixpoint dmism_aux (i : Z) (l1 l2 : list (list report)) : list Z :=
  match l1, l2 with
  | [], [] => []
  | a :: r1, b :: r2 => (if reports_eqb a b then [] else [i]) ++ dmism_aux (i + 1) r1 r2
  | _, _ => [i]
  end.
Definition dmism := dmism_aux 0.

(* sanity: the comparison ignores the two orders and nothing else *)
Example reports_eqb_orders :
  let d := fun p => mkDescr p K_METRIC 0 7 in
  let del := fun h p => mkDPart 2 [(h, d p)] [] [] in
  let up := mkDPart 1 [(1, d None)] [(1, mkState 1 2 3)] [] in
  let vg := mkVg 5 1 1 in
  (* tree 10 > {11 > {12}}, then tree 20 > {21}: model order vs library order *)
  reports_eqb [RDescr vg [up; del 10 (Some 1); del 11 (Some 10); del 12 (Some 11); del 20 (Some 1); del 21 (Some 20)];
               RState vg [(1, mkState 1 2 3); (4, mkState 0 0 9)]]
              [RDescr vg [up; del 12 (Some 11); del 11 (Some 10); del 10 (Some 1); del 21 (Some 20); del 20 (Some 1)];
               RState vg [(4, mkState 0 0 9); (1, mkState 1 2 3)]] = true /\
  (* the two removed trees in the other order: different *)
  reports_eqb [RDescr vg [del 10 (Some 1); del 11 (Some 10); del 20 (Some 1)]]
              [RDescr vg [del 20 (Some 1); del 11 (Some 10); del 10 (Some 1)]] = false /\
  (* a state riding in another part, another version, another kind of part: different *)
  reports_eqb [RDescr vg [up; del 10 (Some 1)]] [RDescr vg [mkDPart 1 [(1, d None)] [] []; mkDPart 2 [(10, d (Some 1))] [(1, mkState 1 2 3)] []]] = false /\
  reports_eqb [RDescr vg [up]] [RDescr vg [mkDPart 1 [(1, d None)] [(1, mkState 1 3 3)] []]] = false /\
  reports_eqb [RDescr vg [up]] [RDescr vg [mkDPart 0 [(1, d None)] [(1, mkState 1 2 3)] []]] = false /\
  reports_eqb [RDescr vg [up]] [RDescr (mkVg 6 1 1) [up]] = false.
Proof. vm_compute. repeat split. Qed.
