(* C02 for descriptor transactions (kind 6): descriptor versions, state <-> descriptor consistency, deletion /
   re-creation bookkeeping, and the lift to histories of transactions of all kinds.
   Everything is stated about [transaction 6 None acts m] for EVERY list of descriptor calls: a transaction that creates or
   updates something inside a subtree it removes is refused ([subtree_conflict], code 3), all others are covered. *)
From Coq Require Import List ZArith Bool Lia.
From SDC Require Import Mdib.Model Mdib.Proofs Mdib.Proofs_Ctx.
Import ListNotations.
Open Scope Z_scope.

(* ---------------------------------------------------------------- small tools *)
Lemma memz_In h l : memz h l = true <-> In h l.
Proof.
  unfold memz. rewrite existsb_exists. split.
  - intros (x & Hx & E). apply Z.eqb_eq in E. now subst.
  - intros Hi. exists h. split; [assumption|apply Z.eqb_refl].
Qed.
Lemma memz_false h l : memz h l = false <-> ~ In h l.
Proof. rewrite <- memz_In. destruct (memz h l); split; congruence. Qed.
Lemma memz_cons h x l : memz h (x :: l) = Z.eqb h x || memz h l.
Proof. reflexivity. Qed.
Lemma memz_app h l1 l2 : memz h (l1 ++ l2) = memz h l1 || memz h l2.
Proof. unfold memz. apply existsb_app. Qed.

Lemma add_dom_In h x l : In x (add_dom h l) <-> x = h \/ In x l.
Proof.
  unfold add_dom. destruct (memz h l) eqn:E.
  - apply memz_In in E. split; [now right|]. intros [->|Hi]; assumption.
  - rewrite in_app_iff. cbn. intuition congruence.
Qed.
Lemma add_dom_len h l : (length l <= length (add_dom h l))%nat.
Proof. unfold add_dom. destruct (memz h l); [lia|]. rewrite app_length. cbn. lia. Qed.

Lemma alist_get_none_notin {A} (l : list (H * A)) h : alist_get l h = None <-> ~ In h (map fst l).
Proof.
  induction l as [|[k v] r IH]; cbn [alist_get map fst In]; [tauto|].
  destruct (Z.eqb_spec h k) as [->|Hne].
  - split; [discriminate|]. intros Hn. exfalso. apply Hn. now left.
  - rewrite IH. intuition congruence.
Qed.
Lemma alist_has_in {A} (l : list (H * A)) h : alist_has l h = true <-> In h (map fst l).
Proof.
  unfold alist_has. destruct (alist_get l h) eqn:G.
  - split; [intros _|reflexivity]. apply alist_get_some_in in G. now apply (in_map fst) in G.
  - apply alist_get_none_notin in G. split; [discriminate|contradiction].
Qed.

Definition bumpd (d : descr) : descr := mkDescr (d_parent d) (d_kind d) (d_ver d + 1) (d_pay d).

(* ---------------------------------------------------------------- the tree *)
(* [below m x r]: x is r or a descendant of r (parent links of the descriptors of m) *)
Inductive below (m : mdib) : H -> H -> Prop :=
| below_refl x : below m x x
| below_step x d p r : descrs m x = Some d -> d_parent d = Some p -> below m p r -> below m x r.

Lemma reaches_below m f : forall x r, reaches m f x r = true -> below m x r.
Proof.
  induction f as [|f IH]; intros x r; cbn [reaches]; destruct (Z.eqb_spec x r) as [->|Hne];
    try (intros _; apply below_refl); [discriminate|].
  destruct (descrs m x) as [d|] eqn:E; [|discriminate].
  destruct (d_parent d) as [p|] eqn:P; [|discriminate].
  intros R. eapply below_step; eauto.
Qed.

Lemma reaches_mono m f : forall f' x r, (f <= f')%nat -> reaches m f x r = true -> reaches m f' x r = true.
Proof.
  induction f as [|f IH]; intros f' x r Hle; cbn [reaches].
  - destruct (Z.eqb_spec x r) as [->|]; [|discriminate]. intros _. destruct f'; cbn [reaches]; now rewrite Z.eqb_refl.
  - destruct f' as [|f']; [lia|]. cbn [reaches]. destruct (Z.eqb x r); [reflexivity|].
    destruct (descrs m x) as [d|]; [|discriminate]. destruct (d_parent d); [|discriminate]. apply IH. lia.
Qed.

(* two MDIBs that agree on everything below r compute the same [reaches _ r] *)
Lemma reaches_transfer m mc r : (forall y, below m y r -> descrs mc y = descrs m y) ->
  forall f x, reaches m f x r = true -> reaches mc f x r = true.
Proof.
  intros Hagree. induction f as [|f IH]; intros x; cbn [reaches]; [tauto|].
  destruct (Z.eqb_spec x r) as [->|Hne]; [reflexivity|].
  destruct (descrs m x) as [d|] eqn:E; [|discriminate].
  destruct (d_parent d) as [p|] eqn:P; [|discriminate]. intros R.
  assert (B : below m x r) by (eapply below_step; eauto using reaches_below).
  rewrite (Hagree x B), E, P. now apply IH.
Qed.

(* parent links are functional, so the ancestors of a node form a chain *)
Lemma below_linear m y a : below m y a -> forall b, below m y b -> below m a b \/ below m b a.
Proof.
  induction 1 as [x|x d p r E P B IH]; intros b Hb; [now left|].
  inversion Hb as [|x' d' p' r' E' P' B']; subst.
  - right. eapply below_step; eauto.
  - rewrite E in E'. injection E' as <-. rewrite P in P'. injection P' as <-. now apply IH.
Qed.

Lemma below_absent m x r : descrs m x = None -> below m x r -> x = r.
Proof. intros E B. inversion B as [|? d ? ? E']; subst; [reflexivity|congruence]. Qed.

Lemma subtree_In m r x : In x (subtree m r) <->
  In x (ddom m) /\ descrs m x <> None /\ reaches m (length (ddom m)) x r = true.
Proof.
  unfold subtree. rewrite filter_In. destruct (descrs m x); intuition (congruence || discriminate).
Qed.

(* ---------------------------------------------------------------- pointwise effect of the primitives *)
Lemma set_descr_descrs m h d x : descrs (set_descr m h d) x = if Z.eqb h x then d else descrs m x.
Proof. reflexivity. Qed.
Lemma set_descr_svd m h d x :
  sv_d (set_descr m h d) x =
  match d, descrs m h with
  | None, Some o => if Z.eqb h x then Some (d_ver o) else sv_d m x
  | _, _ => sv_d m x
  end.
Proof. unfold set_descr. cbn [sv_d]. destruct d; [reflexivity|]. destruct (descrs m h); reflexivity. Qed.

(* the loop over the context states inside rm_one *)
Definition rm_cs (h : H) (m' : mdib) (ch : H) : mdib :=
  match cstates m' ch with
  | Some c => if Z.eqb (c_dh c) h then put_cstate m' ch None else m'
  | None => m'
  end.

Lemma rm_cs_frame h l : forall m,
  let m' := fold_left (rm_cs h) l m in
  descrs m' = descrs m /\ states m' = states m /\ sv_d m' = sv_d m /\ sv_s m' = sv_s m /\ ddom m' = ddom m /\ ver m' = ver m.
Proof.
  induction l as [|c r IH]; intros m; cbn [fold_left]; [repeat split|].
  destruct (IH (rm_cs h m c)) as (A & B & C & D & E & F). cbv zeta in *. rewrite A, B, C, D, E, F.
  unfold rm_cs. destruct (cstates m c) as [cs|]; [destruct (Z.eqb (c_dh cs) h)|]; repeat split.
Qed.

Lemma rm_one_eq m h :
  rm_one m h =
  let m1 := set_descr m h None in
  let m2 := match states m1 h with
            | Some s => mkMdib (descrs m1) (upd (states m1) h None) (cstates m1) (ver m1) (sv_d m1)
                               (upd (sv_s m1) h (Some (s_ver s))) (sv_c m1) (ddom m1) (cdom m1)
            | None => m1
            end in
  fold_left (rm_cs h) (cdom m2) m2.
Proof. reflexivity. Qed.

Lemma rm_one_descrs m h x : descrs (rm_one m h) x = if Z.eqb h x then None else descrs m x.
Proof.
  rewrite rm_one_eq. cbv zeta. match goal with |- context [fold_left _ ?l ?a] => destruct (rm_cs_frame h l a) as (A & _) end.
  cbv zeta in A. rewrite A. destruct (states (set_descr m h None) h); reflexivity.
Qed.
Lemma rm_one_states m h x : states (rm_one m h) x = if Z.eqb h x then None else states m x.
Proof.
  rewrite rm_one_eq. cbv zeta. match goal with |- context [fold_left _ ?l ?a] => destruct (rm_cs_frame h l a) as (_ & A & _) end.
  cbv zeta in A. rewrite A. cbn [states set_descr]. destruct (states m h) eqn:E; cbn [states]; rewrite ?upd_eq.
  - reflexivity.
  - destruct (Z.eqb_spec h x) as [->|]; [assumption|reflexivity].
Qed.
Lemma rm_one_svd m h x :
  sv_d (rm_one m h) x = match descrs m h with Some o => if Z.eqb h x then Some (d_ver o) else sv_d m x | None => sv_d m x end.
Proof.
  rewrite rm_one_eq. cbv zeta. match goal with |- context [fold_left _ ?l ?a] => destruct (rm_cs_frame h l a) as (_ & _ & A & _) end.
  cbv zeta in A. rewrite A. destruct (states (set_descr m h None) h); cbn [sv_d]; rewrite set_descr_svd; reflexivity.
Qed.
Lemma rm_one_svs m h x :
  sv_s (rm_one m h) x = match states m h with Some s => if Z.eqb h x then Some (s_ver s) else sv_s m x | None => sv_s m x end.
Proof.
  rewrite rm_one_eq. cbv zeta. match goal with |- context [fold_left _ ?l ?a] => destruct (rm_cs_frame h l a) as (_ & _ & _ & A & _) end.
  cbv zeta in A. rewrite A. cbn [states set_descr]. destruct (states m h); reflexivity.
Qed.
Lemma rm_one_ddom m h : ddom (rm_one m h) = add_dom h (ddom m).
Proof.
  rewrite rm_one_eq. cbv zeta. match goal with |- context [fold_left _ ?l ?a] => destruct (rm_cs_frame h l a) as (_ & _ & _ & _ & A & _) end.
  cbv zeta in A. rewrite A. destruct (states (set_descr m h None) h); reflexivity.
Qed.

(* removal of a list of descriptors *)
Lemma rm_list_descrs l : forall m x, descrs (fold_left rm_one l m) x = if memz x l then None else descrs m x.
Proof.
  induction l as [|k r IH]; intros m x; cbn [fold_left]; [reflexivity|].
  rewrite IH, rm_one_descrs, memz_cons. rewrite (Z.eqb_sym x k).
  destruct (memz x r), (Z.eqb k x); reflexivity.
Qed.
Lemma rm_list_states l : forall m x, states (fold_left rm_one l m) x = if memz x l then None else states m x.
Proof.
  induction l as [|k r IH]; intros m x; cbn [fold_left]; [reflexivity|].
  rewrite IH, rm_one_states, memz_cons. rewrite (Z.eqb_sym x k).
  destruct (memz x r), (Z.eqb k x); reflexivity.
Qed.
Lemma rm_list_svd l : forall m x,
  sv_d (fold_left rm_one l m) x =
  match (if memz x l then descrs m x else None) with Some o => Some (d_ver o) | None => sv_d m x end.
Proof.
  induction l as [|k r IH]; intros m x; cbn [fold_left]; [reflexivity|].
  rewrite IH, rm_one_descrs, rm_one_svd, memz_cons. rewrite (Z.eqb_sym x k).
  destruct (Z.eqb_spec k x) as [->|Hne]; cbn [orb].
  - destruct (memz x r); destruct (descrs m x); reflexivity.
  - destruct (memz x r); [destruct (descrs m x)|]; destruct (descrs m k); reflexivity.
Qed.
Lemma rm_list_svs l : forall m x,
  sv_s (fold_left rm_one l m) x =
  match (if memz x l then states m x else None) with Some s => Some (s_ver s) | None => sv_s m x end.
Proof.
  induction l as [|k r IH]; intros m x; cbn [fold_left]; [reflexivity|].
  rewrite IH, rm_one_states, rm_one_svs, memz_cons. rewrite (Z.eqb_sym x k).
  destruct (Z.eqb_spec k x) as [->|Hne]; cbn [orb].
  - destruct (memz x r); destruct (states m x); reflexivity.
  - destruct (memz x r); [destruct (states m x)|]; destruct (states m k); reflexivity.
Qed.
Lemma rm_list_ddom l : forall m, incl (ddom m) (ddom (fold_left rm_one l m)) /\
  (length (ddom m) <= length (ddom (fold_left rm_one l m)))%nat.
Proof.
  induction l as [|k r IH]; intros m; cbn [fold_left]; [split; [apply incl_refl|lia]|].
  destruct (IH (rm_one m k)) as [I1 I2]. rewrite rm_one_ddom in *. split.
  - intros x Hx. apply I1. apply add_dom_In. now right.
  - pose proof (add_dom_len k (ddom m)). lia.
Qed.

(* ---------------------------------------------------------------- what the body of a descriptor transaction builds *)
Definition descr_action (a : action) : Prop :=
  match a with ADAdd _ _ _ _ _ | ADUpd _ _ | ADDel _ | ADState _ _ => True | _ => False end.
Definition descr_only (acts : list action) : Prop := forall a, In a acts -> descr_action a.

(* a descriptor item against the MDIB the transaction started from *)
Definition ditem_ok (m : mdib) (h : H) (x : option descr) : Prop :=
  match x, descrs m h with
  | Some d, None => d_ver d = set_version (sv_d m) h 0
  | Some d, Some o => d_parent d = d_parent o /\ d_kind d = d_kind o /\ d_ver d = d_ver o + 1
  | None, Some _ => True
  | None, None => False
  end.
(* the API call that produced it *)
Definition act_of (m : mdib) (acts : list action) (h : H) (x : option descr) : Prop :=
  match x with
  | Some d => (descrs m h = None /\ exists p sp, In (ADAdd h (d_parent d) (d_kind d) p sp) acts) \/
              (descrs m h <> None /\ exists p, In (ADUpd h p) acts)
  | None => In (ADDel h) acts
  end.
Definition sitem_ok (m : mdib) (t : tx) (h : H) (s : state) : Prop :=
  exists d, In (h, Some d) (t_d t) /\ d_kind d <> K_CTX /\
    ((descrs m h = None /\ s_ver s = set_version (sv_s m) h 0) \/
     (exists o, states m h = Some o /\ s_ver s = s_ver o + 1 /\ s_dver s = s_dver o)).

Record dtx_ok (m : mdib) (acts : list action) (t : tx) : Prop := {
  dx_c : t_c t = [];
  dx_nodup : NoDup (map fst (t_d t));
  dx_snodup : NoDup (map fst (t_s t));
  dx_items : forall h x, In (h, x) (t_d t) -> ditem_ok m h x /\ act_of m acts h x;
  dx_sitems : forall h s, In (h, s) (t_s t) -> sitem_ok m t h s
}.

Lemma empty_dtx_ok m acts : dtx_ok m acts empty_tx.
Proof. constructor; cbn; try reflexivity; try constructor; intros; contradiction. Qed.

Lemma alist_set_new_in {A} (l : list (H * A)) h v h' x :
  alist_has l h = false -> In (h', x) (alist_set l h v) <-> (h', x) = (h, v) \/ In (h', x) l.
Proof.
  unfold alist_has. induction l as [|[k w] r IH]; cbn [alist_get alist_set In]; intros Hn.
  - intuition congruence.
  - destruct (Z.eqb_spec h k) as [->|Hne]; [discriminate|]. cbn [In]. rewrite (IH Hn). tauto.
Qed.

Lemma sitem_ok_mono m t t' h s :
  (forall k x, In (k, x) (t_d t) -> In (k, x) (t_d t')) -> sitem_ok m t h s -> sitem_ok m t' h s.
Proof. intros Hm (d & Hi & R). exists d. split; [now apply Hm|exact R]. Qed.

Lemma d_step_ok m A t a t' : dtx_ok m A t -> descr_action a -> In a A ->
  apply_action 6 m t a = Ok t' -> dtx_ok m A t'.
Proof.
  intros [Hc Hn Hsn Hi Hs] Ha HA. destruct a; cbn in Ha; try contradiction; cbn [apply_action].
  - (* add *)
    unfold d_add. destruct (alist_has (t_d t) h) eqn:Hh; [discriminate|].
    destruct (descrs m h) as [o|] eqn:Eo; [discriminate|].
    set (d := mkDescr parent k (set_version (sv_d m) h 0) p).
    assert (Hd : forall h' x, In (h', x) (alist_set (t_d t) h (Some d)) -> ditem_ok m h' x /\ act_of m A h' x).
    { intros h' x Hin. apply (alist_set_new_in _ _ _ _ _ Hh) in Hin. destruct Hin as [[= -> ->]|Hin]; [|now apply Hi].
      split; [unfold ditem_ok; rewrite Eo; reflexivity|]. left. split; [assumption|]. exists p, sp. exact HA. }
    assert (Hmono : forall k0 x, In (k0, x) (t_d t) -> In (k0, x) (alist_set (t_d t) h (Some d))).
    { intros k0 x Hin. apply (alist_set_new_in _ _ _ _ _ Hh). now right. }
    destruct (Z.eqb_spec k K_CTX) as [Ek|Ek].
    + intros [= <-]. constructor; cbn [t_d t_s t_c]; try assumption.
      * apply (proj1 (alist_set_keys _ h (Some d) Hn)).
      * intros h' s Hin. eapply sitem_ok_mono; [|now apply Hs]. exact Hmono.
    + destruct (alist_has (t_s t) h) eqn:Hsh; [discriminate|]. intros [= <-].
      constructor; cbn [t_d t_s t_c]; try assumption.
      * apply (proj1 (alist_set_keys _ h (Some d) Hn)).
      * apply (proj1 (alist_set_keys _ h _ Hsn)).
      * intros h' s Hin. apply (alist_set_new_in _ _ _ _ _ Hsh) in Hin. destruct Hin as [[= -> ->]|Hin].
        -- exists d. split; [apply (alist_set_new_in _ _ _ _ _ Hh); now left|]. split; [exact Ek|]. left. now split.
        -- eapply sitem_ok_mono; [|now apply Hs]. exact Hmono.
  - (* update *)
    unfold d_upd. destruct (alist_has (t_d t) h) eqn:Hh; [discriminate|].
    destruct (descrs m h) as [o|] eqn:Eo; [|discriminate]. intros [= <-].
    set (d := mkDescr (d_parent o) (d_kind o) (d_ver o + 1) p).
    assert (Hmono : forall k0 x, In (k0, x) (t_d t) -> In (k0, x) (alist_set (t_d t) h (Some d))).
    { intros k0 x Hin. apply (alist_set_new_in _ _ _ _ _ Hh). now right. }
    constructor; cbn [t_d t_s t_c]; try assumption.
    + apply (proj1 (alist_set_keys _ h (Some d) Hn)).
    + intros h' x Hin. apply (alist_set_new_in _ _ _ _ _ Hh) in Hin. destruct Hin as [[= -> ->]|Hin]; [|now apply Hi].
      split; [unfold ditem_ok; rewrite Eo; cbn; repeat split|]. right. split; [congruence|]. exists p. exact HA.
    + intros h' s Hin. eapply sitem_ok_mono; [|now apply Hs]. exact Hmono.
  - (* delete *)
    unfold d_del. destruct (alist_has (t_d t) h) eqn:Hh; [discriminate|].
    destruct (descrs m h) as [o|] eqn:Eo; [|discriminate]. intros [= <-].
    assert (Hmono : forall k0 x, In (k0, x) (t_d t) -> In (k0, x) (alist_set (t_d t) h None)).
    { intros k0 x Hin. apply (alist_set_new_in _ _ _ _ _ Hh). now right. }
    constructor; cbn [t_d t_s t_c]; try assumption.
    + apply (proj1 (alist_set_keys _ h None Hn)).
    + intros h' x Hin. apply (alist_set_new_in _ _ _ _ _ Hh) in Hin. destruct Hin as [[= -> ->]|Hin]; [|now apply Hi].
      split; [unfold ditem_ok; now rewrite Eo|exact HA].
    + intros h' s Hin. eapply sitem_ok_mono; [|now apply Hs]. exact Hmono.
  - (* get_state *)
    unfold d_state. destruct (alist_get (t_d t) h) as [[d|]|] eqn:G; try discriminate.
    destruct (Z.eqb_spec (d_kind d) K_CTX) as [Ek|Ek]; [discriminate|].
    destruct (alist_has (t_s t) h) eqn:Hsh; [discriminate|].
    destruct (states m h) as [o|] eqn:Eo; [|discriminate]. intros [= <-].
    constructor; cbn [t_d t_s t_c]; try assumption.
    + apply (proj1 (alist_set_keys _ h _ Hsn)).
    + intros h' s Hin. apply (alist_set_new_in _ _ _ _ _ Hsh) in Hin. destruct Hin as [[= -> ->]|Hin]; [|now apply Hs].
      exists d. split; [now apply alist_get_some_in|]. split; [exact Ek|]. right. exists o. cbn. repeat split. exact Eo.
Qed.

Lemma body_dtx_ok m A : forall acts t t',
  descr_only acts -> incl acts A -> dtx_ok m A t -> body 6 m t acts = Ok t' -> dtx_ok m A t'.
Proof.
  induction acts as [|a r IH]; intros t t' Ho Hi Hok; cbn [body]; [now intros [= <-]|].
  destruct (apply_action 6 m t a) as [t1|e] eqn:E; [|discriminate].
  apply IH; [intros x Hx; apply Ho; now right|intros x Hx; apply Hi; now right|].
  eapply d_step_ok; [exact Hok|apply Ho; now left|apply Hi; now left|exact E].
Qed.

(* conversely every accepted call left its item *)
Definition item_of (m : mdib) (t : tx) (a : action) : Prop :=
  match a with
  | ADAdd h par k p sp => In (h, Some (mkDescr par k (set_version (sv_d m) h 0) p)) (t_d t) /\ descrs m h = None /\
                          (k <> K_CTX -> In h (map fst (t_s t)))
  | ADUpd h p => (exists d, In (h, Some d) (t_d t)) /\ descrs m h <> None
  | ADDel h => In (h, None) (t_d t) /\ descrs m h <> None
  | ADState h p => In h (map fst (t_s t))
  | _ => True
  end.

Lemma d_step_mono m t a t' : descr_action a -> apply_action 6 m t a = Ok t' ->
  (forall k x, In (k, x) (t_d t) -> In (k, x) (t_d t')) /\
  (forall k, In k (map fst (t_s t)) -> In k (map fst (t_s t'))) /\ item_of m t' a.
Proof.
  intros Ha. destruct a; cbn in Ha; try contradiction; cbn [apply_action item_of].
  - unfold d_add. destruct (alist_has (t_d t) h) eqn:Hh; [discriminate|].
    destruct (descrs m h) as [o|] eqn:Eo; [discriminate|].
    destruct (Z.eqb_spec k K_CTX) as [Ek|Ek].
    + intros [= <-]. cbn [t_d t_s]. split; [|split; [tauto|]].
      * intros k0 x Hin. apply (alist_set_new_in _ _ _ _ _ Hh). now right.
      * split; [|split; [reflexivity|contradiction]]. apply (alist_set_new_in _ _ _ _ _ Hh). now left.
    + destruct (alist_has (t_s t) h) eqn:Hsh; [discriminate|]. intros [= <-]. cbn [t_d t_s]. split; [|split].
      * intros k0 x Hin. apply (alist_set_new_in _ _ _ _ _ Hh). now right.
      * intros k0 Hin. apply in_map_iff in Hin. destruct Hin as ([k1 s] & <- & Hin). apply in_map_iff.
        exists (k1, s). split; [reflexivity|]. apply (alist_set_new_in _ _ _ _ _ Hsh). now right.
      * split; [|split; [reflexivity|]]; [apply (alist_set_new_in _ _ _ _ _ Hh); now left|].
        intros _. apply in_map_iff. eexists (h, _). split; [reflexivity|]. apply (alist_set_new_in _ _ _ _ _ Hsh). now left.
  - unfold d_upd. destruct (alist_has (t_d t) h) eqn:Hh; [discriminate|].
    destruct (descrs m h) as [o|] eqn:Eo; [|discriminate]. intros [= <-]. cbn [t_d t_s]. split; [|split; [tauto|]].
    + intros k0 x Hin. apply (alist_set_new_in _ _ _ _ _ Hh). now right.
    + split; [|congruence]. eexists. apply (alist_set_new_in _ _ _ _ _ Hh). now left.
  - unfold d_del. destruct (alist_has (t_d t) h) eqn:Hh; [discriminate|].
    destruct (descrs m h) as [o|] eqn:Eo; [|discriminate]. intros [= <-]. cbn [t_d t_s]. split; [|split; [tauto|]].
    + intros k0 x Hin. apply (alist_set_new_in _ _ _ _ _ Hh). now right.
    + split; [|congruence]. apply (alist_set_new_in _ _ _ _ _ Hh). now left.
  - unfold d_state. destruct (alist_get (t_d t) h) as [[d|]|] eqn:G; try discriminate.
    destruct (Z.eqb (d_kind d) K_CTX); [discriminate|].
    destruct (alist_has (t_s t) h) eqn:Hsh; [discriminate|].
    destruct (states m h) as [o|] eqn:Eo; [|discriminate]. intros [= <-]. cbn [t_d t_s]. split; [tauto|]. split.
    + intros k0 Hin. apply in_map_iff in Hin. destruct Hin as ([k1 s] & <- & Hin). apply in_map_iff.
      exists (k1, s). split; [reflexivity|]. apply (alist_set_new_in _ _ _ _ _ Hsh). now right.
    + apply in_map_iff. eexists (h, _). split; [reflexivity|]. apply (alist_set_new_in _ _ _ _ _ Hsh). now left.
Qed.

Lemma item_of_mono m t t' a :
  (forall k x, In (k, x) (t_d t) -> In (k, x) (t_d t')) ->
  (forall k, In k (map fst (t_s t)) -> In k (map fst (t_s t'))) -> item_of m t a -> item_of m t' a.
Proof.
  intros M1 M2. destruct a; cbn [item_of]; try tauto.
  - intros (I & E & K). split; [now apply M1|]. split; [assumption|]. intros Hk. apply M2. now apply K.
  - intros [(d & I) E]. split; [exists d; now apply M1|assumption].
  - intros [I E]. split; [now apply M1|assumption].
  - apply M2.
Qed.

Lemma body_items m : forall acts t t', descr_only acts -> body 6 m t acts = Ok t' ->
  (forall k x, In (k, x) (t_d t) -> In (k, x) (t_d t')) /\
  (forall k, In k (map fst (t_s t)) -> In k (map fst (t_s t'))) /\
  (forall a, In a acts -> item_of m t' a).
Proof.
  induction acts as [|a r IH]; intros t t' Ho; cbn [body].
  - intros [= <-]. repeat split; try tauto. intros a [].
  - destruct (apply_action 6 m t a) as [t1|e] eqn:E; [|discriminate]. intros B.
    destruct (d_step_mono m t a t1 (Ho a (or_introl eq_refl)) E) as (M1 & M2 & I).
    destruct (IH t1 t' (fun x Hx => Ho x (or_intror Hx)) B) as (N1 & N2 & J).
    split; [auto|]. split; [auto|]. intros x [<-|Hx]; [|now apply J].
    eapply item_of_mono; eassumption.
Qed.

(* ---------------------------------------------------------------- the commit loop, MDIB part *)
(* process_item without the transaction component: the MDIB and the [bumped] list do not depend on it *)
Definition mb_bump (skip : bool) (p : H) (mb : mdib * list H) : mdib * list H :=
  let '(m, b) := mb in
  if skip || memz p b then mb else
  match descrs m p with Some dp => (set_descr m p (Some (bumpd dp)), p :: b) | None => mb end.

Definition pi_m (cr up de : list H) (mb : mdib * list H) (e : H * option descr) : mdib * list H :=
  let '(m, b) := mb in
  let h := fst e in
  match snd e, descrs m h with
  | Some d, None => match d_parent d with
                    | Some p => mb_bump (memz p cr || memz p up) p (set_descr m h (Some d), b)
                    | None => (set_descr m h (Some d), b)
                    end
  | None, Some o => match d_parent o with
                    | Some p => mb_bump (memz p de || memz p up) p (fold_left rm_one (subtree m h) m, b)
                    | None => (fold_left rm_one (subtree m h) m, b)
                    end
  | Some d, Some _ => (set_descr m h (Some d), h :: b)
  | None, None => mb
  end.

Lemma process_item_mb cr up de m t b e :
  (fst (fst (process_item cr up de (m, t, b) e)), snd (process_item cr up de (m, t, b) e)) = pi_m cr up de (m, b) e.
Proof.
  unfold process_item, pi_m. destruct (snd e) as [d|]; destruct (descrs m (fst e)) as [o|] eqn:Eo; try reflexivity.
  - destruct (d_parent d) as [p|]; [|reflexivity]. unfold mb_bump.
    destruct (memz p cr || memz p up || memz p b); [reflexivity|].
    unfold bump_parent. destruct (descrs (set_descr m (fst e) (Some d)) p); reflexivity.
  - destruct (d_parent o) as [p|]; [|reflexivity]. unfold mb_bump.
    destruct (memz p de || memz p up || memz p b); [reflexivity|].
    unfold bump_parent. destruct (descrs (fold_left rm_one (subtree m (fst e)) m) p); reflexivity.
Qed.

Lemma fold_process_mb cr up de l : forall m t b,
  let r := fold_left (process_item cr up de) l (m, t, b) in
  (fst (fst r), snd r) = fold_left (pi_m cr up de) l (m, b).
Proof.
  induction l as [|e r IH]; intros m t b; cbn [fold_left]; [reflexivity|].
  pose proof (process_item_mb cr up de m t b e) as E.
  destruct (process_item cr up de (m, t, b) e) as [[m1 t1] b1]. cbn [fst snd] in E. rewrite <- E. apply IH.
Qed.

Lemma nodup_fst_eq {A} (l : list (H * A)) h x y : NoDup (map fst l) -> In (h, x) l -> In (h, y) l -> x = y.
Proof.
  intros Hn Hx Hy. apply (alist_get_in _ _ _ Hn) in Hx. apply (alist_get_in _ _ _ Hn) in Hy. congruence.
Qed.

(* ---------------------------------------------------------------- the commit loop, single-state items *)
Definition ucs_s (st : H -> option state) (ts : list (H * state)) (h : H) (dv k : Z) : list (H * state) :=
  if Z.eqb k K_CTX then ts else
  match alist_get ts h with
  | Some n => alist_set ts h (mkState dv (s_ver n) (s_pay n))
  | None => match st h with
            | Some o => alist_set ts h (mkState dv (s_ver o + 1) (s_pay o))
            | None => ts
            end
  end.

Lemma ucs_ctx_ts m h dv l : forall t,
  t_s (fold_left (fun t' ch =>
                 match cstates m ch with
                 | Some c =>
                     if negb (Z.eqb (c_dh c) h) then t' else
                     match alist_get (t_c t') ch with
                     | Some (Some n) => mkTx (t_d t') (t_s t')
                                             (alist_set (t_c t') ch (Some (mkCState (c_dh n) dv (c_ver n + 1) (c_assoc n) (c_bind n) (c_unbind n) (c_pay n))))
                     | Some None => t'
                     | None => mkTx (t_d t') (t_s t')
                                    (alist_set (t_c t') ch (Some (mkCState (c_dh c) dv (c_ver c + 1) (c_assoc c) (c_bind c) (c_unbind c) (c_pay c))))
                     end
                 | None => t'
                 end) l t) = t_s t.
Proof.
  induction l as [|ch r IH]; intros t; cbn [fold_left]; [reflexivity|]. rewrite IH.
  destruct (cstates m ch) as [c|]; [|reflexivity]. destruct (negb (c_dh c =? h)); [reflexivity|].
  destruct (alist_get (t_c t) ch) as [[n|]|]; reflexivity.
Qed.

Lemma ucs_ts m t h dv k : t_s (upd_corr_state m t h dv k) = ucs_s (states m) (t_s t) h dv k.
Proof.
  unfold upd_corr_state, ucs_s. destruct (Z.eqb k K_CTX); [apply ucs_ctx_ts|].
  destruct (alist_get (t_s t) h); [reflexivity|]. destruct (states m h); reflexivity.
Qed.

Lemma ucs_s_get st ts x dv k y :
  alist_get (ucs_s st ts x dv k) y =
  if negb (Z.eqb k K_CTX) && Z.eqb y x then
    match alist_get ts x with
    | Some n => Some (mkState dv (s_ver n) (s_pay n))
    | None => match st x with Some o => Some (mkState dv (s_ver o + 1) (s_pay o)) | None => None end
    end
  else alist_get ts y.
Proof.
  unfold ucs_s. destruct (Z.eqb k K_CTX); cbn [negb andb]; [reflexivity|].
  destruct (alist_get ts x) as [n|] eqn:G.
  - rewrite alist_get_set. destruct (Z.eqb_spec y x) as [->|]; reflexivity.
  - destruct (st x) as [o|].
    + rewrite alist_get_set. destruct (Z.eqb_spec y x) as [->|]; reflexivity.
    + destruct (Z.eqb_spec y x) as [->|]; [exact G|reflexivity].
Qed.

Lemma ucs_s_nodup st ts x dv k : NoDup (map fst ts) -> NoDup (map fst (ucs_s st ts x dv k)).
Proof.
  intros Hn. unfold ucs_s. destruct (Z.eqb k K_CTX); [exact Hn|].
  destruct (alist_get ts x); [apply (proj1 (alist_set_keys _ _ _ Hn))|].
  destruct (st x); [apply (proj1 (alist_set_keys _ _ _ Hn))|exact Hn].
Qed.

Lemma ucs_s_keeps st ts x dv k y : alist_get ts y <> None -> alist_get (ucs_s st ts x dv k) y <> None.
Proof.
  rewrite ucs_s_get. destruct (negb (k =? K_CTX) && (y =? x)) eqn:E; [|tauto].
  apply andb_true_iff in E. destruct E as [_ E]. apply Z.eqb_eq in E. subst y.
  destruct (alist_get ts x); [discriminate|tauto].
Qed.

Definition ts_bump (skip : bool) (p : H) (m : mdib) (b : list H) (ts : list (H * state)) : list (H * state) :=
  if skip || memz p b then ts else
  match descrs m p with Some dp => ucs_s (states m) ts p (d_ver dp + 1) (d_kind dp) | None => ts end.

Definition pi_s (cr up de : list H) (m : mdib) (b : list H) (ts : list (H * state)) (e : H * option descr) : list (H * state) :=
  let h := fst e in
  match snd e, descrs m h with
  | Some d, None =>
      let ts2 := match d_parent d with
                 | Some p => ts_bump (memz p cr || memz p up) p (set_descr m h (Some d)) b ts
                 | None => ts
                 end in
      ucs_s (states m) ts2 h (d_ver d) (d_kind d)
  | None, Some o =>
      match d_parent o with
      | Some p => ts_bump (memz p de || memz p up) p (fold_left rm_one (subtree m h) m) b ts
      | None => ts
      end
  | Some d, Some _ => ucs_s (states m) ts h (d_ver d) (d_kind d)
  | None, None => ts
  end.

Lemma process_item_ts cr up de m t b e :
  t_s (snd (fst (process_item cr up de (m, t, b) e))) = pi_s cr up de m b (t_s t) e.
Proof.
  unfold process_item, pi_s. destruct (snd e) as [d|]; destruct (descrs m (fst e)) as [o|] eqn:Eo; try reflexivity.
  - cbn [fst snd]. now rewrite ucs_ts.
  - destruct (d_parent d) as [p|]; [|cbn [fst snd]; now rewrite ucs_ts]. unfold ts_bump.
    destruct (memz p cr || memz p up || memz p b); [cbn [fst snd]; now rewrite ucs_ts|].
    unfold bump_parent. destruct (descrs (set_descr m (fst e) (Some d)) p) as [dp|]; cbn [fst snd]; rewrite !ucs_ts; reflexivity.
  - destruct (d_parent o) as [p|]; [|reflexivity]. unfold ts_bump.
    destruct (memz p de || memz p up || memz p b); [reflexivity|].
    unfold bump_parent. destruct (descrs (fold_left rm_one (subtree m (fst e)) m) p) as [dp|]; cbn [fst snd]; rewrite ?ucs_ts; reflexivity.
Qed.

(* consistency of (descriptor table, state table, pending state items) *)
Definition T3 (good : H -> Prop) (dsc : H -> option descr) (st : H -> option state) (ts : list (H * state)) : Prop :=
  forall h d, good h -> dsc h = Some d ->
    match alist_get ts h with
    | Some s' => s_dver s' = d_ver d
    | None => forall s, st h = Some s -> s_dver s = d_ver d
    end.
Definition T3c (dsc : H -> option descr) (st : H -> option state) (ts : list (H * state)) : Prop :=
  forall h d, dsc h = Some d -> d_kind d = K_CTX -> st h = None /\ alist_get ts h = None.

Lemma T3_ext good dsc dsc' st st' ts : (forall y, dsc' y = dsc y) -> (forall y, st' y = st y) ->
  T3 good dsc st ts -> T3 good dsc' st' ts.
Proof. intros E1 E2 HT h d Hg. rewrite E1. intros Hd. specialize (HT h d Hg Hd). destruct (alist_get ts h); [exact HT|]. intros s. rewrite E2. apply HT. Qed.
Lemma T3c_ext dsc dsc' st st' ts : (forall y, dsc' y = dsc y) -> (forall y, st' y = st y) ->
  T3c dsc st ts -> T3c dsc' st' ts.
Proof. intros E1 E2 HT h d. rewrite E1, E2. apply HT. Qed.

Lemma T3_set good dsc st ts x dx :
  T3 good dsc st ts -> T3c dsc st ts -> (d_kind dx = K_CTX -> st x = None /\ alist_get ts x = None) ->
  T3 good (upd dsc x (Some dx)) st (ucs_s st ts x (d_ver dx) (d_kind dx)) /\
  T3c (upd dsc x (Some dx)) st (ucs_s st ts x (d_ver dx) (d_kind dx)).
Proof.
  intros H3 H3c Hx. split.
  - intros y dy Hg. rewrite upd_eq, ucs_s_get. destruct (Z.eqb_spec x y) as [<-|Hne].
    + intros [= <-]. rewrite Z.eqb_refl, andb_true_r. destruct (Z.eqb_spec (d_kind dx) K_CTX) as [Ek|Ek]; cbn [negb].
      * destruct (Hx Ek) as [E1 E2]. rewrite E2. intros s. congruence.
      * destruct (alist_get ts x); [reflexivity|]. destruct (st x); [reflexivity|discriminate].
    + destruct (Z.eqb_spec y x); [congruence|]. rewrite andb_false_r. now apply H3.
  - intros y dy. rewrite upd_eq, ucs_s_get. destruct (Z.eqb_spec x y) as [<-|Hne].
    + intros [= <-] Ek. rewrite Ek. cbn [Z.eqb negb andb]. replace (K_CTX =? K_CTX) with true by reflexivity. cbn [negb andb].
      now apply Hx.
    + destruct (Z.eqb_spec y x); [congruence|]. rewrite andb_false_r. apply H3c.
Qed.

(* effective version of a descriptor handle: the version it has, or the one remembered for the handle *)
Definition ev_d (m : mdib) (h : H) : Z :=
  match descrs m h with Some d => d_ver d | None => match sv_d m h with Some v => v | None => -1 end end.

(* the final write-back of the pending state items *)
Lemma fold_put_cstate_ddom l : forall m, ddom (fold_left (fun m' e => put_cstate m' (fst e) (snd e)) l m) = ddom m.
Proof. induction l as [|e r IH]; intros m; cbn [fold_left]; [reflexivity|]. now rewrite IH. Qed.

Lemma hsu_pointwise m1 t1 : NoDup (map fst (t_s t1)) ->
  descrs (handle_state_updates m1 t1) = descrs m1 /\
  (forall h, states (handle_state_updates m1 t1) h = match alist_get (t_s t1) h with Some s => Some s | None => states m1 h end) /\
  sv_d (handle_state_updates m1 t1) = sv_d m1 /\
  (forall h, sv_s (handle_state_updates m1 t1) h =
             match alist_get (t_s t1) h, states m1 h with Some _, Some o => Some (s_ver o) | _, _ => sv_s m1 h end) /\
  ddom (handle_state_updates m1 t1) = ddom m1.
Proof.
  intros Hn. unfold handle_state_updates.
  match goal with |- context [fold_left ?f (t_c t1) ?a] => destruct (fold_put_cstate_frame2 (t_c t1) a) as (A & B & _ & C & D) end.
  cbv zeta in *. rewrite A, B, C, D, fold_put_cstate_ddom.
  destruct (fold_put_state_frame (t_s t1) m1) as (A1 & _ & C1 & _ & E1 & _). cbv zeta in *.
  rewrite A1, C1, E1. repeat split.
  - intros h. now apply fold_put_state_states.
  - intros h. now apply fold_put_state_sv.
Qed.

(* ---------------------------------------------------------------- context states under removal *)
Lemma rm_cs_fold h l : forall m0, (forall ch, In ch l -> In ch (cdom m0)) ->
  let mr := fold_left (rm_cs h) l m0 in
  (forall ch, cstates mr ch = match cstates m0 ch with
                              | Some c => if Z.eqb (c_dh c) h && memz ch l then None else Some c
                              | None => None
                              end) /\
  (forall ch, sv_c mr ch = match cstates m0 ch with
                           | Some c => if Z.eqb (c_dh c) h && memz ch l then Some (c_ver c) else sv_c m0 ch
                           | None => sv_c m0 ch
                           end) /\
  cdom mr = cdom m0.
Proof.
  induction l as [|k r IH]; intros m0 Hin; cbn [fold_left].
  - repeat split; intros ch; destruct (cstates m0 ch) as [c|]; try reflexivity; now rewrite andb_false_r.
  - assert (Hk : memz k (cdom m0) = true) by (apply memz_In, Hin; now left).
    assert (Hr : forall m1, cdom m1 = cdom m0 -> forall ch, In ch r -> In ch (cdom m1)).
    { intros m1 E ch Hc. rewrite E. apply Hin. now right. }
    assert (Ers : rm_cs h m0 k = match cstates m0 k with
                                 | Some c => if Z.eqb (c_dh c) h then put_cstate m0 k None else m0
                                 | None => m0 end) by reflexivity.
    rewrite Ers. clear Ers.
    destruct (cstates m0 k) as [c0|] eqn:Ek; [destruct (Z.eqb_spec (c_dh c0) h) as [Eh|Eh]|].
    + assert (Ec : cdom (put_cstate m0 k None) = cdom m0) by (cbn [cdom put_cstate]; unfold add_dom; now rewrite Hk).
      destruct (IH (put_cstate m0 k None) (Hr _ Ec)) as (A & B & C). cbv zeta in *. rewrite C, Ec.
      split; [|split; [|reflexivity]]; intros ch.
      * rewrite A, put_cstate_cstates, memz_cons. rewrite (Z.eqb_sym ch k). destruct (Z.eqb_spec k ch) as [<-|Hne].
        -- rewrite Ek. apply Z.eqb_eq in Eh. now rewrite Eh.
        -- reflexivity.
      * rewrite B, put_cstate_cstates, put_cstate_sv, Ek, memz_cons. rewrite (Z.eqb_sym ch k).
        destruct (Z.eqb_spec k ch) as [<-|Hne].
        -- rewrite Ek. apply Z.eqb_eq in Eh. now rewrite Eh.
        -- reflexivity.
    + destruct (IH m0 (Hr _ eq_refl)) as (A & B & C). cbv zeta in *. rewrite C.
      split; [|split; [|reflexivity]]; intros ch; rewrite ?A, ?B, memz_cons; rewrite (Z.eqb_sym ch k);
        destruct (Z.eqb_spec k ch) as [<-|Hne]; try reflexivity; rewrite Ek;
        destruct (Z.eqb_spec (c_dh c0) h); try contradiction; reflexivity.
    + destruct (IH m0 (Hr _ eq_refl)) as (A & B & C). cbv zeta in *. rewrite C.
      split; [|split; [|reflexivity]]; intros ch; rewrite ?A, ?B, memz_cons; rewrite (Z.eqb_sym ch k);
        destruct (Z.eqb_spec k ch) as [<-|Hne]; try reflexivity; now rewrite Ek.
Qed.

Lemma rm_one_cs m h :
  (forall ch, cstates (rm_one m h) ch = match cstates m ch with
                                        | Some c => if Z.eqb (c_dh c) h && memz ch (cdom m) then None else Some c
                                        | None => None
                                        end) /\
  (forall ch, sv_c (rm_one m h) ch = match cstates m ch with
                                     | Some c => if Z.eqb (c_dh c) h && memz ch (cdom m) then Some (c_ver c) else sv_c m ch
                                     | None => sv_c m ch
                                     end) /\
  cdom (rm_one m h) = cdom m.
Proof.
  rewrite rm_one_eq. cbv zeta.
  set (m2 := match states (set_descr m h None) h with Some s => _ | None => _ end).
  assert (E : cstates m2 = cstates m /\ sv_c m2 = sv_c m /\ cdom m2 = cdom m).
  { unfold m2. destruct (states (set_descr m h None) h); repeat split. }
  destruct E as (E1 & E2 & E3).
  destruct (rm_cs_fold h (cdom m2) m2 (fun ch Hc => Hc)) as (A & B & C). cbv zeta in *.
  split; [|split]; [intros ch; rewrite A, E1, E3; reflexivity|intros ch; rewrite B, E1, E2, E3; reflexivity|rewrite C; exact E3].
Qed.

Lemma rm_list_cs l : forall m,
  (forall ch, cstates (fold_left rm_one l m) ch = match cstates m ch with
                                                  | Some c => if memz (c_dh c) l && memz ch (cdom m) then None else Some c
                                                  | None => None
                                                  end) /\
  (forall ch, sv_c (fold_left rm_one l m) ch = match cstates m ch with
                                               | Some c => if memz (c_dh c) l && memz ch (cdom m) then Some (c_ver c) else sv_c m ch
                                               | None => sv_c m ch
                                               end) /\
  cdom (fold_left rm_one l m) = cdom m.
Proof.
  induction l as [|k r IH]; intros m; cbn [fold_left].
  - repeat split; intros ch; destruct (cstates m ch); reflexivity.
  - destruct (IH (rm_one m k)) as (A & B & C). destruct (rm_one_cs m k) as (A1 & B1 & C1).
    split; [|split; [|now rewrite C, C1]]; intros ch.
    + rewrite A, A1, C1. destruct (cstates m ch) as [c|]; [|reflexivity]. rewrite memz_cons.
      destruct (Z.eqb (c_dh c) k), (memz ch (cdom m)); cbn [andb orb]; try reflexivity;
        destruct (memz (c_dh c) r); cbn [andb orb]; reflexivity.
    + rewrite B, A1, B1, C1. destruct (cstates m ch) as [c|]; [|reflexivity]. rewrite memz_cons.
      destruct (Z.eqb (c_dh c) k), (memz ch (cdom m)); cbn [andb orb]; try reflexivity;
        destruct (memz (c_dh c) r); cbn [andb orb]; reflexivity.
Qed.

(* the pending context-state items *)
Lemma ucs_tc_inv (Q : H -> Prop) m h dv k t :
  NoDup (map fst (t_c t)) -> (forall ch, alist_get (t_c t) ch <> None -> Q ch) ->
  (forall ch c, cstates m ch = Some c -> c_dh c = h -> Q ch) ->
  NoDup (map fst (t_c (upd_corr_state m t h dv k))) /\
  (forall ch, alist_get (t_c (upd_corr_state m t h dv k)) ch <> None -> Q ch).
Proof.
  intros Hn HQ Hnew. unfold upd_corr_state. destruct (Z.eqb k K_CTX).
  - revert t Hn HQ. induction (cdom m) as [|ch r IH]; intros t Hn HQ; cbn [fold_left]; [now split|].
    apply IH.
    + destruct (cstates m ch) as [c|]; [|exact Hn]. destruct (negb (c_dh c =? h)); [exact Hn|].
      destruct (alist_get (t_c t) ch) as [[n|]|]; cbn [t_c]; try exact Hn; apply (proj1 (alist_set_keys _ _ _ Hn)).
    + destruct (cstates m ch) as [c|] eqn:Ec; [|exact HQ]. destruct (Z.eqb_spec (c_dh c) h) as [Eh|Eh]; cbn [negb]; [|exact HQ].
      assert (Qch : Q ch) by (eapply Hnew; eassumption).
      destruct (alist_get (t_c t) ch) as [[n|]|]; cbn [t_c]; try exact HQ;
        intros y; rewrite alist_get_set; destruct (Z.eqb_spec y ch) as [->|]; auto.
  - destruct (alist_get (t_s t) h); [now split|]. destruct (states m h); now split.
Qed.

Lemma hsu_cstates m1 t1 : NoDup (map fst (t_c t1)) ->
  (forall k, cstates (handle_state_updates m1 t1) k = match alist_get (t_c t1) k with Some x => x | None => cstates m1 k end) /\
  (forall k, sv_c (handle_state_updates m1 t1) k =
             match alist_get (t_c t1) k, cstates m1 k with Some _, Some o => Some (c_ver o) | _, _ => sv_c m1 k end) /\
  (forall k, In k (cdom m1) -> In k (cdom (handle_state_updates m1 t1))) /\
  (forall k, alist_get (t_c t1) k <> None -> In k (cdom (handle_state_updates m1 t1))).
Proof.
  intros Hn. unfold handle_state_updates.
  destruct (fold_put_state_frame (t_s t1) m1) as (_ & B1 & _ & D1 & _ & F1). cbv zeta in *.
  set (m2 := fold_left (fun m' e => put_state m' (fst e) (snd e)) (t_s t1) m1) in *.
  destruct (fold_put_cstate_point (t_c t1) m2 Hn) as [P1 P2]. rewrite B1, D1 in *.
  split; [exact P1|]. split; [exact P2|]. rewrite <- F1.
  assert (G : forall l m0, (forall k, In k (cdom m0) -> In k (cdom (fold_left (fun m' e => put_cstate m' (fst e) (snd e)) l m0))) /\
                           (forall k, In k (map fst l) -> In k (cdom (fold_left (fun m' e => put_cstate m' (fst e) (snd e)) l m0)))).
  { induction l as [|e r IH]; intros m0; cbn [fold_left map]; [split; [tauto|intros k []]|].
    destruct (IH (put_cstate m0 (fst e) (snd e))) as [I1 I2]. split.
    - intros k Hk. apply I1. cbn [cdom put_cstate]. apply add_dom_In. now right.
    - intros k [<-|Hk]; [|now apply I2]. apply I1. cbn [cdom put_cstate]. apply add_dom_In. now left. }
  destruct (G (t_c t1) m2) as [G1 G2]. split; [exact G1|]. intros k Hk. apply G2. apply alist_has_in.
  unfold alist_has. destruct (alist_get (t_c t1) k); [reflexivity|contradiction].
Qed.

(* ---------------------------------------------------------------- the fuel of [reaches] suffices *)
(* a chain of parent links from x to r; every listed node has a descriptor *)
Inductive walk (m : mdib) : H -> list H -> H -> Prop :=
| walk_nil x : walk m x [] x
| walk_cons x d p l r : descrs m x = Some d -> d_parent d = Some p -> walk m p l r -> walk m x (x :: l) r.

Lemma below_walk m x r : below m x r -> exists l, walk m x l r.
Proof.
  induction 1 as [x|x d p r E P B [l IH]]; [exists []; constructor|]. exists (x :: l). econstructor; eassumption.
Qed.
Lemma walk_reaches m x l r : walk m x l r -> reaches m (length l) x r = true.
Proof.
  induction 1 as [x|x d p l r E P W IH]; cbn [length reaches]; [now rewrite Z.eqb_refl|].
  destruct (Z.eqb x r); [reflexivity|]. now rewrite E, P.
Qed.
Lemma walk_nodes m x l r : walk m x l r -> forall y, In y l -> descrs m y <> None.
Proof.
  induction 1 as [x|x d p l r E P W IH]; intros y; [intros []|]. intros [<-|Hy]; [congruence|now apply IH].
Qed.
Lemma walk_from_member m p l r : walk m p l r -> forall x, In x l -> exists pre l', l = pre ++ l' /\ walk m x l' r.
Proof.
  induction 1 as [y|y d q l r E P W IH]; intros x; [intros []|]. intros [<-|Hx].
  - exists [], (y :: l). split; [reflexivity|]. econstructor; eassumption.
  - destruct (IH x Hx) as (pre & l' & -> & W'). exists (y :: pre), l'. now split.
Qed.
Lemma nodup_app_r {A} (l1 l2 : list A) : NoDup (l1 ++ l2) -> NoDup l2.
Proof. induction l1 as [|a r IH]; cbn; [tauto|]. intros Hn. inversion Hn; subst. now apply IH. Qed.

Lemma walk_shorten m x l r : walk m x l r -> exists l', walk m x l' r /\ NoDup l' /\ incl l' l.
Proof.
  induction 1 as [x|x d p l r E P W (l' & W' & N' & I')].
  - exists []. split; [constructor|]. split; [constructor|apply incl_refl].
  - destruct (in_dec Z.eq_dec x l') as [Hin|Hnin].
    + destruct (walk_from_member m p l' r W' x Hin) as (pre & l'' & -> & W'').
      exists l''. split; [exact W''|]. split; [now apply nodup_app_r in N'|].
      intros y Hy. right. apply I'. apply in_or_app. now right.
    + exists (x :: l'). split; [econstructor; eassumption|]. split; [now constructor|].
      intros y [<-|Hy]; [now left|right; now apply I'].
Qed.

Lemma fuel_ok m : (forall h, descrs m h <> None -> In h (ddom m)) ->
  forall x r, below m x r -> reaches m (length (ddom m)) x r = true.
Proof.
  intros Hdom x r B. destruct (below_walk m x r B) as [l W].
  destruct (walk_shorten m x l r W) as (l' & W' & N' & _).
  apply (reaches_mono m (length l')); [|now apply walk_reaches].
  apply NoDup_incl_length; [exact N'|]. intros y Hy. apply Hdom. eapply walk_nodes; eassumption.
Qed.

Lemma below_reaches m : (forall h, descrs m h <> None -> In h (ddom m)) ->
  forall x r, below m x r <-> reaches m (length (ddom m)) x r = true.
Proof. intros Hdom x r. split; [now apply fuel_ok|apply reaches_below]. Qed.

Lemma below_trans m x y r : below m x y -> below m y r -> below m x r.
Proof. induction 1 as [x|x d p y E P B IH]; intros B2; [exact B2|]. eapply below_step; eauto. Qed.

(* a chain that is intact (same parent links) in mc is followed by mc as well *)
Lemma reaches_transfer2 m mc r : forall f x,
  (forall y, below m x y -> below m y r -> y <> r ->
     exists d d', descrs m y = Some d /\ descrs mc y = Some d' /\ d_parent d' = d_parent d) ->
  reaches m f x r = true -> reaches mc f x r = true.
Proof.
  induction f as [|f IH]; intros x Hagree; cbn [reaches]; [tauto|].
  destruct (Z.eqb_spec x r) as [->|Hne]; [reflexivity|].
  destruct (descrs m x) as [d|] eqn:E; [|discriminate].
  destruct (d_parent d) as [p|] eqn:P; [|discriminate]. intros R.
  assert (B : below m x r) by (eapply below_step; eauto using reaches_below).
  destruct (Hagree x (below_refl _ _) B Hne) as (d1 & d' & E1 & E' & P').
  rewrite E in E1. injection E1 as <-. rewrite E', P', P. apply IH; [|exact R].
  intros y By Byr Hy. apply Hagree; [eapply below_step; eassumption|exact Byr|exact Hy].
Qed.

(* every non-root descriptor has an existing parent *)
Definition tree_ok (m : mdib) : Prop :=
  forall h d p, descrs m h = Some d -> d_parent d = Some p -> descrs m p <> None.

Section DescrFold.
  Variable good : H -> Prop.
  Variable m : mdib.
  Variable L : list (H * option descr).
  Variables cr up de : list H.
  Hypothesis HLn : NoDup (map fst L).
  Hypothesis HLi : forall h x, In (h, x) L -> ditem_ok m h x.
  Hypothesis Hdom : forall h, descrs m h <> None -> In h (ddom m).
  Hypothesis Hsd : forall h, states m h <> None -> descrs m h <> None.

  (* the handles this transaction removes: the subtrees (before the commit) of the removed descriptors *)
  Definition Rm (h : H) : Prop := exists D, In (D, None) L /\ In h (subtree m D).

  Hypothesis Hcr : forall p, memz p cr = true <-> exists d, In (p, Some d) L /\ descrs m p = None.
  Hypothesis Hup : forall p, memz p up = true <-> exists d, In (p, Some d) L /\ descrs m p <> None.
  Hypothesis Hde : forall p, memz p de = true <-> Rm p.
  (* no conflict: nothing is created or updated inside a removed subtree *)
  Hypothesis Hnc_h : forall h d, In (h, Some d) L -> ~ Rm h.
  Hypothesis Hnc_p : forall h d p, In (h, Some d) L -> d_parent d = Some p -> ~ Rm p.

  Definition pd (done : list (H * option descr)) (h : H) : bool := memz h (map fst done).
  Definition rem_below (done : list (H * option descr)) (h : H) : Prop := exists D, In (D, None) done /\ below m h D.
  (* an item that adds / removes a child of h *)
  Definition trig_item (e : H * option descr) (h : H) : Prop :=
    match snd e with
    | Some d => descrs m (fst e) = None /\ d_parent d = Some h
    | None => exists dc, descrs m (fst e) = Some dc /\ d_parent dc = Some h
    end.
  Definition trig (done : list (H * option descr)) (h : H) : Prop := exists e, In e done /\ trig_item e h.
  (* a removed descriptor whose parent is h *)
  Definition trigd (done : list (H * option descr)) (h : H) : Prop :=
    exists c dc, In (c, None) done /\ descrs m c = Some dc /\ d_parent dc = Some h.
  (* why h was bumped: some child item; for a handle created by this transaction: a removed (orphan) child *)
  Definition trig2 (done : list (H * option descr)) (h : H) : Prop :=
    trig done h /\ (descrs m h = None -> trigd done h).

  Lemma L_get h x : In (h, x) L -> alist_get L h = Some x.
  Proof. apply alist_get_in. exact HLn. Qed.
  Lemma L_in h x : alist_get L h = Some x -> In (h, x) L.
  Proof. apply alist_get_some_in. Qed.

  Lemma del_exists D : In (D, None) L -> descrs m D <> None.
  Proof. intros HD. pose proof (HLi _ _ HD) as Ok. unfold ditem_ok in Ok. destruct (descrs m D); [discriminate|contradiction]. Qed.

  Lemma below_Rm D x : In (D, None) L -> below m x D -> Rm x.
  Proof.
    intros HD B. exists D. split; [exact HD|]. apply subtree_In.
    assert (Ex : descrs m x <> None).
    { destruct (descrs m x) eqn:E; [discriminate|]. apply (below_absent _ _ _ E) in B. subst x. now apply del_exists in HD. }
    split; [now apply Hdom|]. split; [exact Ex|]. now apply fuel_ok.
  Qed.
  Lemma Rm_below x : Rm x -> descrs m x <> None /\ exists D, In (D, None) L /\ below m x D.
  Proof.
    intros (D & HD & Hx). apply subtree_In in Hx. destruct Hx as (_ & Ex & R). split; [exact Ex|].
    exists D. split; [exact HD|]. eapply reaches_below; exact R.
  Qed.
  Lemma rem_below_Rm done x : (forall e, In e done -> In e L) -> rem_below done x -> Rm x.
  Proof. intros Hd (D & Hi & B). eapply below_Rm; [apply Hd; exact Hi|exact B]. Qed.

  Lemma below_dec x r : below m x r \/ ~ below m x r.
  Proof.
    destruct (reaches m (length (ddom m)) x r) eqn:R; [left; eapply reaches_below; exact R|].
    right. intros B. rewrite (fuel_ok m Hdom x r B) in R. discriminate.
  Qed.
  Lemma rem_below_dec done x : rem_below done x \/ ~ rem_below done x.
  Proof.
    induction done as [|[k [d|]] r IH].
    - right. intros (D & [] & _).
    - destruct IH as [(D & Hi & B)|N]; [left; exists D; split; [now right|exact B]|].
      right. intros (D & [[=]|Hi] & B). apply N. now exists D.
    - destruct (below_dec x k) as [B|NB]; [left; exists k; split; [now left|exact B]|].
      destruct IH as [(D & Hi & B)|N]; [left; exists D; split; [now right|exact B]|].
      right. intros (D & [[= ->]|Hi] & B); [contradiction|]. apply N. now exists D.
  Qed.

  Definition dspec (done : list (H * option descr)) (mc : mdib) (b : list H) (h : H) : Prop :=
    match alist_get L h, descrs m h with
    | Some (Some d), Some _ => descrs mc h = if pd done h then Some d else descrs m h
    | Some (Some d), None => descrs mc h = if pd done h then Some (if memz h b then bumpd d else d) else None
    | _, None => descrs mc h = None
    | _, Some d0 => (rem_below done h -> descrs mc h = None) /\
                    (~ rem_below done h -> descrs mc h = Some (if memz h b then bumpd d0 else d0))
    end.

  Definition no_upd (h : H) : Prop := forall d, In (h, Some d) L -> descrs m h = None.

  Record Inv1 (done : list (H * option descr)) (mc : mdib) (b : list H) : Prop := {
    i_d : forall h, dspec done mc b h;
    i_b1 : forall h, memz h b = true ->
             ~ Rm h /\ ((exists d, In (h, Some d) done /\ descrs m h <> None) \/ (no_upd h /\ trig2 done h));
    i_bex : forall h, memz h b = true -> descrs mc h <> None;
    i_dom : forall h, descrs mc h <> None -> In h (ddom mc);
    i_dom2 : incl (ddom m) (ddom mc) /\ (length (ddom m) <= length (ddom mc))%nat;
    i_svd2 : forall h, ~ rem_below done h -> sv_d mc h = sv_d m h;
    i_svd3 : forall h d0, descrs m h = Some d0 -> descrs mc h = None -> sv_d mc h = Some (d_ver d0);
    i_st1 : forall h, states mc h = None \/ states mc h = states m h;
    i_stR : forall h, rem_below done h -> states mc h = None;
    i_st3 : forall h, ~ rem_below done h -> states mc h = states m h;
    i_st4 : forall h, states mc h <> None -> descrs mc h <> None;
    i_svsR : forall h s, rem_below done h -> states m h = Some s -> sv_s mc h = Some (s_ver s);
    i_svs2 : forall h, ~ rem_below done h -> sv_s mc h = sv_s m h
  }.

  Lemma pd_app done e h : pd (done ++ [e]) h = pd done h || Z.eqb h (fst e).
  Proof. unfold pd. rewrite map_app, memz_app. cbn [map]. rewrite memz_cons. cbn [memz existsb]. now rewrite orb_false_r. Qed.
  Lemma pd_in done h x : In (h, x) done -> pd done h = true.
  Proof. intros Hi. apply memz_In. now apply (in_map fst) in Hi. Qed.

  Section Split.
    Variables (done rest : list (H * option descr)) (e : H * option descr).
    Hypothesis HL : L = done ++ e :: rest.
    Lemma done_in x : In x done -> In x L.
    Proof. intros Hi. rewrite HL. apply in_or_app. now left. Qed.
    Lemma e_in : In e L.
    Proof. rewrite HL. apply in_or_app. right. now left. Qed.
    Lemma e_not_done : pd done (fst e) = false.
    Proof.
      apply memz_false. intros Hi. rewrite HL, map_app in HLn. cbn [map] in HLn.
      apply NoDup_remove_2 in HLn. apply HLn. apply in_or_app. now left.
    Qed.
    Lemma done'_in x : In x (done ++ [e]) -> In x L.
    Proof. rewrite in_app_iff. intros [Hi|[<-|[]]]; [now apply done_in|exact e_in]. Qed.
  End Split.

  Lemma in_app_single {A} (l : list A) (e x : A) : In x (l ++ [e]) <-> In x l \/ x = e.
  Proof. rewrite in_app_iff. cbn. intuition. Qed.
  Lemma rem_below_mono done e h : rem_below done h -> rem_below (done ++ [e]) h.
  Proof. intros (D & Hi & B). exists D. split; [apply in_or_app; now left|exact B]. Qed.
  Lemma rem_below_some done k d h : rem_below (done ++ [(k, Some d)]) h <-> rem_below done h.
  Proof.
    split; [|apply rem_below_mono]. intros (D & Hi & B). apply in_app_single in Hi. destruct Hi as [Hi|[=]]. now exists D.
  Qed.
  Lemma rem_below_none done k h : rem_below (done ++ [(k, None)]) h <-> rem_below done h \/ below m h k.
  Proof.
    split.
    - intros (D & Hi & B). apply in_app_single in Hi. destruct Hi as [Hi|[= ->]]; [left; now exists D|now right].
    - intros [R|B]; [now apply rem_below_mono|]. exists k. split; [apply in_or_app; right; now left|exact B].
  Qed.
  Lemma trig_mono done e h : trig done h -> trig (done ++ [e]) h.
  Proof. intros (x & Hi & T). exists x. split; [apply in_or_app; now left|exact T]. Qed.
  Lemma trig2_mono done e h : trig2 done h -> trig2 (done ++ [e]) h.
  Proof.
    intros [T Td]. split; [now apply trig_mono|]. intros E. destruct (Td E) as (c & dc & Hi & R).
    exists c, dc. split; [apply in_or_app; now left|exact R].
  Qed.
  Lemma trig_app done e h : trig (done ++ [e]) h -> trig done h \/ trig_item e h.
  Proof. intros (x & Hi & T). apply in_app_single in Hi. destruct Hi as [Hi| ->]; [left; now exists x|now right]. Qed.

  (* the current descriptor of a handle that exists, expressed through the original one *)
  Lemma current_parent done mc b x dx : Inv1 done mc b -> descrs mc x = Some dx ->
    (exists d, In (x, Some d) L /\ descrs m x = None /\ d_parent dx = d_parent d) \/
    (exists d0, descrs m x = Some d0 /\ d_parent dx = d_parent d0).
  Proof.
    intros HI E. pose proof (i_d _ _ _ HI x) as S. unfold dspec in S.
    destruct (alist_get L x) as [[d|]|] eqn:G; destruct (descrs m x) as [d0|] eqn:Eo.
    - right. exists d0. split; [reflexivity|]. apply L_in in G. pose proof (HLi _ _ G) as Ok. unfold ditem_ok in Ok.
      rewrite Eo in Ok. destruct Ok as (Op & _). destruct (pd done x); rewrite E in S; [|congruence]. injection S as ->. exact Op.
    - left. exists d. apply L_in in G. split; [exact G|]. split; [reflexivity|].
      destruct (pd done x); rewrite E in S; [|discriminate]. injection S as ->. now destruct (memz x b).
    - right. exists d0. split; [reflexivity|]. destruct S as [S1 S2]. destruct (rem_below_dec done x) as [R|R].
      + rewrite (S1 R) in E. discriminate.
      + rewrite (S2 R) in E. injection E as <-. now destruct (memz x b).
    - congruence.
    - right. exists d0. split; [reflexivity|]. destruct S as [S1 S2]. destruct (rem_below_dec done x) as [R|R].
      + rewrite (S1 R) in E. discriminate.
      + rewrite (S2 R) in E. injection E as <-. now destruct (memz x b).
    - congruence.
  Qed.

  (* whatever the loop removes lies in a removed subtree of the original MDIB *)
  Lemma below_mc_m done mc b D : Inv1 done mc b -> In (D, None) L -> forall x, below mc x D -> below m x D.
  Proof.
    intros HI HD x B. induction B as [x|x dx p r E P B IH]; [apply below_refl|]. specialize (IH HD).
    destruct (current_parent done mc b x dx HI E) as [(d & Hi & Eo & Pd)|(d0 & Eo & Pd)].
    - exfalso. rewrite P in Pd. apply (Hnc_p x d p Hi (eq_sym Pd)). now apply (below_Rm r).
    - eapply below_step; [exact Eo|rewrite <- Pd; exact P|exact IH].
  Qed.

  (* a handle below D that is still there when D is removed goes with it *)
  Lemma still_there_in_subtree done mc b D : (forall e, In e done -> In e L) -> Inv1 done mc b -> In (D, None) L ->
    forall x, below m x D -> descrs mc x <> None -> In x (subtree mc D).
  Proof.
    intros Hd HI HD x B Ex. apply subtree_In. split; [now apply (i_dom _ _ _ HI)|]. split; [exact Ex|].
    apply (reaches_mono mc (length (ddom m))); [apply (i_dom2 _ _ _ HI)|].
    apply (reaches_transfer2 m mc D); [|now apply fuel_ok].
    intros y Bxy ByD Hne.
    pose proof (below_Rm D y HD ByD) as Ry. destruct (Rm_below y Ry) as [Ey _].
    destruct (descrs m y) as [d0|] eqn:Eo; [|contradiction].
    pose proof (i_d _ _ _ HI y) as S. unfold dspec in S. rewrite Eo in S.
    assert (NR : ~ rem_below done y).
    { intros (D2 & Hi & B2). apply Ex.
      assert (Rx : rem_below done x) by (exists D2; split; [exact Hi|eapply below_trans; eassumption]).
      pose proof (i_d _ _ _ HI x) as Sx. unfold dspec in Sx.
      assert (Exo : descrs m x <> None) by (apply (Rm_below x), (below_Rm D x HD B)).
      destruct (descrs m x) as [dx0|] eqn:Exo'; [|contradiction].
      destruct (alist_get L x) as [[d|]|] eqn:G; [|now apply Sx|now apply Sx].
      exfalso. apply L_in in G. apply (Hnc_h x d G). exact (below_Rm D x HD B). }
    destruct (alist_get L y) as [[d|]|] eqn:G.
    - exfalso. apply L_in in G. exact (Hnc_h y d G Ry).
    - destruct S as [_ S]. rewrite (S NR). exists d0. eexists. split; [reflexivity|]. split; [reflexivity|]. now destruct (memz y b).
    - destruct S as [_ S]. rewrite (S NR). exists d0. eexists. split; [reflexivity|]. split; [reflexivity|]. now destruct (memz y b).
  Qed.

  Lemma dspec_same done done' mc mc' b b' x :
    descrs mc' x = descrs mc x -> (forall d, alist_get L x = Some (Some d) -> pd done' x = pd done x) ->
    (rem_below done' x <-> rem_below done x) -> memz x b' = memz x b ->
    dspec done mc b x -> dspec done' mc' b' x.
  Proof.
    unfold dspec. intros E1 E2 E3 E4. rewrite E1, E4.
    destruct (alist_get L x) as [[d|]|]; destruct (descrs m x); try rewrite (E2 d eq_refl); try rewrite E3; tauto.
  Qed.

  (* ------------------------------------------------ the primitive steps *)
  Lemma inv1_create done rest h d mc b : L = done ++ (h, Some d) :: rest -> descrs m h = None ->
    Inv1 done mc b -> Inv1 (done ++ [(h, Some d)]) (set_descr mc h (Some d)) b.
  Proof.
    intros HL Eo HI. pose proof (e_in _ _ _ HL) as He. pose proof (L_get _ _ He) as Ge.
    pose proof (e_not_done _ _ _ HL) as Hp. cbn [fst] in Hp.
    assert (Ec : descrs mc h = None).
    { pose proof (i_d _ _ _ HI h) as S. unfold dspec in S. now rewrite Ge, Eo, Hp in S. }
    assert (Mb : memz h b = false).
    { destruct (memz h b) eqn:Mb; [|reflexivity]. exfalso. exact (i_bex _ _ _ HI h Mb Ec). }
    constructor.
    - intros x. destruct (Z.eq_dec x h) as [->|Hne].
      + unfold dspec. rewrite Ge, Eo, pd_app, set_descr_descrs, Z.eqb_refl. cbn [fst]. rewrite Z.eqb_refl, orb_true_r, Mb. reflexivity.
      + apply (dspec_same done _ mc _ b b x); [| | |reflexivity|exact (i_d _ _ _ HI x)].
        * rewrite set_descr_descrs. destruct (Z.eqb_spec h x); [congruence|reflexivity].
        * intros _ _. rewrite pd_app. cbn [fst]. destruct (Z.eqb_spec x h); [congruence|]. apply orb_false_r.
        * apply rem_below_some.
    - intros x Mx. destruct (i_b1 _ _ _ HI x Mx) as [NR [(dx & Hi & Ex)|(G & T)]]; (split; [exact NR|]).
      + left. exists dx. split; [apply in_or_app; now left|exact Ex].
      + right. split; [exact G|now apply trig2_mono].
    - intros x Mx. rewrite set_descr_descrs. destruct (Z.eqb h x); [discriminate|]. now apply (i_bex _ _ _ HI).
    - intros x. rewrite set_descr_descrs. cbn [ddom set_descr]. rewrite add_dom_In.
      destruct (Z.eqb_spec h x) as [<-|_]; [now left|]. intros Hx. right. now apply (i_dom _ _ _ HI).
    - destruct (i_dom2 _ _ _ HI) as [I1 I2]. cbn [ddom set_descr]. split.
      + intros x Hx. apply add_dom_In. right. now apply I1.
      + pose proof (add_dom_len h (ddom mc)). lia.
    - intros x NR. rewrite set_descr_svd. apply (i_svd2 _ _ _ HI). intros R0; apply NR; now apply rem_below_mono.
    - intros x d0 Ex En. rewrite set_descr_svd. rewrite set_descr_descrs in En.
      destruct (Z.eqb h x); [discriminate|]. eapply i_svd3; eassumption.
    - exact (i_st1 _ _ _ HI).
    - intros x R. apply (i_stR _ _ _ HI). exact (proj1 (rem_below_some _ _ _ _) R).
    - intros x NR. apply (i_st3 _ _ _ HI). intros R0; apply NR; now apply rem_below_mono.
    - intros x Hx. rewrite set_descr_descrs. destruct (Z.eqb h x); [discriminate|]. now apply (i_st4 _ _ _ HI).
    - intros x s R. apply (i_svsR _ _ _ HI). exact (proj1 (rem_below_some _ _ _ _) R).
    - intros x NR. apply (i_svs2 _ _ _ HI). intros R0; apply NR; now apply rem_below_mono.
  Qed.

  Lemma inv1_update done rest h d mc b : L = done ++ (h, Some d) :: rest -> descrs m h <> None ->
    Inv1 done mc b -> Inv1 (done ++ [(h, Some d)]) (set_descr mc h (Some d)) (h :: b).
  Proof.
    intros HL Eo HI. pose proof (e_in _ _ _ HL) as He. pose proof (L_get _ _ He) as Ge.
    constructor.
    - intros x. destruct (Z.eq_dec x h) as [->|Hne].
      + unfold dspec. rewrite Ge, pd_app, set_descr_descrs, Z.eqb_refl. cbn [fst]. rewrite Z.eqb_refl, orb_true_r.
        destruct (descrs m h); [reflexivity|contradiction].
      + apply (dspec_same done _ mc _ b (h :: b) x); [| | | |exact (i_d _ _ _ HI x)].
        * rewrite set_descr_descrs. destruct (Z.eqb_spec h x); [congruence|reflexivity].
        * intros _ _. rewrite pd_app. cbn [fst]. destruct (Z.eqb_spec x h); [congruence|]. apply orb_false_r.
        * apply rem_below_some.
        * rewrite memz_cons. destruct (Z.eqb_spec x h); [congruence|reflexivity].
    - intros x Mx. rewrite memz_cons in Mx. destruct (Z.eqb_spec x h) as [Exh|_].
      + subst x. split; [exact (Hnc_h h d He)|]. left. exists d. split; [apply in_or_app; right; now left|exact Eo].
      + destruct (i_b1 _ _ _ HI x Mx) as [NR [(dx & Hi & Ex)|(G & T)]]; (split; [exact NR|]).
        * left. exists dx. split; [apply in_or_app; now left|exact Ex].
        * right. split; [exact G|now apply trig2_mono].
    - intros x Mx. rewrite set_descr_descrs. destruct (Z.eqb_spec h x) as [|Hne]; [discriminate|].
      rewrite memz_cons in Mx. destruct (Z.eqb_spec x h); [congruence|]. now apply (i_bex _ _ _ HI).
    - intros x. rewrite set_descr_descrs. cbn [ddom set_descr]. rewrite add_dom_In.
      destruct (Z.eqb_spec h x) as [<-|_]; [now left|]. intros Hx. right. now apply (i_dom _ _ _ HI).
    - destruct (i_dom2 _ _ _ HI) as [I1 I2]. cbn [ddom set_descr]. split.
      + intros x Hx. apply add_dom_In. right. now apply I1.
      + pose proof (add_dom_len h (ddom mc)). lia.
    - intros x NR. rewrite set_descr_svd. apply (i_svd2 _ _ _ HI). intros R0; apply NR; now apply rem_below_mono.
    - intros x d0 Ex En. rewrite set_descr_svd. rewrite set_descr_descrs in En.
      destruct (Z.eqb h x); [discriminate|]. eapply i_svd3; eassumption.
    - exact (i_st1 _ _ _ HI).
    - intros x R. apply (i_stR _ _ _ HI). exact (proj1 (rem_below_some _ _ _ _) R).
    - intros x NR. apply (i_st3 _ _ _ HI). intros R0; apply NR; now apply rem_below_mono.
    - intros x Hx. rewrite set_descr_descrs. destruct (Z.eqb h x); [discriminate|]. now apply (i_st4 _ _ _ HI).
    - intros x s R. apply (i_svsR _ _ _ HI). exact (proj1 (rem_below_some _ _ _ _) R).
    - intros x NR. apply (i_svs2 _ _ _ HI). intros R0; apply NR; now apply rem_below_mono.
  Qed.

  (* the parent bump: p exists, is not removed by this transaction, is not updated by it and was not bumped before *)
  Lemma inv1_bump done p dp mc b :
    Inv1 done mc b -> (forall x, In x done -> In x L) -> descrs mc p = Some dp -> memz p b = false ->
    ~ Rm p -> no_upd p -> trig2 done p ->
    Inv1 done (set_descr mc p (Some (bumpd dp))) (p :: b).
  Proof.
    intros HI Hd Ep Mb NRm Nu Tp.
    assert (NR : ~ rem_below done p) by (intros R; apply NRm; eapply rem_below_Rm; eassumption).
    constructor.
    - intros x. destruct (Z.eq_dec x p) as [->|Hne].
      + pose proof (i_d _ _ _ HI p) as S. unfold dspec in *. rewrite set_descr_descrs, Z.eqb_refl, memz_cons, Z.eqb_refl. cbn [orb].
        rewrite Ep, Mb in S.
        destruct (alist_get L p) as [[d|]|] eqn:G; destruct (descrs m p) as [d0|] eqn:Eo; try discriminate.
        * apply L_in in G. specialize (Nu d G). congruence.
        * destruct (pd done p); [|discriminate]. now injection S as <-.
        * destruct S as [_ S]. specialize (S NR). injection S as <-. split; [tauto|reflexivity].
        * destruct S as [_ S]. specialize (S NR). injection S as <-. split; [tauto|reflexivity].
      + apply (dspec_same done done mc _ b (p :: b) x); [|reflexivity|tauto| |exact (i_d _ _ _ HI x)].
        * rewrite set_descr_descrs. destruct (Z.eqb_spec p x); [congruence|reflexivity].
        * rewrite memz_cons. destruct (Z.eqb_spec x p); [congruence|reflexivity].
    - intros x Mx. rewrite memz_cons in Mx. destruct (Z.eqb_spec x p) as [Exp|_].
      + subst x. split; [exact NRm|]. right. now split.
      + exact (i_b1 _ _ _ HI x Mx).
    - intros x Mx. rewrite set_descr_descrs. destruct (Z.eqb_spec p x) as [|Hne]; [discriminate|].
      rewrite memz_cons in Mx. destruct (Z.eqb_spec x p); [congruence|]. now apply (i_bex _ _ _ HI).
    - intros x. rewrite set_descr_descrs. cbn [ddom set_descr]. rewrite add_dom_In.
      destruct (Z.eqb_spec p x) as [<-|_]; [now left|]. intros Hx. right. now apply (i_dom _ _ _ HI).
    - destruct (i_dom2 _ _ _ HI) as [I1 I2]. cbn [ddom set_descr]. split.
      + intros x Hx. apply add_dom_In. right. now apply I1.
      + pose proof (add_dom_len p (ddom mc)). lia.
    - intros x NRx. rewrite set_descr_svd. now apply (i_svd2 _ _ _ HI).
    - intros x d0 Ex En. rewrite set_descr_svd. rewrite set_descr_descrs in En.
      destruct (Z.eqb p x); [discriminate|]. eapply i_svd3; eassumption.
    - exact (i_st1 _ _ _ HI).
    - exact (i_stR _ _ _ HI).
    - exact (i_st3 _ _ _ HI).
    - intros x Hx. rewrite set_descr_descrs. destruct (Z.eqb p x); [discriminate|]. now apply (i_st4 _ _ _ HI).
    - exact (i_svsR _ _ _ HI).
    - exact (i_svs2 _ _ _ HI).
  Qed.

  (* a removal whose descriptor already went with an ancestor's subtree: nothing happens *)
  Lemma inv1_skip done rest D mc b : L = done ++ (D, None) :: rest -> Inv1 done mc b -> descrs mc D = None ->
    rem_below done D /\ (forall x, rem_below (done ++ [(D, None)]) x <-> rem_below done x) /\
    Inv1 (done ++ [(D, None)]) mc b.
  Proof.
    intros HL HI Ec. pose proof (e_in _ _ _ HL) as He. pose proof (L_get _ _ He) as Ge.
    assert (RD : rem_below done D).
    { pose proof (i_d _ _ _ HI D) as S. unfold dspec in S. rewrite Ge in S. pose proof (del_exists D He) as Ex.
      destruct (descrs m D); [|contradiction]. destruct S as [_ S].
      destruct (rem_below_dec done D) as [R|R]; [exact R|]. rewrite (S R) in Ec. discriminate. }
    assert (Iff : forall x, rem_below (done ++ [(D, None)]) x <-> rem_below done x).
    { intros x. rewrite rem_below_none. split; [|tauto]. intros [R|B]; [exact R|].
      destruct RD as (D2 & Hi & B2). exists D2. split; [exact Hi|eapply below_trans; eassumption]. }
    split; [exact RD|]. split; [exact Iff|]. destruct HI as [Id Ib1 Ibex Idom Idom2 Isvd2 Isvd3 Ist1 IstR Ist3 Ist4 IsvsR Isvs2].
    constructor; try assumption.
    - intros x. apply (dspec_same done _ mc mc b b x); [reflexivity| |apply Iff|reflexivity|apply Id].
      intros d Gx. rewrite pd_app. cbn [fst]. destruct (Z.eqb_spec x D) as [->|]; [congruence|apply orb_false_r].
    - intros x Mx. destruct (Ib1 x Mx) as [NR [(dx & Hi & Ex)|(G & T)]]; (split; [exact NR|]).
      + left. exists dx. split; [apply in_or_app; now left|exact Ex].
      + right. split; [exact G|now apply trig2_mono].
    - intros x NR. apply Isvd2. now rewrite <- Iff.
    - intros x R. apply IstR. now apply Iff.
    - intros x NR. apply Ist3. now rewrite <- Iff.
    - intros x s R. apply IsvsR. now apply Iff.
    - intros x NR. apply Isvs2. now rewrite <- Iff.
  Qed.

  Lemma inv1_delete done rest D o mc b : L = done ++ (D, None) :: rest -> Inv1 done mc b -> descrs mc D = Some o ->
    descrs m D = Some o /\ (forall x, In x (subtree mc D) -> below m x D) /\
    (forall x, below m x D -> descrs mc x <> None -> In x (subtree mc D)) /\
    Inv1 (done ++ [(D, None)]) (fold_left rm_one (subtree mc D) mc) b.
  Proof.
    intros HL HI Ec. pose proof (e_in _ _ _ HL) as He. pose proof (L_get _ _ He) as Ge.
    pose proof (done_in _ _ _ HL) as Hd.
    set (l := subtree mc D).
    assert (F1 : forall x, In x l -> below m x D).
    { intros x Hx. apply subtree_In in Hx. destruct Hx as (_ & _ & R). apply reaches_below in R.
      eapply below_mc_m; eassumption. }
    assert (F2 : forall x, below m x D -> descrs mc x <> None -> In x l).
    { intros x B Ex. eapply still_there_in_subtree; eassumption. }
    assert (F3 : forall x, In x l -> Rm x) by (intros x Hx; apply (below_Rm D); [exact He|now apply F1]).
    assert (NB : forall x, memz x b = true -> memz x l = false).
    { intros x Mx. apply memz_false. intros Hx. exact (proj1 (i_b1 _ _ _ HI x Mx) (F3 x Hx)). }
    assert (Gone : forall x, below m x D -> memz x l = false -> descrs mc x = None).
    { intros x B Ml. destruct (descrs mc x) eqn:E; [|reflexivity]. exfalso.
      apply memz_false in Ml. apply Ml, F2; [exact B|congruence]. }
    assert (EoD : descrs m D = Some o).
    { pose proof (i_d _ _ _ HI D) as S. unfold dspec in S. rewrite Ge in S. pose proof (del_exists D He) as Ex.
      destruct (descrs m D) as [d0|]; [|contradiction]. destruct S as [S1 S2].
      destruct (rem_below_dec done D) as [R|R]; [rewrite (S1 R) in Ec; discriminate|].
      rewrite (S2 R) in Ec. destruct (memz D b) eqn:Mb; [|congruence].
      exfalso. apply (proj1 (i_b1 _ _ _ HI D Mb)). apply (below_Rm D); [exact He|apply below_refl]. }
    split; [exact EoD|]. split; [exact F1|]. split; [exact F2|].
    constructor.
    - intros x. pose proof (i_d _ _ _ HI x) as S. unfold dspec in *. rewrite rm_list_descrs. fold l.
      destruct (alist_get L x) as [[dx|]|] eqn:G.
      + apply L_in in G. assert (Ml : memz x l = false) by (apply memz_false; intros Hx; exact (Hnc_h x dx G (F3 x Hx))).
        assert (Hne : x <> D) by (intros ->; pose proof (nodup_fst_eq _ _ _ _ HLn G He); discriminate).
        rewrite Ml, pd_app. cbn [fst]. destruct (Z.eqb_spec x D); [contradiction|]. rewrite orb_false_r. exact S.
      + destruct (descrs m x) as [d0|] eqn:Eo; [|now destruct (memz x l)].
        destruct S as [S1 S2]. split.
        * intros R. apply rem_below_none in R. destruct (memz x l) eqn:Ml; [reflexivity|].
          destruct R as [R|B]; [now apply S1|now apply Gone].
        * intros NR. rewrite rem_below_none in NR.
          assert (Ml : memz x l = false) by (apply memz_false; intros Hx; apply NR; right; now apply F1).
          rewrite Ml. apply S2. tauto.
      + destruct (descrs m x) as [d0|] eqn:Eo; [|now destruct (memz x l)].
        destruct S as [S1 S2]. split.
        * intros R. apply rem_below_none in R. destruct (memz x l) eqn:Ml; [reflexivity|].
          destruct R as [R|B]; [now apply S1|now apply Gone].
        * intros NR. rewrite rem_below_none in NR.
          assert (Ml : memz x l = false) by (apply memz_false; intros Hx; apply NR; right; now apply F1).
          rewrite Ml. apply S2. tauto.
    - intros x Mx. destruct (i_b1 _ _ _ HI x Mx) as [NR [(dx & Hi & Ex)|(G & T)]]; (split; [exact NR|]).
      + left. exists dx. split; [apply in_or_app; now left|exact Ex].
      + right. split; [exact G|now apply trig2_mono].
    - intros x Mx. rewrite rm_list_descrs. fold l. rewrite (NB x Mx). now apply (i_bex _ _ _ HI).
    - intros x. rewrite rm_list_descrs. fold l. destruct (memz x l); [congruence|]. intros Hx.
      apply (proj1 (rm_list_ddom l mc)). now apply (i_dom _ _ _ HI).
    - destruct (i_dom2 _ _ _ HI) as [I1 I2]. destruct (rm_list_ddom l mc) as [J1 J2]. split.
      + intros x Hx. apply J1. now apply I1.
      + lia.
    - intros x NR. rewrite rem_below_none in NR. rewrite rm_list_svd. fold l.
      assert (Ml : memz x l = false) by (apply memz_false; intros Hx; apply NR; right; now apply F1).
      rewrite Ml. apply (i_svd2 _ _ _ HI). tauto.
    - intros x d0 Ex En. rewrite rm_list_svd. rewrite rm_list_descrs in En. fold l in En |- *.
      destruct (memz x l) eqn:Ml; [|now apply (i_svd3 _ _ _ HI)].
      destruct (descrs mc x) as [dc|] eqn:Ecx; [|now apply (i_svd3 _ _ _ HI)].
      apply memz_In in Ml. pose proof (F3 x Ml) as Rx.
      pose proof (i_d _ _ _ HI x) as S. unfold dspec in S. rewrite Ex in S.
      assert (Mb : memz x b = false).
      { destruct (memz x b) eqn:Mb; [|reflexivity]. exfalso. exact (proj1 (i_b1 _ _ _ HI x Mb) Rx). }
      rewrite Mb in S.
      destruct (alist_get L x) as [[dx|]|] eqn:G.
      * exfalso. apply L_in in G. exact (Hnc_h x dx G Rx).
      * destruct S as [S1 S2]. destruct (rem_below_dec done x) as [R|R]; [rewrite (S1 R) in Ecx; discriminate|].
        rewrite (S2 R) in Ecx. now injection Ecx as <-.
      * destruct S as [S1 S2]. destruct (rem_below_dec done x) as [R|R]; [rewrite (S1 R) in Ecx; discriminate|].
        rewrite (S2 R) in Ecx. now injection Ecx as <-.
    - intros x. rewrite rm_list_states. fold l. destruct (memz x l); [now left|exact (i_st1 _ _ _ HI x)].
    - intros x R. apply rem_below_none in R. rewrite rm_list_states. fold l. destruct (memz x l) eqn:Ml; [reflexivity|].
      destruct R as [R|B]; [now apply (i_stR _ _ _ HI)|].
      destruct (states mc x) eqn:Es; [|reflexivity]. exfalso. apply (i_st4 _ _ _ HI x); [congruence|now apply Gone].
    - intros x NR. rewrite rem_below_none in NR. rewrite rm_list_states. fold l.
      assert (Ml : memz x l = false) by (apply memz_false; intros Hx; apply NR; right; now apply F1).
      rewrite Ml. apply (i_st3 _ _ _ HI). tauto.
    - intros x. rewrite rm_list_states, rm_list_descrs. fold l. destruct (memz x l); [congruence|]. apply (i_st4 _ _ _ HI).
    - intros x s R Es. apply rem_below_none in R. rewrite rm_list_svs. fold l.
      destruct (rem_below_dec done x) as [R0|R0].
      + rewrite (i_stR _ _ _ HI x R0). destruct (memz x l); now apply (i_svsR _ _ _ HI).
      + destruct R as [R|B]; [contradiction|]. rewrite (i_st3 _ _ _ HI x R0), Es.
        destruct (memz x l) eqn:Ml; [reflexivity|]. exfalso.
        apply (i_st4 _ _ _ HI x); [rewrite (i_st3 _ _ _ HI x R0); congruence|now apply Gone].
    - intros x NR. rewrite rem_below_none in NR. rewrite rm_list_svs. fold l.
      assert (Ml : memz x l = false) by (apply memz_false; intros Hx; apply NR; right; now apply F1).
      rewrite Ml. apply (i_svs2 _ _ _ HI). tauto.
  Qed.

  (* every add / remove of a child of an existing handle that is neither removed nor updated has bumped it *)
  Definition B2 (done : list (H * option descr)) (b : list H) : Prop :=
    forall h d0, trig done h -> descrs m h = Some d0 -> ~ Rm h -> (forall d, ~ In (h, Some d) L) -> memz h b = true.

  Lemma plain_lists p : (forall d, ~ In (p, Some d) L) -> memz p cr = false /\ memz p up = false.
  Proof.
    intros G. split.
    - destruct (memz p cr) eqn:E; [|reflexivity]. apply Hcr in E. destruct E as (d & Hi & _). now apply G in Hi.
    - destruct (memz p up) eqn:E; [|reflexivity]. apply Hup in E. destruct E as (d & Hi & _). now apply G in Hi.
  Qed.
  Lemma not_de p : ~ Rm p -> memz p de = false.
  Proof. intros NR. destruct (memz p de) eqn:E; [|reflexivity]. now apply Hde in E. Qed.
  Lemma up_false_no_upd p : memz p up = false -> no_upd p.
  Proof.
    intros U d Hi. destruct (descrs m p) eqn:E; [|reflexivity]. exfalso.
    assert (T : memz p up = true) by (apply Hup; exists d; split; [exact Hi|congruence]). congruence.
  Qed.

  (* an existing, plain (no item), unremoved handle is present with its original or bumped descriptor *)
  Lemma plain_present done mc b p d0 : (forall e, In e done -> In e L) -> Inv1 done mc b ->
    descrs m p = Some d0 -> ~ Rm p -> (forall d, ~ In (p, Some d) L) ->
    descrs mc p = Some (if memz p b then bumpd d0 else d0).
  Proof.
    intros Hd HI Eo NRm G. pose proof (i_d _ _ _ HI p) as S. unfold dspec in S. rewrite Eo in S.
    assert (NR : ~ rem_below done p) by (intros R; apply NRm; eapply rem_below_Rm; eassumption).
    destruct (alist_get L p) as [[d|]|] eqn:Gp; [apply L_in in Gp; now apply G in Gp| |]; now apply S.
  Qed.

  Lemma inv1_step done rest e mc b : L = done ++ e :: rest -> Inv1 done mc b -> B2 done b ->
    Inv1 (done ++ [e]) (fst (pi_m cr up de (mc, b) e)) (snd (pi_m cr up de (mc, b) e)) /\
    B2 (done ++ [e]) (snd (pi_m cr up de (mc, b) e)).
  Proof.
    intros HL HI HB. pose proof (e_in _ _ _ HL) as He. pose proof (e_not_done _ _ _ HL) as Hp.
    pose proof (done_in _ _ _ HL) as Hd. pose proof (done'_in _ _ _ HL) as Hd'.
    assert (HBmono : forall x d0, trig done x -> descrs m x = Some d0 -> ~ Rm x -> (forall d, ~ In (x, Some d) L) -> memz x b = true)
      by exact HB.
    destruct e as [h [d|]]; cbn [fst] in Hp.
    - (* create / update *)
      pose proof (L_get _ _ He) as Ge.
      assert (Ec : descrs mc h = descrs m h).
      { pose proof (i_d _ _ _ HI h) as S. unfold dspec in S. rewrite Ge, Hp in S. now destruct (descrs m h). }
      unfold pi_m. cbn [fst snd]. rewrite Ec. destruct (descrs m h) as [o|] eqn:Eo.
      + (* update *)
        cbn [fst snd]. split; [eapply inv1_update; [exact HL|congruence|exact HI]|].
        intros x d0 T Ex NR G. rewrite memz_cons. apply trig_app in T. destruct T as [T|T].
        * rewrite (HB x d0 T Ex NR G). apply orb_true_r.
        * unfold trig_item in T. cbn [fst snd] in T. destruct T as [T _]. congruence.
      + (* create *)
        pose proof (inv1_create done rest h d mc b HL Eo HI) as HI1.
        assert (Plain : Inv1 (done ++ [(h, Some d)]) (set_descr mc h (Some d)) b /\
                        (forall p, d_parent d = Some p -> memz p b = true \/ descrs (set_descr mc h (Some d)) p = None \/ (exists d', In (p, Some d') L) ->
                         B2 (done ++ [(h, Some d)]) b)).
        { split; [exact HI1|]. intros p P Why x d0 T Ex NR G. apply trig_app in T. destruct T as [T|T]; [eauto|].
          unfold trig_item in T. cbn [fst snd] in T. destruct T as [_ T]. rewrite P in T. injection T as <-.
          destruct Why as [Mb|[En|(d' & Hi)]]; [exact Mb| |now apply G in Hi].
          rewrite (plain_present _ _ _ p d0 Hd' HI1 Ex NR G) in En. discriminate. }
        destruct Plain as [_ PlainB].
        destruct (d_parent d) as [p|] eqn:P.
        * unfold mb_bump. destruct (memz p cr || memz p up || memz p b) eqn:Guard.
          -- cbn [fst snd]. split; [exact HI1|]. 
             destruct (memz p b) eqn:Mb; [apply (PlainB p eq_refl); now left|].
             apply (PlainB p eq_refl). right. right. rewrite orb_false_r in Guard. apply orb_true_iff in Guard.
             destruct Guard as [U|U]; [apply Hcr in U|apply Hup in U]; destruct U as (d' & Hi & _); now exists d'.
          -- destruct (descrs (set_descr mc h (Some d)) p) as [dp|] eqn:Ep.
             ++ cbn [fst snd].
                apply orb_false_iff in Guard. destruct Guard as [Guard Mb]. apply orb_false_iff in Guard. destruct Guard as [U1 U].
                assert (Tp : trig2 (done ++ [(h, Some d)]) p).
                { split; [exists (h, Some d); split; [apply in_or_app; right; now left|]; unfold trig_item; cbn [fst snd]; now split|].
                  intros Epn. exfalso. rewrite set_descr_descrs in Ep. destruct (Z.eqb_spec h p) as [Ehp|_].
                  - subst p. assert (T : memz h cr = true) by (apply Hcr; exists d; now split). congruence.
                  - pose proof (i_d _ _ _ HI p) as Sp. unfold dspec in Sp. rewrite Epn in Sp.
                    destruct (alist_get L p) as [[d'|]|] eqn:Gp; [|congruence|congruence].
                    apply L_in in Gp. assert (T : memz p cr = true) by (apply Hcr; exists d'; now split).
                    congruence. }
                split.
                ** exact (inv1_bump _ p dp _ _ HI1 Hd' Ep Mb (Hnc_p h d p He P) (up_false_no_upd p U) Tp).
                ** intros x d0 T Ex NR G. rewrite memz_cons. destruct (Z.eqb_spec x p) as [|Hne]; [reflexivity|].
                   apply trig_app in T. destruct T as [T|T]; [eauto|].
                   unfold trig_item in T. cbn [fst snd] in T. destruct T as [_ T]. congruence.
             ++ cbn [fst snd]. split; [exact HI1|]. apply (PlainB p eq_refl). right. now left.
        * cbn [fst snd]. split; [exact HI1|]. intros x d0 T Ex NR G. apply trig_app in T. destruct T as [T|T]; [eauto|].
          unfold trig_item in T. cbn [fst snd] in T. destruct T as [_ T]. congruence.
    - (* delete *)
      unfold pi_m. cbn [fst snd]. destruct (descrs mc h) as [o|] eqn:Ec.
      + destruct (inv1_delete done rest h o mc b HL HI Ec) as (Eo & F1 & F2 & HI1).
        set (m1 := fold_left rm_one (subtree mc h) mc) in *.
        assert (PlainB : forall p, d_parent o = Some p -> memz p b = true \/ descrs m1 p = None \/ Rm p \/ (exists d', In (p, Some d') L) ->
                         B2 (done ++ [(h, None)]) b).
        { intros p P Why x d0 T Ex NR G. apply trig_app in T. destruct T as [T|T]; [eauto|].
          unfold trig_item in T. cbn [fst snd] in T. destruct T as (dc & T1 & T2). rewrite Eo in T1. injection T1 as <-.
          rewrite P in T2. injection T2 as <-.
          destruct Why as [Mb|[En|[R|(d' & Hi)]]]; [exact Mb| |contradiction|now apply G in Hi].
          rewrite (plain_present _ _ _ p d0 Hd' HI1 Ex NR G) in En. discriminate. }
        destruct (d_parent o) as [p|] eqn:P.
        * unfold mb_bump. destruct (memz p de || memz p up || memz p b) eqn:Guard.
          -- cbn [fst snd]. split; [exact HI1|].
             destruct (memz p b) eqn:Mb; [apply (PlainB p eq_refl); now left|].
             apply (PlainB p eq_refl). right. right. rewrite orb_false_r in Guard. apply orb_true_iff in Guard.
             destruct Guard as [U|U]; [left; now apply Hde|right; apply Hup in U; destruct U as (d' & Hi & _); now exists d'].
          -- destruct (descrs m1 p) as [dp|] eqn:Ep.
             ++ cbn [fst snd].
                apply orb_false_iff in Guard. destruct Guard as [Guard Mb]. apply orb_false_iff in Guard. destruct Guard as [U1 U].
                assert (NRp : ~ Rm p) by (intros R; apply Hde in R; congruence).
                assert (Tp : trig2 (done ++ [(h, None)]) p).
                { split; [exists (h, None); split; [apply in_or_app; right; now left|]; unfold trig_item; cbn [fst snd]; now exists o|].
                  intros _. exists h, o. split; [apply in_or_app; right; now left|now split]. }
                split.
                ** exact (inv1_bump _ p dp _ _ HI1 Hd' Ep Mb NRp (up_false_no_upd p U) Tp).
                ** intros x d0 T Ex NR G. rewrite memz_cons. destruct (Z.eqb_spec x p) as [|Hne]; [reflexivity|].
                   apply trig_app in T. destruct T as [T|T]; [eauto|].
                   unfold trig_item in T. cbn [fst snd] in T. destruct T as (dc & T1 & T2). congruence.
             ++ cbn [fst snd]. split; [exact HI1|]. apply (PlainB p eq_refl). right. now left.
        * cbn [fst snd]. split; [exact HI1|]. intros x d0 T Ex NR G. apply trig_app in T. destruct T as [T|T]; [eauto|].
          unfold trig_item in T. cbn [fst snd] in T. destruct T as (dc & T1 & T2). congruence.
      + (* already gone with an ancestor *)
        destruct (inv1_skip done rest h mc b HL HI Ec) as (RD & Iff & HI1). cbn [fst snd]. split; [exact HI1|].
        intros x d0 T Ex NR G. apply trig_app in T. destruct T as [T|T]; [eauto|]. exfalso.
        unfold trig_item in T. cbn [fst snd] in T. destruct T as (dc & T1 & T2).
        destruct RD as (D2 & Hi & B). apply NR. apply (below_Rm D2); [now apply Hd|].
        inversion B as [|? d' p' ? E' P' B']; subst.
        * rewrite (pd_in _ _ _ Hi) in Hp. discriminate.
        * rewrite T1 in E'. injection E' as <-. rewrite T2 in P'. now injection P' as <-.
  Qed.

  Lemma inv1_init : Inv1 [] (bump_ver m) [] /\ B2 [] [].
  Proof.
    split.
    - constructor; cbn [bump_ver descrs states sv_d sv_s ddom].
      + intros h. unfold dspec. cbn [pd map memz existsb descrs bump_ver].
        destruct (alist_get L h) as [[d|]|]; destruct (descrs m h); try reflexivity;
          (split; [intros (D & [] & _)|reflexivity]).
      + intros h [=].
      + intros h [=].
      + exact Hdom.
      + split; [apply incl_refl|lia].
      + reflexivity.
      + intros h d0 E1 E2. congruence.
      + intros h. now right.
      + intros h (D & [] & _).
      + reflexivity.
      + exact Hsd.
      + intros h s (D & [] & _).
      + reflexivity.
    - intros h d0 (e & [] & _).
  Qed.

  (* ------------------------------------------------ the pending single-state items *)
  Definition t4d (b : list H) (h : H) : Prop :=
    (exists d, In (h, Some d) L /\ d_kind d <> K_CTX) \/
    ((forall d, ~ In (h, Some d) L) /\ memz h b = true /\ exists d0, descrs m h = Some d0 /\ d_kind d0 <> K_CTX).

  Record Inv2m (b : list H) (ts : list (H * state)) : Prop := {
    j_nd : NoDup (map fst ts);
    j_t4 : forall h, alist_get ts h <> None -> t4d b h;
    j_t5 : forall h s', alist_get ts h = Some s' ->
             (descrs m h = None /\ s_ver s' = set_version (sv_s m) h 0) \/
             (exists o, states m h = Some o /\ s_ver s' = s_ver o + 1);
    j_t6 : forall h d0 o, memz h b = true -> descrs m h = Some d0 -> d_kind d0 <> K_CTX -> states m h = Some o ->
             alist_get ts h <> None
  }.

  Lemma inv2m_ucs b b' st ts x dv k :
    Inv2m b ts ->
    (forall y, memz y b = true -> memz y b' = true) ->
    (forall o, st x = Some o -> states m x = Some o) ->
    (k <> K_CTX -> t4d b' x) ->
    (forall y, memz y b' = true -> memz y b = true \/
       (y = x /\ (forall d0, descrs m x = Some d0 -> d_kind d0 <> K_CTX -> k <> K_CTX) /\
        (forall o, states m x = Some o -> st x = Some o))) ->
    Inv2m b' (ucs_s st ts x dv k).
  Proof.
    intros [Hn H4 H5 H6] Hmono Hst Hx Hnew. constructor.
    - now apply ucs_s_nodup.
    - intros y. rewrite ucs_s_get. destruct (Z.eqb_spec k K_CTX) as [Ek|Ek]; cbn [negb andb].
      + intros Hy. destruct (H4 y Hy) as [A|(A1 & A2 & A3)]; [now left|right; auto].
      + destruct (Z.eqb_spec y x) as [->|Hne]; [intros _; now apply Hx|].
        intros Hy. destruct (H4 y Hy) as [A|(A1 & A2 & A3)]; [now left|right; auto].
    - intros y s'. rewrite ucs_s_get. destruct (Z.eqb_spec k K_CTX) as [Ek|Ek]; cbn [negb andb]; [apply H5|].
      destruct (Z.eqb_spec y x) as [->|Hne]; [|apply H5].
      destruct (alist_get ts x) as [n|] eqn:G.
      + intros [= <-]. cbn [s_ver]. now apply H5.
      + destruct (st x) as [o|] eqn:Eo; [|discriminate]. intros [= <-]. cbn [s_ver]. right. exists o. split; [now apply Hst|reflexivity].
    - intros y d0 o My Ed Ek Es. destruct (Hnew y My) as [Mb|(-> & K1 & K2)].
      + apply ucs_s_keeps. eapply H6; eassumption.
      + rewrite ucs_s_get. specialize (K1 d0 Ed Ek). destruct (Z.eqb_spec k K_CTX); [contradiction|].
        rewrite Z.eqb_refl. cbn [negb andb]. destruct (alist_get ts x); [discriminate|].
        rewrite (K2 o Es). discriminate.
  Qed.

  Lemma bump_t4 done m1 b p dp : Inv1 done m1 b -> (forall e, In e done -> In e L) ->
    descrs m1 p = Some dp -> memz p b = false -> ~ Rm p -> no_upd p ->
    (d_kind dp <> K_CTX -> t4d (p :: b) p) /\
    (forall d0, descrs m p = Some d0 -> d_kind d0 <> K_CTX -> d_kind dp <> K_CTX) /\
    (forall o, states m p = Some o -> states m1 p = Some o).
  Proof.
    intros HI Hd Ep Mb NRm Nu.
    assert (NR : ~ rem_below done p) by (intros R; apply NRm; eapply rem_below_Rm; eassumption).
    pose proof (i_d _ _ _ HI p) as S. unfold dspec in S. rewrite Ep, Mb in S.
    destruct (alist_get L p) as [[d'|]|] eqn:G.
    - apply L_in in G. pose proof (Nu d' G) as Eo. rewrite Eo in S.
      destruct (pd done p); [|discriminate]. injection S as <-. split; [|split].
      + intros Ek. left. exists dp. now split.
      + intros d0 E. congruence.
      + intros o Es. exfalso. apply (Hsd p); congruence.
    - destruct (descrs m p) as [d0|] eqn:Eo; [|discriminate]. destruct S as [_ S]. specialize (S NR). injection S as <-.
      split; [|split].
      + intros Ek. right. split; [intros d Hi; apply L_get in Hi; congruence|]. split; [now rewrite memz_cons, Z.eqb_refl|].
        exists dp. now split.
      + intros d0 [= <-]. tauto.
      + intros o Es. now rewrite (i_st3 _ _ _ HI p NR).
    - destruct (descrs m p) as [d0|] eqn:Eo; [|discriminate]. destruct S as [_ S]. specialize (S NR). injection S as <-.
      split; [|split].
      + intros Ek. right. split; [intros d Hi; apply L_get in Hi; congruence|]. split; [now rewrite memz_cons, Z.eqb_refl|].
        exists dp. now split.
      + intros d0 [= <-]. tauto.
      + intros o Es. now rewrite (i_st3 _ _ _ HI p NR).
  Qed.

  Lemma inv2_step done rest e mc b ts : L = done ++ e :: rest -> Inv1 done mc b -> B2 done b ->
    Inv2m b ts -> T3 good (descrs mc) (states mc) ts -> T3c (descrs mc) (states mc) ts ->
    Inv2m (snd (pi_m cr up de (mc, b) e)) (pi_s cr up de mc b ts e) /\
    T3 good (descrs (fst (pi_m cr up de (mc, b) e))) (states (fst (pi_m cr up de (mc, b) e))) (pi_s cr up de mc b ts e) /\
    T3c (descrs (fst (pi_m cr up de (mc, b) e))) (states (fst (pi_m cr up de (mc, b) e))) (pi_s cr up de mc b ts e).
  Proof.
    intros HL HI HB HJ H3 H3c. pose proof (e_in _ _ _ HL) as He. pose proof (e_not_done _ _ _ HL) as Hp.
    pose proof (done_in _ _ _ HL) as Hd. pose proof (done'_in _ _ _ HL) as Hd'.
    assert (Hst : forall x o, states mc x = Some o -> states m x = Some o).
    { intros x o E. destruct (i_st1 _ _ _ HI x) as [S|S]; congruence. }
    destruct e as [h [d|]]; cbn [fst] in Hp.
    - pose proof (L_get _ _ He) as Ge.
      assert (Ec : descrs mc h = descrs m h).
      { pose proof (i_d _ _ _ HI h) as S. unfold dspec in S. rewrite Ge, Hp in S. now destruct (descrs m h). }
      pose proof (HLi _ _ He) as Ok. unfold ditem_ok in Ok.
      unfold pi_m, pi_s. cbn [fst snd]. rewrite Ec. destruct (descrs m h) as [o|] eqn:Eo.
      + (* update *)
        destruct Ok as (Op & Ok & Ov). cbn [fst snd]. split; [|].
        * apply (inv2m_ucs b (h :: b) _ _ _ _ _ HJ).
          -- intros y My. rewrite memz_cons, My. apply orb_true_r.
          -- apply Hst.
          -- intros Ek. left. exists d. now split.
          -- intros y My. rewrite memz_cons in My. destruct (Z.eqb_spec y h) as [Eyh|]; [subst y|now left].
             right. split; [reflexivity|]. split.
             ++ intros d0 Ed Ekd. rewrite Eo in Ed. injection Ed as Ed. subst d0. congruence.
             ++ intros o' Es. rewrite (i_st3 _ _ _ HI h); [exact Es|].
                intros R. exact (Hnc_h h d He (rem_below_Rm done h Hd R)).
        * apply (T3_set good (descrs mc) (states mc) ts h d H3 H3c).
          intros Ek. apply (H3c h o); [now rewrite Ec|congruence].
      + (* create *)
        assert (Pre : d_kind d = K_CTX -> states mc h = None /\ alist_get ts h = None).
        { intros Ek. split.
          - destruct (states mc h) eqn:Es; [|reflexivity]. exfalso. apply (i_st4 _ _ _ HI h); congruence.
          - destruct (alist_get ts h) eqn:Gt; [|reflexivity]. exfalso.
            destruct (j_t4 _ _ HJ h) as [(d' & Hi & Ek')|(A & _)]; [congruence| |now apply A in He].
            pose proof (nodup_fst_eq _ _ _ _ HLn Hi He) as Ed. injection Ed as ->. contradiction. }
        assert (Plain : Inv2m b (ucs_s (states mc) ts h (d_ver d) (d_kind d)) /\
                        T3 good (upd (descrs mc) h (Some d)) (states mc) (ucs_s (states mc) ts h (d_ver d) (d_kind d)) /\
                        T3c (upd (descrs mc) h (Some d)) (states mc) (ucs_s (states mc) ts h (d_ver d) (d_kind d))).
        { split; [|apply (T3_set good (descrs mc) (states mc) ts h d H3 H3c Pre)].
          apply (inv2m_ucs b b _ _ _ _ _ HJ); [tauto|apply Hst| |intros y My; now left].
          intros Ek. left. exists d. now split. }
        destruct (d_parent d) as [p|] eqn:P; [|exact Plain].
        unfold mb_bump, ts_bump. destruct (memz p cr || memz p up || memz p b) eqn:Guard; [exact Plain|].
        apply orb_false_iff in Guard. destruct Guard as [Guard Mb]. apply orb_false_iff in Guard. destruct Guard as [U1 U].
        assert (Hne : p <> h).
        { intros ->. assert (T : memz h cr = true) by (apply Hcr; exists d; now split). congruence. }
        cbn [descrs set_descr]. rewrite upd_eq. destruct (Z.eqb_spec h p) as [|_]; [congruence|].
        destruct (descrs mc p) as [dp|] eqn:Ep; [|exact Plain].
        pose proof (inv1_create done rest h d mc b HL Eo HI) as HI1.
        assert (Ep1 : descrs (set_descr mc h (Some d)) p = Some dp).
        { rewrite set_descr_descrs. destruct (Z.eqb_spec h p); [congruence|exact Ep]. }
        destruct (bump_t4 _ _ b p dp HI1 Hd' Ep1 Mb (Hnc_p h d p He P) (up_false_no_upd p U)) as (B4 & B5 & B6).
        cbn [fst snd states set_descr] in *.
        assert (J1 : Inv2m (p :: b) (ucs_s (states mc) ts p (d_ver dp + 1) (d_kind dp))).
        { apply (inv2m_ucs b (p :: b) _ _ _ _ _ HJ).
          - intros y My. rewrite memz_cons, My. apply orb_true_r.
          - apply Hst.
          - exact B4.
          - intros y My. rewrite memz_cons in My. destruct (Z.eqb_spec y p) as [Eyp|]; [subst y|now left].
            right. split; [reflexivity|]. split; [exact B5|exact B6]. }
        destruct (T3_set good (descrs mc) (states mc) ts p (bumpd dp) H3 H3c) as [K3 K3c].
        { intros Ek. apply (H3c p dp Ep Ek). }
        cbn [bumpd d_ver d_kind] in K3, K3c.
        split.
        * apply (inv2m_ucs (p :: b) (p :: b) _ _ _ _ _ J1); [tauto|apply Hst| |intros y My; now left].
          intros Ek. left. exists d. now split.
        * set (ts2 := ucs_s (states mc) ts p (d_ver dp + 1) (d_kind dp)) in *.
          destruct (T3_set good _ (states mc) ts2 h d K3 K3c) as [M3 M3c].
          { intros Ek. destruct (Pre Ek) as [Q1 Q2]. split; [exact Q1|]. unfold ts2. rewrite ucs_s_get.
            destruct (Z.eqb_spec h p); [congruence|]. now rewrite andb_false_r. }
          split.
          -- eapply T3_ext; [| |exact M3]; [|reflexivity]. intros y. rewrite !set_descr_descrs, !upd_eq.
             destruct (Z.eqb_spec p y) as [Epy|]; [|reflexivity]. destruct (Z.eqb_spec h y); [congruence|reflexivity].
          -- eapply T3c_ext; [| |exact M3c]; [|reflexivity]. intros y. rewrite !set_descr_descrs, !upd_eq.
             destruct (Z.eqb_spec p y) as [Epy|]; [|reflexivity]. destruct (Z.eqb_spec h y); [congruence|reflexivity].
    - (* delete *)
      unfold pi_m, pi_s. cbn [fst snd]. destruct (descrs mc h) as [o|] eqn:Ec; [|now split].
      destruct (inv1_delete done rest h o mc b HL HI Ec) as (Eo & F1 & F2 & HI1).
      set (mc1 := fold_left rm_one (subtree mc h) mc) in *.
      assert (R3 : T3 good (descrs mc1) (states mc1) ts).
      { intros y dy Hg. unfold mc1. rewrite rm_list_descrs. destruct (memz y (subtree mc h)) eqn:Ml; [discriminate|].
        intros Ey. specialize (H3 y dy Hg Ey). destruct (alist_get ts y); [exact H3|].
        intros s. rewrite rm_list_states, Ml. apply H3. }
      assert (R3c : T3c (descrs mc1) (states mc1) ts).
      { intros y dy. unfold mc1. rewrite rm_list_descrs, rm_list_states. destruct (memz y (subtree mc h)); [discriminate|]. apply H3c. }
      assert (Plain : Inv2m b ts /\ T3 good (descrs mc1) (states mc1) ts /\ T3c (descrs mc1) (states mc1) ts) by (split; [exact HJ|split; assumption]).
      destruct (d_parent o) as [p|] eqn:P; [|exact Plain].
      unfold mb_bump, ts_bump. destruct (memz p de || memz p up || memz p b) eqn:Guard; [exact Plain|].
      apply orb_false_iff in Guard. destruct Guard as [Guard Mb]. apply orb_false_iff in Guard. destruct Guard as [U1 U].
      assert (NRp : ~ Rm p) by (intros R; apply Hde in R; congruence).
      destruct (descrs mc1 p) as [dp|] eqn:Ep; [|exact Plain].
      destruct (bump_t4 _ _ b p dp HI1 Hd' Ep Mb NRp (up_false_no_upd p U)) as (B4 & B5 & B6).
      cbn [fst snd descrs states set_descr]. split.
      + apply (inv2m_ucs b (p :: b) _ _ _ _ _ HJ).
        * intros y My. rewrite memz_cons, My. apply orb_true_r.
        * intros o' E. destruct (i_st1 _ _ _ HI1 p) as [S|S]; congruence.
        * exact B4.
        * intros y My. rewrite memz_cons in My. destruct (Z.eqb_spec y p) as [Eyp|]; [subst y|now left].
          right. split; [reflexivity|]. split; [exact B5|exact B6].
      + destruct (T3_set good (descrs mc1) (states mc1) ts p (bumpd dp) R3 R3c) as [K3 K3c].
        { intros Ek. apply (R3c p dp Ep Ek). }
        cbn [bumpd d_ver d_kind] in K3, K3c. split; assumption.
  Qed.

  (* ------------------------------------------------ context states: removed together with their descriptor *)
  Hypothesis Hcdom : forall ch, cstates m ch <> None -> In ch (cdom m).

  Record InvC (done : list (H * option descr)) (mc : mdib) : Prop := {
    c_sub : forall ch, cstates mc ch = None \/ cstates mc ch = cstates m ch;
    c_rem : forall ch c, cstates m ch = Some c -> rem_below done (c_dh c) ->
              cstates mc ch = None /\ sv_c mc ch = Some (c_ver c);
    c_keep : forall ch c, cstates m ch = Some c -> ~ rem_below done (c_dh c) ->
              cstates mc ch = Some c /\ sv_c mc ch = sv_c m ch;
    c_dom : incl (cdom m) (cdom mc)
  }.

  Lemma invc_same done done' mc mc' : cstates mc' = cstates mc -> sv_c mc' = sv_c mc -> cdom mc' = cdom mc ->
    (forall x, rem_below done' x <-> rem_below done x) -> InvC done mc -> InvC done' mc'.
  Proof.
    intros E1 E2 E3 Iff [S R K Dm]. constructor; rewrite ?E1, ?E2, ?E3; try assumption.
    - intros ch c Ec Rb. apply (R ch c Ec). now apply Iff.
    - intros ch c Ec NR. apply (K ch c Ec). now rewrite <- Iff.
  Qed.

  Lemma mb_bump_cs skip p m0 b :
    cstates (fst (mb_bump skip p (m0, b))) = cstates m0 /\ sv_c (fst (mb_bump skip p (m0, b))) = sv_c m0 /\
    cdom (fst (mb_bump skip p (m0, b))) = cdom m0.
  Proof. unfold mb_bump. destruct (skip || memz p b); [repeat split|]. destruct (descrs m0 p); repeat split. Qed.

  Lemma invc_step done rest e mc b : L = done ++ e :: rest -> Inv1 done mc b -> InvC done mc ->
    InvC (done ++ [e]) (fst (pi_m cr up de (mc, b) e)).
  Proof.
    intros HL HI HC. pose proof (e_in _ _ _ HL) as He. pose proof (done_in _ _ _ HL) as Hd.
    destruct e as [h [d|]].
    - unfold pi_m. cbn [fst snd]. destruct (descrs mc h) as [o|].
      + cbn [fst]. apply (invc_same done _ mc); try reflexivity; [intros x; apply rem_below_some|exact HC].
      + destruct (d_parent d) as [p|].
        * destruct (mb_bump_cs (memz p cr || memz p up) p (set_descr mc h (Some d)) b) as (E1 & E2 & E3).
          apply (invc_same done _ mc); try assumption. intros x; apply rem_below_some.
        * cbn [fst]. apply (invc_same done _ mc); try reflexivity; [intros x; apply rem_below_some|exact HC].
    - unfold pi_m. cbn [fst snd]. destruct (descrs mc h) as [o|] eqn:Ec.
      + destruct (inv1_delete done rest h o mc b HL HI Ec) as (Eo & F1 & F2 & HI1).
        set (l := subtree mc h) in *. set (m1 := fold_left rm_one l mc) in *.
        destruct (rm_list_cs l mc) as (A & B & C). fold m1 in A, B, C.
        assert (Core : InvC (done ++ [(h, None)]) m1).
        { destruct HC as [S R K Dm]. constructor.
          - intros ch. rewrite A. destruct (S ch) as [E|E]; rewrite E; [now left|].
            destruct (cstates m ch) as [c|]; [|now left]. destruct (memz (c_dh c) l && memz ch (cdom mc)); [now left|now right].
          - intros ch c Ecs Rb. rewrite A, B. apply rem_below_none in Rb.
            destruct (rem_below_dec done (c_dh c)) as [R0|R0].
            + destruct (R ch c Ecs R0) as [R1 R2]. rewrite R1. now split.
            + destruct Rb as [Rb|Bx]; [contradiction|]. destruct (K ch c Ecs R0) as [K1 K2]. rewrite K1.
              assert (M1 : memz (c_dh c) l = true).
              { apply memz_In, F2; [exact Bx|]. pose proof (below_Rm h _ He Bx) as Rx.
                destruct (Rm_below _ Rx) as [Ex _]. pose proof (i_d _ _ _ HI (c_dh c)) as Sx. unfold dspec in Sx.
                destruct (descrs m (c_dh c)) as [d0|]; [|contradiction].
                destruct (alist_get L (c_dh c)) as [[dx|]|] eqn:G;
                  [exfalso; apply L_in in G; exact (Hnc_h _ dx G Rx)| |]; rewrite (proj2 Sx R0); discriminate. }
              assert (M2 : memz ch (cdom mc) = true) by (apply memz_In, Dm, Hcdom; congruence).
              rewrite M1, M2. now split.
          - intros ch c Ecs NR. rewrite A, B. rewrite rem_below_none in NR.
            destruct (K ch c Ecs) as [K1 K2]; [tauto|]. rewrite K1.
            assert (M1 : memz (c_dh c) l = false) by (apply memz_false; intros Hi; apply NR; right; now apply F1).
            rewrite M1. now split.
          - now rewrite C. }
        destruct (d_parent o) as [p|]; [|exact Core].
        destruct (mb_bump_cs (memz p de || memz p up) p m1 b) as (E1 & E2 & E3).
        apply (invc_same (done ++ [(h, None)]) _ m1); try assumption. tauto.
      + destruct (inv1_skip done rest h mc b HL HI Ec) as (_ & Iff & _). cbn [fst].
        apply (invc_same done _ mc); try reflexivity; assumption.
  Qed.

  Definition InvTC (tc : list (H * option cstate)) : Prop :=
    NoDup (map fst tc) /\ forall ch, alist_get tc ch <> None -> exists c, cstates m ch = Some c /\ ~ Rm (c_dh c).

  Lemma invtc_ucs mm t x dv k :
    (forall ch c, cstates mm ch = Some c -> cstates m ch = Some c) -> ~ Rm x ->
    InvTC (t_c t) -> InvTC (t_c (upd_corr_state mm t x dv k)).
  Proof.
    intros Hsub Safe [Hn HQ].
    apply (ucs_tc_inv (fun ch => exists c, cstates m ch = Some c /\ ~ Rm (c_dh c)) mm x dv k t Hn HQ).
    intros ch c Ec Ex. exists c. split; [now apply Hsub|]. now rewrite Ex.
  Qed.

  Lemma invtc_step done rest e mc t b : L = done ++ e :: rest -> Inv1 done mc b -> InvC done mc -> InvTC (t_c t) ->
    InvTC (t_c (snd (fst (process_item cr up de (mc, t, b) e)))).
  Proof.
    intros HL HI HC HT. pose proof (e_in _ _ _ HL) as He.
    assert (Hsub : forall ch c, cstates mc ch = Some c -> cstates m ch = Some c).
    { intros ch c E. destruct (c_sub _ _ HC ch) as [S|S]; congruence. }
    destruct e as [h [d|]].
    - pose proof (Hnc_h h d He) as SafeH.
      unfold process_item. cbn [fst snd]. destruct (descrs mc h) as [o|] eqn:Eo.
      + cbn [fst snd]. apply invtc_ucs; assumption.
      + destruct (d_parent d) as [p|] eqn:P; [|cbn [fst snd]; apply invtc_ucs; assumption].
        destruct (memz p cr || memz p up || memz p b) eqn:Guard; [cbn [fst snd]; apply invtc_ucs; assumption|].
        unfold bump_parent. destruct (descrs (set_descr mc h (Some d)) p) as [dp|]; cbn [fst snd].
        * apply invtc_ucs; [exact Hsub|exact SafeH|]. apply invtc_ucs; [exact Hsub|exact (Hnc_p h d p He P)|exact HT].
        * apply invtc_ucs; assumption.
    - unfold process_item. cbn [fst snd]. destruct (descrs mc h) as [o|] eqn:Ec; [|exact HT].
      destruct (d_parent o) as [p|] eqn:P; [|exact HT].
      destruct (memz p de || memz p up || memz p b) eqn:Guard; [exact HT|].
      apply orb_false_iff in Guard. destruct Guard as [Guard _]. apply orb_false_iff in Guard. destruct Guard as [U1 _].
      assert (NRp : ~ Rm p) by (intros R; apply Hde in R; congruence).
      unfold bump_parent. destruct (descrs (fold_left rm_one (subtree mc h) mc) p) as [dp|]; cbn [fst snd]; [|exact HT].
      apply invtc_ucs; [|exact NRp|exact HT].
      intros ch c. cbn [cstates set_descr]. rewrite (proj1 (rm_list_cs (subtree mc h) mc) ch).
      destruct (cstates mc ch) as [c0|] eqn:E0; [|discriminate].
      destruct (memz (c_dh c0) (subtree mc h) && memz ch (cdom mc)); [discriminate|]. intros [= <-]. now apply Hsub.
  Qed.

  (* ------------------------------------------------ everything together, over the real loop *)
  Definition B3 (done : list (H * option descr)) (b : list H) : Prop :=
    forall h d, In (h, Some d) done -> descrs m h <> None -> memz h b = true.

  Lemma mb_bump_mono skip p mc b y : memz y b = true -> memz y (snd (mb_bump skip p (mc, b))) = true.
  Proof.
    intros My. unfold mb_bump. destruct (skip || memz p b); [exact My|].
    destruct (descrs mc p); [|exact My]. cbn [snd]. rewrite memz_cons, My. apply orb_true_r.
  Qed.
  Lemma pi_m_b_mono mc b e y : memz y b = true -> memz y (snd (pi_m cr up de (mc, b) e)) = true.
  Proof.
    intros My. unfold pi_m. destruct (snd e) as [d|]; destruct (descrs mc (fst e)) as [o|]; try exact My.
    - cbn [snd]. rewrite memz_cons, My. apply orb_true_r.
    - destruct (d_parent d); [now apply mb_bump_mono|exact My].
    - destruct (d_parent o); [now apply mb_bump_mono|exact My].
  Qed.
  Lemma ts_bump_keeps skip p mc b ts y : alist_get ts y <> None -> alist_get (ts_bump skip p mc b ts) y <> None.
  Proof.
    intros Hy. unfold ts_bump. destruct (skip || memz p b); [exact Hy|]. destruct (descrs mc p); [now apply ucs_s_keeps|exact Hy].
  Qed.
  Lemma pi_s_keeps mc b ts e y : alist_get ts y <> None -> alist_get (pi_s cr up de mc b ts e) y <> None.
  Proof.
    intros Hy. unfold pi_s. destruct (snd e) as [d|]; destruct (descrs mc (fst e)) as [o|]; try exact Hy.
    - now apply ucs_s_keeps.
    - apply ucs_s_keeps. destruct (d_parent d); [now apply ts_bump_keeps|exact Hy].
    - destruct (d_parent o); [now apply ts_bump_keeps|exact Hy].
  Qed.

  Record InvAll (done : list (H * option descr)) (mc : mdib) (b : list H) (ts : list (H * state)) : Prop := {
    a_1 : Inv1 done mc b;
    a_b2 : B2 done b;
    a_b3 : B3 done b;
    a_2 : Inv2m b ts;
    a_t3 : T3 good (descrs mc) (states mc) ts;
    a_t3c : T3c (descrs mc) (states mc) ts
  }.

  Lemma invall_fold rest : forall done mc t b, L = done ++ rest ->
    InvAll done mc b (t_s t) -> InvC done mc -> InvTC (t_c t) ->
    let r := fold_left (process_item cr up de) rest (mc, t, b) in
    InvAll L (fst (fst r)) (snd r) (t_s (snd (fst r))) /\
    InvC L (fst (fst r)) /\ InvTC (t_c (snd (fst r))) /\
    (forall y, alist_get (t_s t) y <> None -> alist_get (t_s (snd (fst r))) y <> None).
  Proof.
    induction rest as [|e r IH]; intros done mc t b HL HA HC HT; cbn [fold_left].
    - rewrite app_nil_r in HL. subst done. cbn [fst snd]. split; [exact HA|]. split; [exact HC|]. split; [exact HT|tauto].
    - destruct HA as [H1 H2 HB3 HJ H3 H3c].
      pose proof (process_item_mb cr up de mc t b e) as Emb.
      pose proof (process_item_ts cr up de mc t b e) as Ets.
      pose proof (invc_step done r e mc b HL H1 HC) as HC'.
      pose proof (invtc_step done r e mc t b HL H1 HC HT) as HT'.
      destruct (inv1_step done r e mc b HL H1 H2) as [H1' H2'].
      destruct (inv2_step done r e mc b (t_s t) HL H1 H2 HJ H3 H3c) as (HJ' & H3' & H3c').
      assert (HB3' : B3 (done ++ [e]) (snd (pi_m cr up de (mc, b) e))).
      { intros h d Hi Eo. apply in_app_single in Hi. destruct Hi as [Hi|Hi].
        - apply pi_m_b_mono. eapply HB3; eassumption.
        - subst e. pose proof (e_in _ _ _ HL) as He. pose proof (e_not_done _ _ _ HL) as Hp. cbn [fst] in Hp.
          pose proof (i_d _ _ _ H1 h) as S. unfold dspec in S. rewrite (L_get _ _ He), Hp in S.
          unfold pi_m. cbn [fst snd]. destruct (descrs m h) as [o|]; [|congruence]. rewrite S. cbn [snd].
          now rewrite memz_cons, Z.eqb_refl. }
      destruct (process_item cr up de (mc, t, b) e) as [[mc' t'] b'] eqn:E. cbn [fst snd] in Emb, Ets, HT'.
      rewrite <- Emb in H1', H2', HJ', H3', H3c', HB3', HC'. cbn [fst snd] in *. rewrite <- Ets in HJ', H3', H3c'.
      destruct (IH (done ++ [e]) mc' t' b') as (R1 & R2 & R3 & R4).
      + now rewrite <- app_assoc.
      + constructor; assumption.
      + exact HC'.
      + exact HT'.
      + split; [exact R1|]. split; [exact R2|]. split; [exact R3|]. intros y Hy. apply R4. rewrite Ets. now apply pi_s_keeps.
  Qed.

  Definition plain (h : H) : Prop := forall d, ~ In (h, Some d) L.

  Record commit_facts (ts0 : list (H * state)) (m' : mdib) : Prop := {
    cf_descr : forall h d0 d', descrs m h = Some d0 -> descrs m' h = Some d' ->
      (In (h, Some d') L) \/ (plain h /\ trig L h /\ d' = bumpd d0) \/ (plain h /\ ~ trig L h /\ d' = d0);
    cf_state_descr : forall h s, good h -> states m' h = Some s -> exists d, descrs m' h = Some d /\ s_dver s = d_ver d;
    cf_sd : forall h, states m' h <> None -> descrs m' h <> None;
    cf_dom : forall h, descrs m' h <> None -> In h (ddom m');
    cf_ctx : forall h d, descrs m' h = Some d -> d_kind d = K_CTX -> states m' h = None;
    cf_deleted : forall D x, In (D, None) L -> In x (subtree m D) ->
      descrs m' x = None /\ states m' x = None /\
      (forall d0, descrs m x = Some d0 -> sv_d m' x = Some (d_ver d0)) /\
      (forall s, states m x = Some s -> sv_s m' x = Some (s_ver s));
    cf_updated : forall h d, In (h, Some d) L -> descrs m h <> None -> descrs m' h = Some d;
    cf_created : forall h d, In (h, Some d) L -> descrs m h = None ->
      exists d', descrs m' h = Some d' /\ (d' = d \/ (d' = bumpd d /\ trigd L h)) /\
        (alist_get ts0 h <> None -> good h ->
         exists s, states m' h = Some s /\ s_dver s = d_ver d' /\ s_ver s = set_version (sv_s m) h 0);
    cf_state_step : forall h o s', states m h = Some o -> states m' h = Some s' -> s' = o \/ s_ver s' = s_ver o + 1;
    cf_state_follows : forall h d0 d' o,
      (forall x dx, descrs m x = Some dx -> d_kind dx = K_CTX -> states m x = None) ->
      good h -> descrs m h = Some d0 -> descrs m' h = Some d' -> d_ver d' <> d_ver d0 -> states m h = Some o ->
      exists s', states m' h = Some s' /\ s_ver s' = s_ver o + 1 /\ s_dver s' = d_ver d';
    cf_state_frame : forall h, plain h -> ~ trig L h -> ~ rem_below L h -> states m' h = states m h;
    cf_ev_d : forall h, ev_d m h <= ev_d m' h;
    cf_survive : forall h, plain h -> ~ rem_below L h -> descrs m h <> None -> descrs m' h <> None;
    cf_absent : forall h, plain h -> descrs m h = None -> descrs m' h = None;
    cf_cdeleted : forall D x ch c, In (D, None) L -> In x (subtree m D) -> cstates m ch = Some c -> c_dh c = x ->
      cstates m' ch = None /\ sv_c m' ch = Some (c_ver c);
    cf_cdom : forall ch, cstates m' ch <> None -> In ch (cdom m');
    cf_tree : tree_ok m ->
      (forall h d p, In (h, Some d) L -> descrs m h = None -> d_parent d = Some p ->
         descrs m p <> None \/ exists d2, In (p, Some d2) L /\ descrs m p = None) ->
      tree_ok m'
  }.

  Section Committed.
    Variables (mc : mdib) (b : list H) (ts ts0 : list (H * state)) (tc : list (H * option cstate)) (m' : mdib).
    Hypothesis HA : InvAll L mc b ts.
    Hypothesis HC : InvC L mc.
    Hypothesis HTC : InvTC tc.
    Hypothesis Hcs' : forall k, cstates m' k = match alist_get tc k with Some x => x | None => cstates mc k end.
    Hypothesis Hvc' : forall k, sv_c m' k = match alist_get tc k, cstates mc k with Some _, Some o => Some (c_ver o) | _, _ => sv_c mc k end.
    Hypothesis Hcd1' : forall k, In k (cdom mc) -> In k (cdom m').
    Hypothesis Hcd2' : forall k, alist_get tc k <> None -> In k (cdom m').
    Hypothesis Hkept : forall y, alist_get ts0 y <> None -> alist_get ts y <> None.
    Hypothesis Hd' : descrs m' = descrs mc.
    Hypothesis Hs' : forall h, states m' h = match alist_get ts h with Some s => Some s | None => states mc h end.
    Hypothesis Hv' : sv_d m' = sv_d mc.
    Hypothesis Hvs' : forall h, sv_s m' h = match alist_get ts h, states mc h with Some _, Some o => Some (s_ver o) | _, _ => sv_s mc h end.
    Hypothesis Hdd' : ddom m' = ddom mc.

    Let H1 := a_1 _ _ _ _ HA.
    Let HJ := a_2 _ _ _ _ HA.
    Let LL : forall e : H * option descr, In e L -> In e L := fun e He => He.

    Lemma fin_upd h d : In (h, Some d) L -> descrs m h <> None -> descrs mc h = Some d.
    Proof.
      intros Hi E. pose proof (i_d _ _ _ H1 h) as S. unfold dspec in S.
      rewrite (L_get _ _ Hi), (pd_in _ _ _ Hi) in S. destruct (descrs m h); [exact S|contradiction].
    Qed.
    Lemma fin_cr h d : In (h, Some d) L -> descrs m h = None -> descrs mc h = Some (if memz h b then bumpd d else d).
    Proof.
      intros Hi E. pose proof (i_d _ _ _ H1 h) as S. unfold dspec in S.
      now rewrite (L_get _ _ Hi), (pd_in _ _ _ Hi), E in S.
    Qed.
    Lemma fin_other h d0 : plain h -> descrs m h = Some d0 ->
      (rem_below L h -> descrs mc h = None) /\ (~ rem_below L h -> descrs mc h = Some (if memz h b then bumpd d0 else d0)).
    Proof.
      intros G E. pose proof (i_d _ _ _ H1 h) as S. unfold dspec in S. rewrite E in S.
      destruct (alist_get L h) as [[d|]|] eqn:Gh; [apply L_in in Gh; now apply G in Gh|exact S|exact S].
    Qed.
    Lemma plain_or h : (exists d, In (h, Some d) L) \/ plain h.
    Proof.
      destruct (alist_get L h) as [[d|]|] eqn:G; [left; exists d; now apply L_in| |];
        right; intros d Hi; apply L_get in Hi; congruence.
    Qed.
    Lemma Rm_rem h : Rm h -> rem_below L h.
    Proof. intros R. destruct (Rm_below h R) as (_ & D & HD & B). now exists D. Qed.
    Lemma fin_entry_notRm h : alist_get ts h <> None -> ~ Rm h.
    Proof.
      intros Hy. destruct (j_t4 _ _ HJ h Hy) as [(d & Hi & _)|(_ & Mb & _)]; [exact (Hnc_h h d Hi)|exact (proj1 (i_b1 _ _ _ H1 h Mb))].
    Qed.
    Lemma fin_entry_descr h : alist_get ts h <> None -> descrs mc h <> None.
    Proof.
      intros Hy. pose proof (fin_entry_notRm h Hy) as NR.
      destruct (j_t4 _ _ HJ h Hy) as [(d & Hi & _)|(G & Mb & d0 & E & _)].
      - destruct (descrs m h) eqn:E; [rewrite (fin_upd h d Hi); congruence|rewrite (fin_cr h d Hi E); discriminate].
      - rewrite (plain_present L mc b h d0 LL H1 E NR G). discriminate.
    Qed.

    Lemma cm_descr h d0 d' : descrs m h = Some d0 -> descrs m' h = Some d' ->
      (In (h, Some d') L) \/ (plain h /\ trig L h /\ memz h b = true /\ d' = bumpd d0) \/ (plain h /\ ~ trig L h /\ d' = d0).
    Proof.
      intros E E'. rewrite Hd' in E'. destruct (plain_or h) as [(d & Hi)|G].
      - left. rewrite (fin_upd h d Hi) in E'; [|congruence]. now injection E' as <-.
      - right. destruct (fin_other h d0 G E) as [S1 S2].
        destruct (rem_below_dec L h) as [R|R]; [rewrite (S1 R) in E'; discriminate|].
        rewrite (S2 R) in E'. injection E' as <-. destruct (memz h b) eqn:Mb.
        + left. split; [exact G|]. repeat split. destruct (i_b1 _ _ _ H1 h Mb) as [_ [(d & Hi & _)|(_ & T)]]; [now apply G in Hi|exact (proj1 T)].
        + right. split; [exact G|]. split; [|reflexivity]. intros T.
          assert (NRm : ~ Rm h) by (intros Rh; apply R; now apply Rm_rem).
          rewrite (a_b2 _ _ _ _ HA h d0 T E NRm G) in Mb. discriminate.
    Qed.

    Lemma cm_state_descr h s : good h -> states m' h = Some s -> exists d, descrs m' h = Some d /\ s_dver s = d_ver d.
    Proof.
      intros Hg. rewrite Hs', Hd'. destruct (alist_get ts h) as [s'|] eqn:G.
      - intros [= <-]. assert (Hy : alist_get ts h <> None) by congruence.
        pose proof (fin_entry_descr h Hy) as Ed. destruct (descrs mc h) as [d|] eqn:E; [|contradiction].
        exists d. split; [reflexivity|]. pose proof (a_t3 _ _ _ _ HA h d Hg E) as T. now rewrite G in T.
      - intros Es. assert (Ed : descrs mc h <> None) by (apply (i_st4 _ _ _ H1); congruence).
        destruct (descrs mc h) as [d|] eqn:E; [|contradiction]. exists d. split; [reflexivity|].
        pose proof (a_t3 _ _ _ _ HA h d Hg E) as T. rewrite G in T. now apply T.
    Qed.

    Lemma cm_sd h : states m' h <> None -> descrs m' h <> None.
    Proof.
      rewrite Hs', Hd'. destruct (alist_get ts h) as [s'|] eqn:G.
      - intros _. apply (fin_entry_descr h). congruence.
      - apply (i_st4 _ _ _ H1).
    Qed.
    Lemma cm_dom h : descrs m' h <> None -> In h (ddom m').
    Proof. rewrite Hd', Hdd'. apply (i_dom _ _ _ H1). Qed.
    Lemma cm_ctx h d : descrs m' h = Some d -> d_kind d = K_CTX -> states m' h = None.
    Proof. rewrite Hd', Hs'. intros E Ek. destruct (a_t3c _ _ _ _ HA h d E Ek) as [S1 S2]. now rewrite S2. Qed.

    Lemma cm_deleted D x : In (D, None) L -> In x (subtree m D) ->
      descrs m' x = None /\ states m' x = None /\
      (forall d0, descrs m x = Some d0 -> sv_d m' x = Some (d_ver d0)) /\
      (forall s, states m x = Some s -> sv_s m' x = Some (s_ver s)).
    Proof.
      intros HD Hx. assert (Rx : Rm x) by (exists D; now split). pose proof (Rm_rem x Rx) as R.
      assert (Gt : alist_get ts x = None).
      { destruct (alist_get ts x) eqn:G; [|reflexivity]. exfalso. apply (fin_entry_notRm x); [congruence|exact Rx]. }
      assert (En : descrs mc x = None).
      { destruct (Rm_below x Rx) as [Ex _]. destruct (descrs m x) as [d0|] eqn:E; [|contradiction].
        destruct (plain_or x) as [(d & Hi)|G]; [exfalso; exact (Hnc_h x d Hi Rx)|]. now apply (fin_other x d0 G E). }
      rewrite Hd', Hs', Hv', Hvs', Gt. split; [exact En|]. split; [now apply (i_stR _ _ _ H1)|]. split.
      - intros d0 E. now apply (i_svd3 _ _ _ H1).
      - intros s E. now apply (i_svsR _ _ _ H1).
    Qed.

    Lemma cm_created h d : In (h, Some d) L -> descrs m h = None ->
      exists d', descrs m' h = Some d' /\ (d' = d \/ (d' = bumpd d /\ trigd L h)) /\
        (alist_get ts0 h <> None -> good h ->
         exists s, states m' h = Some s /\ s_dver s = d_ver d' /\ s_ver s = set_version (sv_s m) h 0).
    Proof.
      intros Hi Eo. pose proof (fin_cr h d Hi Eo) as E. eexists. rewrite Hd'. split; [exact E|]. split.
      - destruct (memz h b) eqn:Mb; [|now left]. right. split; [reflexivity|].
        destruct (i_b1 _ _ _ H1 h Mb) as [_ [(dx & _ & Ex)|(_ & T)]]; [congruence|exact (proj2 T Eo)].
      - intros H0 Hg. apply Hkept in H0. destruct (alist_get ts h) as [s'|] eqn:G; [|contradiction].
        exists s'. rewrite Hs', G. split; [reflexivity|]. split.
        + pose proof (a_t3 _ _ _ _ HA h _ Hg E) as T. now rewrite G in T.
        + destruct (j_t5 _ _ HJ h s' G) as [[_ V]|(o & Es & _)]; [exact V|]. exfalso. apply (Hsd h); congruence.
    Qed.

    Lemma cm_state_step h o s' : states m h = Some o -> states m' h = Some s' -> s' = o \/ s_ver s' = s_ver o + 1.
    Proof.
      intros E. rewrite Hs'. destruct (alist_get ts h) as [s1|] eqn:G.
      - intros [= <-]. right. destruct (j_t5 _ _ HJ h s1 G) as [[Eo _]|(o' & Es & V)].
        + exfalso. apply (Hsd h); congruence.
        + congruence.
      - intros E'. left. destruct (i_st1 _ _ _ H1 h) as [S|S]; congruence.
    Qed.

    Lemma cm_state_follows h d0 d' o :
      (forall x dx, descrs m x = Some dx -> d_kind dx = K_CTX -> states m x = None) ->
      good h -> descrs m h = Some d0 -> descrs m' h = Some d' -> d_ver d' <> d_ver d0 -> states m h = Some o ->
      exists s', states m' h = Some s' /\ s_ver s' = s_ver o + 1 /\ s_dver s' = d_ver d'.
    Proof.
      intros Hctx Hg E E' Hv Es.
      assert (Ek : d_kind d0 <> K_CTX) by (intros Ek; rewrite (Hctx h d0 E Ek) in Es; discriminate).
      assert (Mb : memz h b = true).
      { destruct (cm_descr h d0 d' E E') as [Hi|[(_ & _ & Mb & _)|(_ & _ & ->)]]; [|exact Mb|congruence].
        apply (a_b3 _ _ _ _ HA h d' Hi). congruence. }
      pose proof (j_t6 _ _ HJ h d0 o Mb E Ek Es) as Hy.
      destruct (alist_get ts h) as [s1|] eqn:G; [|contradiction].
      exists s1. rewrite Hs', G. split; [reflexivity|]. split.
      - destruct (j_t5 _ _ HJ h s1 G) as [[Eo _]|(o' & Es' & V)]; congruence.
      - rewrite Hd' in E'. pose proof (a_t3 _ _ _ _ HA h d' Hg E') as T. now rewrite G in T.
    Qed.

    Lemma cm_state_frame h : plain h -> ~ trig L h -> ~ rem_below L h -> states m' h = states m h.
    Proof.
      intros G NT NR. rewrite Hs'. destruct (alist_get ts h) as [s1|] eqn:Gt.
      - exfalso. assert (Hy : alist_get ts h <> None) by congruence.
        destruct (j_t4 _ _ HJ h Hy) as [(d & Hi & _)|(_ & Mb & _)]; [now apply G in Hi|].
        destruct (i_b1 _ _ _ H1 h Mb) as [_ [(d & Hi & _)|(_ & T)]]; [now apply G in Hi|exact (NT (proj1 T))].
      - now apply (i_st3 _ _ _ H1).
    Qed.

    Lemma cm_ev_d h : ev_d m h <= ev_d m' h.
    Proof.
      unfold ev_d. rewrite Hd', Hv'. destruct (plain_or h) as [(d & Hi)|G].
      - pose proof (HLi _ _ Hi) as Ok. unfold ditem_ok in Ok. destruct (descrs m h) as [o|] eqn:Eo.
        + rewrite (fin_upd h d Hi); [lia|congruence].
        + rewrite (fin_cr h d Hi Eo). unfold set_version in Ok. destruct (memz h b); cbn [bumpd d_ver]; destruct (sv_d m h); lia.
      - destruct (descrs m h) as [d0|] eqn:Eo.
        + destruct (fin_other h d0 G Eo) as [S1 S2]. destruct (rem_below_dec L h) as [R|R].
          * rewrite (S1 R), (i_svd3 _ _ _ H1 h d0 Eo (S1 R)). lia.
          * rewrite (S2 R). destruct (memz h b); cbn; lia.
        + pose proof (i_d _ _ _ H1 h) as S. unfold dspec in S. rewrite Eo in S.
          assert (En : descrs mc h = None).
          { destruct (alist_get L h) as [[d|]|] eqn:Gh; [apply L_in in Gh; now apply G in Gh|exact S|exact S]. }
          rewrite En, (i_svd2 _ _ _ H1 h); [lia|]. intros (D & HD & B).
          apply (below_absent _ _ _ Eo) in B. subst D. now apply del_exists in HD.
    Qed.

    Lemma child_Rm h o p : Rm p -> descrs m h = Some o -> d_parent o = Some p -> Rm h.
    Proof.
      intros R E P. destruct (Rm_below p R) as (_ & D & HD & B). apply (below_Rm D); [exact HD|]. eapply below_step; eassumption.
    Qed.
    Lemma fin_survive p : descrs m p <> None -> ~ Rm p -> descrs mc p <> None.
    Proof.
      intros E NR. destruct (plain_or p) as [(d2 & Hi)|G]; [rewrite (fin_upd p d2 Hi E); discriminate|].
      destruct (descrs m p) as [d0|] eqn:Eo; [|contradiction]. rewrite (plain_present L mc b p d0 LL H1 Eo NR G). discriminate.
    Qed.

    Lemma cm_tree : tree_ok m ->
      (forall h d p, In (h, Some d) L -> descrs m h = None -> d_parent d = Some p ->
         descrs m p <> None \/ exists d2, In (p, Some d2) L /\ descrs m p = None) ->
      tree_ok m'.
    Proof.
      intros Ht Hno h d' p E' P. rewrite Hd' in *. destruct (plain_or h) as [(d & Hi)|G].
      - destruct (descrs m h) as [o|] eqn:Eo.
        + rewrite (fin_upd h d Hi) in E'; [|congruence]. injection E' as <-.
          pose proof (HLi _ _ Hi) as Ok. unfold ditem_ok in Ok. rewrite Eo in Ok. destruct Ok as (Op & _).
          rewrite Op in P. apply fin_survive; [exact (Ht h o p Eo P)|].
          intros R. exact (Hnc_h h d Hi (child_Rm h o p R Eo P)).
        + rewrite (fin_cr h d Hi Eo) in E'. injection E' as <-.
          assert (Pd : d_parent d = Some p) by (destruct (memz h b); exact P).
          destruct (Hno h d p Hi Eo Pd) as [Ep|(d2 & Hi2 & Ep)].
          * apply fin_survive; [exact Ep|exact (Hnc_p h d p Hi Pd)].
          * rewrite (fin_cr p d2 Hi2 Ep). discriminate.
      - destruct (descrs m h) as [d0|] eqn:Eo.
        + destruct (fin_other h d0 G Eo) as [S1 S2].
          destruct (rem_below_dec L h) as [R|R]; [rewrite (S1 R) in E'; discriminate|].
          rewrite (S2 R) in E'. injection E' as <-.
          assert (Pd : d_parent d0 = Some p) by (destruct (memz h b); exact P).
          apply fin_survive; [exact (Ht h d0 p Eo Pd)|]. intros Rp. apply R, Rm_rem. exact (child_Rm h d0 p Rp Eo Pd).
        + pose proof (i_d _ _ _ H1 h) as S. unfold dspec in S. rewrite Eo in S.
          destruct (alist_get L h) as [[d|]|] eqn:Gh; [apply L_in in Gh; now apply G in Gh|congruence|congruence].
    Qed.

    Lemma cm_all : commit_facts ts0 m'.
    Proof.
      constructor.
      - intros h d0 d' E E'. destruct (cm_descr h d0 d' E E') as [A|[(A0 & A1 & _ & A3)|A]]; [now left|right; left; auto|right; now right].
      - exact cm_state_descr.
      - exact cm_sd.
      - exact cm_dom.
      - exact cm_ctx.
      - exact cm_deleted.
      - intros h d Hi E. rewrite Hd'. now apply fin_upd.
      - exact cm_created.
      - exact cm_state_step.
      - exact cm_state_follows.
      - exact cm_state_frame.
      - exact cm_ev_d.
      - intros h G NR E. rewrite Hd'. destruct (descrs m h) as [d0|] eqn:Eo; [|contradiction].
        rewrite (proj2 (fin_other h d0 G Eo) NR). discriminate.
      - intros h G E. rewrite Hd'. pose proof (i_d _ _ _ H1 h) as S. unfold dspec in S. rewrite E in S.
        destruct (alist_get L h) as [[d|]|] eqn:Gh; [apply L_in in Gh; now apply G in Gh|exact S|exact S].
      - intros D x ch c HD Hx Ec Ex. rewrite Hcs', Hvc'.
        assert (Rx : Rm x) by (exists D; now split).
        assert (Gt : alist_get tc ch = None).
        { destruct (alist_get tc ch) eqn:G; [|reflexivity]. exfalso.
          destruct (proj2 HTC ch) as (c' & Ec' & Safe); [congruence|]. rewrite Ec in Ec'. injection Ec' as <-.
          apply Safe. now rewrite Ex. }
        rewrite Gt. apply (c_rem _ _ HC ch c Ec). rewrite Ex. now apply Rm_rem.
      - intros ch. rewrite Hcs'. destruct (alist_get tc ch) as [x|] eqn:G.
        + intros _. apply Hcd2'. congruence.
        + intros Hc. apply Hcd1', (c_dom _ _ HC), Hcdom. destruct (c_sub _ _ HC ch) as [S|S]; congruence.
      - exact cm_tree.
    Qed.
  End Committed.

  (* the whole commit loop followed by the write-back *)
  Lemma commit_loop_facts t :
    InvAll [] (bump_ver m) [] (t_s t) -> t_c t = [] ->
    let r := fold_left (process_item cr up de) L (bump_ver m, t, []) in
    commit_facts (t_s t) (handle_state_updates (fst (fst r)) (snd (fst r))).
  Proof.
    intros HA0 Htc. cbv zeta.
    assert (HC0 : InvC [] (bump_ver m)).
    { constructor; cbn [cstates sv_c cdom bump_ver].
      - intros ch. now right.
      - intros ch c _ (D & [] & _).
      - intros ch c Ec _. now split.
      - apply incl_refl. }
    assert (HT0 : InvTC (t_c t)) by (rewrite Htc; split; [constructor|intros ch Hc; now contradiction Hc]).
    destruct (invall_fold L [] (bump_ver m) t [] eq_refl HA0 HC0 HT0) as (HA & HC & HT & Hkept). cbv zeta in HA, HC, HT, Hkept.
    destruct (fold_left (process_item cr up de) L (bump_ver m, t, [])) as [[mc t1] b]. cbn [fst snd] in *.
    destruct (hsu_pointwise mc t1 (j_nd _ _ (a_2 _ _ _ _ HA))) as (A & B & C & D & E).
    destruct (hsu_cstates mc t1 (proj1 HT)) as (A2 & B2' & C2 & D2).
    exact (cm_all mc b (t_s t1) (t_s t) (t_c t1) _ HA HC HT A2 B2' C2 D2 Hkept A B C D E).
  Qed.
End DescrFold.

(* ---------------------------------------------------------------- descriptor transactions *)
(* well-formedness of the MDIB (preserved by every transaction, see [all_history]) *)
Record mdib_wf (m : mdib) : Prop := {
  wf_dom : forall h, descrs m h <> None -> In h (ddom m);                       (* ddom lists every descriptor *)
  wf_sd : forall h, states m h <> None -> descrs m h <> None;                   (* no state without descriptor *)
  wf_ctx : forall h d, descrs m h = Some d -> d_kind d = K_CTX -> states m h = None; (* context descriptors have no single state *)
  wf_cdom : forall ch, cstates m ch <> None -> In ch (cdom m)                        (* cdom lists every context state *)
}.

(* h is updated by a call, or is the parent of an added / removed descriptor *)
Definition touched (m : mdib) (acts : list action) (h : H) : Prop :=
  (exists p, In (ADUpd h p) acts) \/
  (exists c k p sp, In (ADAdd c (Some h) k p sp) acts) \/
  (exists c dc, In (ADDel c) acts /\ descrs m c = Some dc /\ d_parent dc = Some h).

(* the state of h (if any) carries the version of its descriptor (if any) *)
Definition good0 (m : mdib) (h : H) : Prop :=
  forall s d, states m h = Some s -> descrs m h = Some d -> s_dver s = d_ver d.

Lemma cr_spec m L p : memz p (map fst (filter (is_create m) L)) = true <-> exists d, In (p, Some d) L /\ descrs m p = None.
Proof.
  rewrite memz_In, in_map_iff. split.
  - intros ([k x] & <- & Hi). apply filter_In in Hi. destruct Hi as [Hi E]. unfold is_create in E. cbn [fst snd] in *.
    destruct x as [d|]; [|discriminate]. destruct (descrs m k) eqn:Ek; [discriminate|]. exists d. now split.
  - intros (d & Hi & E). exists (p, Some d). split; [reflexivity|]. apply filter_In. split; [exact Hi|].
    unfold is_create. cbn [fst snd]. now rewrite E.
Qed.
Lemma up_spec m L p : memz p (map fst (filter (is_update m) L)) = true <-> exists d, In (p, Some d) L /\ descrs m p <> None.
Proof.
  rewrite memz_In, in_map_iff. split.
  - intros ([k x] & <- & Hi). apply filter_In in Hi. destruct Hi as [Hi E]. unfold is_update in E. cbn [fst snd] in *.
    destruct x as [d|]; [|discriminate]. destruct (descrs m k) eqn:Ek; [|discriminate]. exists d. split; [exact Hi|discriminate].
  - intros (d & Hi & E). exists (p, Some d). split; [reflexivity|]. apply filter_In. split; [exact Hi|].
    unfold is_update. cbn [fst snd]. destruct (descrs m p); [reflexivity|contradiction].
Qed.
Lemma rm_spec m t p : (forall h x, In (h, x) (t_d t) -> ditem_ok m h x) ->
  memz p (removed_handles m t) = true <-> Rm m (t_d t) p.
Proof.
  intros Hi. unfold removed_handles, Rm. rewrite memz_In, in_flat_map. split.
  - intros ([k x] & He & Hp). unfold is_delete in Hp. cbn [fst snd] in Hp.
    destruct x as [d|]; [contradiction|]. destruct (descrs m k); [|contradiction]. now exists k.
  - intros (D & HD & Hp). exists (D, None). split; [exact HD|]. unfold is_delete. cbn [fst snd].
    pose proof (Hi _ _ HD) as Ok. unfold ditem_ok in Ok. destruct (descrs m D); [exact Hp|contradiction].
Qed.

Lemma existsb_false {A} (f : A -> bool) l : existsb f l = false -> forall x, In x l -> f x = false.
Proof.
  intros E x Hx. destruct (f x) eqn:Fx; [|reflexivity]. exfalso.
  assert (T : existsb f l = true) by (apply existsb_exists; eauto). congruence.
Qed.

Lemma no_conflict m t : (forall h x, In (h, x) (t_d t) -> ditem_ok m h x) -> subtree_conflict m t = false ->
  (forall h d, In (h, Some d) (t_d t) -> ~ Rm m (t_d t) h) /\
  (forall h d p, In (h, Some d) (t_d t) -> d_parent d = Some p -> ~ Rm m (t_d t) p).
Proof.
  intros Hi Hc. unfold subtree_conflict in Hc. cbv zeta in Hc.
  pose proof (existsb_false _ _ Hc) as A. cbv beta in A.
  split.
  - intros h d Hh R. apply (rm_spec m t h Hi) in R. specialize (A _ Hh). cbn [fst snd] in A. now rewrite R in A.
  - intros h d p Hh P R. apply (rm_spec m t p Hi) in R. specialize (A _ Hh). cbn [fst snd] in A.
    rewrite P, R in A. now rewrite orb_true_r in A.
Qed.

Lemma no_orphan m t : orphan_create m t = false ->
  forall h d p, In (h, Some d) (t_d t) -> descrs m h = None -> d_parent d = Some p ->
    descrs m p <> None \/ exists d2, In (p, Some d2) (t_d t) /\ descrs m p = None.
Proof.
  intros Ho h d p Hi Eo P. unfold orphan_create in Ho. cbv zeta in Ho.
  pose proof (existsb_false _ _ Ho (h, Some d) Hi) as A. cbv beta in A.
  assert (Ic : is_create m (h, Some d) = true) by (unfold is_create; cbn [fst snd]; now rewrite Eo).
  rewrite Ic in A. cbn [fst snd andb] in A. rewrite P in A.
  destruct (descrs m p) as [dp|] eqn:Ep; [left; discriminate|]. right.
  destruct (memz p (map fst (filter (is_create m) (t_d t)))) eqn:M; [|cbn in A; discriminate].
  apply cr_spec in M. destruct M as (d2 & Hi2 & _). now exists d2.
Qed.

Lemma commit_descr_facts m acts t : mdib_wf m -> dtx_ok m acts t -> subtree_conflict m t = false -> t_d t <> [] ->
  commit_facts (good0 m) m (t_d t) (t_s t) (commit_descr m t).
Proof.
  intros [Wd Wsd Wc Wcd] [Hc Hn Hsn Hi Hs] Hnc Hne.
  assert (Hi1 : forall h x, In (h, x) (t_d t) -> ditem_ok m h x) by (intros h x Hx; exact (proj1 (Hi h x Hx))).
  destruct (no_conflict m t Hi1 Hnc) as [Nh Np].
  pose proof (commit_loop_facts (good0 m) m (t_d t) (map fst (filter (is_create m) (t_d t)))
                (map fst (filter (is_update m) (t_d t))) (removed_handles m t) Hn Hi1 Wd Wsd
                (cr_spec m _) (up_spec m _) (fun p => rm_spec m t p Hi1) Nh Np Wcd t) as F.
  unfold commit_descr. destruct (t_d t) as [|e0 r0] eqn:EL; [contradiction|]. rewrite <- EL in *.
  assert (HA0 : InvAll (good0 m) m (t_d t) [] (bump_ver m) [] (t_s t)).
  { destruct (inv1_init m (t_d t) Wd Wsd) as [I1 I2]. constructor; try assumption.
    - intros h d [].
    - constructor.
      + exact Hsn.
      + intros h Hy. destruct (alist_get (t_s t) h) as [s|] eqn:G; [|contradiction]. apply alist_get_some_in in G.
        destruct (Hs h s G) as (d & Hd & Ek & _). left. exists d. now split.
      + intros h s' G. apply alist_get_some_in in G. destruct (Hs h s' G) as (d & Hd & Ek & [[E V]|(o & E & V & _)]).
        * left. now split.
        * right. exists o. now split.
      + intros h d0 o [=].
    - intros h d Hg Ed. cbn [descrs states bump_ver] in *. destruct (alist_get (t_s t) h) as [s'|] eqn:G.
      + apply alist_get_some_in in G. destruct (Hs h s' G) as (d' & Hd & Ek & [[E V]|(o & E & V & Dv)]); [congruence|].
        rewrite Dv. now apply Hg.
      + intros s Es. now apply Hg.
    - intros h d Ed Ek. cbn [descrs states bump_ver] in *. split; [now apply (Wc h d)|].
      destruct (alist_get (t_s t) h) as [s'|] eqn:G; [|reflexivity]. exfalso. apply alist_get_some_in in G.
      destruct (Hs h s' G) as (d' & Hd & Ek' & _). pose proof (proj1 (Hi _ _ Hd)) as Ok. unfold ditem_ok in Ok.
      rewrite Ed in Ok. destruct Ok as (_ & Ok & _). congruence. }
  specialize (F HA0 Hc). cbv zeta in F.
  destruct (fold_left _ (t_d t) (bump_ver m, t, [])) as [[m1 t1] b1]. exact F.
Qed.

(* [subtree m D] is the real subtree: x is in it iff x has a descriptor and D is reachable from x over parent links *)
Lemma subtree_exact m : mdib_wf m -> forall D x, In x (subtree m D) <-> descrs m x <> None /\ below m x D.
Proof.
  intros W D x. rewrite subtree_In. split.
  - intros (_ & Ex & R). split; [exact Ex|]. eapply reaches_below; exact R.
  - intros (Ex & B). split; [now apply (wf_dom m W)|]. split; [exact Ex|]. apply fuel_ok; [apply (wf_dom m W)|exact B].
Qed.

Lemma consistent_good m : states_consistent m -> forall h, good0 m h.
Proof. intros Hc h s d Es Ed. destruct (Hc h s Es) as (d1 & E1 & V). congruence. Qed.

(* a transaction that creates or updates a descriptor inside a subtree it removes is refused: ApiUsageError, nothing changed *)
Theorem conflict_rejected m acts t : body 6 m empty_tx acts = Ok t -> subtree_conflict m t = true ->
  transaction 6 None acts m = (m, 3).
Proof. intros B C. unfold transaction. rewrite B. cbn. now rewrite C. Qed.

(* a transaction that creates a descriptor below a parent that neither exists nor is created with it is refused as well *)
Theorem orphan_rejected m acts t : body 6 m empty_tx acts = Ok t -> orphan_create m t = true ->
  transaction 6 None acts m = (m, 3).
Proof. intros B C. unfold transaction. rewrite B. cbn. now rewrite C, orb_true_r. Qed.

Section DescrTx.
  Variables (m : mdib) (acts : list action).
  Hypothesis Hwf : mdib_wf m.
  Hypothesis Hacts : descr_only acts.

  Let m' := fst (transaction 6 None acts m).
  Let code := snd (transaction 6 None acts m).

  Lemma descr_tx_cases :
    (code <> 0 /\ m' = m) \/
    (exists t, code = 0 /\ dtx_ok m acts t /\ (forall a, In a acts -> item_of m t a) /\
       orphan_create m t = false /\
       ((t_d t = [] /\ m' = m) \/ (t_d t <> [] /\ commit_facts (good0 m) m (t_d t) (t_s t) m'))).
  Proof.
    subst m' code. unfold transaction. destruct (body 6 m empty_tx acts) as [t|e] eqn:B.
    - replace (6 =? 6) with true by reflexivity. destruct (subtree_conflict m t) eqn:C; [left; cbn; split; [discriminate|reflexivity]|].
      destruct (orphan_create m t) eqn:Co; cbn [orb].
      + left. cbn. split; [discriminate|reflexivity].
      + right. exists t. cbn [fst snd].
        pose proof (body_dtx_ok m acts acts empty_tx t Hacts (incl_refl _) (empty_dtx_ok m acts) B) as Hok.
        destruct (body_items m acts empty_tx t Hacts B) as (_ & _ & Hit).
        split; [reflexivity|]. split; [exact Hok|]. split; [exact Hit|]. split; [exact Co|].
        destruct (t_d t) as [|e0 r0] eqn:EL.
        * left. split; [reflexivity|]. now apply commit_descr_empty.
        * right. split; [discriminate|]. rewrite <- EL. apply (commit_descr_facts m acts t Hwf Hok C). rewrite EL. discriminate.
    - left. destruct e; cbn; split; (discriminate || reflexivity).
  Qed.

  Lemma trig_touched t h : dtx_ok m acts t -> trig m (t_d t) h -> touched m acts h.
  Proof.
    intros Hok (e & He & T). destruct e as [c [d|]]; unfold trig_item in T; cbn [fst snd] in T.
    - destruct T as [Ec Pc]. destruct (proj2 (dx_items _ _ _ Hok c _ He)) as [[_ (p & sp & Hp)]|[Eo _]]; [|contradiction].
      rewrite Pc in Hp. right. left. now exists c, (d_kind d), p, sp.
    - destruct T as (dc & Ec & Pc). right. right. exists c, dc. split; [exact (proj2 (dx_items _ _ _ Hok c _ He))|now split].
  Qed.
  Lemma touched_trig t h : dtx_ok m acts t -> (forall a, In a acts -> item_of m t a) -> plain (t_d t) h ->
    touched m acts h -> trig m (t_d t) h.
  Proof.
    intros Hok Hit G [(p & Hp)|[(c & k & p & sp & Hp)|(c & dc & Hp & Ec & Pc)]]; apply Hit in Hp; cbn [item_of] in Hp.
    - destruct Hp as [(d & Hd) _]. now apply G in Hd.
    - destruct Hp as (Hd & Ec & _). eexists. split; [exact Hd|]. unfold trig_item. cbn [fst snd d_parent]. now split.
    - destruct Hp as (Hd & _). exists (c, None). split; [exact Hd|]. unfold trig_item. cbn [fst snd]. now exists dc.
  Qed.

  (* 1. descriptor versions *)
  Theorem descr_tx_versions : code = 0 -> forall h d0 d', descrs m h = Some d0 -> descrs m' h = Some d' ->
    (touched m acts h /\ d_ver d' = d_ver d0 + 1 /\ d_parent d' = d_parent d0 /\ d_kind d' = d_kind d0 /\
     ((forall p, ~ In (ADUpd h p) acts) -> d_pay d' = d_pay d0)) \/
    (~ touched m acts h /\ d' = d0).
  Proof.
    intros Hc h d0 d' E E'. destruct descr_tx_cases as [[N _]|(t & _ & Hok & Hit & Hnor & [[EL Em]|[NL F]])]; [contradiction| |].
    - right. rewrite Em, E in E'. injection E' as <-. split; [|reflexivity].
      intros [(p & Hp)|[(c & k & p & sp & Hp)|(c & dc & Hp & _)]]; apply Hit in Hp; cbn [item_of] in Hp; rewrite EL in Hp.
      + destruct Hp as [(d & []) _].
      + destruct Hp as [[] _].
      + destruct Hp as [[] _].
    - destruct (cf_descr _ _ _ _ _ F h d0 d' E E') as [Hi|[(G & T & ->)|(G & NT & ->)]].
      + left. destruct (dx_items _ _ _ Hok h _ Hi) as [Ok Act]. unfold ditem_ok in Ok. rewrite E in Ok.
        destruct Ok as (Op & Ok & Ov). cbn [act_of] in Act. destruct Act as [[Eo _]|[_ (p & Hp)]]; [congruence|].
        split; [left; now exists p|]. repeat split; try assumption. intros Hno. exfalso. exact (Hno p Hp).
      + left. split; [exact (trig_touched t h Hok T)|]. cbn. repeat split.
      + right. split; [|reflexivity]. intros Tc. apply NT. exact (touched_trig t h Hok Hit G Tc).
  Qed.

  (* a descriptor that is there before and after a committed transaction does not lie in a removed subtree *)
  Theorem descr_tx_survivor : code = 0 -> forall h D, In (ADDel D) acts -> In h (subtree m D) -> descrs m' h = None.
  Proof.
    intros Hc h D HD Hx. destruct descr_tx_cases as [[N _]|(t & _ & Hok & Hit & Hnor & [[EL _]|[NL F]])]; [contradiction| |].
    - apply Hit in HD. cbn [item_of] in HD. rewrite EL in HD. destruct HD as [[] _].
    - apply Hit in HD. cbn [item_of] in HD. exact (proj1 (cf_deleted _ _ _ _ _ F D h (proj1 HD) Hx)).
  Qed.

  (* frame: a handle that no call names, that is not the parent of an added / removed descriptor and does not lie
     below a removed one keeps its descriptor and its state *)
  Definition named (h : H) : Prop :=
    (exists p, In (ADUpd h p) acts) \/ (exists par k p sp, In (ADAdd h par k p sp) acts) \/ In (ADDel h) acts.

  Theorem descr_tx_frame : forall h, ~ named h -> ~ touched m acts h -> (forall D, In (ADDel D) acts -> ~ below m h D) ->
    descrs m' h = descrs m h /\ states m' h = states m h.
  Proof.
    intros h Nn Nt Nb. destruct descr_tx_cases as [[_ ->]|(t & _ & Hok & Hit & Hnor & [[EL ->]|[NL F]])]; [now split|now split|].
    assert (G : plain (t_d t) h).
    { intros d Hd. apply Nn. destruct (proj2 (dx_items _ _ _ Hok h _ Hd)) as [[_ (p & sp & Hp)]|[_ (p & Hp)]];
        [right; left; now exists (d_parent d), (d_kind d), p, sp|left; now exists p]. }
    assert (NT : ~ trig m (t_d t) h) by (intros T; apply Nt; exact (trig_touched t h Hok T)).
    assert (NR : ~ rem_below m (t_d t) h).
    { intros (D & HD & B). exact (Nb D (proj2 (dx_items _ _ _ Hok D _ HD)) B). }
    split; [|exact (cf_state_frame _ _ _ _ _ F h G NT NR)].
    destruct (descrs m h) as [d0|] eqn:E.
    - pose proof (cf_survive _ _ _ _ _ F h G NR) as Sv. rewrite E in Sv. specialize (Sv ltac:(discriminate)).
      destruct (descrs m' h) as [d'|] eqn:E'; [|contradiction].
      destruct (cf_descr _ _ _ _ _ F h d0 d' E E') as [Hi|[(_ & T & _)|(_ & _ & ->)]]; [now apply G in Hi|contradiction|reflexivity].
    - exact (cf_absent _ _ _ _ _ F h G E).
  Qed.

  (* 2. state <-> descriptor consistency *)
  Theorem descr_tx_consistent : states_consistent m -> states_consistent m'.
  Proof.
    intros Hc. destruct descr_tx_cases as [[_ ->]|(t & _ & Hok & Hit & Hnor & [[EL ->]|[NL F]])]; [exact Hc|exact Hc|].
    intros h s Es. exact (cf_state_descr _ _ _ _ _ F h s (consistent_good m Hc h) Es).
  Qed.

  Theorem descr_tx_states :
    (forall h o s', states m h = Some o -> states m' h = Some s' -> s' = o \/ s_ver s' = s_ver o + 1) /\
    (states_consistent m -> forall h d0 d' o, descrs m h = Some d0 -> descrs m' h = Some d' -> d_ver d' <> d_ver d0 ->
       states m h = Some o -> exists s', states m' h = Some s' /\ s_ver s' = s_ver o + 1 /\ s_dver s' = d_ver d').
  Proof.
    destruct descr_tx_cases as [[_ Em]|(t & _ & Hok & Hit & Hnor & [[EL Em]|[NL F]])].
    - rewrite Em. split; [intros h o s' E E'; left; congruence|]. intros _ h d0 d' o E E'. congruence.
    - rewrite Em. split; [intros h o s' E E'; left; congruence|]. intros _ h d0 d' o E E'. congruence.
    - split; [exact (cf_state_step _ _ _ _ _ F)|]. intros Hc h d0 d' o.
      apply (cf_state_follows _ _ _ _ _ F h d0 d' o (wf_ctx _ Hwf) (consistent_good m Hc h)).
  Qed.

  (* 3. deletion and re-creation *)
  Theorem descr_tx_deleted : code = 0 -> forall D x, In (ADDel D) acts -> In x (subtree m D) ->
    descrs m' x = None /\ states m' x = None /\
    (forall d0, descrs m x = Some d0 -> sv_d m' x = Some (d_ver d0)) /\
    (forall s, states m x = Some s -> sv_s m' x = Some (s_ver s)) /\
    (forall ch c, cstates m ch = Some c -> c_dh c = x -> cstates m' ch = None /\ sv_c m' ch = Some (c_ver c)).
  Proof.
    intros Hc D x HD Hx. destruct descr_tx_cases as [[N _]|(t & _ & Hok & Hit & Hnor & [[EL _]|[NL F]])]; [contradiction| |].
    - apply Hit in HD. cbn [item_of] in HD. rewrite EL in HD. destruct HD as [[] _].
    - apply Hit in HD. cbn [item_of] in HD. destruct (cf_deleted _ _ _ _ _ F D x (proj1 HD) Hx) as (A & B & C & E).
      split; [exact A|]. split; [exact B|]. split; [exact C|]. split; [exact E|].
      intros ch c Ec Ex. exact (cf_cdeleted _ _ _ _ _ F D x ch c (proj1 HD) Hx Ec Ex).
  Qed.

  (* the added descriptor starts at 0 or continues from the remembered version + 1 ([set_version]); it is one higher only
     if the same transaction also removes a child that named this (so far missing) handle as its parent; its state follows *)
  Lemma descr_tx_created_gen : code = 0 -> forall h par k p sp, In (ADAdd h par k p sp) acts ->
    descrs m h = None /\
    exists d', descrs m' h = Some d' /\ d_parent d' = par /\ d_kind d' = k /\ d_pay d' = p /\
      (d_ver d' = set_version (sv_d m) h 0 \/
       (d_ver d' = set_version (sv_d m) h 0 + 1 /\
        exists c dc, In (ADDel c) acts /\ descrs m c = Some dc /\ d_parent dc = Some h)) /\
      (k <> K_CTX -> exists s, states m' h = Some s /\ s_dver s = d_ver d' /\ s_ver s = set_version (sv_s m) h 0).
  Proof.
    intros Hc h par k p sp Ha. destruct descr_tx_cases as [[N _]|(t & _ & Hok & Hit & Hnor & [[EL _]|[NL F]])]; [contradiction| |].
    - apply Hit in Ha. cbn [item_of] in Ha. rewrite EL in Ha. destruct Ha as [[] _].
    - apply Hit in Ha. cbn [item_of] in Ha. destruct Ha as (Hi & Eo & Hk). split; [exact Eo|].
      destruct (cf_created _ _ _ _ _ F h _ Hi Eo) as (d' & Ed & Hd & Es). exists d'. split; [exact Ed|].
      assert (Hs : k <> K_CTX -> exists s, states m' h = Some s /\ s_dver s = d_ver d' /\ s_ver s = set_version (sv_s m) h 0).
      { intros Ek. apply Es; [|intros s d _ Ed0; congruence].
        apply alist_has_in in Hk; [|exact Ek]. unfold alist_has in Hk. destruct (alist_get (t_s t) h); [discriminate|discriminate]. }
      destruct Hd as [->|[-> (c & dc & Hc1 & Hc2 & Hc3)]]; cbn [bumpd d_parent d_kind d_pay d_ver] in *.
      + repeat split; try reflexivity; [now left|exact Hs].
      + repeat split; try reflexivity; [|exact Hs]. right. split; [reflexivity|].
        exists c, dc. split; [exact (proj2 (dx_items _ _ _ Hok c _ Hc1))|now split].
  Qed.

  (* with every parent existing ([tree_ok]) nothing that is removed can name the new handle as its parent: the added
     descriptor starts at 0 or continues from the remembered version + 1, and so does its state *)
  Theorem descr_tx_created : tree_ok m -> code = 0 -> forall h par k p sp, In (ADAdd h par k p sp) acts ->
    descrs m h = None /\
    descrs m' h = Some (mkDescr par k (set_version (sv_d m) h 0) p) /\
    (k <> K_CTX -> exists s, states m' h = Some s /\ s_dver s = set_version (sv_d m) h 0 /\
                             s_ver s = set_version (sv_s m) h 0).
  Proof.
    intros Ht Hc h par k p sp Ha. destruct (descr_tx_created_gen Hc h par k p sp Ha) as (Eo & d' & Ed & P & K & Y & V & S).
    split; [exact Eo|].
    assert (Ev : d_ver d' = set_version (sv_d m) h 0).
    { destruct V as [V|[_ (c & dc & _ & Ec & Pc)]]; [exact V|]. exfalso. exact (Ht c dc h Ec Pc Eo). }
    split.
    - rewrite Ed. destruct d' as [a b c v]. cbn in *. now subst.
    - intros Ek. destruct (S Ek) as (s & Es & Sd & Sv). exists s. split; [exact Es|]. split; [congruence|exact Sv].
  Qed.

  (* every non-root descriptor keeps having an existing parent: a removal takes all descendants, an added descriptor's
     parent exists or is added with it (else the transaction is refused) *)
  Theorem descr_tx_tree : tree_ok m -> tree_ok m'.
  Proof.
    intros Ht. destruct descr_tx_cases as [[_ ->]|(t & _ & Hok & Hit & Hnor & [[EL ->]|[NL F]])]; [exact Ht|exact Ht|].
    exact (cf_tree _ _ _ _ _ F Ht (no_orphan m t Hnor)).
  Qed.

  (* versions of descriptor handles never decrease, present or remembered *)
  Theorem descr_tx_ev_d : forall h, ev_d m h <= ev_d m' h.
  Proof.
    intros h. destruct descr_tx_cases as [[_ ->]|(t & _ & Hok & Hit & Hnor & [[EL ->]|[NL F]])]; [lia|lia|].
    exact (cf_ev_d _ _ _ _ _ F h).
  Qed.

  Theorem descr_tx_wf : mdib_wf m'.
  Proof.
    destruct descr_tx_cases as [[_ ->]|(t & _ & Hok & Hit & Hnor & [[EL ->]|[NL F]])]; [exact Hwf|exact Hwf|].
    constructor; [exact (cf_dom _ _ _ _ _ F)|exact (cf_sd _ _ _ _ _ F)|exact (cf_ctx _ _ _ _ _ F)|exact (cf_cdom _ _ _ _ _ F)].
  Qed.
End DescrTx.
(* ---------------------------------------------------------------- 4. histories of transactions of all kinds *)
Lemma hsu_frame m1 t1 :
  descrs (handle_state_updates m1 t1) = descrs m1 /\ sv_d (handle_state_updates m1 t1) = sv_d m1 /\
  ddom (handle_state_updates m1 t1) = ddom m1.
Proof.
  unfold handle_state_updates.
  match goal with |- context [fold_left ?f (t_c t1) ?a] => destruct (fold_put_cstate_frame2 (t_c t1) a) as (A & _ & _ & C & _) end.
  cbv zeta in *. rewrite A, C, fold_put_cstate_ddom.
  destruct (fold_put_state_frame (t_s t1) m1) as (A1 & _ & C1 & _ & E1 & _). cbv zeta in *. now rewrite A1, C1, E1.
Qed.

Lemma commit_states_frame m t :
  descrs (commit_states m t) = descrs m /\ sv_d (commit_states m t) = sv_d m /\ ddom (commit_states m t) = ddom m.
Proof.
  unfold commit_states. destruct (t_s t), (t_c t); try (repeat split; fail);
    match goal with |- context [handle_state_updates ?a ?b] => destruct (hsu_frame a b) as (A & B & C); rewrite A, B, C end;
    repeat split.
Qed.

Lemma ev_d_same m m' : descrs m' = descrs m -> sv_d m' = sv_d m -> forall h, ev_d m h <= ev_d m' h.
Proof. intros E1 E2 h. unfold ev_d. rewrite E1, E2. lia. Qed.

Lemma stx_cdom k m t : stx_ok k m t -> cdom (commit_states m t) = cdom m.
Proof.
  intros [Hd Hc Hn Hi]. unfold commit_states. rewrite Hc. destruct (t_s t) as [|e r] eqn:E; [reflexivity|].
  unfold handle_state_updates. rewrite Hc. cbn [fold_left].
  now destruct (fold_put_state_frame (t_s t) (bump_ver m)) as (_ & _ & _ & _ & _ & F).
Qed.

Lemma ctx_cdom_ok m t : ctx_ok m t -> (forall ch, cstates m ch <> None -> In ch (cdom m)) ->
  forall ch, cstates (commit_states m t) ch <> None -> In ch (cdom (commit_states m t)).
Proof.
  intros [Hd Hs Hn Hi] Wcd. unfold commit_states. rewrite Hs.
  destruct (hsu_cstates (bump_ver m) t Hn) as (A & _ & C & D).
  destruct (t_c t) as [|e r] eqn:E; [exact Wcd|]. rewrite <- E in *.
  intros ch. rewrite A. destruct (alist_get (t_c t) ch) as [x|] eqn:G.
  - intros _. apply D. congruence.
  - intros Hc. apply C. cbn [cdom bump_ver]. now apply Wcd.
Qed.

Lemma state_tx_ok k m acts : 0 <= k < 5 -> state_only acts -> mdib_wf m ->
  let m' := fst (transaction k None acts m) in
  mdib_wf m' /\ (forall h, ev_d m h <= ev_d m' h).
Proof.
  intros Hk Ho [Wd Wsd Wc Wcd]. cbv zeta.
  destruct (state_tx_cases k m acts Hk Ho) as [->|(t & Hok & -> & _)]; [split; [now constructor|intros; lia]|].
  destruct (commit_states_frame m t) as (A & B & C).
  destruct (commit_states_pointwise k m t Hok) as (S & _ & CS & _).
  assert (Sd : forall h, states (commit_states m t) h <> None -> states m h <> None).
  { intros h. rewrite S. destruct (alist_get (t_s t) h) as [s|] eqn:G; [|tauto].
    intros _. apply alist_get_some_in in G. destruct (sx_items _ _ _ Hok _ _ G) as (o & -> & _). discriminate. }
  split; [|now apply ev_d_same]. constructor.
  - intros h. rewrite A, C. apply Wd.
  - intros h Hs. rewrite A. apply Wsd. now apply Sd.
  - intros h d. rewrite A. intros Ed Ek. destruct (states (commit_states m t) h) eqn:Es; [|reflexivity].
    exfalso. apply (Sd h); [congruence|]. now apply (Wc h d).
  - intros ch. rewrite CS, (stx_cdom k m t Hok). apply Wcd.
Qed.

Lemma ctx_tx_ok m acts : ctx_only acts -> fresh_ok m acts -> mdib_wf m ->
  let m' := fst (transaction 5 None acts m) in
  mdib_wf m' /\ (states_consistent m -> states_consistent m') /\ (forall h, ev_d m h <= ev_d m' h).
Proof.
  intros Ho Hf [Wd Wsd Wc Wcd]. cbv zeta.
  destruct (ctx_tx_versions m acts Ho Hf) as (_ & _ & D & S).
  destruct (ctx_tx_cases m acts Ho Hf) as [E|(t & Hok & E)].
  - rewrite E. split; [now constructor|]. split; [tauto|intros; lia].
  - destruct (commit_states_frame m t) as (A & B & C). rewrite <- E in A, B, C.
    split; [|split].
    + constructor.
      * intros h. rewrite A, C. apply Wd.
      * intros h. rewrite A, S. apply Wsd.
      * intros h d. rewrite A, S. apply Wc.
      * rewrite E. now apply ctx_cdom_ok.
    + intros Hc h s. rewrite S, D. apply Hc.
    + now apply ev_d_same.
Qed.

(* one transaction of a history: the calls fit the kind of transaction (context handles generated by uuid4 are fresh) *)
Definition txn_ok (m : mdib) (x : txn) : Prop :=
  let '(k, ab, acts) := x in
  match ab with
  | Some _ => True                                                          (* aborted by the application: anything *)
  | None => (0 <= k < 5 /\ state_only acts) \/
            (k = 5 /\ ctx_only acts /\ fresh_ok m acts) \/
            (k = 6 /\ descr_only acts)
  end.
Fixpoint hist_ok (m : mdib) (hist : list txn) : Prop :=
  match hist with
  | [] => True
  | x :: r => txn_ok m x /\ hist_ok (exec1 m x) r
  end.

Lemma tree_ok_same m m' : descrs m' = descrs m -> tree_ok m -> tree_ok m'.
Proof. intros E Ht h d p. rewrite E. apply Ht. Qed.

Lemma exec1_tree m x : mdib_wf m -> txn_ok m x -> tree_ok m -> tree_ok (exec1 m x).
Proof.
  destruct x as [[k ab] acts]. intros Hwf Hx. unfold exec1. cbn [txn_ok] in Hx. destruct ab as [n|].
  - destruct (abort_never_commits k n acts m) as [_ ->]. tauto.
  - destruct Hx as [[Hk Ho]|[(-> & Ho & Hf)|(-> & Ho)]].
    + apply tree_ok_same. exact (proj1 (state_tx_frame k m acts Hk Ho)).
    + apply tree_ok_same. exact (proj1 (proj2 (proj2 (ctx_tx_versions m acts Ho Hf)))).
    + now apply descr_tx_tree.
Qed.

Lemma exec1_ok m x : mdib_wf m -> txn_ok m x ->
  mdib_wf (exec1 m x) /\ (states_consistent m -> states_consistent (exec1 m x)) /\ (forall h, ev_d m h <= ev_d (exec1 m x) h).
Proof.
  destruct x as [[k ab] acts]. intros Hwf Hx. unfold exec1. cbn [txn_ok] in Hx. destruct ab as [n|].
  - destruct (abort_never_commits k n acts m) as [_ ->]. split; [exact Hwf|]. split; [tauto|intros; lia].
  - destruct Hx as [[Hk Ho]|[(-> & Ho & Hf)|(-> & Ho)]].
    + destruct (state_tx_ok k m acts Hk Ho Hwf) as [W V]. split; [exact W|]. split; [|exact V].
      now apply state_tx_consistent.
    + exact (ctx_tx_ok m acts Ho Hf Hwf).
    + split; [now apply descr_tx_wf|]. split; [now apply descr_tx_consistent|now apply descr_tx_ev_d].
Qed.

Theorem all_history hist : forall m, mdib_wf m -> hist_ok m hist ->
  mdib_wf (exec m hist) /\
  (states_consistent m -> states_consistent (exec m hist)) /\
  (tree_ok m -> tree_ok (exec m hist)) /\
  (forall h, ev_d m h <= ev_d (exec m hist) h) /\
  (forall h d d', descrs m h = Some d -> descrs (exec m hist) h = Some d' -> d_ver d <= d_ver d').
Proof.
  assert (Main : forall hist m, mdib_wf m -> hist_ok m hist ->
    mdib_wf (exec m hist) /\ (states_consistent m -> states_consistent (exec m hist)) /\
    (tree_ok m -> tree_ok (exec m hist)) /\
    (forall h, ev_d m h <= ev_d (exec m hist) h)).
  { clear hist. induction hist as [|x r IH]; intros m Hwf Hh; cbn [exec fold_left].
    - split; [exact Hwf|]. split; [tauto|]. split; [tauto|intros; lia].
    - destruct Hh as [Hx Hr]. destruct (exec1_ok m x Hwf Hx) as (W & C & V).
      pose proof (exec1_tree m x Hwf Hx) as T.
      destruct (IH (exec1 m x) W Hr) as (W2 & C2 & T2 & V2). unfold exec in *.
      split; [exact W2|]. split; [auto|]. split; [auto|]. intros h. specialize (V h). specialize (V2 h). lia. }
  intros m Hwf Hh. destruct (Main hist m Hwf Hh) as (W & C & T & V). split; [exact W|]. split; [exact C|]. split; [exact T|]. split; [exact V|].
  intros h d d' E E'. specialize (V h). unfold ev_d in V. now rewrite E, E' in V.
Qed.


(* ---------------------------------------------------------------- a concrete transaction: non-vacuity *)
(* 1 <- 2 <- {3, 4}; handle 5 existed before (saved versions 6 / 2).  One transaction adds 5 below 2, removes 3 and
   updates 4: the parent 2 gets ONE new version, 5 continues from its saved versions, the states follow. *)
Definition ex_m : mdib :=
  mkMdib (fun h => if h =? 1 then Some (mkDescr None K_COMP 0 10)
                   else if h =? 2 then Some (mkDescr (Some 1) K_COMP 3 20)
                   else if h =? 3 then Some (mkDescr (Some 2) K_METRIC 1 30)
                   else if h =? 4 then Some (mkDescr (Some 2) K_METRIC 5 40) else None)
         (fun h => if h =? 1 then Some (mkState 0 2 11) else if h =? 2 then Some (mkState 3 7 21)
                   else if h =? 3 then Some (mkState 1 4 31) else if h =? 4 then Some (mkState 5 0 41) else None)
         (fun _ => None) 10 (fun h => if h =? 5 then Some 6 else None) (fun h => if h =? 5 then Some 2 else None) (fun _ => None)
         [1; 2; 3; 4] [].
Definition ex_acts : list action := [ADAdd 5 (Some 2) K_METRIC 50 51; ADDel 3; ADUpd 4 42].

Ltac case_handles h :=
  repeat match goal with
         | |- context [Z.eqb h ?k] => destruct (Z.eqb_spec h k) as [->|?]
         | H : context [Z.eqb h ?k] |- _ => destruct (Z.eqb_spec h k) as [->|?]
         end.

Lemma ex_wf : mdib_wf ex_m.
Proof.
  constructor.
  - intros h. cbn [descrs ex_m ddom]. case_handles h; cbn [In]; try tauto.
  - intros h. cbn [descrs states ex_m]. case_handles h; try discriminate; tauto.
  - intros h d. cbn [descrs states ex_m]. case_handles h; intros [= <-]; cbn; try discriminate.
  - intros ch. cbn [cstates ex_m]. congruence.
Qed.
Lemma ex_consistent : states_consistent ex_m.
Proof.
  intros h s. cbn [descrs states ex_m]. case_handles h; intros [= <-]; try (eexists; split; [reflexivity|reflexivity]).
Qed.
Lemma ex_descr_only : descr_only ex_acts.
Proof. intros a [<-|[<-|[<-|[]]]]; exact I. Qed.

Example descr_tx_nonvacuous :
  mdib_wf ex_m /\ states_consistent ex_m /\ descr_only ex_acts /\
  let r := transaction 6 None ex_acts ex_m in
  snd r = 0 /\ ver (fst r) = 11 /\
  map (descrs (fst r)) [1; 2; 3; 4; 5] =
    [Some (mkDescr None K_COMP 0 10); Some (mkDescr (Some 1) K_COMP 4 20); None;
     Some (mkDescr (Some 2) K_METRIC 6 42); Some (mkDescr (Some 2) K_METRIC 7 50)] /\
  map (states (fst r)) [1; 2; 3; 4; 5] =
    [Some (mkState 0 2 11); Some (mkState 4 8 21); None; Some (mkState 6 1 41); Some (mkState 7 3 51)] /\
  sv_d (fst r) 3 = Some 1 /\ sv_s (fst r) 3 = Some 4.
Proof.
  split; [exact ex_wf|]. split; [exact ex_consistent|]. split; [exact ex_descr_only|].
  cbv zeta. repeat split; vm_compute; reflexivity.
Qed.

(* ---------------------------------------------------------------- conflicting and nested transactions *)
(* 1 <- 2 <- 3, every descriptor with a state *)
Definition w_m : mdib :=
  mkMdib (fun h => if h =? 1 then Some (mkDescr None K_COMP 0 10)
                   else if h =? 2 then Some (mkDescr (Some 1) K_COMP 0 20)
                   else if h =? 3 then Some (mkDescr (Some 2) K_METRIC 0 30) else None)
         (fun h => if h =? 1 then Some (mkState 0 0 11) else if h =? 2 then Some (mkState 0 0 21)
                   else if h =? 3 then Some (mkState 0 0 31) else None)
         (fun _ => None) 0 (fun _ => None) (fun _ => None) (fun _ => None) [1; 2; 3] [].

Lemma w_wf : mdib_wf w_m.
Proof.
  constructor.
  - intros h. cbn [descrs w_m ddom]. case_handles h; cbn [In]; try tauto.
  - intros h. cbn [descrs states w_m]. case_handles h; try discriminate; tauto.
  - intros h d. cbn [descrs states w_m]. case_handles h; intros [= <-]; cbn; try discriminate.
  - intros ch. cbn [cstates w_m]. congruence.
Qed.
Lemma w_consistent : states_consistent w_m.
Proof.
  intros h s. cbn [descrs states w_m]. case_handles h; intros [= <-]; try (eexists; split; [reflexivity|reflexivity]).
Qed.

(* refused with ApiUsageError (code 3), the MDIB is what it was *)
Definition rejected (acts : list action) : Prop :=
  snd (transaction 6 None acts w_m) = 3 /\ fst (transaction 6 None acts w_m) = w_m.
Lemma rejected_intro acts : snd (transaction 6 None acts w_m) = 3 -> rejected acts.
Proof. intros E. split; [exact E|]. apply transaction_not_committed_noop. rewrite E. discriminate. Qed.

(* the transactions that used to leave states without descriptor (or raised in the middle of the commit) *)
Example add_below_removed_rejected : rejected [ADAdd 4 (Some 2) K_METRIC 40 41; ADDel 2].
Proof. apply rejected_intro. vm_compute. reflexivity. Qed.
Example update_below_removed_rejected : rejected [ADUpd 3 33; ADDel 2].
Proof. apply rejected_intro. vm_compute. reflexivity. Qed.
Example update_after_remove_rejected : rejected [ADDel 2; ADUpd 3 33].
Proof. apply rejected_intro. vm_compute. reflexivity. Qed.

(* a descriptor below a parent that neither exists nor is created in the same transaction (handle 9) *)
Example orphan_add_rejected : rejected [ADAdd 4 (Some 9) K_METRIC 40 41].
Proof. apply rejected_intro. vm_compute. reflexivity. Qed.
(* ... while parent and child may come in one transaction, in either order *)
Example parent_and_child_commit :
  snd (transaction 6 None [ADAdd 4 (Some 9) K_METRIC 40 41; ADAdd 9 (Some 1) K_COMP 90 91] w_m) = 0 /\
  snd (transaction 6 None [ADAdd 9 (Some 1) K_COMP 90 91; ADAdd 4 (Some 9) K_METRIC 40 41] w_m) = 0.
Proof. split; vm_compute; reflexivity. Qed.

Lemma ex_tree : tree_ok ex_m.
Proof.
  intros h d p. cbn [descrs ex_m]. case_handles h; intros [= <-]; cbn; intros [= <-]; discriminate.
Qed.
Lemma w_tree : tree_ok w_m.
Proof.
  intros h d p. cbn [descrs w_m]. case_handles h; intros [= <-]; cbn; intros [= <-]; discriminate.
Qed.

(* a removal nested in another removal is fine (either order): everything is gone, nothing is left behind *)
Example nested_remove_commits :
  let r := transaction 6 None [ADDel 3; ADDel 1] w_m in
  snd r = 0 /\ ver (fst r) = 1 /\ states_consistent (fst r) /\ mdib_wf (fst r) /\
  map (descrs (fst r)) [1; 2; 3] = [None; None; None] /\ map (states (fst r)) [1; 2; 3] = [None; None; None] /\
  map (sv_d (fst r)) [1; 2; 3] = [Some 0; Some 0; Some 0] /\ map (sv_s (fst r)) [1; 2; 3] = [Some 0; Some 0; Some 0].
Proof.
  assert (Ho : descr_only [ADDel 3; ADDel 1]) by (intros a [<-|[<-|[]]]; exact I).
  cbv zeta. split; [vm_compute; reflexivity|]. split; [vm_compute; reflexivity|].
  split; [exact (descr_tx_consistent w_m _ w_wf Ho w_consistent)|]. split; [exact (descr_tx_wf w_m _ w_wf Ho)|].
  repeat split; vm_compute; reflexivity.
Qed.
Example nested_remove_commits_rev :
  let r := transaction 6 None [ADDel 1; ADDel 3] w_m in
  snd r = 0 /\ map (descrs (fst r)) [1; 2; 3] = [None; None; None] /\ map (states (fst r)) [1; 2; 3] = [None; None; None].
Proof. cbv zeta. repeat split; vm_compute; reflexivity. Qed.
