(* Proofs about the consumer model: no regression under any report sequence (C06) and the mirror step
   for state transactions (C01). *)
From Coq Require Import List ZArith Bool Lia.
From SDC Require Import Mdib.Model Mdib.Proofs Mdib.Consumer.
Import ListNotations.
Open Scope Z_scope.

(* ---------------------------------------------------------------- frame facts of the table updates *)
Lemma put_cs_states c h s h' : cm_states (put_cs c h s) h' = if Z.eqb h h' then Some s else cm_states c h'.
Proof. reflexivity. Qed.

Lemma upd_states_frame items : forall c,
  let c' := fst (upd_states c items) in
  cm_descrs c' = cm_descrs c /\ cm_cstates c' = cm_cstates c /\ cm_ver c' = cm_ver c /\
  cm_seq c' = cm_seq c /\ cm_inst c' = cm_inst c /\ cm_mode c' = cm_mode c /\ cm_buf c' = cm_buf c.
Proof.
  induction items as [|[h s] r IH]; intros c; cbn [upd_states]; [cbn; repeat split|].
  set (acc := match cm_states c h with Some o => s_ver o <? s_ver s | None => true end).
  destruct (upd_states (if acc then put_cs c h s else c) r) as [c2 ns] eqn:E. cbn [fst].
  specialize (IH (if acc then put_cs c h s else c)). rewrite E in IH. cbn [fst] in IH.
  destruct IH as (A & B & C & D & F & G & I). destruct acc; cbn in *; repeat split; congruence.
Qed.

(* every state after the update is the old one or one of the report's items with a HIGHER version;
   versions never go down *)
Lemma upd_states_monotone items : forall c h s',
  cm_states (fst (upd_states c items)) h = Some s' ->
  (cm_states c h = Some s' \/ In (h, s') items) /\
  (forall s, cm_states c h = Some s -> s_ver s <= s_ver s').
Proof.
  induction items as [|[k s0] r IH]; intros c h s'; cbn [upd_states].
  - cbn. intros E. split; [now left|]. intros s Es. rewrite E in Es. injection Es as <-. lia.
  - set (acc := match cm_states c k with Some o => s_ver o <? s_ver s0 | None => true end).
    destruct (upd_states (if acc then put_cs c k s0 else c) r) as [c2 ns] eqn:E. cbn [fst].
    intros E2. specialize (IH (if acc then put_cs c k s0 else c) h s'). rewrite E in IH. cbn [fst] in IH.
    destruct (IH E2) as [Hor Hmono]. destruct acc eqn:Ea.
    + rewrite put_cs_states in Hor, Hmono. destruct (Z.eqb_spec k h) as [->|Hne].
      * split.
        -- destruct Hor as [[= <-]|Hi]; [right; now left|right; now right].
        -- intros s Es. specialize (Hmono s0 eq_refl). subst acc. rewrite Es in Ea.
           apply Z.ltb_lt in Ea. lia.
      * split; [destruct Hor as [Ho|Hi]; [now left|right; now right]|exact Hmono].
    + split; [destruct Hor as [Ho|Hi]; [now left|right; now right]|exact Hmono].
Qed.

Lemma upd_states_keeps items : forall c h s, cm_states c h = Some s ->
  exists s', cm_states (fst (upd_states c items)) h = Some s'.
Proof.
  induction items as [|[k s0] r IH]; intros c h s E; cbn [upd_states]; [now exists s|].
  set (acc := match cm_states c k with Some o => s_ver o <? s_ver s0 | None => true end).
  destruct (upd_states (if acc then put_cs c k s0 else c) r) as [c2 ns] eqn:E2. cbn [fst].
  specialize (IH (if acc then put_cs c k s0 else c) h). rewrite E2 in IH. cbn [fst] in IH.
  destruct acc; [|now apply (IH s)].
  rewrite put_cs_states in IH. destruct (Z.eqb k h); [now apply (IH s0)|now apply (IH s)].
Qed.

(* a report none of whose states is newer than what is held changes no table *)
Lemma upd_states_stale items : forall c,
  (forall h s, In (h, s) items -> exists o, cm_states c h = Some o /\ s_ver s <= s_ver o) ->
  upd_states c items = (c, []).
Proof.
  induction items as [|[k s0] r IH]; intros c Hs; cbn [upd_states]; [reflexivity|].
  destruct (Hs k s0 (or_introl eq_refl)) as (o & -> & Hle).
  replace (s_ver o <? s_ver s0) with false by lia.
  rewrite IH; [reflexivity|]. intros h s Hi. apply Hs. now right.
Qed.

(* when every item is accepted (new handle or strictly newer), the result is the pointwise overwrite and
   exactly the items' handles are notified *)
Lemma upd_states_fresh items : forall c, NoDup (map fst items) ->
  (forall h s, In (h, s) items -> match cm_states c h with Some o => s_ver o < s_ver s | None => True end) ->
  (forall h, cm_states (fst (upd_states c items)) h =
             match alist_get items h with Some s => Some s | None => cm_states c h end) /\
  snd (upd_states c items) = map (fun e => (N_STATE, fst e)) items.
Proof.
  induction items as [|[k s0] r IH]; intros c Hnd Ha; cbn [upd_states].
  - split; reflexivity.
  - inversion Hnd as [|? ? Hk Hr]; subst.
    assert (Acc : match cm_states c k with Some o => s_ver o <? s_ver s0 | None => true end = true).
    { specialize (Ha k s0 (or_introl eq_refl)). destruct (cm_states c k); [lia|reflexivity]. }
    rewrite Acc.
    destruct (upd_states (put_cs c k s0) r) as [c2 ns] eqn:E. cbn [fst snd].
    destruct (IH (put_cs c k s0) Hr) as [P N].
    { intros h s Hi. rewrite put_cs_states. destruct (Z.eqb_spec k h) as [->|_]; [|apply Ha; now right].
      exfalso. apply Hk. now apply (in_map fst) in Hi. }
    rewrite E in P, N. cbn [fst snd] in P, N. split.
    + intros h. rewrite P. cbn [alist_get]. rewrite put_cs_states.
      destruct (alist_get r h) as [s1|] eqn:G.
      * destruct (Z.eqb_spec h k) as [->|_]; [|reflexivity].
        exfalso. apply Hk. apply alist_get_some_in in G. now apply (in_map fst) in G.
      * destruct (Z.eqb_spec h k) as [->|Hne]; [now rewrite Z.eqb_refl|].
        destruct (Z.eqb_spec k h); [congruence|reflexivity].
    + cbn [map fst]. now rewrite N.
Qed.

(* ---------------------------------------------------------------- C06: no regression *)
Lemma process_ver_monotone c r : cm_ver c <= cm_ver (fst (process c r)).
Proof.
  unfold process. destruct (vg_ver (report_vg r) <? cm_ver c) eqn:G; [cbn; lia|].
  apply Z.ltb_ge in G.
  destruct r as [vg items|vg items|vg parts]; cbn [report_vg] in *.
  - destruct (upd_states_frame items (set_vg c vg)) as (_ & _ & V & _). cbv zeta in V. rewrite V. cbn. lia.
  - (* context reports: same shape as states; the version group is set first and never changed afterwards *)
    assert (F : forall its c0, cm_ver (fst (upd_cstates c0 its)) = cm_ver c0).
    { induction its as [|[h s] r IH]; intros c0; cbn [upd_cstates]; [reflexivity|].
      set (acc := match cm_cstates c0 h with Some o => c_ver o <? c_ver s | None => true end).
      destruct (upd_cstates (if acc then put_cc c0 h (Some s) else c0) r) as [c2 ns] eqn:E. cbn [fst].
      specialize (IH (if acc then put_cc c0 h (Some s) else c0)). rewrite E in IH. cbn [fst] in IH.
      rewrite IH. destruct acc; reflexivity. }
    rewrite F. cbn. lia.
  - (* description modification: tables change, the version group does not *)
    assert (Vcd : forall c0 h d, cm_ver (put_cd c0 h d) = cm_ver c0) by reflexivity.
    assert (Vcs : forall c0 h s, cm_ver (put_cs c0 h s) = cm_ver c0) by reflexivity.
    assert (Vcc : forall c0 h s, cm_ver (put_cc c0 h s) = cm_ver c0) by reflexivity.
    assert (Ffold : forall (A : Type) (f : cmdib -> A -> cmdib) (l : list A),
               (forall c0 a, cm_ver (f c0 a) = cm_ver c0) -> forall c0, cm_ver (fold_left f l c0) = cm_ver c0).
    { intros A f l Hf. induction l as [|a l IH]; intros c0; cbn [fold_left]; [reflexivity|]. now rewrite IH, Hf. }
    assert (Vrm : forall c0 h, cm_ver (crm_one c0 h) = cm_ver c0).
    { intros c0 h. unfold crm_one. rewrite Ffold; [reflexivity|].
      intros c1 ch. destruct (cm_cstates c1 ch) as [s|]; [destruct (Z.eqb (c_dh s) h)|]; reflexivity. }
    assert (Vpart : forall c0 p, cm_ver (fst (fst (apply_part c0 p))) = cm_ver c0).
    { intros c0 p. unfold apply_part. destruct (dp_mod p =? 0).
      - match goal with |- context [fold_left ?f (dp_descrs p) ?a] =>
          assert (Hc : cm_ver (fst (fst (fold_left f (dp_descrs p) a))) = cm_ver c0) end.
        { generalize (dp_descrs p). intros l.
          assert (G1 : forall l acc, cm_ver (fst (fst acc)) = cm_ver c0 ->
                   cm_ver (fst (fst (fold_left (fun (acc0 : cmdib * list notif * bool) (e : H * descr) =>
                      let '(c1, ns, failed) := acc0 in
                      if failed then acc0 else
                      match cm_descrs c1 (fst e) with
                      | Some _ => (c1, ns, true)
                      | None => (put_cd c1 (fst e) (Some (snd e)), ns ++ [(N_NEW, fst e)], false)
                      end) l acc))) = cm_ver c0).
          { induction l0 as [|e l0 IHl]; intros acc Ha; cbn [fold_left]; [exact Ha|].
            apply IHl. destruct acc as [[c1 ns] failed]. cbn [fst] in *.
            destruct failed; [exact Ha|]. destruct (cm_descrs c1 (fst e)); cbn [fst]; [exact Ha|now rewrite Vcd]. }
          apply G1. reflexivity. }
        destruct (fold_left _ (dp_descrs p) (c0, [], false)) as [[c1 ns] failed]. cbn [fst] in Hc.
        destruct failed; cbn [fst]; [exact Hc|].
        rewrite Ffold; [rewrite Ffold; [exact Hc|intros; apply Vcs]|intros; apply Vcc].
      - destruct (dp_mod p =? 1); cbn [fst].
        + rewrite Ffold; [rewrite Ffold; [rewrite Ffold; [reflexivity|]|]|].
          * intros c1 e. destruct (d_kind (snd e) =? K_CTX).
            -- rewrite Ffold; [destruct (cm_descrs c1 (fst e)); reflexivity|].
               intros c2 ch. destruct (cm_cstates c2 ch) as [s|]; [|reflexivity].
               destruct (Z.eqb (c_dh s) (fst e) && negb (alist_has (dp_cstates p) ch)); reflexivity.
            -- destruct (cm_descrs c1 (fst e)); reflexivity.
          * intros c1 e. destruct (cm_states c1 (fst e)); reflexivity.
          * intros c1 e. destruct (cm_cstates c1 (fst e)); reflexivity.
        + match goal with |- context [fold_left ?f (dp_descrs p) ?a] =>
            assert (Hc : cm_ver (fst (fold_left f (dp_descrs p) a)) = cm_ver c0) end.
          { generalize (dp_descrs p). intros l.
            assert (G1 : forall l acc, cm_ver (fst acc) = cm_ver c0 ->
                     cm_ver (fst (fold_left (fun (acc0 : cmdib * list notif) (e : H * descr) =>
                        let '(c1, ns0) := acc0 in
                        let sub := csubtree c1 (fst e) in
                        (fold_left crm_one sub c1, ns0 ++ map (fun h => (N_DEL, h)) sub)) l acc)) = cm_ver c0).
            { induction l0 as [|e l0 IHl]; intros acc Ha; cbn [fold_left]; [exact Ha|].
              apply IHl. destruct acc as [c1 ns0]. cbn [fst] in *. rewrite Ffold; [exact Ha|apply Vrm]. }
            apply G1. reflexivity. }
          destruct (fold_left _ (dp_descrs p) (c0, [])) as [c1 ns]. cbn [fst] in *. exact Hc. }
    assert (Vparts : forall ps c0, cm_ver (fst (apply_parts c0 ps)) = cm_ver c0).
    { induction ps as [|p ps IH]; intros c0; cbn [apply_parts]; [reflexivity|].
      specialize (Vpart c0 p). destruct (apply_part c0 p) as [[c1 ns] failed]. cbn [fst] in Vpart.
      destruct failed; cbn [fst]; [exact Vpart|].
      specialize (IH c1). destruct (apply_parts c1 ps) as [c2 ns2]. cbn [fst] in *. congruence. }
    rewrite Vparts. cbn. lia.
Qed.

Lemma receive_ver_monotone c r : cm_ver c <= cm_ver (fst (receive c r)).
Proof.
  unfold receive.
  set (mode1 := match cm_mode c with CInitialized => _ | m => m end).
  destruct mode1; cbn [fst cm_ver]; try lia.
  etransitivity; [|apply process_ver_monotone]. cbn. lia.
Qed.

Theorem receive_all_ver_monotone rs : forall c, cm_ver c <= cm_ver (receive_all c rs).
Proof.
  induction rs as [|r rest IH]; intros c; cbn [receive_all]; [lia|].
  etransitivity; [apply (receive_ver_monotone c r)|apply IH].
Qed.

(* an older report (MdibVersion below the held one) changes nothing at all *)
Theorem stale_report_noop c r : vg_ver (report_vg r) < cm_ver c -> process c r = (c, []).
Proof. intros H. unfold process. replace (vg_ver (report_vg r) <? cm_ver c) with true by lia. reflexivity. Qed.

(* a duplicated state report (nothing in it newer than what is held) changes no table and raises no
   notification; only the version group is taken over (it is >= the held one) *)
Theorem duplicate_state_report_noop c vg items :
  cm_ver c <= vg_ver vg ->
  (forall h s, In (h, s) items -> exists o, cm_states c h = Some o /\ s_ver s <= s_ver o) ->
  process c (RState vg items) = (set_vg c vg, []).
Proof.
  intros Hv Hs. unfold process. cbn [report_vg]. replace (vg_ver vg <? cm_ver c) with false by lia.
  apply upd_states_stale. exact Hs.
Qed.

(* state reports: every held state is the one held before or one of the report's; versions never decrease;
   no state disappears *)
Theorem state_report_no_regression c vg items h :
  let c' := fst (process c (RState vg items)) in
  (forall s', cm_states c' h = Some s' ->
      (cm_states c h = Some s' \/ In (h, s') items) /\
      (forall s, cm_states c h = Some s -> s_ver s <= s_ver s')) /\
  (forall s, cm_states c h = Some s -> exists s', cm_states c' h = Some s').
Proof.
  cbv zeta. unfold process. cbn [report_vg]. destruct (vg_ver vg <? cm_ver c).
  - cbn. split; [|intros s E; now exists s]. intros s' E. split; [now left|].
    intros s Es. rewrite E in Es. injection Es as <-. lia.
  - split.
    + intros s' E. apply (upd_states_monotone items (set_vg c vg) h s' E).
    + intros s E. apply (upd_states_keeps items (set_vg c vg) h s E).
Qed.

(* a changed SequenceId / InstanceId stops all updates: the consumer becomes invalid and from then on every
   report leaves it exactly as it is *)
Theorem seq_change_invalidates c r :
  cm_mode c = CInitialized ->
  (vg_seq (report_vg r) <> cm_seq c \/ vg_inst (report_vg r) <> cm_inst c) ->
  let c' := fst (receive c r) in
  cm_mode c' = CInvalid /\ cm_descrs c' = cm_descrs c /\ cm_states c' = cm_states c /\
  cm_cstates c' = cm_cstates c /\ cm_ver c' = cm_ver c /\ snd (receive c r) = [].
Proof.
  intros Hm Hd. cbv zeta. unfold receive. rewrite Hm.
  assert (E : (vg_seq (report_vg r) =? cm_seq c) && (vg_inst (report_vg r) =? cm_inst c) = false).
  { destruct Hd as [Hd|Hd]; [destruct (Z.eqb_spec (vg_seq (report_vg r)) (cm_seq c)); [contradiction|reflexivity]|].
    destruct (Z.eqb_spec (vg_inst (report_vg r)) (cm_inst c)); [contradiction|apply andb_false_r]. }
  rewrite E. cbn. repeat split.
Qed.

Theorem invalid_is_frozen rs : forall c, cm_mode c = CInvalid ->
  let c' := receive_all c rs in
  cm_mode c' = CInvalid /\ cm_descrs c' = cm_descrs c /\ cm_states c' = cm_states c /\
  cm_cstates c' = cm_cstates c /\ cm_ver c' = cm_ver c.
Proof.
  induction rs as [|r rest IH]; intros c Hm; cbn [receive_all]; [repeat split; assumption|].
  assert (E : fst (receive c r) = mkCMdib (cm_descrs c) (cm_states c) (cm_cstates c) (cm_ver c) (cm_seq c) (cm_inst c)
                                          CInvalid (cm_buf c) (cm_ddom c) (cm_cdom c)).
  { unfold receive. rewrite Hm. reflexivity. }
  rewrite E.
  match goal with |- context [receive_all ?c2 rest] => destruct (IH c2 eq_refl) as (A & B & C & D & F) end.
  cbv zeta in *. cbn in *. repeat split; assumption.
Qed.

(* ---------------------------------------------------------------- C01: mirror step for state transactions *)
Definition mirrors (c : cmdib) (m : mdib) : Prop :=
  (forall h, cm_descrs c h = descrs m h) /\ (forall h, cm_states c h = states m h) /\
  (forall h, cm_cstates c h = cstates m h) /\ cm_ver c = ver m /\ cm_mode c = CInitialized.

(* the report a provider emits for a committed state transaction with item list [t_s t] *)
Definition state_report (m' : mdib) (seq inst : Z) (t : tx) : report := RState (mkVg (ver m') seq inst) (t_s t).

Theorem mirror_step_state_tx k m t c :
  stx_ok k m t -> t_s t <> [] -> mirrors c m ->
  let m' := commit_states m t in
  let r := state_report m' (cm_seq c) (cm_inst c) t in
  mirrors (fst (receive c r)) m' /\
  snd (receive c r) = map (fun e => (N_STATE, fst e)) (t_s t).
Proof.
  intros Hok Hne (Md & Ms & Mc & Mv & Mm). cbv zeta.
  destruct (commit_states_pointwise k m t Hok) as (S & D & C & _).
  assert (V : ver (commit_states m t) = ver m + 1).
  { rewrite commit_states_ver. destruct (t_s t); [contradiction|reflexivity]. }
  unfold receive, state_report. cbn [report_vg vg_seq vg_inst]. rewrite Mm, !Z.eqb_refl. cbn [andb].
  unfold process. cbn [report_vg vg_ver cm_ver]. rewrite Mv, V.
  replace (ver m + 1 <? ver m) with false by lia.
  set (c1 := set_vg _ _).
  destruct (upd_states_fresh (t_s t) c1 (sx_nodup _ _ _ Hok)) as [P N].
  { intros h s Hi. subst c1. cbn [set_vg cm_states]. rewrite Ms.
    destruct (sx_items _ _ _ Hok h s Hi) as (o & -> & E & _). lia. }
  destruct (upd_states_frame (t_s t) c1) as (Fd & Fc & Fv & Fs & Fi & Fm & _). cbv zeta in *.
  split; [|exact N].
  repeat split.
  - intros h. rewrite Fd. subst c1. cbn. now rewrite Md, D.
  - intros h. rewrite P, S. subst c1. cbn. now rewrite Ms.
  - intros h. rewrite Fc. subst c1. cbn. now rewrite Mc, C.
  - rewrite Fv. subst c1. cbn. lia.
  - rewrite Fm. subst c1. reflexivity.
Qed.

(* ---------------------------------------------------------------- C01: histories of state transactions *)
(* provider and consumer side by side: every committed, non-empty state transaction sends its report, which
   the consumer processes before the next transaction (emission order) *)
Definition pc_step (seq inst : Z) (mc : mdib * cmdib) (x : txn) : mdib * cmdib :=
  let '(m, c) := mc in
  let '(k, ab, acts) := x in
  match ab, body k m empty_tx acts with
  | None, Ok t =>
      match t_s t with
      | [] => (m, c)
      | _ => let m' := commit_states m t in (m', fst (receive c (state_report m' seq inst t)))
      end
  | _, _ => (m, c)
  end.

Lemma pc_step_provider seq inst m c x : state_txn x -> fst (pc_step seq inst (m, c) x) = exec1 m x.
Proof.
  destruct x as [[k ab] acts]. intros [Hk Ho]. unfold pc_step, exec1.
  destruct ab as [n|].
  - cbn [fst]. symmetry. apply abort_never_commits.
  - unfold transaction. destruct (body k m empty_tx acts) as [t|e] eqn:B.
    + assert (Hok : stx_ok k m t) by (eapply body_state_ok; try eassumption; apply empty_stx_ok).
      replace (k =? 6) with false by lia. cbn [fst].
      destruct (t_s t) eqn:E; [|reflexivity]. cbn [fst]. symmetry. apply commit_states_empty; [assumption|].
      apply (sx_c _ _ _ Hok).
    + destruct e; reflexivity.
Qed.

Theorem mirror_history seq inst hist : forall m c,
  Forall state_txn hist -> mirrors c m -> cm_seq c = seq -> cm_inst c = inst ->
  let '(m', c') := fold_left (pc_step seq inst) hist (m, c) in
  m' = exec m hist /\ mirrors c' m' /\ cm_seq c' = seq /\ cm_inst c' = inst.
Proof.
  induction hist as [|x r IH]; intros m c Hf Hm Hs Hi; cbn [fold_left].
  - unfold exec. cbn. repeat split; try assumption; apply Hm.
  - inversion Hf as [|? ? Hx Hr]; subst.
    pose proof (pc_step_provider (cm_seq c) (cm_inst c) m c x Hx) as Hp.
    assert (Hgen : forall m1 c1, pc_step (cm_seq c) (cm_inst c) (m, c) x = (m1, c1) ->
                   mirrors c1 m1 /\ cm_seq c1 = cm_seq c /\ cm_inst c1 = cm_inst c).
    { intros m1 c1 E. destruct x as [[k ab] acts]. destruct Hx as [Hk Ho]. unfold pc_step in E.
      destruct ab as [n|]; [injection E as <- <-; split; [exact Hm|split; reflexivity]|].
      destruct (body k m empty_tx acts) as [t|e] eqn:B; [|injection E as <- <-; split; [exact Hm|split; reflexivity]].
      assert (Hok : stx_ok k m t) by (eapply body_state_ok; try eassumption; apply empty_stx_ok).
      destruct (t_s t) as [|i0 l0] eqn:Et; [injection E as <- <-; split; [exact Hm|split; reflexivity]|].
      injection E as <- <-.
      assert (Hne : t_s t <> []) by (rewrite Et; discriminate).
      destruct (mirror_step_state_tx k m t c Hok Hne Hm) as [Mi _]. cbv zeta in Mi.
      split; [exact Mi|].
      (* the version group of the report carries the consumer's own sequence / instance id *)
      unfold receive, state_report. cbn [report_vg vg_seq vg_inst].
      destruct Hm as (_ & _ & _ & Mv & Mm). rewrite Mm, !Z.eqb_refl. cbn [andb].
      unfold process. cbn [report_vg vg_ver cm_ver].
      destruct (ver (commit_states m t) <? cm_ver c); [cbn; split; reflexivity|].
      match goal with |- context [upd_states ?c0 ?its] =>
        destruct (upd_states_frame its c0) as (_ & _ & _ & Fs & Fi & _) end.
      cbv zeta in *. rewrite Fs, Fi. cbn. split; reflexivity. }
    destruct (pc_step (cm_seq c) (cm_inst c) (m, c) x) as [m1 c1] eqn:E. cbn [fst] in Hp. subst m1.
    pose proof (Hgen _ _ eq_refl) as Hm1.
    destruct Hm1 as (Hm1 & Hs1 & Hi1).
    specialize (IH (exec1 m x) c1 Hr Hm1 Hs1 Hi1).
    destruct (fold_left (pc_step (cm_seq c) (cm_inst c)) r (exec1 m x, c1)) as [m' c'].
    destruct IH as (A & B & C & D). split; [exact A|]. split; [exact B|]. split; assumption.
Qed.

(* ---------------------------------------------------------------- C01: mirror step for context transactions *)
From SDC Require Import Mdib.Proofs_Ctx.

Lemma put_cc_cstates c h s h' : cm_cstates (put_cc c h s) h' = if Z.eqb h h' then s else cm_cstates c h'.
Proof. reflexivity. Qed.

Lemma upd_cstates_frame items : forall c,
  let c' := fst (upd_cstates c items) in
  cm_descrs c' = cm_descrs c /\ cm_states c' = cm_states c /\ cm_ver c' = cm_ver c /\
  cm_seq c' = cm_seq c /\ cm_inst c' = cm_inst c /\ cm_mode c' = cm_mode c.
Proof.
  induction items as [|[h s] r IH]; intros c; cbn [upd_cstates]; [cbn; repeat split|].
  set (acc := match cm_cstates c h with Some o => c_ver o <? c_ver s | None => true end).
  destruct (upd_cstates (if acc then put_cc c h (Some s) else c) r) as [c2 ns] eqn:E. cbn [fst].
  specialize (IH (if acc then put_cc c h (Some s) else c)). rewrite E in IH. cbn [fst] in IH.
  destruct IH as (A & B & C & D & F & G). destruct acc; cbn in *; repeat split; congruence.
Qed.

Lemma upd_cstates_fresh items : forall c, NoDup (map fst items) ->
  (forall h s, In (h, s) items -> match cm_cstates c h with Some o => c_ver o < c_ver s | None => True end) ->
  (forall h, cm_cstates (fst (upd_cstates c items)) h =
             match alist_get items h with Some s => Some s | None => cm_cstates c h end) /\
  snd (upd_cstates c items) = map (fun e => (N_CTX, fst e)) items.
Proof.
  induction items as [|[k s0] r IH]; intros c Hnd Ha; cbn [upd_cstates].
  - split; reflexivity.
  - inversion Hnd as [|? ? Hk Hr]; subst.
    assert (Acc : match cm_cstates c k with Some o => c_ver o <? c_ver s0 | None => true end = true).
    { specialize (Ha k s0 (or_introl eq_refl)). destruct (cm_cstates c k); [lia|reflexivity]. }
    rewrite Acc.
    destruct (upd_cstates (put_cc c k (Some s0)) r) as [c2 ns] eqn:E. cbn [fst snd].
    destruct (IH (put_cc c k (Some s0)) Hr) as [P N].
    { intros h s Hi. rewrite put_cc_cstates. destruct (Z.eqb_spec k h) as [->|_]; [|apply Ha; now right].
      exfalso. apply Hk. now apply (in_map fst) in Hi. }
    rewrite E in P, N. cbn [fst snd] in P, N. split.
    + intros h. rewrite P. cbn [alist_get]. rewrite put_cc_cstates.
      destruct (alist_get r h) as [s1|] eqn:G.
      * destruct (Z.eqb_spec h k) as [->|_]; [|reflexivity].
        exfalso. apply Hk. apply alist_get_some_in in G. now apply (in_map fst) in G.
      * destruct (Z.eqb_spec h k) as [->|Hne]; [now rewrite Z.eqb_refl|].
        destruct (Z.eqb_spec k h); [congruence|reflexivity].
    + cbn [map fst]. now rewrite N.
Qed.

(* the items of an EpisodicContextReport: the transaction's context items (none of them a deletion) *)
Definition ctx_report_items (t : tx) : list (H * cstate) :=
  flat_map (fun e => match snd e with Some c => [(fst e, c)] | None => [] end) (t_c t).
Definition no_deletion (t : tx) : Prop := forall h, ~ In (h, None) (t_c t).

Lemma ctx_report_items_get t h : no_deletion t ->
  alist_get (ctx_report_items t) h = match alist_get (t_c t) h with Some (Some c) => Some c | _ => None end.
Proof.
  unfold ctx_report_items, no_deletion. induction (t_c t) as [|[k x] r IH]; intros Hn; cbn [flat_map alist_get]; [reflexivity|].
  destruct x as [c|]; [|exfalso; apply (Hn k); now left].
  cbn [snd fst app alist_get]. destruct (Z.eqb h k); [reflexivity|]. apply IH. intros h0 Hi. apply (Hn h0). now right.
Qed.

Lemma ctx_report_items_keys t : no_deletion t -> map fst (ctx_report_items t) = map fst (t_c t).
Proof.
  unfold ctx_report_items, no_deletion. induction (t_c t) as [|[k x] r IH]; intros Hn; [reflexivity|].
  destruct x as [c|]; [|exfalso; apply (Hn k); now left]. cbn. f_equal. apply IH. intros h0 Hi. apply (Hn h0). now right.
Qed.

Theorem mirror_step_ctx_tx m t c :
  ctx_ok m t -> no_deletion t -> t_c t <> [] -> mirrors c m ->
  let m' := commit_states m t in
  let r := RCtx (mkVg (ver m') (cm_seq c) (cm_inst c)) (ctx_report_items t) in
  mirrors (fst (receive c r)) m' /\
  snd (receive c r) = map (fun e => (N_CTX, fst e)) (ctx_report_items t).
Proof.
  intros Hok Hnd Hne (Md & Ms & Mc & Mv & Mm). cbv zeta.
  destruct (commit_ctx_pointwise m t Hok) as (D & S & P & _).
  assert (V : ver (commit_states m t) = ver m + 1).
  { rewrite commit_states_ver. rewrite (cx_s _ _ Hok). destruct (t_c t); [contradiction|reflexivity]. }
  unfold receive. cbn [report_vg vg_seq vg_inst]. rewrite Mm, !Z.eqb_refl. cbn [andb].
  unfold process. cbn [report_vg vg_ver cm_ver]. rewrite Mv, V.
  replace (ver m + 1 <? ver m) with false by lia.
  set (c1 := set_vg _ _).
  assert (Hkeys : NoDup (map fst (ctx_report_items t))) by (rewrite ctx_report_items_keys by assumption; apply (cx_nodup _ _ Hok)).
  destruct (upd_cstates_fresh (ctx_report_items t) c1 Hkeys) as [Pu Nu].
  { intros h s Hi. subst c1. cbn [set_vg cm_cstates]. rewrite Mc.
    assert (G : alist_get (ctx_report_items t) h = Some s) by (now apply alist_get_in).
    rewrite ctx_report_items_get in G by assumption.
    destruct (alist_get (t_c t) h) as [[c0|]|] eqn:G2; try discriminate. injection G as ->.
    apply alist_get_some_in in G2. pose proof (cx_items _ _ Hok _ _ G2) as I. unfold item_ok in I.
    destruct (cstates m h) as [o|]; [destruct I as (E & _); lia|exact Logic.I]. }
  destruct (upd_cstates_frame (ctx_report_items t) c1) as (Fd & Fs & Fv & _ & _ & Fm). cbv zeta in *.
  split; [|exact Nu].
  repeat split.
  - intros h. rewrite Fd. subst c1. cbn. now rewrite Md, D.
  - intros h. rewrite Fs. subst c1. cbn. now rewrite Ms, S.
  - intros h. rewrite Pu, P, ctx_report_items_get by assumption. subst c1. cbn [set_vg cm_cstates]. rewrite Mc.
    destruct (alist_get (t_c t) h) as [[c0|]|] eqn:G; try reflexivity.
    exfalso. apply (Hnd h). now apply alist_get_some_in.
  - rewrite Fv. subst c1. cbn. lia.
  - rewrite Fm. subst c1. reflexivity.
Qed.

(* ---------------------------------------------------------------- C06 for context reports *)
Lemma upd_cstates_monotone items : forall c h s',
  cm_cstates (fst (upd_cstates c items)) h = Some s' ->
  (cm_cstates c h = Some s' \/ In (h, s') items) /\
  (forall s, cm_cstates c h = Some s -> c_ver s <= c_ver s').
Proof.
  induction items as [|[k s0] r IH]; intros c h s'; cbn [upd_cstates].
  - cbn. intros E. split; [now left|]. intros s Es. rewrite E in Es. injection Es as <-. lia.
  - set (acc := match cm_cstates c k with Some o => c_ver o <? c_ver s0 | None => true end).
    destruct (upd_cstates (if acc then put_cc c k (Some s0) else c) r) as [c2 ns] eqn:E. cbn [fst].
    intros E2. specialize (IH (if acc then put_cc c k (Some s0) else c) h s'). rewrite E in IH. cbn [fst] in IH.
    destruct (IH E2) as [Hor Hmono]. destruct acc eqn:Ea.
    + rewrite put_cc_cstates in Hor, Hmono. destruct (Z.eqb_spec k h) as [->|Hne].
      * split.
        -- destruct Hor as [[= <-]|Hi]; [right; now left|right; now right].
        -- intros s Es. specialize (Hmono s0 eq_refl). subst acc. rewrite Es in Ea.
           apply Z.ltb_lt in Ea. lia.
      * split; [destruct Hor as [Ho|Hi]; [now left|right; now right]|exact Hmono].
    + split; [destruct Hor as [Ho|Hi]; [now left|right; now right]|exact Hmono].
Qed.

Lemma upd_cstates_keeps items : forall c h s, cm_cstates c h = Some s ->
  exists s', cm_cstates (fst (upd_cstates c items)) h = Some s'.
Proof.
  induction items as [|[k s0] r IH]; intros c h s E; cbn [upd_cstates]; [now exists s|].
  set (acc := match cm_cstates c k with Some o => c_ver o <? c_ver s0 | None => true end).
  destruct (upd_cstates (if acc then put_cc c k (Some s0) else c) r) as [c2 ns] eqn:E2. cbn [fst].
  specialize (IH (if acc then put_cc c k (Some s0) else c) h). rewrite E2 in IH. cbn [fst] in IH.
  destruct acc; [|now apply (IH s)].
  rewrite put_cc_cstates in IH. destruct (Z.eqb k h); [now apply (IH s0)|now apply (IH s)].
Qed.

Lemma upd_cstates_stale items : forall c,
  (forall h s, In (h, s) items -> exists o, cm_cstates c h = Some o /\ c_ver s <= c_ver o) ->
  upd_cstates c items = (c, []).
Proof.
  induction items as [|[k s0] r IH]; intros c Hs; cbn [upd_cstates]; [reflexivity|].
  destruct (Hs k s0 (or_introl eq_refl)) as (o & -> & Hle).
  replace (c_ver o <? c_ver s0) with false by lia.
  rewrite IH; [reflexivity|]. intros h s Hi. apply Hs. now right.
Qed.

Theorem ctx_report_no_regression c vg items h :
  let c' := fst (process c (RCtx vg items)) in
  (forall s', cm_cstates c' h = Some s' ->
      (cm_cstates c h = Some s' \/ In (h, s') items) /\
      (forall s, cm_cstates c h = Some s -> c_ver s <= c_ver s')) /\
  (forall s, cm_cstates c h = Some s -> exists s', cm_cstates c' h = Some s').
Proof.
  cbv zeta. unfold process. cbn [report_vg]. destruct (vg_ver vg <? cm_ver c).
  - cbn. split; [|intros s E; now exists s]. intros s' E. split; [now left|].
    intros s Es. rewrite E in Es. injection Es as <-. lia.
  - split.
    + intros s' E. apply (upd_cstates_monotone items (set_vg c vg) h s' E).
    + intros s E. apply (upd_cstates_keeps items (set_vg c vg) h s E).
Qed.

Theorem duplicate_ctx_report_noop c vg items :
  cm_ver c <= vg_ver vg ->
  (forall h s, In (h, s) items -> exists o, cm_cstates c h = Some o /\ c_ver s <= c_ver o) ->
  process c (RCtx vg items) = (set_vg c vg, []).
Proof.
  intros Hv Hs. unfold process. cbn [report_vg]. replace (vg_ver vg <? cm_ver c) with false by lia.
  apply upd_cstates_stale. exact Hs.
Qed.
