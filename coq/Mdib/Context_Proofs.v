(* Proofs about context association (C10): set_location. *)
From Coq Require Import List ZArith Bool Lia.
From SDC Require Import Mdib.Model Mdib.Proofs Mdib.Context.
Import ListNotations.
Open Scope Z_scope.

(* the disassociated version of a context state in a transaction that will create MdibVersion v *)
Definition dis_of (v : Z) (c : cstate) : cstate :=
  mkCState (c_dh c) (c_dver c) (c_ver c + 1) A_DIS (c_bind c)
           (match c_unbind c with None => Some v | u => u end) (c_pay c).

Definition needs_dis (dh : H) (c : cstate) : bool :=
  Z.eqb (c_dh c) dh && (negb (Z.eqb (c_assoc c) A_DIS) || (match c_unbind c with None => true | Some _ => false end)).

(* ---------------------------------------------------------------- disassociate_all, pointwise *)
Lemma ctx_disall_fold m dh l : forall t, NoDup l ->
  let t' := fold_left
        (fun t' h =>
           match cstates m h with
           | Some c =>
               if negb (Z.eqb (c_dh c) dh) then t' else
               if false || alist_has (t_c t') h then t' else
               if negb (Z.eqb (c_assoc c) 3) || (match c_unbind c with None => true | Some _ => false end) then
                 mkTx (t_d t') (t_s t')
                      (alist_set (t_c t') h
                         (Some (mkCState (c_dh c) (c_dver c) (c_ver c + 1) 3 (c_bind c)
                                         (match c_unbind c with None => Some (ver m + 1) | u => u end)
                                         (c_pay c))))
               else t'
           | None => t'
           end) l t in
  t_d t' = t_d t /\ t_s t' = t_s t /\
  forall k, alist_get (t_c t') k =
            match alist_get (t_c t) k with
            | Some x => Some x
            | None => if existsb (Z.eqb k) l
                      then match cstates m k with
                           | Some c => if needs_dis dh c then Some (Some (dis_of (ver m + 1) c)) else None
                           | None => None
                           end
                      else None
            end.
Proof.
  induction l as [|h r IH]; intros t Hnd; cbn [fold_left].
  - repeat split. intros k. cbn. destruct (alist_get (t_c t) k); reflexivity.
  - inversion Hnd as [|? ? Hh Hr]; subst.
    set (t1 := match cstates m h with Some c => _ | None => t end).
    destruct (IH t1 Hr) as (D & S & C). cbv zeta in *.
    assert (T1 : t_d t1 = t_d t /\ t_s t1 = t_s t /\
                 forall k, alist_get (t_c t1) k =
                   match alist_get (t_c t) k with
                   | Some x => Some x
                   | None => if Z.eqb k h then
                               match cstates m h with
                               | Some c => if needs_dis dh c then Some (Some (dis_of (ver m + 1) c)) else None
                               | None => None
                               end
                             else None
                   end).
    { subst t1. destruct (cstates m h) as [c|] eqn:Ec.
      - unfold needs_dis, A_DIS, dis_of. destruct (Z.eqb_spec (c_dh c) dh) as [Edh|Ndh]; cbn [negb andb orb].
        + destruct (alist_has (t_c t) h) eqn:Hh2.
          * repeat split. intros k. destruct (alist_get (t_c t) k) eqn:G; [reflexivity|].
            destruct (Z.eqb_spec k h) as [->|_]; [|reflexivity].
            unfold alist_has in Hh2. rewrite G in Hh2. discriminate.
          * unfold alist_has in Hh2. destruct (alist_get (t_c t) h) eqn:G; [discriminate|].
            destruct (negb (c_assoc c =? 3) || match c_unbind c with None => true | Some _ => false end) eqn:Nd.
            -- repeat split. intros k. cbn [t_c]. rewrite alist_get_set.
               destruct (Z.eqb_spec k h) as [->|Hne]; [rewrite G; try rewrite Nd; reflexivity|].
               destruct (alist_get (t_c t) k); reflexivity.
            -- repeat split. intros k. destruct (alist_get (t_c t) k) eqn:G2; [reflexivity|].
               try rewrite Nd. destruct (Z.eqb_spec k h); reflexivity.
        + repeat split. intros k. destruct (alist_get (t_c t) k); [reflexivity|]. destruct (Z.eqb k h); reflexivity.
      - repeat split. intros k. destruct (alist_get (t_c t) k); [reflexivity|]. destruct (Z.eqb k h); reflexivity. }
    destruct T1 as (D1 & S1 & C1). split; [congruence|]. split; [congruence|].
    intros k. rewrite C, C1. cbn [existsb].
    destruct (alist_get (t_c t) k) as [x|]; [reflexivity|].
    destruct (Z.eqb_spec k h) as [->|Hne]; cbn [orb].
    + destruct (cstates m h) as [c|]; [|destruct (existsb (Z.eqb h) r); reflexivity].
      destruct (needs_dis dh c); [reflexivity|].
      assert (E : existsb (Z.eqb h) r = false).
      { destruct (existsb (Z.eqb h) r) eqn:E; [|reflexivity]. apply existsb_exists in E as (y & Hy & Ey).
        apply Z.eqb_eq in Ey. subst y. contradiction. }
      now rewrite E.
    + reflexivity.
Qed.

(* ---------------------------------------------------------------- the commit loop over context items *)
Lemma put_cstate_cstates m h c k : cstates (put_cstate m h c) k = if Z.eqb h k then c else cstates m k.
Proof. reflexivity. Qed.

Lemma fold_put_cstate_cstates l : forall m, NoDup (map fst l) ->
  forall k, cstates (fold_left (fun m' e => put_cstate m' (fst e) (snd e)) l m) k =
            match alist_get l k with Some x => x | None => cstates m k end.
Proof.
  induction l as [|[h x] r IH]; intros m Hnd k; cbn [fold_left alist_get]; [reflexivity|].
  inversion Hnd as [|? ? Hh Hr]; subst. rewrite (IH _ Hr). cbn [fst snd].
  destruct (alist_get r k) as [y|] eqn:G.
  - destruct (Z.eqb_spec k h) as [->|_]; [|reflexivity].
    exfalso. apply Hh. apply alist_get_some_in in G. now apply (in_map fst) in G.
  - rewrite put_cstate_cstates. destruct (Z.eqb_spec k h) as [->|Hne]; [now rewrite Z.eqb_refl|].
    destruct (Z.eqb_spec h k); [congruence|reflexivity].
Qed.

Lemma fold_put_cstate_frame l : forall m,
  let m' := fold_left (fun m' e => put_cstate m' (fst e) (snd e)) l m in
  descrs m' = descrs m /\ states m' = states m /\ ver m' = ver m.
Proof.
  induction l as [|e r IH]; intros m; cbn [fold_left]; [repeat split|].
  destruct (IH (put_cstate m (fst e) (snd e))) as (A & B & C). cbv zeta in *. rewrite A, B, C. repeat split.
Qed.

Lemma alist_set_nonempty {A} (l : list (H * A)) h v : alist_set l h v <> [].
Proof. destruct l as [|[k w] r]; cbn; [discriminate|]. destruct (h =? k); discriminate. Qed.

Lemma alist_keys_nodup_set {A} (l : list (H * A)) h v : NoDup (map fst l) -> NoDup (map fst (alist_set l h v)).
Proof. intros Hn. exact (proj1 (alist_set_keys l h v Hn)). Qed.

(* disassociate_all on an empty transaction *)
Lemma ctx_disall_spec m dh : NoDup (cdom m) ->
  exists t1, ctx_disall m empty_tx dh None = Ok t1 /\ t_d t1 = [] /\ t_s t1 = [] /\
    NoDup (map fst (t_c t1)) /\
    forall k, alist_get (t_c t1) k =
              if existsb (Z.eqb k) (cdom m)
              then match cstates m k with
                   | Some c => if needs_dis dh c then Some (Some (dis_of (ver m + 1) c)) else None
                   | None => None
                   end
              else None.
Proof.
  intros Hdom. unfold ctx_disall. eexists. split; [reflexivity|].
  pose proof (ctx_disall_fold m dh (cdom m) empty_tx Hdom) as X. cbv zeta in X.
  destruct X as (D & S & C). split; [exact D|]. split; [exact S|]. split.
  - (* the keys come from the duplicate-free cdom *)
    assert (G : forall l t, NoDup (map fst (t_c t)) ->
              NoDup (map fst (t_c (fold_left (fun t' h0 =>
                 match cstates m h0 with
                 | Some c => if negb (c_dh c =? dh) then t' else
                     if (match @None H with Some i => i =? h0 | None => false end) || alist_has (t_c t') h0 then t' else
                     if negb (c_assoc c =? 3) || match c_unbind c with None => true | Some _ => false end
                     then mkTx (t_d t') (t_s t') (alist_set (t_c t') h0
                            (Some (mkCState (c_dh c) (c_dver c) (c_ver c + 1) 3 (c_bind c)
                                            match c_unbind c with None => Some (ver m + 1) | u => u end (c_pay c))))
                     else t'
                 | None => t'
                 end) l t)))).
    { induction l as [|x r IH]; intros t Hn; cbn [fold_left]; [exact Hn|]. apply IH.
      destruct (cstates m x) as [c|]; [|exact Hn].
      destruct (negb (c_dh c =? dh)); [exact Hn|]. destruct (_ || alist_has (t_c t) x); [exact Hn|].
      destruct (negb (c_assoc c =? 3) || _); [|exact Hn]. cbn [t_c]. now apply alist_keys_nodup_set. }
    apply G. constructor.
  - intros k. rewrite (C k). reflexivity.
Qed.

(* ---------------------------------------------------------------- set_location *)
Section SetLocation.
  Variables (m : mdib) (dh h : H) (p : Z) (d : descr).
  Hypothesis Hd : descrs m dh = Some d.
  Hypothesis Hk : d_kind d = K_CTX.
  Hypothesis Hfresh : cstates m h = None.
  Hypothesis Hdom : NoDup (cdom m).
  Hypothesis Hin : forall k c, cstates m k = Some c -> In k (cdom m).

  Let m' := fst (set_location m dh h p).


  (* the context table after a location change, pointwise *)
  Theorem set_location_pointwise :
    snd (set_location m dh h p) = 0 /\ ver m' = ver m + 1 /\
    forall k, cstates m' k =
      if Z.eqb k h then Some (mkCState dh (d_ver d) 0 A_ASSOC (Some (ver m + 1)) None p)
      else match cstates m k with
           | Some c => if needs_dis dh c then Some (dis_of (ver m + 1) c) else Some c
           | None => None
           end.
  Proof.
    subst m'. unfold set_location, transaction. cbn [body apply_action].
    destruct (ctx_disall_spec m dh Hdom) as (t1 & E1 & D0 & S0 & Hnd1 & C0). rewrite E1.
    assert (Hh1 : alist_has (t_c t1) h = false).
    { unfold alist_has. rewrite C0, Hfresh. destruct (existsb (Z.eqb h) (cdom m)); reflexivity. }
    unfold ctx_mk. rewrite Hh1, Hd, Hk.
    replace (K_CTX =? K_CTX) with true by reflexivity. cbn [negb andb].
    set (newc := mkCState dh (d_ver d) 0 (if true then 2 else 0) (if true then Some (ver m + 1) else None) None p).
    set (t2 := mkTx (t_d t1) (t_s t1) (alist_set (t_c t1) h (Some newc))).
    replace (5 =? 6) with false by reflexivity. cbn [fst snd].
    split; [reflexivity|].
    assert (Hs2 : t_s t2 = []) by (subst t2; cbn [t_s]; exact S0).
    assert (Hc2 : t_c t2 <> []) by (subst t2; cbn [t_c]; apply alist_set_nonempty).
    unfold commit_states. rewrite Hs2. destruct (t_c t2) as [|e0 l0] eqn:Ec2; [contradiction|]. try rewrite <- Ec2.
    unfold handle_state_updates. rewrite Hs2. cbn [fold_left].
    destruct (fold_put_cstate_frame (t_c t2) (bump_ver m)) as (_ & _ & V). cbv zeta in V.
    split; [rewrite V; reflexivity|].
    intros k. rewrite fold_put_cstate_cstates.
    2:{ subst t2. cbn [t_c]. now apply alist_keys_nodup_set. }
    subst t2. cbn [t_c]. rewrite alist_get_set.
    destruct (Z.eqb_spec k h) as [->|Hne]; [reflexivity|].
    rewrite C0. cbn [bump_ver cstates].
    destruct (cstates m k) as [c|] eqn:Ek.
    - assert (E : existsb (Z.eqb k) (cdom m) = true).
      { apply existsb_exists. exists k. split; [eapply Hin; eassumption|apply Z.eqb_refl]. }
      rewrite E. destruct (needs_dis dh c); reflexivity.
    - destruct (existsb (Z.eqb k) (cdom m)); reflexivity.
  Qed.

  (* after a location change: the new state is the only associated state of the descriptor; every state of
     the descriptor that was associated before is now disassociated with the unbinding version of THIS commit
     (unless it already carried one); the new state is bound to THIS commit; nothing else changed *)
  Theorem set_location_invariants :
    let v := ver m + 1 in
    (forall k c, cstates m' k = Some c -> c_dh c = dh -> c_assoc c = A_ASSOC -> k = h) /\
    (exists c, cstates m' h = Some c /\ c_assoc c = A_ASSOC /\ c_bind c = Some v /\ c_dh c = dh) /\
    (forall k c, cstates m k = Some c -> c_dh c = dh -> c_assoc c = A_ASSOC ->
        exists c', cstates m' k = Some c' /\ c_assoc c' = A_DIS /\
                   (c_unbind c = None -> c_unbind c' = Some v) /\ c_ver c' = c_ver c + 1) /\
    (forall k c, cstates m k = Some c -> c_dh c <> dh -> cstates m' k = Some c).
  Proof.
    cbv zeta. destruct set_location_pointwise as (_ & _ & P). repeat split.
    - intros k c E Edh Ea. rewrite P in E. destruct (Z.eqb_spec k h) as [|Hne]; [assumption|].
      exfalso. destruct (cstates m k) as [c0|] eqn:E0; [|discriminate].
      destruct (needs_dis dh c0) eqn:N; injection E as <-.
      + cbn in Ea. discriminate.
      + unfold needs_dis in N. rewrite Edh, Z.eqb_refl in N. cbn [andb] in N.
        apply orb_false_iff in N as [N _]. apply negb_false_iff in N. apply Z.eqb_eq in N.
        unfold A_ASSOC, A_DIS in *. congruence.
    - exists (mkCState dh (d_ver d) 0 A_ASSOC (Some (ver m + 1)) None p). rewrite P, Z.eqb_refl. repeat split.
    - intros k c E Edh Ea.
      assert (Hne : k <> h) by (intros ->; congruence).
      rewrite P. destruct (Z.eqb_spec k h); [contradiction|]. rewrite E.
      assert (N : needs_dis dh c = true).
      { unfold needs_dis. rewrite Edh, Z.eqb_refl, Ea. reflexivity. }
      rewrite N. exists (dis_of (ver m + 1) c). repeat split. intros Hn. cbn. now rewrite Hn.
    - intros k c E Ndh.
      assert (Hne : k <> h) by (intros ->; congruence).
      rewrite P. destruct (Z.eqb_spec k h); [contradiction|]. rewrite E.
      unfold needs_dis. destruct (Z.eqb_spec (c_dh c) dh); [contradiction|]. reflexivity.
  Qed.
End SetLocation.

(* a SetContextState operation that fails changes nothing; one that finishes raises MdibVersion by one (or
   changed nothing at all) *)
Lemma set_context_state_atomic m fresh ps :
  let r := set_context_state m fresh ps in
  (snd r = 1 -> fst r = m) /\ (snd r = 0 -> ver (fst r) = ver m + 1 \/ fst r = m) /\ (snd r = 0 \/ snd r = 1).
Proof.
  cbv zeta. unfold set_context_state.
  destruct (existsb _ ps); [cbn; repeat split; try reflexivity; try discriminate; now right|].
  destruct (handle_proposals m _ ps) as [st|]; [|cbn; repeat split; try reflexivity; try discriminate; now right].
  destruct (write_entities m empty_tx _ _) as [t|]; [|cbn; repeat split; try reflexivity; try discriminate; now right].
  cbn [fst snd]. repeat split; try discriminate; [|now left]. intros _.
  rewrite commit_states_ver. destruct (t_s t) eqn:E1, (t_c t) eqn:E2; try (now left).
  right. now apply commit_states_empty.
Qed.
