(* Running the consumer model on the reports observed on the wire and observing it like the harness
   observes the real ConsumerMdib. *)
From Coq Require Import List ZArith Bool.
From SDC Require Import Common.Corr Mdib.Model Mdib.Run Mdib.Consumer.
Import ListNotations.
Open Scope Z_scope.

Definition mk_cmdib (ds : list (H * descr)) (ss : list (H * state)) (cs : list (H * cstate)) (v seq inst : Z) : cmdib :=
  mkCMdib (of_alist ds) (of_alist ss) (of_alist cs) v seq inst CInitialized [] (map fst ds) (map fst cs).

Definition mode_code (m : cmode) : Z := match m with CInvalid => 0 | CInitializing => 1 | CInitialized => 2 end.

(* per delivered report: version, mode, deltas, notifications *)
Definition cobs := (Z * Z * list (H * list Z) * list (H * list Z) * list (H * list Z) * list (Z * H))%type.

Fixpoint crun (u : list H) (c : cmdib) (rs : list report) : list cobs :=
  match rs with
  | [] => []
  | r :: rest =>
      let '(c', ns) := receive c r in
      (cm_ver c', mode_code (cm_mode c'), delta enc_d (cm_descrs c) (cm_descrs c') u,
       delta enc_s (cm_states c) (cm_states c') u, delta enc_c (cm_cstates c) (cm_cstates c') u, ns)
      :: crun u c' rest
  end.

Definition cobs_eqb (a b : cobs) : bool :=
  let '(v1, m1, d1, s1, x1, n1) := a in
  let '(v2, m2, d2, s2, x2, n2) := b in
  Z.eqb v1 v2 && Z.eqb m1 m2 && hl_eqb d1 d2 && hl_eqb s1 s2 && hl_eqb x1 x2 &&
  list_eqb (prod_eqb Z.eqb Z.eqb) n1 n2.
Definition ctrace_eqb := list_eqb cobs_eqb.

(* --- per transaction step: all reports of the step are delivered in order --- *)
Fixpoint ins_sorted (x : Z * H) (l : list (Z * H)) : list (Z * H) :=
  match l with
  | [] => [x]
  | y :: r => if Z.ltb (fst x) (fst y) || (Z.eqb (fst x) (fst y) && Z.leb (snd x) (snd y)) then x :: l
              else y :: ins_sorted x r
  end.
Definition sort_notifs (l : list (Z * H)) : list (Z * H) := fold_right ins_sorted [] l.

Fixpoint deliver (c : cmdib) (rs : list report) : cmdib * list (Z * H) :=
  match rs with
  | [] => (c, [])
  | r :: rest => let '(c1, ns) := receive c r in let '(c2, ns2) := deliver c1 rest in (c2, ns ++ ns2)
  end.

Fixpoint crun_steps (u : list H) (c : cmdib) (steps : list (list report)) : list cobs :=
  match steps with
  | [] => []
  | rs :: rest =>
      let '(c', ns) := deliver c rs in
      (cm_ver c', mode_code (cm_mode c'), delta enc_d (cm_descrs c) (cm_descrs c') u,
       delta enc_s (cm_states c) (cm_states c') u, delta enc_c (cm_cstates c) (cm_cstates c') u, sort_notifs ns)
      :: crun_steps u c' rest
  end.
