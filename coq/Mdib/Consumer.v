(* Executable model of ConsumerMdib's report processing (src/sdc11073/mdib/consumermdib.py):
   MdibVersion gate, StateVersion gate, sequence/instance watchdog, buffering while initialising,
   description modification reports.  Definitions only. *)
From Coq Require Import List ZArith Bool.
From SDC Require Import Mdib.Model.
Import ListNotations.
Open Scope Z_scope.

Record vgroup := mkVg { vg_ver : Z; vg_seq : Z; vg_inst : Z }.

(* one part of a DescriptionModificationReport; modification: 0 = Crt, 1 = Upt, 2 = Del *)
Record dpart := mkDPart { dp_mod : Z; dp_descrs : list (H * descr);
                          dp_states : list (H * state); dp_cstates : list (H * cstate) }.

Inductive report :=
| RState (vg : vgroup) (items : list (H * state))       (* metric / alert / component / operational / waveform *)
| RCtx (vg : vgroup) (items : list (H * cstate))        (* EpisodicContextReport *)
| RDescr (vg : vgroup) (parts : list dpart).            (* DescriptionModificationReport *)

Definition report_vg (r : report) : vgroup :=
  match r with RState vg _ | RCtx vg _ | RDescr vg _ => vg end.

Inductive cmode := CInvalid | CInitializing | CInitialized.

Record cmdib := mkCMdib {
  cm_descrs : H -> option descr;
  cm_states : H -> option state;
  cm_cstates : H -> option cstate;
  cm_ver : Z;
  cm_seq : Z;                      (* 0 stands for None *)
  cm_inst : Z;
  cm_mode : cmode;
  cm_buf : list report;            (* _buffered_notifications *)
  cm_ddom : list H;
  cm_cdom : list H
}.

(* notifications raised while processing one report: (observable id, handle) *)
Definition notif := (Z * H)%type.
Definition N_STATE := 0.  Definition N_CTX := 1.  Definition N_NEW := 2.  Definition N_UPD := 3.  Definition N_DEL := 4.

Definition set_vg (c : cmdib) (vg : vgroup) : cmdib :=
  mkCMdib (cm_descrs c) (cm_states c) (cm_cstates c) (vg_ver vg) (vg_seq vg) (vg_inst vg)
          (cm_mode c) (cm_buf c) (cm_ddom c) (cm_cdom c).

Definition put_cs (c : cmdib) (h : H) (s : state) : cmdib :=
  mkCMdib (cm_descrs c) (upd (cm_states c) h (Some s)) (cm_cstates c) (cm_ver c) (cm_seq c) (cm_inst c)
          (cm_mode c) (cm_buf c) (cm_ddom c) (cm_cdom c).
Definition put_cc (c : cmdib) (h : H) (s : option cstate) : cmdib :=
  mkCMdib (cm_descrs c) (cm_states c) (upd (cm_cstates c) h s) (cm_ver c) (cm_seq c) (cm_inst c)
          (cm_mode c) (cm_buf c) (cm_ddom c) (add_dom h (cm_cdom c)).
Definition put_cd (c : cmdib) (h : H) (d : option descr) : cmdib :=
  mkCMdib (upd (cm_descrs c) h d) (cm_states c) (cm_cstates c) (cm_ver c) (cm_seq c) (cm_inst c)
          (cm_mode c) (cm_buf c) (add_dom h (cm_ddom c)) (cm_cdom c).

(* _update_from_states_report: StateVersion gate (diff >= 1), unknown state is added *)
Fixpoint upd_states (c : cmdib) (items : list (H * state)) : cmdib * list notif :=
  match items with
  | [] => (c, [])
  | (h, s) :: r =>
      let accept := match cm_states c h with
                    | Some o => Z.ltb (s_ver o) (s_ver s)
                    | None => true
                    end in
      let c1 := if accept then put_cs c h s else c in
      let '(c2, ns) := upd_states c1 r in
      (c2, if accept then (N_STATE, h) :: ns else ns)
  end.

Fixpoint upd_cstates (c : cmdib) (items : list (H * cstate)) : cmdib * list notif :=
  match items with
  | [] => (c, [])
  | (h, s) :: r =>
      let accept := match cm_cstates c h with
                    | Some o => Z.ltb (c_ver o) (c_ver s)
                    | None => true
                    end in
      let c1 := if accept then put_cc c h (Some s) else c in
      let '(c2, ns) := upd_cstates c1 r in
      (c2, if accept then (N_CTX, h) :: ns else ns)
  end.

(* rm_descriptor_by_handle on the consumer tables *)
Fixpoint creaches (c : cmdib) (fuel : nat) (h root : H) : bool :=
  if Z.eqb h root then true else
  match fuel with
  | O => false
  | S f => match cm_descrs c h with
           | Some d => match d_parent d with Some p => creaches c f p root | None => false end
           | None => false
           end
  end.
Definition csubtree (c : cmdib) (root : H) : list H :=
  filter (fun h => match cm_descrs c h with Some _ => creaches c (length (cm_ddom c)) h root | None => false end)
         (cm_ddom c).
Definition crm_one (c : cmdib) (h : H) : cmdib :=
  let c1 := put_cd c h None in
  let c2 := mkCMdib (cm_descrs c1) (upd (cm_states c1) h None) (cm_cstates c1) (cm_ver c1) (cm_seq c1) (cm_inst c1)
                    (cm_mode c1) (cm_buf c1) (cm_ddom c1) (cm_cdom c1) in
  fold_left (fun c' ch => match cm_cstates c' ch with
                          | Some s => if Z.eqb (c_dh s) h then put_cc c' ch None else c'
                          | None => c'
                          end) (cm_cdom c2) c2.

(* one report part; the boolean says whether processing was interrupted by an exception (CREATE of an
   existing handle raises KeyError out of the handler) *)
Definition apply_part (c : cmdib) (p : dpart) : cmdib * list notif * bool :=
  if Z.eqb (dp_mod p) 0 then
    (* CREATE *)
    let step := fun (acc : cmdib * list notif * bool) (e : H * descr) =>
                  let '(c0, ns, failed) := acc in
                  if failed then acc else
                  match cm_descrs c0 (fst e) with
                  | Some _ => (c0, ns, true)
                  | None => (put_cd c0 (fst e) (Some (snd e)), ns ++ [(N_NEW, fst e)], false)
                  end in
    let '(c1, ns, failed) := fold_left step (dp_descrs p) (c, [], false) in
    if failed then (c1, ns, true) else
    let c2 := fold_left (fun c' e => put_cs c' (fst e) (snd e)) (dp_states p) c1 in
    let c3 := fold_left (fun c' e => put_cc c' (fst e) (Some (snd e))) (dp_cstates p) c2 in
    (c3, ns, false)
  else if Z.eqb (dp_mod p) 1 then
    (* UPDATE: descriptors replaced if known; context states of an updated context descriptor that are not
       listed are deleted; states replaced WITHOUT version gate if known *)
    let c1 := fold_left (fun c' e =>
                let c'' := match cm_descrs c' (fst e) with Some _ => put_cd c' (fst e) (Some (snd e)) | None => c' end in
                if Z.eqb (d_kind (snd e)) K_CTX then
                  fold_left (fun cc ch => match cm_cstates cc ch with
                                          | Some s => if Z.eqb (c_dh s) (fst e) && negb (alist_has (dp_cstates p) ch)
                                                      then put_cc cc ch None else cc
                                          | None => cc
                                          end) (cm_cdom c'') c''
                else c'') (dp_descrs p) c in
    let ns := map (fun e => (N_UPD, fst e)) (dp_descrs p) in
    let c2 := fold_left (fun c' e => match cm_states c' (fst e) with Some _ => put_cs c' (fst e) (snd e) | None => c' end)
                        (dp_states p) c1 in
    let c3 := fold_left (fun c' e => match cm_cstates c' (fst e) with Some _ => put_cc c' (fst e) (Some (snd e)) | None => c' end)
                        (dp_cstates p) c2 in
    (c3, ns, false)
  else
    (* DELETE *)
    let '(c1, ns) := fold_left (fun (acc : cmdib * list notif) (e : H * descr) =>
                                  let '(c0, ns0) := acc in
                                  let sub := csubtree c0 (fst e) in
                                  (fold_left crm_one sub c0, ns0 ++ map (fun h => (N_DEL, h)) sub))
                               (dp_descrs p) (c, []) in
    (c1, ns, false).

Fixpoint apply_parts (c : cmdib) (ps : list dpart) : cmdib * list notif :=
  match ps with
  | [] => (c, [])
  | p :: r =>
      let '(c1, ns, failed) := apply_part c p in
      if failed then (c1, ns) else
      let '(c2, ns2) := apply_parts c1 r in (c2, ns ++ ns2)
  end.

(* _process_incoming_*: MdibVersion gate (>=), then the version group is taken over and the report applied *)
Definition process (c : cmdib) (r : report) : cmdib * list notif :=
  if Z.ltb (vg_ver (report_vg r)) (cm_ver c) then (c, []) else
  let c1 := set_vg c (report_vg r) in
  match r with
  | RState _ items => upd_states c1 items
  | RCtx _ items => upd_cstates c1 items
  | RDescr _ parts => apply_parts c1 parts
  end.

(* _pre_check_report_ok + process *)
Definition receive (c : cmdib) (r : report) : cmdib * list notif :=
  let vg := report_vg r in
  let same := Z.eqb (vg_seq vg) (cm_seq c) && Z.eqb (vg_inst vg) (cm_inst c) in
  let mode1 := match cm_mode c with
               | CInitialized => if same then CInitialized else CInvalid
               | m => m
               end in
  let c1 := mkCMdib (cm_descrs c) (cm_states c) (cm_cstates c) (cm_ver c) (cm_seq c) (cm_inst c) mode1
                    (cm_buf c) (cm_ddom c) (cm_cdom c) in
  match mode1 with
  | CInvalid => (c1, [])
  | CInitializing =>
      (mkCMdib (cm_descrs c) (cm_states c) (cm_cstates c) (cm_ver c) (cm_seq c) (cm_inst c) mode1
               (cm_buf c ++ [r]) (cm_ddom c) (cm_cdom c), [])
  | CInitialized => process c1 r
  end.

Fixpoint receive_all (c : cmdib) (rs : list report) : cmdib :=
  match rs with
  | [] => c
  | r :: rest => receive_all (fst (receive c r)) rest
  end.

(* reload_all, second half: the GetMdib answer [snap] is installed, then the buffered reports that belong
   to the same sequence and are newer than the snapshot are applied in arrival order *)
Definition install (snap : cmdib) (buf : list report) : cmdib :=
  let c0 := mkCMdib (cm_descrs snap) (cm_states snap) (cm_cstates snap) (cm_ver snap) (cm_seq snap) (cm_inst snap)
                    CInitializing [] (cm_ddom snap) (cm_cdom snap) in
  let c1 := fold_left (fun c r =>
                         let vg := report_vg r in
                         if negb (Z.eqb (vg_seq vg) (cm_seq c)) then c
                         else if Z.leb (vg_ver vg) (cm_ver c) then c
                         else fst (process c r)) buf c0 in
  mkCMdib (cm_descrs c1) (cm_states c1) (cm_cstates c1) (cm_ver c1) (cm_seq c1) (cm_inst c1)
          CInitialized [] (cm_ddom c1) (cm_cdom c1).

(* the reports a provider emits for a committed STATE transaction (items = the transaction's items) *)
Definition mirror_of (m : mdib) (seq inst : Z) : cmdib :=
  mkCMdib (descrs m) (states m) (cstates m) (ver m) seq inst CInitialized [] (ddom m) (cdom m).
