(* Running the provider model on generated histories and observing it the way the harness observes the
   implementation (per transaction: result code, MdibVersion, changed table entries, changed entries of the
   three remembered-version tables = handle_version_lookup of descriptions / states / context_states). *)
From Coq Require Import List ZArith Bool.
From SDC Require Import Common.Corr Mdib.Model.
Import ListNotations.
Open Scope Z_scope.

Definition oz (o : option Z) : Z := match o with Some z => z | None => -1 end.
Definition enc_d (o : option descr) : list Z :=
  match o with Some d => [oz (d_parent d); d_kind d; d_ver d; d_pay d] | None => [] end.
Definition enc_s (o : option state) : list Z :=
  match o with Some s => [s_dver s; s_ver s; s_pay s] | None => [] end.
Definition enc_c (o : option cstate) : list Z :=
  match o with
  | Some c => [c_dh c; c_dver c; c_ver c; c_assoc c; oz (c_bind c); oz (c_unbind c); c_pay c]
  | None => []
  end.

Definition enc_v (o : option Z) : list Z := match o with Some z => [z] | None => [] end.

Definition of_alist {A} (l : list (H * A)) : H -> option A := fun h => alist_get l h.

Definition mk_mdib (ds : list (H * descr)) (ss : list (H * state)) (cs : list (H * cstate)) (v : Z) : mdib :=
  mkMdib (of_alist ds) (of_alist ss) (of_alist cs) v (fun _ => None) (fun _ => None) (fun _ => None)
         (map fst ds) (map fst cs).

(* an MDIB that has a past: remembered versions of handles that were removed before the observation starts *)
Definition mk_mdib_sv (ds : list (H * descr)) (ss : list (H * state)) (cs : list (H * cstate)) (v : Z)
                      (vd vs vc : list (H * Z)) : mdib :=
  mkMdib (of_alist ds) (of_alist ss) (of_alist cs) v (of_alist vd) (of_alist vs) (of_alist vc)
         (map fst ds) (map fst cs).

Definition delta {A} (enc : option A -> list Z) (f g : H -> option A) (u : list H) : list (H * list Z) :=
  flat_map (fun h => if zl_eqb (enc (f h)) (enc (g h)) then [] else [(h, enc (g h))]) u.

(* one transaction of a history: kind, abort point, actions *)
Definition txn := (Z * option nat * list action)%type.

Definition obs := (Z * Z * list (H * list Z) * list (H * list Z) * list (H * list Z)
                * list (H * list Z) * list (H * list Z) * list (H * list Z))%type.

Fixpoint run (ud uc : list H) (m : mdib) (hist : list txn) : list obs :=
  match hist with
  | [] => []
  | (k, ab, acts) :: r =>
      let '(m', code) := transaction k ab acts m in
      (code, ver m', delta enc_d (descrs m) (descrs m') ud, delta enc_s (states m) (states m') ud,
       delta enc_c (cstates m) (cstates m') uc,
       delta enc_v (sv_d m) (sv_d m') ud, delta enc_v (sv_s m) (sv_s m') ud, delta enc_v (sv_c m) (sv_c m') uc)
      :: run ud uc m' r
  end.

Definition hl_eqb := list_eqb (prod_eqb Z.eqb zl_eqb).
Definition obs_eqb (a b : obs) : bool :=
  let '(c1, v1, d1, s1, x1, vd1, vs1, vc1) := a in
  let '(c2, v2, d2, s2, x2, vd2, vs2, vc2) := b in
  Z.eqb c1 c2 && Z.eqb v1 v2 && hl_eqb d1 d2 && hl_eqb s1 s2 && hl_eqb x1 x2 &&
  hl_eqb vd1 vd2 && hl_eqb vs1 vs2 && hl_eqb vc1 vc2.
Definition trace_eqb := list_eqb obs_eqb.
