(* Proofs about context association (C10): the SetContextState handler of the tutorial role provider
   (Mdib/Context.v set_context_state = GenericContextProvider._set_context_state + ContextStateTransaction.write_entity
   + commit), for ARBITRARY proposal lists, and histories of set_location / SetContextState operations.

   Main results
     ctx_inv                         the association invariant of an MDIB
     handler_preserves               set_context_state preserves ctx_inv (any proposals, valid or rejected)
     handler_versions                binding / unbinding versions of the states whose association changed
     set_location_preserves          set_location preserves ctx_inv
     history_inv / history_inv_static  ctx_inv after every prefix of a history

   Structure of the handler proof: every proposal works on a private copy [entity_of m dh] of the COMMITTED
   states of its descriptor; [prop_step_desc] describes that copy after the proposal pointwise, [desc_ent_ok]
   derives from the description the facts [ent_ok] the rest needs.  [write_entities] then writes, for every
   copy of descriptor dh, ALL handles collected for dh: per handle the last writer wins ([wres]), and the last
   copy of a descriptor overwrites everything the earlier copies of that descriptor wrote ([wres_last]).  So
   after the commit the states of a descriptor are those of ONE single-proposal copy (the last) on the written
   handles and the committed ones elsewhere - and every single-proposal copy reports all handles on which it
   differs from the committed states ([eo_frame]). *)
From Coq Require Import List ZArith Bool Lia.
From SDC Require Import Mdib.Model Mdib.Proofs Mdib.Context Mdib.Context_Proofs.
Import ListNotations.
Open Scope Z_scope.

(* ---------------------------------------------------------------- the invariant *)
(* an associated state is "open": it has no unbinding version (yet) *)
Definition assoc_open (m : mdib) : Prop :=
  forall k c, cstates m k = Some c -> c_assoc c = A_ASSOC -> c_unbind c = None.

Definition ctx_inv (m : mdib) : Prop :=
  NoDup (cdom m) /\
  (forall k c, cstates m k = Some c -> In k (cdom m)) /\
  (forall dh, (length (assoc_states m dh) <= 1)%nat) /\
  assoc_open m.

(* the pairwise form of "at most one associated state per descriptor" *)
Definition uniq_assoc (m : mdib) : Prop :=
  forall k1 k2 c1 c2, cstates m k1 = Some c1 -> cstates m k2 = Some c2 -> c_dh c1 = c_dh c2 ->
    c_assoc c1 = A_ASSOC -> c_assoc c2 = A_ASSOC -> k1 = k2.

Lemma assoc_states_in m dh k :
  In k (assoc_states m dh) <->
  In k (cdom m) /\ exists c, cstates m k = Some c /\ c_dh c = dh /\ c_assoc c = A_ASSOC.
Proof.
  unfold assoc_states. rewrite filter_In. split.
  - intros [Hi Hp]. split; [assumption|]. destruct (cstates m k) as [c|]; [|discriminate].
    apply andb_true_iff in Hp as [A B]. apply Z.eqb_eq in A, B. exists c. repeat split; assumption.
  - intros [Hi (c & -> & A & B)]. split; [assumption|]. rewrite A, B, !Z.eqb_refl. reflexivity.
Qed.

Lemma uniq_assoc_iff m : NoDup (cdom m) -> (forall k c, cstates m k = Some c -> In k (cdom m)) ->
  ((forall dh, (length (assoc_states m dh) <= 1)%nat) <-> uniq_assoc m).
Proof.
  intros Hnd Hcov. split.
  - intros Hl k1 k2 c1 c2 E1 E2 Edh A1 A2.
    assert (I1 : In k1 (assoc_states m (c_dh c1))).
    { apply assoc_states_in. split; [eapply Hcov; eassumption|]. exists c1. repeat split; assumption. }
    assert (I2 : In k2 (assoc_states m (c_dh c1))).
    { apply assoc_states_in. split; [eapply Hcov; eassumption|]. exists c2. repeat split; try assumption. now symmetry. }
    specialize (Hl (c_dh c1)). destruct (assoc_states m (c_dh c1)) as [|x [|y r]].
    + contradiction.
    + destruct I1 as [<-|[]]. destruct I2 as [<-|[]]. reflexivity.
    + cbn [length] in Hl. lia.
  - intros Hu dh.
    assert (N : NoDup (assoc_states m dh)) by (unfold assoc_states; now apply NoDup_filter).
    assert (P : forall x y, In x (assoc_states m dh) -> In y (assoc_states m dh) -> x = y).
    { intros x y Hx Hy. apply assoc_states_in in Hx as (_ & cx & Ex & Dx & Ax).
      apply assoc_states_in in Hy as (_ & cy & Ey & Dy & Ay). eapply Hu; try eassumption. congruence. }
    destruct (assoc_states m dh) as [|x [|y r]]; cbn [length]; try lia.
    exfalso. inversion N as [|? ? Hx _]; subst. apply Hx. left. symmetry. apply P; [now left|right; now left].
Qed.

Lemma ctx_inv_uniq m : ctx_inv m -> uniq_assoc m.
Proof. intros (A & B & C & _). now apply (uniq_assoc_iff m A B). Qed.

Lemma ctx_inv_intro m : NoDup (cdom m) -> (forall k c, cstates m k = Some c -> In k (cdom m)) ->
  uniq_assoc m -> assoc_open m -> ctx_inv m.
Proof. intros A B C D. repeat split; try assumption. now apply (uniq_assoc_iff m A B). Qed.

(* ---------------------------------------------------------------- the handle domain across ANY commit *)
Lemma memz_in h l : memz h l = true <-> In h l.
Proof.
  unfold memz. rewrite existsb_exists. split.
  - intros (x & Hx & E). apply Z.eqb_eq in E. now subst.
  - intros Hi. exists h. split; [assumption|apply Z.eqb_refl].
Qed.

Lemma memz_app h l1 l2 : memz h (l1 ++ l2) = memz h l1 || memz h l2.
Proof. unfold memz. apply existsb_app. Qed.

Lemma add_dom_in h l k : In k (add_dom h l) <-> k = h \/ In k l.
Proof.
  unfold add_dom. destruct (memz h l) eqn:E.
  - apply memz_in in E. split; [now right|]. intros [->|Hi]; assumption.
  - rewrite in_app_iff. cbn [In]. intuition congruence.
Qed.

Lemma add_dom_nodup h l : NoDup l -> NoDup (add_dom h l).
Proof.
  intros Hn. unfold add_dom. destruct (memz h l) eqn:E; [assumption|].
  assert (Hni : ~ In h l) by (intros Hi; apply memz_in in Hi; congruence).
  clear E. induction l as [|x r IH]; cbn [app]; [constructor; [intros []|constructor]|].
  inversion Hn as [|? ? Hx Hr]; subst. constructor.
  - rewrite in_app_iff. cbn [In]. intros [Hi|[->|[]]]; [contradiction|]. apply Hni. now left.
  - apply IH; [assumption|]. intros Hi. apply Hni. now right.
Qed.

Definition dom_ok (m : mdib) : Prop :=
  NoDup (cdom m) /\ forall k c, cstates m k = Some c -> In k (cdom m).

Lemma fold_put_cstate_dom l : forall m,
  let m' := fold_left (fun m' e => put_cstate m' (fst e) (snd e)) l m in
  (NoDup (cdom m) -> NoDup (cdom m')) /\
  (forall k, In k (cdom m') <-> In k (cdom m) \/ In k (map fst l)) /\
  (forall k c, cstates m' k = Some c -> cstates m k = Some c \/ In k (map fst l)).
Proof.
  induction l as [|[h x] r IH]; intros m; cbn [fold_left map fst snd].
  - repeat split; try tauto. intros [Hi|[]]; assumption.
  - destruct (IH (put_cstate m h x)) as (A & B & C). cbv zeta in *. repeat split.
    + intros Hn. apply A. cbn [put_cstate cdom]. now apply add_dom_nodup.
    + rewrite B. cbn [put_cstate cdom In]. rewrite add_dom_in. intuition.
    + rewrite B. cbn [put_cstate cdom In]. rewrite add_dom_in. intuition.
    + intros k c E. apply C in E as [E|Hi]; [|right; now right].
      rewrite put_cstate_cstates in E. destruct (Z.eqb_spec h k) as [->|_]; [right; now left|now left].
Qed.

(* the commit of ANY state / context transaction *)
Lemma commit_states_dom m t :
  let m' := commit_states m t in
  (NoDup (cdom m) -> NoDup (cdom m')) /\
  (forall k, In k (cdom m') <-> In k (cdom m) \/ (t_s t <> [] \/ t_c t <> []) /\ In k (map fst (t_c t))) /\
  (forall k c, cstates m' k = Some c -> cstates m k = Some c \/ In k (map fst (t_c t))).
Proof.
  cbv zeta. unfold commit_states.
  assert (G : let m' := handle_state_updates (bump_ver m) t in
              (NoDup (cdom m) -> NoDup (cdom m')) /\
              (forall k, In k (cdom m') <-> In k (cdom m) \/ In k (map fst (t_c t))) /\
              (forall k c, cstates m' k = Some c -> cstates m k = Some c \/ In k (map fst (t_c t)))).
  { cbv zeta. unfold handle_state_updates.
    destruct (fold_put_state_frame (t_s t) (bump_ver m)) as (_ & Ec & _ & _ & _ & Ed). cbv zeta in Ec, Ed.
    destruct (fold_put_cstate_dom (t_c t)
                (fold_left (fun m' e => put_state m' (fst e) (snd e)) (t_s t) (bump_ver m))) as (A & B & C).
    cbv zeta in A, B, C. rewrite Ed, Ec in *. cbn [bump_ver cdom cstates] in *. repeat split; try assumption.
    - apply B. - apply B. }
  cbv zeta in G. destruct G as (A & B & C).
  assert (Hne : t_s t <> [] \/ t_c t <> [] ->
                (NoDup (cdom m) -> NoDup (cdom (handle_state_updates (bump_ver m) t))) /\
                (forall k, In k (cdom (handle_state_updates (bump_ver m) t)) <->
                           In k (cdom m) \/ (t_s t <> [] \/ t_c t <> []) /\ In k (map fst (t_c t))) /\
                (forall k c, cstates (handle_state_updates (bump_ver m) t) k = Some c ->
                             cstates m k = Some c \/ In k (map fst (t_c t)))).
  { intros Hx. split; [assumption|]. split; [|assumption]. intros k. rewrite B. tauto. }
  destruct (t_s t) as [|s0 sr] eqn:Es, (t_c t) as [|c0 cr] eqn:Ec;
    try (apply Hne; first [left; discriminate|right; discriminate]).
  split; [tauto|]. split; [|intros k c E; now left]. intros k. cbn [map In]. tauto.
Qed.

Lemma commit_states_dom_ok m t : dom_ok m -> dom_ok (commit_states m t).
Proof.
  intros [Hn Hc]. destruct (commit_states_dom m t) as (A & B & C). cbv zeta in *. split; [now apply A|].
  intros k c E. destruct (C k c E) as [E0|Hi].
  - apply B. left. eapply Hc; eassumption.
  - apply B. right. split; [|assumption]. right. intros E0. rewrite E0 in Hi. contradiction.
Qed.

(* the context table after committing a pure context transaction, pointwise *)
Lemma commit_ctx_cstates m t : t_s t = [] -> NoDup (map fst (t_c t)) ->
  forall k, cstates (commit_states m t) k = match alist_get (t_c t) k with Some x => x | None => cstates m k end.
Proof.
  intros Hs Hn k. unfold commit_states. rewrite Hs. destruct (t_c t) as [|e0 r] eqn:Ec; [reflexivity|].
  rewrite <- Ec in *. unfold handle_state_updates. rewrite Hs. cbn [fold_left].
  rewrite fold_put_cstate_cstates by assumption. reflexivity.
Qed.

(* ---------------------------------------------------------------- association lists *)
Lemma alist_get_app {A} (l1 l2 : list (H * A)) k :
  alist_get (l1 ++ l2) k = match alist_get l1 k with Some x => Some x | None => alist_get l2 k end.
Proof.
  induction l1 as [|[h x] r IH]; cbn [app alist_get]; [reflexivity|].
  destruct (Z.eqb k h); [reflexivity|apply IH].
Qed.

Lemma alist_in_get {A} (l : list (H * A)) k x : In (k, x) l -> alist_get l k <> None.
Proof.
  induction l as [|[h y] r IH]; cbn [In alist_get]; [intros []|].
  intros [[= -> ->]|Hi]; [rewrite Z.eqb_refl; discriminate|].
  destruct (Z.eqb k h); [discriminate|now apply IH].
Qed.

Definition hget (l : list (H * list H)) (dh : H) : list H :=
  match alist_get l dh with Some x => x | None => [] end.

Lemma hget_add_handles l dh hs d :
  hget (add_handles l dh hs) d = if Z.eqb d dh then hget l dh ++ hs else hget l d.
Proof.
  unfold hget, add_handles. destruct (alist_get l dh) as [old|] eqn:E.
  - rewrite alist_get_set. destruct (Z.eqb_spec d dh) as [->|_]; reflexivity.
  - rewrite alist_get_app. cbn [alist_get]. destruct (Z.eqb_spec d dh) as [->|_].
    + try rewrite E. reflexivity.
    + destruct (alist_get l d); reflexivity.
Qed.

(* ---------------------------------------------------------------- entity_of, pointwise *)
Definition eget (m : mdib) (dh k : H) : option cstate :=
  match cstates m k with Some c => if Z.eqb (c_dh c) dh then Some c else None | None => None end.

Lemma entity_of_get m dh k : (forall k c, cstates m k = Some c -> In k (cdom m)) ->
  alist_get (entity_of m dh) k = eget m dh k.
Proof.
  intros Hcov. unfold entity_of.
  assert (G : forall l, alist_get (flat_map (fun h => match cstates m h with
                                   | Some c => if Z.eqb (c_dh c) dh then [(h, c)] else []
                                   | None => [] end) l) k = if memz k l then eget m dh k else None).
  { induction l as [|h r IH]; cbn [flat_map]; [reflexivity|]. rewrite alist_get_app, IH.
    unfold memz. cbn [existsb]. fold (memz k r). unfold eget.
    destruct (Z.eqb_spec k h) as [->|Hne]; cbn [orb].
    - destruct (cstates m h) as [c|]; [|destruct (memz h r); reflexivity].
      destruct (Z.eqb (c_dh c) dh); cbn [alist_get]; [now rewrite Z.eqb_refl|destruct (memz h r); reflexivity].
    - destruct (cstates m h) as [c|]; [|reflexivity].
      destruct (Z.eqb (c_dh c) dh); cbn [alist_get]; [|reflexivity].
      destruct (Z.eqb_spec k h); [contradiction|reflexivity]. }
  rewrite G. destruct (memz k (cdom m)) eqn:E; [reflexivity|].
  unfold eget. destruct (cstates m k) as [c|] eqn:Ec; [|reflexivity].
  exfalso. apply Hcov in Ec. apply memz_in in Ec. congruence.
Qed.

(* ---------------------------------------------------------------- xdisall, pointwise *)
Definition dis1 (v : Z) (c : cstate) : cstate :=
  mkCState (c_dh c) (c_dver c) (c_ver c) A_DIS (c_bind c) (match c_unbind c with None => Some v | u => u end) (c_pay c).
Definition touch (c : cstate) : bool :=
  negb (Z.eqb (c_assoc c) A_NO) &&
  (negb (Z.eqb (c_assoc c) A_DIS) || match c_unbind c with None => true | Some _ => false end).
Definition ign (ig : option H) (k : H) : bool := match ig with Some i => Z.eqb i k | None => false end.

Lemma xdisall_cons h c e v ig :
  xdisall ((h, c) :: e) v ig =
  if ign ig h || negb (touch c) then ((h, c) :: fst (xdisall e v ig), snd (xdisall e v ig))
  else ((h, dis1 v c) :: fst (xdisall e v ig), h :: snd (xdisall e v ig)).
Proof.
  unfold xdisall at 1. cbn [fold_right]. fold (xdisall e v ig). destruct (xdisall e v ig) as [e' hs].
  cbn [fst snd]. unfold ign, touch, dis1.
  destruct (match ig with Some i => i =? h | None => false end); cbn [orb]; [reflexivity|].
  destruct (c_assoc c =? A_NO); cbn [negb andb orb]; [reflexivity|].
  destruct (negb (c_assoc c =? A_DIS) || match c_unbind c with None => true | Some _ => false end); reflexivity.
Qed.

Lemma xdisall_get e v ig k :
  alist_get (fst (xdisall e v ig)) k =
  match alist_get e k with
  | Some c => Some (if negb (ign ig k) && touch c then dis1 v c else c)
  | None => None
  end.
Proof.
  induction e as [|[h c] r IH]; [reflexivity|]. rewrite xdisall_cons.
  destruct (ign ig h || negb (touch c)) eqn:E; cbn [fst alist_get]; rewrite IH;
    destruct (Z.eqb_spec k h) as [->|_]; try reflexivity.
  - apply orb_true_iff in E as [E|E]; [now rewrite E|].
    apply negb_true_iff in E. rewrite E, andb_false_r. reflexivity.
  - apply orb_false_iff in E as [E1 E2]. apply negb_false_iff in E2. now rewrite E1, E2.
Qed.

Lemma xdisall_handles e v ig k c :
  alist_get e k = Some c -> ign ig k = false -> touch c = true -> In k (snd (xdisall e v ig)).
Proof.
  induction e as [|[h c0] r IH]; cbn [alist_get]; [discriminate|]. rewrite xdisall_cons.
  destruct (Z.eqb_spec k h) as [->|Hne].
  - intros [= ->] E1 E2. rewrite E1, E2. cbn. now left.
  - intros G E1 E2. specialize (IH G E1 E2).
    destruct (ign ig h || negb (touch c0)); cbn [snd]; [assumption|now right].
Qed.

Lemma xdisall_handles_in e v ig k : In k (snd (xdisall e v ig)) -> alist_get e k <> None.
Proof.
  induction e as [|[h c0] r IH]; [intros []|]. rewrite xdisall_cons. cbn [alist_get].
  destruct (ign ig h || negb (touch c0)); cbn [snd].
  - intros Hi. destruct (Z.eqb k h); [discriminate|now apply IH].
  - intros [->|Hi]; [rewrite Z.eqb_refl; discriminate|]. destruct (Z.eqb k h); [discriminate|now apply IH].
Qed.

(* ---------------------------------------------------------------- one proposal on its private copy *)
(* the part of handle_proposal that does not depend on the other proposals: the modified copy, the handles it
   reports as modified, the remaining uuid4 handles *)
Definition prop_step (m : mdib) (fr : list H) (p : proposal) : option (entity * list H * list H) :=
  let v := ver m + 1 in
  let e0 := entity_of m (pr_dh p) in
  match pr_handle p with
  | None =>
      match fr with
      | [] => None
      | h :: fresh' =>
          let '(e1, hs) := if Z.eqb (pr_assoc p) A_ASSOC then xdisall e0 v None else (e0, []) in
          let dver := match descrs m (pr_dh p) with Some d => d_ver d | None => 0 end in
          let c := mkCState (pr_dh p) dver 0 (pr_assoc p)
                            (if Z.eqb (pr_assoc p) A_ASSOC then Some v else None) None (pr_pay p) in
          Some (e1 ++ [(h, c)], hs ++ [h], fresh')
      end
  | Some h =>
      match alist_get e0 h with
      | None => None
      | Some old =>
          let leaving := Z.eqb (c_assoc old) A_ASSOC && negb (Z.eqb (pr_assoc p) A_ASSOC) in
          let entering := negb (Z.eqb (c_assoc old) A_ASSOC) && Z.eqb (pr_assoc p) A_ASSOC in
          let old1 := mkCState (c_dh old) (c_dver old) (c_ver old) (c_assoc old)
                               (if entering then Some v else c_bind old)
                               (if leaving then Some v else if entering then None else c_unbind old) (c_pay old) in
          let e1 := alist_set e0 h old1 in
          let '(e2, hs) := if entering then xdisall e1 v (Some h) else (e1, []) in
          let old2 := match alist_get e2 h with
                      | Some o => mkCState (c_dh o) (c_dver o) (c_ver o) (if leaving then A_DIS else pr_assoc p)
                                           (c_bind o) (c_unbind o) (pr_pay p)
                      | None => old1
                      end in
          Some (alist_set e2 h old2, hs ++ [h], fr)
      end
  end.

Lemma handle_proposal_step m st p :
  handle_proposal m st p =
  match prop_step m (hs_fresh st) p with
  | Some (e, hs, fr') => Some (mkHS (hs_ents st ++ [(pr_dh p, e)]) (add_handles (hs_handles st) (pr_dh p) hs) fr')
  | None => None
  end.
Proof.
  unfold handle_proposal, prop_step. destruct (pr_handle p) as [h|].
  - destruct (alist_get (entity_of m (pr_dh p)) h) as [old|]; [|reflexivity].
    destruct (negb (c_assoc old =? A_ASSOC) && (pr_assoc p =? A_ASSOC)); [|reflexivity].
    destruct (xdisall _ _ _); reflexivity.
  - destruct (hs_fresh st) as [|h r]; [reflexivity|].
    destruct (pr_assoc p =? A_ASSOC); [|reflexivity]. destruct (xdisall _ _ _); reflexivity.
Qed.

(* pointwise description of the copy after the proposal: the proposed state h gets cx; if [dis], every other
   state of the descriptor that disassociate_all touches is disassociated *)
Record desc (m : mdib) (dh : H) (e : entity) (hs : list H) (h : H) (cx : cstate) (dis : bool) : Prop := {
  ds_get : forall k, alist_get e k =
             if Z.eqb k h then Some cx else
             match eget m dh k with
             | Some c => Some (if dis && touch c then dis1 (ver m + 1) c else c)
             | None => None
             end;
  ds_h : In h hs;
  ds_hs : forall k c, k <> h -> eget m dh k = Some c -> dis && touch c = true -> In k hs;
  ds_hs_in : forall k, In k hs -> k = h \/ eget m dh k <> None;
  ds_own : cstates m h = None \/ exists old, cstates m h = Some old /\ c_dh old = dh;
  ds_dh : c_dh cx = dh;
  ds_open : c_assoc cx = A_ASSOC -> c_unbind cx = None;
  ds_uniq : c_assoc cx = A_ASSOC ->
            dis = true \/ exists old, cstates m h = Some old /\ c_assoc old = A_ASSOC /\ c_dh old = dh;
  ds_leave : forall old, cstates m h = Some old -> c_assoc old = A_ASSOC -> c_assoc cx <> A_ASSOC ->
             c_assoc cx = A_DIS /\ c_unbind cx = Some (ver m + 1);
  ds_enter : c_assoc cx = A_ASSOC ->
             match cstates m h with Some old => c_assoc old <> A_ASSOC | None => True end ->
             c_bind cx = Some (ver m + 1)
}.

Lemma eget_some m dh k c : eget m dh k = Some c <-> cstates m k = Some c /\ c_dh c = dh.
Proof.
  unfold eget. destruct (cstates m k) as [c0|]; [|split; [discriminate|intros [? _]; discriminate]].
  destruct (Z.eqb_spec (c_dh c0) dh) as [E|N].
  - split; [intros [= ->]; now split|intros [[= ->] _]; reflexivity].
  - split; [discriminate|intros [[= ->] E]; contradiction].
Qed.

Lemma prop_step_desc m fr p e hs fr' :
  (forall k c, cstates m k = Some c -> In k (cdom m)) -> assoc_open m ->
  (forall h, In h fr -> ~ In h (cdom m)) ->
  prop_step m fr p = Some (e, hs, fr') ->
  (exists h cx dis, desc m (pr_dh p) e hs h cx dis /\ (In h fr \/ In h (cdom m))) /\ (forall h, In h fr' -> In h fr).
Proof.
  intros Hcov Hopen Hfr. unfold prop_step. set (v := ver m + 1). set (dh := pr_dh p).
  destruct (pr_handle p) as [h|].
  - (* update of an existing state *)
    rewrite entity_of_get by assumption. destruct (eget m dh h) as [old|] eqn:Eold; [|discriminate].
    apply eget_some in Eold as [Eold Edh].
    set (leaving := (c_assoc old =? A_ASSOC) && negb (pr_assoc p =? A_ASSOC)).
    set (entering := negb (c_assoc old =? A_ASSOC) && (pr_assoc p =? A_ASSOC)).
    set (old1 := mkCState (c_dh old) (c_dver old) (c_ver old) (c_assoc old)
                          (if entering then Some v else c_bind old)
                          (if leaving then Some v else if entering then None else c_unbind old) (c_pay old)).
    set (e1 := alist_set (entity_of m dh) h old1).
    set (X := if entering then xdisall e1 v (Some h) else (e1, [])).
    assert (X1 : forall k, alist_get (fst X) k =
                   if Z.eqb k h then Some old1 else
                   match eget m dh k with
                   | Some c => Some (if entering && touch c then dis1 v c else c)
                   | None => None
                   end).
    { intros k. subst X. destruct entering; cbn [fst andb].
      - rewrite xdisall_get. subst e1. rewrite alist_get_set, entity_of_get by assumption. unfold ign.
        destruct (Z.eqb_spec k h) as [->|Hne]; [now rewrite Z.eqb_refl|].
        destruct (Z.eqb_spec h k); [congruence|]. reflexivity.
      - subst e1. rewrite alist_get_set, entity_of_get by assumption.
        destruct (Z.eqb k h); [reflexivity|]. destruct (eget m dh k); reflexivity. }
    assert (X2 : forall k c, k <> h -> eget m dh k = Some c -> entering && touch c = true -> In k (snd X)).
    { intros k c Hne G T. subst X. destruct entering; [|discriminate]. cbn [andb] in T.
      apply (xdisall_handles e1 v (Some h) k c); [|unfold ign; destruct (Z.eqb_spec h k); [congruence|reflexivity]|assumption].
      subst e1. rewrite alist_get_set, entity_of_get by assumption.
      destruct (Z.eqb_spec k h); [contradiction|assumption]. }
    assert (X3 : forall k, In k (snd X) -> k = h \/ eget m dh k <> None).
    { intros k Hi. subst X. destruct entering; [|contradiction]. cbn [snd] in Hi.
      apply xdisall_handles_in in Hi. subst e1. rewrite alist_get_set, entity_of_get in Hi by assumption.
      destruct (Z.eqb_spec k h); [now left|now right]. }
    destruct X as [e2 hs2]. cbn [fst snd] in X1, X2, X3.
    rewrite (X1 h), Z.eqb_refl. intros [= <- <- <-]. split; [|tauto].
    set (cx := mkCState (c_dh old1) (c_dver old1) (c_ver old1) (if leaving then A_DIS else pr_assoc p)
                        (c_bind old1) (c_unbind old1) (pr_pay p)).
    exists h, cx, entering. split; [|right; eapply Hcov; eassumption]. constructor.
    + intros k. rewrite alist_get_set. destruct (Z.eqb k h) eqn:E; [reflexivity|]. rewrite X1, E. reflexivity.
    + apply in_or_app. right. now left.
    + intros k c Hne G T. apply in_or_app. left. eapply X2; eassumption.
    + intros k Hi. apply in_app_or in Hi as [Hi|[<-|[]]]; [now apply X3|now left].
    + right. exists old. now split.
    + exact Edh.
    + subst cx old1 leaving entering. cbn [c_assoc c_unbind].
      destruct (Z.eqb_spec (c_assoc old) A_ASSOC) as [Ea|Na], (Z.eqb_spec (pr_assoc p) A_ASSOC) as [Ep|Np];
        cbn [andb negb]; intros Hx; try reflexivity.
      * eapply Hopen; eassumption.
      * unfold A_DIS, A_ASSOC in *. discriminate.
      * contradiction.
    + subst cx old1 leaving entering. cbn [c_assoc].
      destruct (Z.eqb_spec (c_assoc old) A_ASSOC) as [Ea|Na], (Z.eqb_spec (pr_assoc p) A_ASSOC) as [Ep|Np];
        cbn [andb negb]; intros Hx.
      * right. exists old. repeat split; assumption.
      * unfold A_DIS, A_ASSOC in *. discriminate.
      * now left.
      * contradiction.
    + intros old' Eo' Ea Hx. rewrite Eold in Eo'. injection Eo' as <-.
      subst cx old1 leaving entering. cbn [c_assoc c_unbind] in *. rewrite Ea, Z.eqb_refl in *. cbn [andb negb] in *.
      destruct (Z.eqb_spec (pr_assoc p) A_ASSOC) as [Ep|Np]; cbn [negb] in *; [contradiction|now split].
    + rewrite Eold. subst cx old1 leaving entering. cbn [c_assoc c_bind].
      destruct (Z.eqb_spec (c_assoc old) A_ASSOC) as [Ea|Na], (Z.eqb_spec (pr_assoc p) A_ASSOC) as [Ep|Np];
        cbn [andb negb]; intros Hx Hy; try contradiction; try reflexivity.
  - (* a new state *)
    destruct fr as [|h fresh']; [discriminate|].
    assert (Hnone : cstates m h = None).
    { destruct (cstates m h) as [c|] eqn:Ec; [|reflexivity]. exfalso. apply (Hfr h); [now left|]. eapply Hcov; eassumption. }
    assert (Hnone2 : eget m dh h = None) by (unfold eget; now rewrite Hnone).
    set (dis := pr_assoc p =? A_ASSOC).
    set (X := if dis then xdisall (entity_of m dh) v None else (entity_of m dh, [])).
    assert (X1 : forall k, alist_get (fst X) k =
                   match eget m dh k with
                   | Some c => Some (if dis && touch c then dis1 v c else c)
                   | None => None
                   end).
    { intros k. subst X. destruct dis; cbn [fst andb].
      - rewrite xdisall_get, entity_of_get by assumption. reflexivity.
      - rewrite entity_of_get by assumption. destruct (eget m dh k); reflexivity. }
    assert (X2 : forall k c, eget m dh k = Some c -> dis && touch c = true -> In k (snd X)).
    { intros k c G T. subst X. destruct dis; [|discriminate]. cbn [andb] in T.
      apply (xdisall_handles _ v None k c); [|reflexivity|assumption]. now rewrite entity_of_get. }
    assert (X3 : forall k, In k (snd X) -> eget m dh k <> None).
    { intros k Hi. subst X. destruct dis; [|contradiction]. cbn [snd] in Hi.
      apply xdisall_handles_in in Hi. now rewrite entity_of_get in Hi. }
    destruct X as [e1 hs1]. cbn [fst snd] in X1, X2, X3.
    intros Einj. injection Einj as E1 E2 E3. subst e hs fr'. split; [|intros h0 Hi; now right].
    set (cx := mkCState dh (match descrs m dh with Some d => d_ver d | None => 0 end) 0 (pr_assoc p)
                        (if dis then Some v else None) None (pr_pay p)).
    exists h, cx, dis. split; [|left; now left]. constructor.
    + intros k. rewrite alist_get_app, X1. cbn [alist_get].
      destruct (Z.eqb_spec k h) as [->|Hne]; [now rewrite Hnone2|]. destruct (eget m dh k); reflexivity.
    + apply in_or_app. right. now left.
    + intros k c Hne G T. apply in_or_app. left. eapply X2; eassumption.
    + intros k Hi. apply in_app_or in Hi as [Hi|[<-|[]]]; [right; now apply X3|now left].
    + now left.
    + reflexivity.
    + reflexivity.
    + cbn [c_assoc cx]. intros Ea. left. subst dis. now rewrite Ea.
    + intros old Eo. congruence.
    + cbn [c_assoc c_bind cx]. intros Ea _. subst dis. now rewrite Ea.
Qed.

(* ---------------------------------------------------------------- what the rest needs to know about a copy *)
Record ent_ok (m : mdib) (d : H) (e : entity) (hs : list H) : Prop := {
  eo_dh : forall k c, alist_get e k = Some c -> c_dh c = d;
  eo_uniq : forall k1 k2 c1 c2, alist_get e k1 = Some c1 -> alist_get e k2 = Some c2 ->
            c_assoc c1 = A_ASSOC -> c_assoc c2 = A_ASSOC -> k1 = k2;
  (* every committed state of the descriptor is in the copy, and is either unchanged or reported as modified *)
  eo_frame : forall k c, cstates m k = Some c -> c_dh c = d ->
             exists c', alist_get e k = Some c' /\ (c' = c \/ In k hs);
  eo_open : forall k c, alist_get e k = Some c -> c_assoc c = A_ASSOC -> c_unbind c = None;
  eo_leave : forall k c c', cstates m k = Some c -> alist_get e k = Some c' ->
             c_assoc c = A_ASSOC -> c_assoc c' <> A_ASSOC -> c_assoc c' = A_DIS /\ c_unbind c' = Some (ver m + 1);
  eo_enter : forall k c', alist_get e k = Some c' -> c_assoc c' = A_ASSOC ->
             match cstates m k with Some c => c_assoc c <> A_ASSOC | None => True end ->
             c_bind c' = Some (ver m + 1)
}.

Lemma ent_ok_mono m d e hs hs' : (forall k, In k hs -> In k hs') -> ent_ok m d e hs -> ent_ok m d e hs'.
Proof.
  intros Hi [A B C D E F]. constructor; try assumption.
  intros k c E1 E2. destruct (C k c E1 E2) as (c' & G & [Heq|Hk]); exists c'; split; auto.
Qed.

Lemma touch_assoc c : c_assoc c = A_ASSOC -> touch c = true.
Proof. intros E. unfold touch. rewrite E. reflexivity. Qed.

Lemma dis1_not_assoc v c : c_assoc (dis1 v c) <> A_ASSOC.
Proof. cbn. unfold A_DIS, A_ASSOC. discriminate. Qed.

Lemma desc_ent_ok m dh e hs h cx dis :
  uniq_assoc m -> assoc_open m -> desc m dh e hs h cx dis -> ent_ok m dh e hs.
Proof.
  intros Hu Hopen [G Hh Hhs Hin Hown Hdh Hop Hun Hlv Hen].
  (* a state of the copy other than h: it comes from the committed table *)
  assert (O : forall k c', k <> h -> alist_get e k = Some c' ->
              exists c, cstates m k = Some c /\ c_dh c = dh /\
                        c' = (if dis && touch c then dis1 (ver m + 1) c else c)).
  { intros k c' Hne E. rewrite G in E. destruct (Z.eqb_spec k h); [contradiction|].
    destruct (eget m dh k) as [c|] eqn:Eg; [|discriminate]. injection E as <-.
    apply eget_some in Eg as [E1 E2]. exists c. repeat split; assumption. }
  (* ... and if it is associated, it is the committed state, and nothing was disassociated *)
  assert (OA : forall k c', k <> h -> alist_get e k = Some c' -> c_assoc c' = A_ASSOC ->
               cstates m k = Some c' /\ c_dh c' = dh /\ dis = false).
  { intros k c' Hne E Ea. destruct (O k c' Hne E) as (c & E1 & E2 & ->).
    destruct (dis && touch c) eqn:T; [exfalso; eapply dis1_not_assoc; eassumption|].
    repeat split; try assumption. rewrite (touch_assoc c Ea), andb_true_r in T. exact T. }
  assert (Gh : alist_get e h = Some cx) by (rewrite G, Z.eqb_refl; reflexivity).
  constructor.
  - intros k c E. destruct (Z.eqb_spec k h) as [->|Hne]; [congruence|].
    destruct (O k c Hne E) as (c0 & _ & E2 & ->). destruct (dis && touch c0); assumption.
  - intros k1 k2 c1 c2 E1 E2 A1 A2.
    destruct (Z.eqb_spec k1 h) as [->|N1], (Z.eqb_spec k2 h) as [->|N2]; try reflexivity.
    + destruct (OA k2 c2 N2 E2 A2) as (M2 & D2 & Dis). assert (c1 = cx) by congruence. subst c1.
      destruct (Hun A1) as [Hd|(old & Eo & Ao & Do)]; [congruence|].
      eapply Hu; try eassumption. congruence.
    + destruct (OA k1 c1 N1 E1 A1) as (M1 & D1 & Dis). assert (c2 = cx) by congruence. subst c2.
      destruct (Hun A2) as [Hd|(old & Eo & Ao & Do)]; [congruence|].
      eapply Hu; try eassumption. congruence.
    + destruct (OA k1 c1 N1 E1 A1) as (M1 & D1 & _), (OA k2 c2 N2 E2 A2) as (M2 & D2 & _).
      eapply Hu; try eassumption. congruence.
  - intros k c E Ed. destruct (Z.eqb_spec k h) as [->|Hne]; [exists cx; split; [assumption|now right]|].
    assert (Eg : eget m dh k = Some c) by (apply eget_some; now split).
    rewrite G. destruct (Z.eqb_spec k h); [contradiction|]. rewrite Eg. eexists. split; [reflexivity|].
    destruct (dis && touch c) eqn:T; [right; eapply Hhs; eassumption|now left].
  - intros k c E Ea. destruct (Z.eqb_spec k h) as [->|Hne]; [assert (c = cx) by congruence; subst c; now apply Hop|].
    destruct (OA k c Hne E Ea) as (M & _ & _). eapply Hopen; eassumption.
  - intros k c c' E1 E2 Ea Hn. destruct (Z.eqb_spec k h) as [->|Hne].
    + assert (c' = cx) by congruence. subst c'. eapply Hlv; eassumption.
    + destruct (O k c' Hne E2) as (c0 & E0 & _ & ->). assert (c0 = c) by congruence. subst c0.
      destruct (dis && touch c); [|contradiction]. cbn. split; [reflexivity|]. now rewrite (Hopen k c E1 Ea).
  - intros k c' E Ea Hm. destruct (Z.eqb_spec k h) as [->|Hne].
    + assert (c' = cx) by congruence. subst c'. now apply Hen.
    + destruct (OA k c' Hne E Ea) as (M & _ & _). rewrite M in Hm. contradiction.
Qed.

(* ---------------------------------------------------------------- all proposals *)
Definition own (m : mdib) (d k : H) : Prop := match cstates m k with Some c => c_dh c = d | None => True end.

(* F = the uuid4 handles the operation may draw *)
Record hinv (m : mdib) (F : list H) (st : hstate) : Prop := {
  hi_ents : forall d e, In (d, e) (hs_ents st) -> ent_ok m d e (hget (hs_handles st) d);
  hi_own : forall d k, In k (hget (hs_handles st) d) -> own m d k;
  hi_hdom : forall d k, In k (hget (hs_handles st) d) -> In k (cdom m) \/ In k F;
  hi_fresh : forall h, In h (hs_fresh st) -> In h F
}.

Lemma handle_proposal_hinv m F st p st' :
  (forall k c, cstates m k = Some c -> In k (cdom m)) -> uniq_assoc m -> assoc_open m ->
  (forall h, In h F -> ~ In h (cdom m)) ->
  hinv m F st -> handle_proposal m st p = Some st' -> hinv m F st'.
Proof.
  intros Hcov Hu Hopen HF [He Ho Hd Hf]. rewrite handle_proposal_step.
  destruct (prop_step m (hs_fresh st) p) as [[[e hs] fr']|] eqn:P; [|discriminate]. intros [= <-].
  destruct (prop_step_desc m _ p e hs fr' Hcov Hopen (fun h0 Hi => HF h0 (Hf h0 Hi)) P) as ((h & cx & dis & D & Dh) & Hfr).
  pose proof (desc_ent_ok _ _ _ _ _ _ _ Hu Hopen D) as Hok.
  constructor; cbn [hs_ents hs_handles hs_fresh].
  - intros d e0 Hi. rewrite hget_add_handles. apply in_app_or in Hi as [Hi|[[= <- <-]|[]]].
    + destruct (Z.eqb_spec d (pr_dh p)) as [->|_]; [|now apply He].
      eapply ent_ok_mono; [|apply He; eassumption]. intros k Hk. apply in_or_app. now left.
    + rewrite Z.eqb_refl. eapply ent_ok_mono; [|eassumption]. intros k Hk. apply in_or_app. now right.
  - intros d k. rewrite hget_add_handles. destruct (Z.eqb_spec d (pr_dh p)) as [->|_]; [|apply Ho].
    intros Hi. apply in_app_or in Hi as [Hi|Hi]; [now apply Ho|].
    unfold own. destruct (ds_hs_in _ _ _ _ _ _ _ D k Hi) as [->|Hn].
    + destruct (ds_own _ _ _ _ _ _ _ D) as [->|(old & -> & Ed)]; [exact I|exact Ed].
    + destruct (eget m (pr_dh p) k) as [c|] eqn:Eg; [|contradiction]. apply eget_some in Eg as [-> Ed]. exact Ed.
  - intros d k. rewrite hget_add_handles. destruct (Z.eqb_spec d (pr_dh p)) as [->|_]; [|apply Hd].
    intros Hi. apply in_app_or in Hi as [Hi|Hi]; [now apply (Hd (pr_dh p))|].
    destruct (ds_hs_in _ _ _ _ _ _ _ D k Hi) as [->|Hn].
    + destruct Dh as [Dh|Dh]; [right; now apply Hf|now left].
    + destruct (eget m (pr_dh p) k) as [c|] eqn:Eg; [|contradiction]. apply eget_some in Eg as [Eg _].
      left. eapply Hcov; eassumption.
  - intros h0 Hi. apply Hf. now apply Hfr.
Qed.

Lemma handle_proposals_hinv m F :
  (forall k c, cstates m k = Some c -> In k (cdom m)) -> uniq_assoc m -> assoc_open m ->
  (forall h, In h F -> ~ In h (cdom m)) ->
  forall ps st st', hinv m F st -> handle_proposals m st ps = Some st' -> hinv m F st'.
Proof.
  intros Hcov Hu Hopen HF. induction ps as [|p r IH]; intros st st' Hi; cbn [handle_proposals]; [now intros [= <-]|].
  destruct (handle_proposal m st p) as [st1|] eqn:E; [|discriminate].
  apply IH. eapply handle_proposal_hinv; eassumption.
Qed.

Lemma hinv_init m fresh : hinv m fresh (mkHS [] [] fresh).
Proof. constructor; cbn; [intros ? ? []|intros ? ? []|intros ? ? []|tauto]. Qed.

(* descriptors for which nothing is proposed collect no handles *)
Lemma handle_proposals_handles m : forall ps st st', handle_proposals m st ps = Some st' ->
  forall d, (forall p, In p ps -> pr_dh p <> d) -> hget (hs_handles st') d = hget (hs_handles st) d.
Proof.
  induction ps as [|p r IH]; intros st st'; cbn [handle_proposals]; [now intros [= <-]|].
  rewrite handle_proposal_step. destruct (prop_step m (hs_fresh st) p) as [[[e hs] fr']|]; [|discriminate].
  intros E d Hd. rewrite (IH _ _ E d) by (intros q Hq; apply Hd; now right). cbn [hs_handles].
  rewrite hget_add_handles. destruct (Z.eqb_spec d (pr_dh p)) as [->|_]; [|reflexivity].
  exfalso. apply (Hd p); [now left|reflexivity].
Qed.

(* ---------------------------------------------------------------- write_entity / write_entities *)
(* what write_entity puts into the transaction for handle k (None = KeyError) *)
Definition wval (m : mdib) (e : entity) (k : H) : option (option cstate) :=
  match alist_get e k, cstates m k with
  | None, None => None
  | None, Some _ => Some None
  | Some c, None =>
      Some (Some (mkCState (c_dh c) (match descrs m (c_dh c) with Some d => d_ver d | None => c_dver c end)
                           (set_version (sv_c m) k 0) (c_assoc c) (c_bind c) (c_unbind c) (c_pay c)))
  | Some c, Some o =>
      Some (Some (mkCState (c_dh c) (c_dver c) (c_ver o + 1) (c_assoc c) (c_bind c) (c_unbind c) (c_pay c)))
  end.

Lemma wval_some m e k c' : wval m e k = Some (Some c') ->
  exists c, alist_get e k = Some c /\ c_dh c' = c_dh c /\ c_assoc c' = c_assoc c /\
            c_bind c' = c_bind c /\ c_unbind c' = c_unbind c.
Proof.
  unfold wval. destruct (alist_get e k) as [c|], (cstates m k) as [o|]; try discriminate;
    intros [= <-]; exists c; repeat split.
Qed.

Lemma write_entity_cons m t e h r :
  write_entity m t e (h :: r) =
  match wval m e h with
  | Some x => write_entity m (mkTx (t_d t) (t_s t) (alist_set (t_c t) h x)) e r
  | None => None
  end.
Proof. cbn [write_entity]. unfold wval. destruct (alist_get e h), (cstates m h); reflexivity. Qed.

Lemma write_entity_spec m e : forall hs t t', write_entity m t e hs = Some t' ->
  t_s t' = t_s t /\ (NoDup (map fst (t_c t)) -> NoDup (map fst (t_c t'))) /\
  (forall k, In k hs -> wval m e k <> None) /\
  (forall k, alist_get (t_c t') k = if memz k hs then wval m e k else alist_get (t_c t) k).
Proof.
  induction hs as [|h r IH]; intros t t'.
  - cbn [write_entity]. intros [= <-]. repeat split; tauto.
  - rewrite write_entity_cons. destruct (wval m e h) as [x|] eqn:W; [|discriminate]. intros E.
    destruct (IH _ _ E) as (A & B & C & D). cbn [t_s t_c] in *. repeat split.
    + exact A.
    + intros Hn. apply B. now apply alist_keys_nodup_set.
    + intros k [<-|Hi]; [congruence|now apply C].
    + intros k. rewrite D. unfold memz. cbn [existsb]. fold (memz k r).
      destruct (memz k r); [now rewrite orb_true_r|]. rewrite orb_false_r, alist_get_set.
      destruct (Z.eqb_spec k h) as [->|_]; [now rewrite W|reflexivity].
Qed.

(* the value the transaction holds for handle k after write_entities: per handle the last writer wins *)
Fixpoint wres (m : mdib) (handles : list (H * list H)) (k : H) (ents : list (H * entity))
              (a : option (option cstate)) : option (option cstate) :=
  match ents with
  | [] => a
  | (d, e) :: r => wres m handles k r (if memz k (hget handles d) then wval m e k else a)
  end.

Lemma write_entities_spec m handles : forall ents t t', write_entities m t ents handles = Some t' ->
  t_s t' = t_s t /\ (NoDup (map fst (t_c t)) -> NoDup (map fst (t_c t'))) /\
  (forall d e k, In (d, e) ents -> In k (hget handles d) -> wval m e k <> None) /\
  (forall k, alist_get (t_c t') k = wres m handles k ents (alist_get (t_c t) k)).
Proof.
  induction ents as [|[d e] r IH]; intros t t'; cbn [write_entities].
  - intros [= <-]. repeat split; tauto.
  - fold (hget handles d). destruct (write_entity m t e (hget handles d)) as [t1|] eqn:W; [|discriminate]. intros E.
    destruct (write_entity_spec _ _ _ _ _ W) as (A1 & B1 & C1 & D1).
    destruct (IH _ _ E) as (A & B & C & D). repeat split.
    + congruence.
    + intros Hn. now apply B, B1.
    + intros d0 e0 k [[= <- <-]|Hi] Hk; [now apply C1|eapply C; eassumption].
    + intros k. rewrite D. cbn [wres]. now rewrite D1.
Qed.

Fixpoint last_ent (dh : H) (ents : list (H * entity)) : option entity :=
  match ents with
  | [] => None
  | (d, e) :: r => match last_ent dh r with
                   | Some e' => Some e'
                   | None => if Z.eqb d dh then Some e else None
                   end
  end.

Lemma last_ent_in dh ents e : last_ent dh ents = Some e -> In (dh, e) ents.
Proof.
  induction ents as [|[d e0] r IH]; cbn [last_ent]; [discriminate|].
  destruct (last_ent dh r) as [e'|].
  - intros [= <-]. right. now apply IH.
  - destruct (Z.eqb_spec d dh) as [->|_]; [|discriminate]. intros [= <-]. now left.
Qed.

Section Wres.
  Variables (m : mdib) (handles : list (H * list H)).

  (* a value that is not the initial one was written by someone *)
  Lemma wres_writer k : forall ents a x, wres m handles k ents a = Some x ->
    a = Some x \/ exists d e, In (d, e) ents /\ In k (hget handles d) /\ wval m e k = Some x.
  Proof.
    induction ents as [|[d e] r IH]; intros a x; cbn [wres]; [now left|].
    intros E. destruct (IH _ _ E) as [E1|(d0 & e0 & Hi & Hk & W)].
    - destruct (memz k (hget handles d)) eqn:M; [|now left].
      right. exists d, e. repeat split; [now left|now apply memz_in|exact E1].
    - right. exists d0, e0. repeat split; [now right|assumption|assumption].
  Qed.

  (* if somebody writes k (successfully), the transaction holds a value for k *)
  Lemma wres_written k : forall ents a,
    (forall d e, In (d, e) ents -> In k (hget handles d) -> wval m e k <> None) ->
    (a <> None \/ exists d e, In (d, e) ents /\ In k (hget handles d)) ->
    wres m handles k ents a <> None.
  Proof.
    induction ents as [|[d e] r IH]; intros a Hok Hw; cbn [wres].
    - destruct Hw as [Hw|(d & e & [] & _)]. exact Hw.
    - apply IH; [intros d0 e0 Hi; apply Hok; now right|].
      destruct (memz k (hget handles d)) eqn:M.
      + left. apply (Hok d e); [now left|now apply memz_in].
      + destruct Hw as [Hw|(d0 & e0 & [[= <- <-]|Hi] & Hk)]; [now left| |right; now exists d0, e0].
        apply memz_in in Hk. congruence.
  Qed.

  (* the last copy of descriptor dh overwrites whatever was written for a handle collected for dh; a later
     copy of another descriptor could only write a state of that other descriptor *)
  Lemma wres_last k dh c : In k (hget handles dh) -> c_dh c = dh ->
    forall ents a,
    (forall d e k' c', In (d, e) ents -> alist_get e k' = Some c' -> c_dh c' = d) ->
    wres m handles k ents a = Some (Some c) ->
    match last_ent dh ents with Some e => wval m e k = Some (Some c) | None => a = Some (Some c) end.
  Proof.
    intros Hk Hc. induction ents as [|[d e] r IH]; intros a Hdh; cbn [wres last_ent]; [tauto|].
    intros E. specialize (IH _ (fun d0 e0 k' c' Hi => Hdh d0 e0 k' c' (or_intror Hi)) E).
    destruct (last_ent dh r) as [e'|]; [exact IH|].
    destruct (Z.eqb_spec d dh) as [->|Hne].
    - apply memz_in in Hk. now rewrite Hk in IH.
    - destruct (memz k (hget handles d)); [|exact IH]. exfalso.
      apply wval_some in IH as (c0 & E0 & Ed & _). apply (Hdh d e k c0 (or_introl eq_refl)) in E0. congruence.
  Qed.
End Wres.

(* ---------------------------------------------------------------- the SetContextState handler *)
Section Handler.
  Variables (m : mdib) (fresh : list H) (ps : list proposal).
  Hypothesis Hinv : ctx_inv m.
  Hypothesis Hfresh : forall h, In h fresh -> ~ In h (cdom m).

  Let m' := fst (set_context_state m fresh ps).

  Let Hnd : NoDup (cdom m) := proj1 Hinv.
  Let Hcov : forall k c, cstates m k = Some c -> In k (cdom m) := proj1 (proj2 Hinv).
  Let Hu : uniq_assoc m := ctx_inv_uniq m Hinv.
  Let Hopen : assoc_open m := proj2 (proj2 (proj2 Hinv)).

  (* the context table after the operation: per handle, the value of the last writer, else the old state *)
  Lemma handler_cases :
    m' = m \/
    exists st, hinv m fresh st /\ handle_proposals m (mkHS [] [] fresh) ps = Some st /\
      (forall d e k, In (d, e) (hs_ents st) -> In k (hget (hs_handles st) d) -> wval m e k <> None) /\
      (forall k, cstates m' k = match wres m (hs_handles st) k (hs_ents st) None with
                                | Some x => x
                                | None => cstates m k
                                end) /\
      dom_ok m' /\ (forall k, In k (cdom m') -> In k (cdom m) \/ In k fresh).
  Proof.
    subst m'. unfold set_context_state. destruct (existsb _ ps); [now left|].
    destruct (handle_proposals m (mkHS [] [] fresh) ps) as [st|] eqn:HP; [|now left].
    destruct (write_entities m empty_tx (hs_ents st) (hs_handles st)) as [t|] eqn:W; [|now left].
    right. exists st. cbn [fst].
    pose proof (handle_proposals_hinv m fresh Hcov Hu Hopen Hfresh ps _ _ (hinv_init m fresh) HP) as HI.
    destruct (write_entities_spec _ _ _ _ _ W) as (A & B & C & D). cbn [empty_tx t_s t_c map alist_get] in *.
    split; [exact HI|]. split; [reflexivity|]. split; [exact C|]. split; [|split].
    - intros k. rewrite commit_ctx_cstates; [|exact A|apply B; constructor]. now rewrite D.
    - apply commit_states_dom_ok. split; assumption.
    - intros k Hk. apply (proj1 (proj2 (commit_states_dom m t))) in Hk as [Hk|[_ Hk]]; [now left|].
      apply in_map_iff in Hk as ([k0 x] & <- & Hk). apply alist_in_get in Hk. cbn [fst] in *. rewrite D in Hk.
      destruct (wres m (hs_handles st) k0 (hs_ents st) None) as [y|] eqn:Rk; [|contradiction].
      destruct (wres_writer _ _ _ _ _ _ Rk) as [?|(d & e0 & _ & Hk0 & _)]; [discriminate|].
      exact (hi_hdom _ _ _ HI d k0 Hk0).
  Qed.

  Section Committed.
    Variable st : hstate.
    Hypothesis HI : hinv m fresh st.
    Hypothesis Hw : forall d e k, In (d, e) (hs_ents st) -> In k (hget (hs_handles st) d) -> wval m e k <> None.
    Let R k := wres m (hs_handles st) k (hs_ents st) None.

    Let Hdh : forall d e k' c', In (d, e) (hs_ents st) -> alist_get e k' = Some c' -> c_dh c' = d.
    Proof. intros d e k' c' Hi. exact (eo_dh _ _ _ _ (hi_ents _ _ _ HI d e Hi) k' c'). Qed.

    (* a handle that holds a state after the write: the value comes from the LAST copy of its descriptor *)
    Lemma written_last k c' : R k = Some (Some c') ->
      exists e c, In (c_dh c', e) (hs_ents st) /\ last_ent (c_dh c') (hs_ents st) = Some e /\
                  alist_get e k = Some c /\ c_dh c' = c_dh c /\ c_assoc c' = c_assoc c /\
                  c_bind c' = c_bind c /\ c_unbind c' = c_unbind c.
    Proof.
      intros E. subst R. cbv beta in E.
      destruct (wres_writer _ _ _ _ _ _ E) as [?|(d & e0 & Hi & Hk & W)]; [discriminate|].
      destruct (wval_some _ _ _ _ W) as (c0 & E0 & Ed & _).
      assert (d = c_dh c') by (rewrite Ed; symmetry; eapply Hdh; eassumption). subst d.
      pose proof (wres_last m (hs_handles st) k (c_dh c') c' Hk eq_refl (hs_ents st) None Hdh E) as L.
      destruct (last_ent (c_dh c') (hs_ents st)) as [e|] eqn:El; [|discriminate].
      destruct (wval_some _ _ _ _ L) as (c & Ec & F1 & F2 & F3 & F4).
      exists e, c. repeat split; try assumption. now apply last_ent_in.
    Qed.

    (* the handler never deletes a state *)
    Lemma never_deleted k : R k <> Some None.
    Proof.
      intros E. subst R. cbv beta in E.
      destruct (wres_writer _ _ _ _ _ _ E) as [?|(d & e0 & Hi & Hk & W)]; [discriminate|].
      unfold wval in W. destruct (alist_get e0 k) as [c|] eqn:G; [destruct (cstates m k); discriminate|].
      destruct (cstates m k) as [o|] eqn:Eo; [|discriminate].
      pose proof (hi_own _ _ _ HI d k Hk) as Ow. unfold own in Ow. rewrite Eo in Ow.
      destruct (eo_frame _ _ _ _ (hi_ents _ _ _ HI d e0 Hi) k o Eo Ow) as (c' & G' & _). congruence.
    Qed.

    Lemma unwritten k d e : R k = None -> In (d, e) (hs_ents st) -> ~ In k (hget (hs_handles st) d).
    Proof.
      intros E Hi Hk. subst R. cbv beta in E. revert E. apply wres_written; [intros d0 e0; apply Hw|].
      right. now exists d, e.
    Qed.

    Variable mm : mdib.
    Hypothesis HP : forall k, cstates mm k = match R k with Some x => x | None => cstates m k end.

    Lemma committed_uniq : uniq_assoc mm.
    Proof.
      intros k1 k2 c1 c2 E1 E2 Ed A1 A2. rewrite HP in E1, E2.
      destruct (R k1) as [[c1'|]|] eqn:R1; [injection E1 as ->| |];
      destruct (R k2) as [[c2'|]|] eqn:R2; try (injection E2 as ->); try discriminate.
      - destruct (written_last _ _ R1) as (e1 & x1 & I1 & L1 & G1 & _ & F1 & _).
        destruct (written_last _ _ R2) as (e2 & x2 & I2 & L2 & G2 & _ & F2 & _).
        rewrite Ed, L2 in L1. injection L1 as <-.
        eapply (eo_uniq _ _ _ _ (hi_ents _ _ _ HI _ _ I2)); try eassumption; congruence.
      - destruct (written_last _ _ R1) as (e1 & x1 & I1 & L1 & G1 & _ & F1 & _).
        pose proof (hi_ents _ _ _ HI _ _ I1) as Ok1.
        destruct (eo_frame _ _ _ _ Ok1 k2 c2 E2 (eq_sym Ed)) as (c' & G2 & [->|Hk]).
        + eapply (eo_uniq _ _ _ _ Ok1); try eassumption. congruence.
        + exfalso. eapply unwritten; eassumption.
      - destruct (written_last _ _ R2) as (e2 & x2 & I2 & L2 & G2 & _ & F2 & _).
        pose proof (hi_ents _ _ _ HI _ _ I2) as Ok2.
        destruct (eo_frame _ _ _ _ Ok2 k1 c1 E1 Ed) as (c' & G1 & [->|Hk]).
        + eapply (eo_uniq _ _ _ _ Ok2); try eassumption. congruence.
        + exfalso. eapply unwritten; eassumption.
      - eapply Hu; eassumption.
    Qed.

    Lemma committed_open : assoc_open mm.
    Proof.
      intros k c E Ea. rewrite HP in E. destruct (R k) as [[c'|]|] eqn:Rk; [injection E as ->|discriminate|].
      - destruct (written_last _ _ Rk) as (e & x & Hi & _ & G & _ & F1 & _ & F3).
        rewrite F3. eapply (eo_open _ _ _ _ (hi_ents _ _ _ HI _ _ Hi)); [eassumption|congruence].
      - eapply Hopen; eassumption.
    Qed.

    (* a state that was associated and is not associated any more: disassociated, unbinding version = the
       version this commit creates *)
    Lemma committed_leave k c : cstates m k = Some c -> c_assoc c = A_ASSOC ->
      exists c', cstates mm k = Some c' /\
                 (c_assoc c' = A_ASSOC \/ c_assoc c' = A_DIS /\ c_unbind c' = Some (ver m + 1)).
    Proof.
      intros E Ea. rewrite HP. destruct (R k) as [[c'|]|] eqn:Rk.
      - exists c'. split; [reflexivity|].
        destruct (written_last _ _ Rk) as (e & x & Hi & _ & G & _ & F1 & _ & F3).
        destruct (Z.eq_dec (c_assoc c') A_ASSOC) as [Y|N]; [now left|right].
        rewrite F1, F3. eapply (eo_leave _ _ _ _ (hi_ents _ _ _ HI _ _ Hi)); try eassumption. congruence.
      - exfalso. eapply never_deleted; eassumption.
      - exists c. split; [assumption|now left].
    Qed.

    (* a state that is associated and was not (or did not exist): binding version = the version this commit creates *)
    Lemma committed_enter k c' : cstates mm k = Some c' -> c_assoc c' = A_ASSOC ->
      match cstates m k with Some c => c_assoc c <> A_ASSOC | None => True end ->
      c_bind c' = Some (ver m + 1).
    Proof.
      intros E Ea Hm. rewrite HP in E. destruct (R k) as [[c1|]|] eqn:Rk; [injection E as ->|discriminate|].
      - destruct (written_last _ _ Rk) as (e & x & Hi & _ & G & _ & F1 & F2 & _).
        rewrite F2. eapply (eo_enter _ _ _ _ (hi_ents _ _ _ HI _ _ Hi)); [eassumption|congruence|assumption].
      - rewrite E in Hm. contradiction.
    Qed.

    Lemma committed_kept k c : cstates m k = Some c -> exists c', cstates mm k = Some c' /\ c_dh c' = c_dh c.
    Proof.
      intros E. rewrite HP. destruct (R k) as [[c'|]|] eqn:Rk.
      - exists c'. split; [reflexivity|]. subst R. cbv beta in Rk.
        destruct (wres_writer _ _ _ _ _ _ Rk) as [?|(d & e0 & Hi & Hk & W)]; [discriminate|].
        destruct (wval_some _ _ _ _ W) as (c0 & E0 & Ed & _). rewrite Ed, (Hdh d e0 k c0 Hi E0).
        pose proof (hi_own _ _ _ HI d k Hk) as Ow. unfold own in Ow. now rewrite E in Ow.
      - exfalso. eapply never_deleted; eassumption.
      - now exists c.
    Qed.

    (* states of descriptors for which nothing was proposed / collected are untouched *)
    Lemma committed_frame k c : cstates m k = Some c -> hget (hs_handles st) (c_dh c) = [] -> cstates mm k = Some c.
    Proof.
      intros E Hn. rewrite HP. destruct (R k) as [x|] eqn:Rk; [|assumption]. exfalso.
      subst R. cbv beta in Rk. destruct (wres_writer _ _ _ _ _ _ Rk) as [?|(d & e0 & Hi & Hk & W)]; [discriminate|].
      pose proof (hi_own _ _ _ HI d k Hk) as Ow. unfold own in Ow. rewrite E in Ow. subst d. rewrite Hn in Hk. contradiction.
    Qed.
  End Committed.

  Theorem handler_preserves : ctx_inv m'.
  Proof.
    destruct handler_cases as [->|(st & HI & _ & Hw & HP & [D1 D2] & _)]; [exact Hinv|].
    apply ctx_inv_intro; try assumption.
    - eapply committed_uniq; eassumption.
    - eapply committed_open; eassumption.
  Qed.

  (* - no state is deleted or moved to another descriptor (a new state never takes a used handle);
     - a state that stopped being associated is disassociated with the unbinding version of THIS commit;
     - a state that became associated (or is new and associated) has the binding version of THIS commit;
     - if anything changed, MdibVersion was incremented by one; a failed operation changes nothing *)
  Theorem handler_versions :
    (forall k c, cstates m k = Some c -> exists c', cstates m' k = Some c' /\ c_dh c' = c_dh c) /\
    (forall k c c', cstates m k = Some c -> cstates m' k = Some c' -> c_assoc c = A_ASSOC -> c_assoc c' <> A_ASSOC ->
       c_assoc c' = A_DIS /\ c_unbind c' = Some (ver m + 1)) /\
    (forall k c', cstates m' k = Some c' -> c_assoc c' = A_ASSOC ->
       match cstates m k with Some c => c_assoc c <> A_ASSOC | None => True end ->
       c_bind c' = Some (ver m + 1)) /\
    (m' <> m -> ver m' = ver m + 1) /\
    (snd (set_context_state m fresh ps) = 1 -> m' = m).
  Proof.
    split; [|split; [|split; [|split]]].
    - destruct handler_cases as [->|(st & HI & _ & Hw & HP & _)].
      + intros k c E. now exists c.
      + intros k c. eapply committed_kept; eassumption.
    - destruct handler_cases as [->|(st & HI & _ & Hw & HP & _)].
      + intros k c c' E E' Ea Hn. congruence.
      + intros k c c' E E' Ea Hn. destruct (committed_leave st HI m' HP k c E Ea) as (c'' & E'' & [Y|Y]).
        * congruence.
        * assert (c'' = c') by congruence. now subst c''.
    - destruct handler_cases as [->|(st & HI & _ & Hw & HP & _)].
      + intros k c' E Ea Hm. rewrite E in Hm. contradiction.
      + intros k c'. eapply committed_enter; eassumption.
    - destruct (set_context_state_atomic m fresh ps) as (A & B & [C|C]); fold m' in A, B.
      + destruct (B C); [tauto|contradiction].
      + intros Hne. exfalso. apply Hne. now apply A.
    - destruct (set_context_state_atomic m fresh ps) as (A & _). exact A.
  Qed.

  (* states of descriptors for which nothing is proposed are untouched *)
  Theorem handler_frame k c :
    cstates m k = Some c -> (forall p, In p ps -> pr_dh p <> c_dh c) -> cstates m' k = Some c.
  Proof.
    intros E Hp. destruct handler_cases as [->|(st & HI & HPs & Hw & HP & _)]; [assumption|].
    eapply committed_frame; try eassumption.
    rewrite (handle_proposals_handles m ps _ _ HPs (c_dh c) Hp). reflexivity.
  Qed.

  (* the operation uses no handles other than existing ones and the uuid4 handles it drew *)
  Theorem handler_dom k : In k (cdom m') -> In k (cdom m) \/ In k fresh.
  Proof.
    destruct handler_cases as [->|(st & _ & _ & _ & _ & _ & Hd)]; [now left|apply Hd].
  Qed.
End Handler.

(* ---------------------------------------------------------------- set_location *)
Lemma transaction_dom_ok k acts m : k <> 6 -> dom_ok m -> dom_ok (fst (transaction k None acts m)).
Proof.
  intros Hk Hd. unfold transaction. destruct (body k m empty_tx acts) as [t|[]]; try exact Hd.
  cbn [fst]. destruct (Z.eqb_spec k 6); [contradiction|]. now apply commit_states_dom_ok.
Qed.

Lemma in_keys_get {A} (l : list (H * A)) k : In k (map fst l) -> alist_get l k <> None.
Proof. intros Hi. apply in_map_iff in Hi as ([k0 x] & <- & Hi). now apply alist_in_get in Hi. Qed.

Lemma set_location_dom m dh h p k : NoDup (cdom m) ->
  In k (cdom (fst (set_location m dh h p))) -> In k (cdom m) \/ k = h.
Proof.
  intros Hnd. unfold set_location, transaction. cbn [body apply_action].
  destruct (ctx_disall_spec m dh Hnd) as (t1 & E1 & D0 & S0 & Hnd1 & C0). rewrite E1.
  destruct (ctx_mk m t1 dh h false true p) as [t2|[]] eqn:Emk; cbn [fst]; try (now left).
  replace (5 =? 6) with false by reflexivity. intros Hk.
  apply (proj1 (proj2 (commit_states_dom m t2))) in Hk as [Hk|[_ Hk]]; [now left|].
  assert (T2 : t_c t2 = alist_set (t_c t1) h (Some (mkCState dh (match descrs m dh with Some d => d_ver d | None => 0 end)
                 0 2 (Some (ver m + 1)) None p))).
  { unfold ctx_mk in Emk. destruct (alist_has (t_c t1) h); [discriminate|].
    destruct (descrs m dh) as [d|]; [|discriminate]. destruct (negb (d_kind d =? K_CTX)); [discriminate|].
    cbn [andb] in Emk. injection Emk as <-. reflexivity. }
  rewrite T2 in Hk. apply (proj2 (alist_set_keys _ h _ Hnd1)) in Hk as [->|Hk]; [now right|left].
  apply in_keys_get in Hk. rewrite C0 in Hk. fold (memz k (cdom m)) in Hk.
  destruct (memz k (cdom m)) eqn:M; [now apply memz_in|contradiction].
Qed.

Lemma set_location_rejected m dh h p :
  (descrs m dh = None \/ exists d, descrs m dh = Some d /\ d_kind d <> K_CTX) -> fst (set_location m dh h p) = m.
Proof.
  intros Hx. unfold set_location, transaction. cbn [body apply_action]. unfold ctx_disall. cbv beta iota.
  unfold ctx_mk. destruct (alist_has _ h); [reflexivity|].
  destruct Hx as [->|(d & -> & Hk)]; [reflexivity|].
  destruct (Z.eqb_spec (d_kind d) K_CTX); [contradiction|]. reflexivity.
Qed.

Theorem set_location_preserves m dh h p : ctx_inv m -> ~ In h (cdom m) -> ctx_inv (fst (set_location m dh h p)).
Proof.
  intros Hinv Hh. pose proof Hinv as (Hnd & Hcov & _ & Hopen). pose proof (ctx_inv_uniq m Hinv) as Hu.
  destruct (descrs m dh) as [d|] eqn:Hd.
  2:{ rewrite set_location_rejected; [assumption|now left]. }
  destruct (Z.eq_dec (d_kind d) K_CTX) as [Hk|Hk].
  2:{ rewrite set_location_rejected; [assumption|right; now exists d]. }
  assert (Hfresh : cstates m h = None).
  { destruct (cstates m h) as [c|] eqn:Ec; [|reflexivity]. exfalso. apply Hh. eapply Hcov; eassumption. }
  destruct (set_location_pointwise m dh h p d Hd Hk Hfresh Hnd Hcov) as (_ & _ & P).
  destruct (transaction_dom_ok 5 [ACtxDisAll dh None; ACtxMk dh h false true p] m) as [D1 D2];
    [discriminate|split; assumption|]. fold (set_location m dh h p) in D1, D2.
  (* a state of the new table other than the new one: either an untouched old one or a disassociated one *)
  assert (O : forall k c, k <> h -> cstates (fst (set_location m dh h p)) k = Some c -> c_assoc c = A_ASSOC ->
              cstates m k = Some c /\ c_dh c <> dh).
  { intros k c Hne E Ea. rewrite P in E. destruct (Z.eqb_spec k h); [contradiction|].
    destruct (cstates m k) as [c0|] eqn:E0; [|discriminate].
    destruct (needs_dis dh c0) eqn:N; injection E as <-; [cbn in Ea; unfold A_DIS, A_ASSOC in Ea; discriminate|].
    split; [reflexivity|]. intros Edh. unfold needs_dis in N. rewrite Edh, Z.eqb_refl, Ea in N. discriminate. }
  apply ctx_inv_intro; try assumption.
  - intros k1 k2 c1 c2 E1 E2 Ed A1 A2.
    destruct (Z.eqb_spec k1 h) as [->|N1], (Z.eqb_spec k2 h) as [->|N2]; try reflexivity.
    + rewrite P, Z.eqb_refl in E1. injection E1 as <-. destruct (O k2 c2 N2 E2 A2) as (_ & X). cbn in Ed. congruence.
    + rewrite P, Z.eqb_refl in E2. injection E2 as <-. destruct (O k1 c1 N1 E1 A1) as (_ & X). cbn in Ed. congruence.
    + destruct (O k1 c1 N1 E1 A1) as (M1 & _), (O k2 c2 N2 E2 A2) as (M2 & _). eapply Hu; eassumption.
  - intros k c E Ea. destruct (Z.eqb_spec k h) as [->|Hne].
    + rewrite P, Z.eqb_refl in E. injection E as <-. reflexivity.
    + destruct (O k c Hne E Ea) as (M & _). eapply Hopen; eassumption.
Qed.

(* ---------------------------------------------------------------- histories *)
Definition crun (m : mdib) (ops : list cop) : mdib := fold_left (fun m' o => fst (cstep m' o)) ops m.

(* the uuid4 handles an operation draws *)
Definition op_handles (o : cop) : list H :=
  match o with CLoc _ h _ => [h] | CSet fresh _ => fresh end.
Definition hist_handles (ops : list cop) : list H := flat_map op_handles ops.

(* dynamic form of "fresh handles are fresh": no operation draws a handle that the MDIB has ever used *)
Fixpoint hist_fresh (m : mdib) (ops : list cop) : Prop :=
  match ops with
  | [] => True
  | o :: r => (forall h, In h (op_handles o) -> ~ In h (cdom m)) /\ hist_fresh (fst (cstep m o)) r
  end.

Lemma cstep_preserves m o : ctx_inv m -> (forall h, In h (op_handles o) -> ~ In h (cdom m)) -> ctx_inv (fst (cstep m o)).
Proof.
  intros Hinv Hf. destruct o as [dh h p|fresh ps]; cbn [cstep op_handles] in *.
  - apply set_location_preserves; [assumption|]. apply Hf. now left.
  - now apply handler_preserves.
Qed.

Lemma cstep_dom m o k : ctx_inv m -> (forall h, In h (op_handles o) -> ~ In h (cdom m)) ->
  In k (cdom (fst (cstep m o))) -> In k (cdom m) \/ In k (op_handles o).
Proof.
  intros Hinv Hf. destruct o as [dh h p|fresh ps]; cbn [cstep op_handles] in *.
  - intros Hk. apply set_location_dom in Hk as [Hk | ->]; [now left|right; now left|apply Hinv].
  - now apply handler_dom.
Qed.

Theorem history_inv : forall ops m, ctx_inv m -> hist_fresh m ops -> forall n, ctx_inv (crun m (firstn n ops)).
Proof.
  induction ops as [|o r IH]; intros m Hinv Hf n.
  - destruct n; exact Hinv.
  - destruct n as [|n]; [exact Hinv|]. cbn [firstn crun fold_left]. destruct Hf as [Hf1 Hf2].
    apply (IH (fst (cstep m o))); [now apply cstep_preserves|assumption].
Qed.

Lemma nodup_app_split {A} (l1 l2 : list A) : NoDup (l1 ++ l2) ->
  NoDup l2 /\ forall x, In x l1 -> In x l2 -> False.
Proof.
  induction l1 as [|a r IH]; cbn [app]; intros Hn; [split; [assumption|intros x []]|].
  inversion Hn as [|? ? Ha Hr]; subst. destruct (IH Hr) as [N D]. split; [assumption|].
  intros x [->|Hi] Hx; [apply Ha, in_or_app; now right|eapply D; eassumption].
Qed.

(* static form: the handles drawn in the whole history are pairwise distinct and unused in the initial MDIB *)
Lemma hist_static_fresh : forall ops m, ctx_inv m ->
  NoDup (hist_handles ops) -> (forall h, In h (hist_handles ops) -> ~ In h (cdom m)) -> hist_fresh m ops.
Proof.
  induction ops as [|o r IH]; intros m Hinv Hnd Hf; cbn [hist_fresh]; [exact I|].
  unfold hist_handles in *. cbn [flat_map] in *.
  assert (Hf1 : forall h, In h (op_handles o) -> ~ In h (cdom m)) by (intros h Hi; apply Hf, in_or_app; now left).
  split; [exact Hf1|]. apply IH.
  - now apply cstep_preserves.
  - apply nodup_app_split in Hnd. apply Hnd.
  - intros h Hi Hk. apply cstep_dom in Hk as [Hk|Hk]; try assumption.
    + apply (Hf h); [apply in_or_app; now right|assumption].
    + apply nodup_app_split in Hnd as [_ D]. eapply D; eassumption.
Qed.

Theorem history_inv_static ops m : ctx_inv m ->
  NoDup (hist_handles ops) -> (forall h, In h (hist_handles ops) -> ~ In h (cdom m)) ->
  forall n, ctx_inv (crun m (firstn n ops)).
Proof. intros Hinv Hnd Hf. apply history_inv; [assumption|now apply hist_static_fresh]. Qed.

(* ---------------------------------------------------------------- the single-proposal instances *)
Lemma handler_single_preserves m fresh p :
  ctx_inv m -> (forall h, In h fresh -> ~ In h (cdom m)) -> ctx_inv (fst (set_context_state m fresh [p])).
Proof. intros. now apply handler_preserves. Qed.

(* ---------------------------------------------------------------- the version clauses, per step and per history *)
(* what one operation may do to the association of the context states (m before, m' after):
   - no state is deleted or moved to another descriptor;
   - a state that stopped being associated is disassociated, unbinding version = MdibVersion of m';
   - a state that became associated (or is new and associated) has binding version = MdibVersion of m';
   - MdibVersion is unchanged (then nothing changed) or incremented by one *)
Definition assoc_step (m m' : mdib) : Prop :=
  (forall k c, cstates m k = Some c -> exists c', cstates m' k = Some c' /\ c_dh c' = c_dh c) /\
  (forall k c c', cstates m k = Some c -> cstates m' k = Some c' -> c_assoc c = A_ASSOC -> c_assoc c' <> A_ASSOC ->
     c_assoc c' = A_DIS /\ c_unbind c' = Some (ver m')) /\
  (forall k c', cstates m' k = Some c' -> c_assoc c' = A_ASSOC ->
     match cstates m k with Some c => c_assoc c <> A_ASSOC | None => True end ->
     c_bind c' = Some (ver m')) /\
  (m' = m \/ ver m' = ver m + 1).

Lemma assoc_step_refl m : assoc_step m m.
Proof.
  unfold assoc_step. split; [|split; [|split]].
  - intros k c E. now exists c.
  - intros k c c' E E' Ea Hn. congruence.
  - intros k c' E Ea Hm. rewrite E in Hm. contradiction.
  - now left.
Qed.

(* from the clauses stated with ver m + 1 *)
Lemma assoc_step_intro m m' :
  (forall k c, cstates m k = Some c -> exists c', cstates m' k = Some c' /\ c_dh c' = c_dh c) ->
  (forall k c c', cstates m k = Some c -> cstates m' k = Some c' -> c_assoc c = A_ASSOC -> c_assoc c' <> A_ASSOC ->
     c_assoc c' = A_DIS /\ c_unbind c' = Some (ver m + 1)) ->
  (forall k c', cstates m' k = Some c' -> c_assoc c' = A_ASSOC ->
     match cstates m k with Some c => c_assoc c <> A_ASSOC | None => True end -> c_bind c' = Some (ver m + 1)) ->
  (m' = m \/ ver m' = ver m + 1) -> assoc_step m m'.
Proof.
  intros A B C [->|V]; [apply assoc_step_refl|]. unfold assoc_step. rewrite V.
  split; [exact A|]. split; [exact B|]. split; [exact C|now right].
Qed.

Theorem handler_step m fresh ps : ctx_inv m -> (forall h, In h fresh -> ~ In h (cdom m)) ->
  assoc_step m (fst (set_context_state m fresh ps)).
Proof.
  intros Hinv Hf. destruct (handler_versions m fresh ps Hinv Hf) as (A & B & C & D & _).
  apply assoc_step_intro; try assumption.
  destruct (set_context_state_atomic m fresh ps) as (X & Y & [Z|Z]); [destruct (Y Z); tauto|left; now apply X].
Qed.

Theorem set_location_step m dh h p : ctx_inv m -> ~ In h (cdom m) -> assoc_step m (fst (set_location m dh h p)).
Proof.
  intros Hinv Hh. pose proof Hinv as (Hnd & Hcov & _ & Hopen).
  destruct (descrs m dh) as [d|] eqn:Hd.
  2:{ rewrite set_location_rejected; [apply assoc_step_refl|now left]. }
  destruct (Z.eq_dec (d_kind d) K_CTX) as [Hk|Hk].
  2:{ rewrite set_location_rejected; [apply assoc_step_refl|right; now exists d]. }
  assert (Hfresh : cstates m h = None).
  { destruct (cstates m h) as [c|] eqn:Ec; [|reflexivity]. exfalso. apply Hh. eapply Hcov; eassumption. }
  destruct (set_location_pointwise m dh h p d Hd Hk Hfresh Hnd Hcov) as (_ & V & P).
  apply assoc_step_intro; [| | |now right].
  - intros k c E. rewrite P. destruct (Z.eqb_spec k h) as [->|_]; [congruence|]. rewrite E.
    destruct (needs_dis dh c); eexists; split; reflexivity.
  - intros k c c' E E' Ea Hn. rewrite P in E'. destruct (Z.eqb_spec k h) as [->|_]; [congruence|]. rewrite E in E'.
    destruct (needs_dis dh c); injection E' as <-; [|contradiction].
    cbn. split; [reflexivity|]. now rewrite (Hopen k c E Ea).
  - intros k c' E' Ea Hm. rewrite P in E'. destruct (Z.eqb_spec k h) as [->|_]; [injection E' as <-; reflexivity|].
    destruct (cstates m k) as [c|]; [|discriminate].
    destruct (needs_dis dh c); injection E' as <-; [cbn in Ea; unfold A_DIS, A_ASSOC in Ea; discriminate|contradiction].
Qed.

Lemma cstep_step m o : ctx_inv m -> (forall h, In h (op_handles o) -> ~ In h (cdom m)) -> assoc_step m (fst (cstep m o)).
Proof.
  intros Hinv Hf. destruct o as [dh h p|fresh ps]; cbn [cstep op_handles] in *.
  - apply set_location_step; [assumption|]. apply Hf. now left.
  - now apply handler_step.
Qed.

(* every step of a history *)
Theorem history_steps : forall ops m, ctx_inv m -> hist_fresh m ops ->
  forall n o, nth_error ops n = Some o ->
  crun m (firstn (S n) ops) = fst (cstep (crun m (firstn n ops)) o) /\
  assoc_step (crun m (firstn n ops)) (crun m (firstn (S n) ops)).
Proof.
  induction ops as [|o0 r IH]; intros m Hinv Hf n o Hn; [destruct n; discriminate|].
  destruct Hf as [Hf1 Hf2]. destruct n as [|n].
  - injection Hn as ->. cbn [firstn crun fold_left]. split; [reflexivity|now apply cstep_step].
  - cbn [nth_error] in Hn. change (firstn (S (S n)) (o0 :: r)) with (o0 :: firstn (S n) r).
    change (firstn (S n) (o0 :: r)) with (o0 :: firstn n r). cbn [crun fold_left].
    apply (IH (fst (cstep m o0))); [now apply cstep_preserves|assumption|assumption].
Qed.

Theorem history_steps_static ops m : ctx_inv m ->
  NoDup (hist_handles ops) -> (forall h, In h (hist_handles ops) -> ~ In h (cdom m)) ->
  forall n o, nth_error ops n = Some o ->
  crun m (firstn (S n) ops) = fst (cstep (crun m (firstn n ops)) o) /\
  assoc_step (crun m (firstn n ops)) (crun m (firstn (S n) ops)).
Proof. intros Hinv Hnd Hf. apply history_steps; [assumption|now apply hist_static_fresh]. Qed.
