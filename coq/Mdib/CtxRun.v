(* Running the context-association model and observing it like the harness observes the implementation. *)
From Coq Require Import List ZArith Bool.
From SDC Require Import Common.Corr Mdib.Model Mdib.Run Mdib.Context.
Import ListNotations.
Open Scope Z_scope.

Definition ctxobs := (Z * Z * list (H * list Z))%type.
Fixpoint ctxrun (u : list H) (m : mdib) (ops : list cop) : list ctxobs :=
  match ops with
  | [] => []
  | o :: r => let '(m', code) := cstep m o in
              (code, ver m', delta enc_c (cstates m) (cstates m') u) :: ctxrun u m' r
  end.
Definition ctxobs_eqb (a b : ctxobs) : bool :=
  let '(c1, v1, d1) := a in let '(c2, v2, d2) := b in Z.eqb c1 c2 && Z.eqb v1 v2 && hl_eqb d1 d2.
Definition ctxtrace_eqb := list_eqb ctxobs_eqb.
