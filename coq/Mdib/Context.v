(* Context association: ProviderMdibMethods.set_location and the SetContextState handler of the tutorial
   role provider (tutorial/productandroles/contextprovider.py GenericContextProvider._set_context_state),
   on top of the provider model.  Definitions only. *)
From Coq Require Import List ZArith Bool.
From SDC Require Import Mdib.Model.
Import ListNotations.
Open Scope Z_scope.

(* association codes: 0 No, 1 Pre, 2 Assoc, 3 Dis *)
Definition A_NO := 0.  Definition A_PRE := 1.  Definition A_ASSOC := 2.  Definition A_DIS := 3.

(* ---------------------------------------------------------------- set_location *)
(* mgr.disassociate_all(descriptor); mgr.mk_context_state(descriptor, set_associated=True); [h] = the fresh
   uuid handle *)
Definition set_location (m : mdib) (dh h : H) (p : Z) : mdib * Z :=
  transaction 5 None [ACtxDisAll dh None; ACtxMk dh h false true p] m.

(* ---------------------------------------------------------------- SetContextState handler *)
(* entity.states: the context states of one descriptor, private copies, in table order *)
Definition entity := list (H * cstate).
Definition entity_of (m : mdib) (dh : H) : entity :=
  flat_map (fun h => match cstates m h with
                     | Some c => if Z.eqb (c_dh c) dh then [(h, c)] else []
                     | None => []
                     end) (cdom m).

(* ProviderMdibMethods.disassociate_all(entity, unbinding_mdib_version, ignored_handle) *)
Definition xdisall (e : entity) (v : Z) (ignored : option H) : entity * list H :=
  fold_right
    (fun hc acc =>
       let '(h, c) := (hc : H * cstate) in
       let '(e', hs) := (acc : entity * list H) in
       if (match ignored with Some i => Z.eqb i h | None => false end) || Z.eqb (c_assoc c) A_NO then ((h, c) :: e', hs)
       else if negb (Z.eqb (c_assoc c) A_DIS) || (match c_unbind c with None => true | Some _ => false end) then
              ((h, mkCState (c_dh c) (c_dver c) (c_ver c) A_DIS (c_bind c)
                            (match c_unbind c with None => Some v | u => u end) (c_pay c)) :: e', h :: hs)
            else ((h, c) :: e', hs))
    ([], []) e.

(* a proposed context state: handle (None = the proposal carries the descriptor handle: a new state),
   ContextAssociation, payload *)
Record proposal := mkProp { pr_dh : H; pr_handle : option H; pr_assoc : Z; pr_pay : Z }.

Record hstate := mkHS {
  hs_ents : list (H * entity);           (* modified_entities: (descriptor handle, entity copy) in order *)
  hs_handles : list (H * list H);        (* modified_state_handles: descriptor handle -> handles *)
  hs_fresh : list H                      (* uuid4 handles still to be drawn *)
}.

Definition add_handles (l : list (H * list H)) (dh : H) (hs : list H) : list (H * list H) :=
  match alist_get l dh with
  | Some old => alist_set l dh (old ++ hs)
  | None => l ++ [(dh, hs)]
  end.

(* one proposal; None = ValueError *)
Definition handle_proposal (m : mdib) (st : hstate) (p : proposal) : option hstate :=
  let v := ver m + 1 in
  let e0 := entity_of m (pr_dh p) in
  match pr_handle p with
  | None =>
      match hs_fresh st with
      | [] => None
      | h :: fresh' =>
          let '(e1, hs) := if Z.eqb (pr_assoc p) A_ASSOC then xdisall e0 v None else (e0, []) in
          let dver := match descrs m (pr_dh p) with Some d => d_ver d | None => 0 end in
          let c := mkCState (pr_dh p) dver 0 (pr_assoc p)
                            (if Z.eqb (pr_assoc p) A_ASSOC then Some v else None) None (pr_pay p) in
          Some (mkHS (hs_ents st ++ [(pr_dh p, e1 ++ [(h, c)])])
                     (add_handles (hs_handles st) (pr_dh p) (hs ++ [h])) fresh')
      end
  | Some h =>
      match alist_get e0 h with
      | None => None
      | Some old =>
          let leaving := Z.eqb (c_assoc old) A_ASSOC && negb (Z.eqb (pr_assoc p) A_ASSOC) in
          let entering := negb (Z.eqb (c_assoc old) A_ASSOC) && Z.eqb (pr_assoc p) A_ASSOC in
          let old1 := mkCState (c_dh old) (c_dver old) (c_ver old) (c_assoc old)
                               (if entering then Some v else c_bind old)
                               (if leaving then Some v else if entering then None else c_unbind old) (c_pay old) in
          let e1 := alist_set e0 h old1 in
          let '(e2, hs) := if entering then xdisall e1 v (Some h) else (e1, []) in
          (* old_state_container.update_from_other_container(proposal, skipped = versions and times) *)
          let old2 := match alist_get e2 h with
                      | Some o => mkCState (c_dh o) (c_dver o) (c_ver o) (if leaving then A_DIS else pr_assoc p)
                                           (c_bind o) (c_unbind o) (pr_pay p)
                      | None => old1
                      end in
          Some (mkHS (hs_ents st ++ [(pr_dh p, alist_set e2 h old2)])
                     (add_handles (hs_handles st) (pr_dh p) (hs ++ [h])) (hs_fresh st))
      end
  end.

Fixpoint handle_proposals (m : mdib) (st : hstate) (ps : list proposal) : option hstate :=
  match ps with
  | [] => Some st
  | p :: r => match handle_proposal m st p with Some st' => handle_proposals m st' r | None => None end
  end.

(* mgr.write_entity(entity, handles): None = KeyError('invalid handle') *)
Fixpoint write_entity (m : mdib) (t : tx) (e : entity) (hs : list H) : option tx :=
  match hs with
  | [] => Some t
  | h :: r =>
      match alist_get e h, cstates m h with
      | None, None => None
      | None, Some _ => write_entity m (mkTx (t_d t) (t_s t) (alist_set (t_c t) h None)) e r
      | Some c, None =>
          let dver := match descrs m (c_dh c) with Some d => d_ver d | None => c_dver c end in
          write_entity m (mkTx (t_d t) (t_s t)
                               (alist_set (t_c t) h (Some (mkCState (c_dh c) dver (set_version (sv_c m) h 0) (c_assoc c)
                                                                    (c_bind c) (c_unbind c) (c_pay c))))) e r
      | Some c, Some o =>
          write_entity m (mkTx (t_d t) (t_s t)
                               (alist_set (t_c t) h (Some (mkCState (c_dh c) (c_dver c) (c_ver o + 1) (c_assoc c)
                                                                    (c_bind c) (c_unbind c) (c_pay c))))) e r
      end
  end.

Fixpoint write_entities (m : mdib) (t : tx) (ents : list (H * entity)) (handles : list (H * list H)) : option tx :=
  match ents with
  | [] => Some t
  | (dh, e) :: r =>
      match write_entity m t e (match alist_get handles dh with Some l => l | None => [] end) with
      | Some t' => write_entities m t' r handles
      | None => None
      end
  end.

Definition count_assoc (dh : H) (ps : list proposal) : nat :=
  length (filter (fun p => Z.eqb (pr_dh p) dh && Z.eqb (pr_assoc p) A_ASSOC) ps).

(* the whole operation; result code 0 = finished, 1 = failed (exception: nothing committed) *)
Definition set_context_state (m : mdib) (fresh : list H) (ps : list proposal) : mdib * Z :=
  if existsb (fun p => Nat.ltb 1 (count_assoc (pr_dh p) ps)) ps then (m, 1) else
  match handle_proposals m (mkHS [] [] fresh) ps with
  | None => (m, 1)
  | Some st =>
      match write_entities m empty_tx (hs_ents st) (hs_handles st) with
      | None => (m, 1)
      | Some t => (commit_states m t, 0)
      end
  end.

(* ---------------------------------------------------------------- histories *)
Inductive cop :=
| CLoc (dh h : H) (p : Z)
| CSet (fresh : list H) (ps : list proposal).

Definition cstep (m : mdib) (o : cop) : mdib * Z :=
  match o with
  | CLoc dh h p => set_location m dh h p
  | CSet fresh ps => set_context_state m fresh ps
  end.

(* number of associated states of a descriptor *)
Definition assoc_states (m : mdib) (dh : H) : list H :=
  filter (fun h => match cstates m h with
                   | Some c => Z.eqb (c_dh c) dh && Z.eqb (c_assoc c) A_ASSOC
                   | None => false
                   end) (cdom m).
