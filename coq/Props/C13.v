(* C13 -- Request handling is total: any input gets a response; no hang, crash (or XXE: oracle only).
   Property theorems only; each is closed by [exact] of a lemma proved in Http/Chunk_Proofs.v,
   Http/Dispatch_Proofs.v.  The model is the code WITH the proposed repairs
   fixes/C13_reader_framing.diff and fixes/C13_handler_total.diff; the behaviour of the pinned source
   is kept as [dechunk_found], [handle_post_found], [handle_get_found] for the [_as_found] theorems.
   XML parsing (entity handling) and schema validation are not modelled: they appear as the stage
   outcome [p_parse]; that part of the property is judged on the implementation only. *)
From Coq Require Import List NArith Bool Lia.
From SDC Require Import Http.Chunk Http.Chunk_Proofs Http.Dispatch Http.Dispatch_Proofs Http.Connection
     Http.Connection_Proofs Http.Gen_Params.
Import ListNotations.
Open Scope N_scope.

Lemma fuel_bound s : (fuel_for s <= 3 * length (sdata s) + 32)%nat.
Proof. unfold fuel_for. lia. Qed.

(* (i) the body reader: any header classes, any bytes, any read granularity *)
Theorem C13_reader_terminates : forall h s,
  exists fuel, (fuel <= 3 * length (sdata s) + 32)%nat /\
               read_request_body hdr_max available_encodings fuel h s <> RFuel.
Proof.
  exact (fun h s => ex_intro _ (fuel_for s)
           (conj (fuel_bound s) (request_terminates hdr_max available_encodings h s))).
Qed.
Print Assumptions C13_reader_terminates.

Theorem C13_dechunk_terminates : forall fuel s,
  (length (sdata s) < fuel)%nat -> dechunk hdr_max fuel s <> DFuel.
Proof. exact (dechunk_terminates hdr_max). Qed.
Print Assumptions C13_dechunk_terminates.

(* what was consumed is exactly one framed message; the bytes behind it stay in the stream *)
Theorem C13_reader_no_overread : forall fuel h s b s',
  (read_request_body hdr_max available_encodings fuel h s = RBody b s' \/
   exists enc, read_request_body hdr_max available_encodings fuel h s = RDecode enc b s') ->
  exists consumed, sdata s = consumed ++ sdata s' /\ consumed_ok h consumed b.
Proof. exact (fun fuel h s => request_no_overread hdr_max available_encodings fuel h s). Qed.
Print Assumptions C13_reader_no_overread.

(* the chunk loop of the pinned source never ends when the data ends inside a chunk *)
Theorem C13_reader_spins_as_found :
  exists s, forall fuel, dechunk_found hdr_max fuel s = DFuel.
Proof. exact (ex_intro _ _ (dechunk_found_spins hdr_max ltac:(unfold hdr_max; lia))). Qed.
Print Assumptions C13_reader_spins_as_found.

(* (ii) MessageConverterMiddleware.do_post: every combination of parse / dispatch outcomes is turned
   into (status, response-or-fault); a response only when both stages completed *)
Theorem C13_post_total : forall st,
  p_fault_reply st = true -> p_recover st = true ->
  exists s k, do_post st = Answer s k /\
              (k = KResponse \/ k = KFault) /\
              (k = KResponse <-> (p_parse st = SOk /\ p_dispatch st = SOk)) /\
              (k = KResponse -> s = 200).
Proof. exact do_post_total. Qed.
Print Assumptions C13_post_total.

(* one POST from the socket to the answer: reader x dispatcher x path x middleware stages *)
Theorem C13_request_answered : forall read_ok dispatcher p st reason_ok,
  ((p_fault_reply st = true /\ p_recover st = true) \/ reason_ok = true) ->
  exists s k, serve_post read_ok dispatcher p st reason_ok = Answer s k.
Proof. exact serve_post_total. Qed.
Print Assumptions C13_request_answered.

Theorem C13_rejected_before_dispatch : forall read_ok dispatcher p st reason_ok,
  read_ok = false \/ dispatcher = false \/ p <> PathKnown ->
  exists s k, serve_post read_ok dispatcher p st reason_ok = Answer s k /\ 400 <= s /\ (k = KEmpty \/ k = KText).
Proof. exact serve_post_not_dispatched. Qed.
Print Assumptions C13_rejected_before_dispatch.

Theorem C13_get_answered : forall dispatcher p st,
  (p = PathKnown -> g_urlparse st = true) ->
  exists s k, serve_get dispatcher p st = Answer s k.
Proof. exact serve_get_total. Qed.
Print Assumptions C13_get_answered.

(* a rejected request leaves the provider state alone.  Premise (Section hypothesis of
   Dispatch_Proofs, validated by the snapshot oracle): a service handler that does not complete has
   not changed the state. *)
Theorem C13_rejected_state_unchanged : forall (S : Type) (handler : S -> stage * S),
  (forall s, fst (handler s) <> SOk -> snd (handler s) = s) ->
  forall parse fault_reply recover s,
  rejected (fst (do_post_state S handler parse fault_reply recover s)) = true ->
  snd (do_post_state S handler parse fault_reply recover s) = s.
Proof. exact rejected_unchanged. Qed.
Print Assumptions C13_rejected_state_unchanged.

Theorem C13_unparsed_state_unchanged : forall (S : Type) (handler : S -> stage * S) parse fault_reply recover s,
  parse <> SOk -> snd (do_post_state S handler parse fault_reply recover s) = s.
Proof. exact not_parsed_unchanged. Qed.
Print Assumptions C13_unparsed_state_unchanged.

(* the pinned source: a failing body reader leaves do_POST as an exception, an unknown path leaves do_GET *)
Theorem C13_post_escapes_as_found :
  exists i, i_component i <> Propagates /\ handle_post_found i = Propagates.
Proof. exact handle_post_found_propagates. Qed.
Print Assumptions C13_post_escapes_as_found.

Theorem C13_get_escapes_as_found :
  exists i, i_component i <> Propagates /\ handle_get_found i = Propagates.
Proof. exact handle_get_found_propagates. Qed.
Print Assumptions C13_get_escapes_as_found.

(* (iii) the request loop of a kept-alive connection.  The stream holds the body bytes of the requests one
   behind the other (request lines and header blocks are http.server's business).  If every body is framed
   as its own headers announce, then - WHATEVER the outcome of each request: unknown path, missing dispatcher,
   unsupported or corrupt coding, handler fault - the answers are exactly those of every request served on
   its own body alone, up to the first request that closes the connection: no byte of a request's body is
   ever treated as (part of) another request.  Model = code with fixes/C13_get_body_unread.diff. *)
Theorem C13_connection_aligned : forall rs ws tail,
  Forall2 (fun r w => framed hdr_max (c_hdr r) w) rs ws ->
  fst (run_conn (step hdr_max available_encodings) rs (uncapped (concat ws ++ tail)))
  = serve_isolated hdr_max available_encodings rs ws.
Proof. exact (conn_aligned hdr_max available_encodings ltac:(unfold hdr_max; lia)). Qed.
Print Assumptions C13_connection_aligned.

(* one request: same answer and close decision as on its own body alone, and if the connection stays open the
   stream stands exactly behind this request's body *)
Theorem C13_request_consumes_its_body : forall r w rest,
  framed hdr_max (c_hdr r) w ->
  exists a c s1 s0,
    step hdr_max available_encodings r (uncapped (w ++ rest)) = (a, s1, c) /\
    step hdr_max available_encodings r (uncapped w) = (a, s0, c) /\
    (c = false -> s1 = uncapped rest).
Proof. exact (fun r w rest => step_framed hdr_max available_encodings r w rest ltac:(unfold hdr_max; lia)). Qed.
Print Assumptions C13_request_consumes_its_body.

Theorem C13_connection_consumes_exactly : forall rs ws tail,
  Forall2 (fun r w => framed hdr_max (c_hdr r) w) rs ws ->
  Forall (fun rw => snd (step hdr_max available_encodings (fst rw) (uncapped (snd rw))) = false) (combine rs ws) ->
  snd (run_conn (step hdr_max available_encodings) rs (uncapped (concat ws ++ tail))) = uncapped tail.
Proof. exact (conn_consumes_exactly hdr_max available_encodings ltac:(unfold hdr_max; lia)). Qed.
Print Assumptions C13_connection_consumes_exactly.

(* a do_POST that reads the body only after the path lookup, and do_GET as found (body ignored, connection
   kept): the body of an answered request stays in front of the next request *)
Theorem C13_lazy_body_read_refuted :
  exists r w rest,
    framed hdr_max (c_hdr r) w /\ w <> [] /\
    step_lazy hdr_max available_encodings r (uncapped (w ++ rest)) = (Answer 404 KEmpty, uncapped (w ++ rest), false).
Proof. exact (step_lazy_misaligned hdr_max available_encodings). Qed.
Print Assumptions C13_lazy_body_read_refuted.

Theorem C13_get_body_as_found_refuted :
  exists r w rest a,
    framed hdr_max (c_hdr r) w /\ w <> [] /\
    step_get_found hdr_max available_encodings r (uncapped (w ++ rest)) = (a, uncapped (w ++ rest), false).
Proof. exact (step_get_found_misaligned hdr_max available_encodings). Qed.
Print Assumptions C13_get_body_as_found_refuted.

(* non-trivial instances: a body cut inside a chunk is a clean error within the fuel bound, with the
   as-found loop it is not; a schema-invalid message (parse = HTTP error 400) on a known path is
   answered 400 + fault, the same bytes on an unknown path 404 *)
Example C13_nonvacuous :
  (let s := uncapped [53; 13; 10; 97; 98; 99] in
   read_request_body hdr_max available_encodings (fuel_for s) (mkH true CLAbsent None) s = RErr EEofInChunk (uncapped []) /\
   dechunk_found hdr_max 1000 s = DFuel) /\
  serve_post true true PathKnown (mkPost (SHttp 400) true SOk true) true = Answer 400 KFault /\
  serve_post true true PathUnknown (mkPost (SHttp 400) true SOk true) true = Answer 404 KEmpty /\
  serve_post false true PathKnown (mkPost SOk true SOk true) true = Answer 400 KEmpty.
Proof. vm_compute. repeat split. Qed.
