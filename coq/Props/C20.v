(* C20 -- Query services return exactly the selected states and texts.
   Property theorems only (model: Query/Model.v). *)
From Coq Require Import List ZArith Permutation.
From SDC Require Import Query.Model Query.Proofs.
Import ListNotations.
Open Scope Z_scope.

(* GetMdState with a non-empty handle list: every state at most once; everything returned is selected by
   some requested handle; everything a requested handle selects is returned *)
Theorem C20_getmdstate_exact : forall flag m handles, handles <> [] ->
  let r := get_md_state flag m handles in
  keys_distinct r /\
  (forall s, In s r -> exists h, In h handles /\ In s (resolve_state flag m h)) /\
  (forall h s, In h handles -> In s (resolve_state flag m h) -> exists y, In y r /\ qs_eqb y s = true).
Proof. exact get_md_state_exact. Qed.
Print Assumptions C20_getmdstate_exact.

(* what one handle selects: a context-state handle selects that state, a descriptor handle its states;
   a handle that matches nothing contributes nothing *)
Theorem C20_handle_rule : forall flag m h s,
  In s (resolve_state flag m h) ->
  (In s (qm_states m) /\ q_dh s = h) \/
  (flag = true /\ In s (qm_cstates m) /\ (q_handle s = h \/ q_dh s = h)).
Proof. exact resolve_state_sound. Qed.
Print Assumptions C20_handle_rule.

Theorem C20_unknown_handle_nothing : forall flag m h,
  (forall s, In s (qm_states m) -> q_dh s <> h) ->
  (forall s, In s (qm_cstates m) -> q_dh s <> h /\ q_handle s <> h) ->
  resolve_state flag m h = [].
Proof. exact resolve_state_unknown. Qed.
Print Assumptions C20_unknown_handle_nothing.

(* empty handle list: all states *)
Theorem C20_getmdstate_all : forall flag m,
  get_md_state flag m [] = qm_states m ++ (if flag then qm_cstates m else []).
Proof. exact get_md_state_all. Qed.
Print Assumptions C20_getmdstate_all.

(* GetContextStates *)
Theorem C20_getcontextstates_exact : forall m handles, handles <> [] ->
  let r := get_context_states m handles in
  keys_distinct r /\
  (forall s, In s r -> exists h, In h handles /\ In s (resolve_ctx m h)) /\
  (forall h s, In h handles -> In s (resolve_ctx m h) -> exists y, In y r /\ qs_eqb y s = true).
Proof. exact get_context_states_exact. Qed.
Print Assumptions C20_getcontextstates_exact.

(* an MDS handle selects exactly the context states of THAT MDS *)
Theorem C20_mds_handle : forall m h s,
  (forall c, In c (qm_cstates m) -> q_handle c <> h /\ q_dh c <> h) -> In h (qm_mds m) ->
  (In s (resolve_ctx m h) <-> In s (qm_cstates m) /\ q_mds s = h).
Proof. exact resolve_ctx_mds. Qed.
Print Assumptions C20_mds_handle.

(* request shape: the answer depends only on the SET of requested handles - a handle named twice or a different
   order of the handles selects the same states (by key) *)
Theorem C20_getmdstate_depends_on_handle_set : forall flag m hs1 hs2, hs1 <> [] -> hs2 <> [] ->
  (forall h, In h hs1 -> In h hs2) ->
  forall s, In s (get_md_state flag m hs1) -> exists y, In y (get_md_state flag m hs2) /\ qs_eqb y s = true.
Proof. exact get_md_state_handle_set. Qed.
Print Assumptions C20_getmdstate_depends_on_handle_set.

Theorem C20_getcontextstates_depends_on_handle_set : forall m hs1 hs2, hs1 <> [] -> hs2 <> [] ->
  (forall h, In h hs1 -> In h hs2) ->
  forall s, In s (get_context_states m hs1) -> exists y, In y (get_context_states m hs2) /\ qs_eqb y s = true.
Proof. exact get_context_states_handle_set. Qed.
Print Assumptions C20_getcontextstates_depends_on_handle_set.

(* containment, for every request incl. the empty one: nothing is returned that the MDIB does not hold; GetMdState
   returns a context state only when the provider is configured to do so; GetContextStates returns context
   states only *)
Theorem C20_nothing_outside_the_mdib : forall flag m handles s,
  (In s (get_md_state flag m handles) -> In s (qm_states m) \/ (flag = true /\ In s (qm_cstates m))) /\
  (In s (get_context_states m handles) -> In s (qm_cstates m)).
Proof. intros flag m handles s. split; [apply get_md_state_contained | apply get_context_states_contained]. Qed.
Print Assumptions C20_nothing_outside_the_mdib.

(* GetLocalizedText: every returned text satisfies every given constraint (references, version or latest
   version, languages, text widths, number of lines) *)
Theorem C20_text_filter_sound : forall st refs version langs widths lines both_key t,
  (forall r e, In r refs -> In e st -> fst e = r -> forall x, In x (snd e) -> x_ref x = r) ->
  In t (filter_texts st refs version langs widths lines both_key) ->
  text_ok st refs version langs widths lines t.
Proof. exact filter_texts_sound. Qed.
Print Assumptions C20_text_filter_sound.

(* without constraints: all texts of the latest version *)
Theorem C20_text_no_constraints_latest : forall st both_key t,
  In t (all_texts st) -> x_ver t = max_version st ->
  (forall e e', In e st -> In e' st -> fst e = fst e' -> e = e') ->
  In t (filter_texts st [] None [] [] [] both_key).
Proof. exact filter_texts_unconstrained. Qed.
Print Assumptions C20_text_no_constraints_latest.

Theorem C20_languages_exact : forall st,
  NoDup (supported_languages st) /\
  (forall l, In l (supported_languages st) <-> exists t, In t (all_texts st) /\ x_lang t = l).
Proof. exact supported_languages_exact. Qed.
Print Assumptions C20_languages_exact.

(* ---------------------------------------------------------------- histories on one storage
   [state_after ops] is the storage after any sequence of add / GetSupportedLanguages / GetLocalizedText
   operations (a GetLocalizedText request creates empty entries for unknown Refs: [st_touch]). *)

(* the storage stays a dict whose entry for a Ref holds texts of that Ref only ... *)
Theorem C20_history_storage_wf : forall ops, st_wf (state_after ops).
Proof. exact state_after_wf. Qed.
Print Assumptions C20_history_storage_wf.

(* ... and holds exactly the added texts, as a multiset: no query stores, drops or duplicates a text *)
Theorem C20_history_holds_exactly_added : forall ops, Permutation (all_texts (state_after ops)) (added ops).
Proof. exact state_after_holds_added. Qed.
Print Assumptions C20_history_holds_exactly_added.

(* soundness at every moment of every history, without side condition on the storage *)
Theorem C20_history_text_sound : forall ops refs version langs widths lines both_key t,
  In t (filter_texts (state_after ops) refs version langs widths lines both_key) ->
  text_ok (state_after ops) refs version langs widths lines t.
Proof. exact history_text_sound. Qed.
Print Assumptions C20_history_text_sound.

(* exactness: without TextWidth / NumberOfLines the answer IS the selection (every selected stored text
   exactly as often as it is stored), for requests that name each Ref once *)
Theorem C20_text_exact_without_size_constraints : forall st refs version langs both_key,
  st_wf st -> NoDup refs ->
  Permutation (filter_texts st refs version langs [] [] both_key)
              (filter (text_selected st refs version langs) (all_texts st)).
Proof. exact filter_texts_exact. Qed.
Print Assumptions C20_text_exact_without_size_constraints.

Theorem C20_history_text_exact : forall ops refs version langs both_key, NoDup refs ->
  Permutation (filter_texts (state_after ops) refs version langs [] [] both_key)
              (filter (text_selected (state_after ops) refs version langs) (all_texts (state_after ops))).
Proof. exact history_text_exact. Qed.
Print Assumptions C20_history_text_exact.

(* GetSupportedLanguages after any history: exactly the languages of the texts added so far, each once *)
Theorem C20_history_languages_exact : forall ops,
  NoDup (supported_languages (state_after ops)) /\
  (forall l, In l (supported_languages (state_after ops)) <-> exists t, In t (added ops) /\ x_lang t = l).
Proof. exact history_languages_exact. Qed.
Print Assumptions C20_history_languages_exact.

(* the answers are functions of the stored MULTISET: two storages with the same texts (whatever the order of
   keys and texts, whatever empty entries) answer alike; a cache or index must therefore be invisible *)
Theorem C20_answers_depend_on_stored_multiset : forall st1 st2 refs version langs bk1 bk2,
  st_wf st1 -> st_wf st2 -> Permutation (all_texts st1) (all_texts st2) -> NoDup refs ->
  Permutation (filter_texts st1 refs version langs [] [] bk1) (filter_texts st2 refs version langs [] [] bk2) /\
  (forall l, In l (supported_languages st1) <-> In l (supported_languages st2)).
Proof. exact answers_depend_on_multiset. Qed.
Print Assumptions C20_answers_depend_on_stored_multiset.

(* a history: languages asked, a known Ref gets a new language, an unknown Ref is requested and stored later,
   width / line variants with equal Ref + Lang + Version are all returned *)
Example C20_history_nonvacuous :
  let t1 := mkT 1 1 1 (Some 1) (Some 0) 1 in let t2 := mkT 2 1 2 (Some 1) (Some 0) 1 in
  let t3 := mkT 3 1 1 (Some 1) (Some 2) 2 in let t4 := mkT 4 7 3 (Some 1) None 1 in
  run_hist (fun _ => 0) [LAdd t1; LLangs; LAdd t2; LLangs; LText [7] None [] [] []; LAdd t4; LLangs;
                         LAdd t3; LAdd t1; LText [] None [1] [] []; LText [1] None [] [0; 2] []] []
  = [[1]; [1; 2]; []; [1; 2; 3]; [1; 3; 1]; [1; 3; 2; 2]].
Proof. vm_compute. reflexivity. Qed.

Example C20_nonvacuous :
  let m := mkQM [mkQ false 1 1 100; mkQ false 2 2 200]
                [mkQ true 11 5 100; mkQ true 12 5 100; mkQ true 13 6 200] [100; 200] in
  get_md_state true m [11; 5; 11; 1; 99] = [mkQ true 11 5 100; mkQ true 12 5 100; mkQ false 1 1 100] /\
  get_context_states m [200; 13] = [mkQ true 13 6 200].
Proof. vm_compute. split; reflexivity. Qed.
