(* placeholder during development *)
From SDC Require Import Location.Quote Location.Loc Location.Gen_Loc.
