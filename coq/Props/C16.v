(* C16 -- Location scopes round-trip; location filtering tolerates foreign scopes.
   Property theorems only; each is closed by [exact] of a lemma proved in Location/Proofs.v.
   Strings are UTF-8 byte lists; [loc_consts] is regenerated from the source on every run.
   [bad] is the abstract verdict of urlsplit's ipaddress / NFKC checks (never consulted on the
   scope texts the library produces itself, hence universally quantified). *)
From Coq Require Import List NArith Bool.
From SDC Require Import Location.Quote Location.Loc Location.Proofs Location.Prov Location.Prov_Proofs Location.Gen_Loc.
Import ListNotations.
Open Scope N_scope.

(* unquote undoes quote for every byte string and every safe set without '%' (the code uses '' and '/') *)
Theorem C16_unquote_quote : forall safe s,
  is_bytes s -> mem 37 safe = false -> unquote (quote safe s) = s.
Proof. exact unquote_quote. Qed.
Print Assumptions C16_unquote_quote.

(* the constants found in the source today satisfy the side conditions of the theorems below *)
Theorem C16_consts_ok : consts_ok loc_consts = true.
Proof. vm_compute. reflexivity. Qed.
Print Assumptions C16_consts_ok.

(* scope_string then from_scope_string is the identity: any byte values (reserved characters, '%',
   non-ASCII UTF-8, ...) in any combination of present / absent elements; the empty string counts as
   absent in the code, so it is excluded; the root must be non-empty and free of '/' *)
Theorem C16_roundtrip : forall bad l,
  wf_loc loc_consts l -> nonempty_fields l -> root_ok (l_root l) = true ->
  from_scope loc_consts (urlsplit bad) (scope_string loc_consts l) = inl l.
Proof. exact (roundtrip loc_consts C16_consts_ok). Qed.
Print Assumptions C16_roundtrip.

(* update_from_sdc_location + mk_scopes publish a scope for every location with one non-empty element *)
Theorem C16_published_defined : forall l v,
  wf_loc loc_consts l -> In (Some v) (l_vals l) -> v <> [] -> exists s, published_of loc_consts l = Some s.
Proof. exact (published_defined loc_consts). Qed.
Print Assumptions C16_published_defined.

(* ... and that scope is inside the location itself and inside every enclosing location l'
   (each element of l' absent or equal), for the code as it is and for the repaired code *)
Theorem C16_published_inside : forall bad fixed l l' s,
  wf_loc loc_consts l -> nonempty_fields l -> published_of loc_consts l = Some s ->
  l_root l' = c_ident_root loc_consts -> Forall2 elem_enclosed (l_vals l') (l_vals l) ->
  scope_matches loc_consts fixed (urlsplit bad) l' s = Ret true.
Proof. exact (published_inside loc_consts C16_consts_ok). Qed.
Print Assumptions C16_published_inside.

(* ... and inside no location that specifies an element differently *)
Theorem C16_not_inside_if_differs : forall bad fixed l l' s i v x,
  wf_loc loc_consts l -> published_of loc_consts l = Some s ->
  nth_error (l_vals l') i = Some (Some v) -> nth_error (l_vals l) i = Some x -> x <> Some v ->
  scope_matches loc_consts fixed (urlsplit bad) l' s = Ret false.
Proof. exact (published_not_inside loc_consts C16_consts_ok). Qed.
Print Assumptions C16_not_inside_if_differs.

Theorem C16_not_inside_if_root_differs : forall bad fixed l l' s,
  wf_loc loc_consts l -> published_of loc_consts l = Some s -> l_root l' <> c_ident_root loc_consts ->
  scope_matches loc_consts fixed (urlsplit bad) l' s = Ret false.
Proof. exact (published_not_inside_root loc_consts C16_consts_ok). Qed.
Print Assumptions C16_not_inside_if_root_differs.

(* the same two facts for the text produced by SdcLocation.scope_string *)
Theorem C16_scope_string_inside : forall bad fixed l l',
  wf_loc loc_consts l -> nonempty_fields l -> root_ok (l_root l) = true ->
  l_root l' = l_root l -> Forall2 elem_enclosed (l_vals l') (l_vals l) ->
  scope_matches loc_consts fixed (urlsplit bad) l' (scope_string loc_consts l) = Ret true.
Proof. exact (scope_string_inside loc_consts C16_consts_ok). Qed.
Print Assumptions C16_scope_string_inside.

Theorem C16_scope_string_not_inside : forall bad fixed l l' i v x,
  wf_loc loc_consts l -> nonempty_fields l -> root_ok (l_root l) = true ->
  nth_error (l_vals l') i = Some (Some v) -> nth_error (l_vals l) i = Some x -> x <> Some v ->
  scope_matches loc_consts fixed (urlsplit bad) l' (scope_string loc_consts l) = Ret false.
Proof. exact (scope_string_not_inside loc_consts C16_consts_ok). Qed.
Print Assumptions C16_scope_string_not_inside.

(* the containment test is exactly "same root, every own element absent or equal" *)
Theorem C16_contains_spec : forall self other, length (l_vals self) = length (l_vals other) ->
  (contains self other = true <->
   l_root self = l_root other /\ Forall2 elem_enclosed (l_vals self) (l_vals other)).
Proof. exact contains_spec. Qed.
Print Assumptions C16_contains_spec.

(* repaired code (ValueError of the scope parser means "not inside"): filtering never raises, for ANY
   behaviour of urlsplit, any own location, any services and scope strings; it returns exactly the
   services with a scope that parses to a location inside the own one *)
Theorem C16_filter_total : forall K split self svs,
  exists r, filter_inside K true split self svs = Ret r.
Proof. exact filter_total. Qed.
Print Assumptions C16_filter_total.

Theorem C16_filter_spec : forall K split self svs,
  filter_inside K true split self svs = Ret (filter (service_inside K split self) svs).
Proof. exact filter_spec. Qed.
Print Assumptions C16_filter_spec.

(* a service that publishes several scopes (several pm:Identification, foreign scopes, malformed ones) is
   inside a location iff SOME scope is, at whatever position; it is outside iff every scope is *)
Theorem C16_service_inside_iff_some_scope : forall K split self scopes,
  service_matches K true split self (Some scopes) = Ret true <->
  exists s, In s scopes /\ scope_matches K true split self s = Ret true.
Proof. exact service_any. Qed.
Print Assumptions C16_service_inside_iff_some_scope.

Theorem C16_service_outside_iff_every_scope : forall K split self scopes,
  service_matches K true split self (Some scopes) = Ret false <->
  forall s, In s scopes -> scope_matches K true split self s = Ret false.
Proof. exact service_none. Qed.
Print Assumptions C16_service_outside_iff_every_scope.

(* provider side, end to end: update_from_sdc_location on a state in ANY initial condition (LocationDetail
   present or None, any identifications) followed by mk_scopes publishes exactly the scope of the theorems
   above, the LocationDetail read in url_elements order is the location put in (named-field copy) ... *)
Theorem C16_provider_path : forall st l st', length (l_vals l) = 6%nat ->
  update_from_loc loc_consts st l = Ret st' ->
  exists s, published_of loc_consts l = Some s /\ mk_loc_scopes loc_consts st' = Ret [s] /\
            exists d, p_detail st' = Some d /\ detail_vals d = l_vals l.
Proof. exact (provider_path loc_consts). Qed.
Print Assumptions C16_provider_path.

Theorem C16_provider_defined : forall st l v,
  wf_loc loc_consts l -> In (Some v) (l_vals l) -> v <> [] -> exists st', update_from_loc loc_consts st l = Ret st'.
Proof. exact (provider_defined loc_consts). Qed.
Print Assumptions C16_provider_defined.

(* ... the published scope read back by from_scope_string is the location put in, all six elements + root *)
Theorem C16_provider_readback : forall bad st l st',
  wf_loc loc_consts l -> nonempty_fields l -> update_from_loc loc_consts st l = Ret st' ->
  exists s, mk_loc_scopes loc_consts st' = Ret [s] /\
            from_scope loc_consts (urlsplit bad) s = inl (mkLoc (c_ident_root loc_consts) (l_vals l)).
Proof. exact (provider_readback loc_consts C16_consts_ok). Qed.
Print Assumptions C16_provider_readback.

(* ... with additional identifications before / after the fallback identifier and any further scopes
   (MDS type, purpose) the Service is found inside the location and every enclosing one *)
Theorem C16_provider_service_inside : forall bad st l st' pre post others l',
  wf_loc loc_consts l -> nonempty_fields l -> update_from_loc loc_consts st l = Ret st' ->
  l_root l' = c_ident_root loc_consts -> Forall2 elem_enclosed (l_vals l') (l_vals l) ->
  exists scopes,
    mk_loc_scopes loc_consts (mkPState (pre ++ p_idents st' ++ post) (p_detail st')) = Ret scopes /\
    service_matches loc_consts true (urlsplit bad) l' (Some (scopes ++ others)) = Ret true.
Proof. exact (provider_service_inside loc_consts C16_consts_ok). Qed.
Print Assumptions C16_provider_service_inside.

(* ... and inside no location that specifies an element differently (the other scopes being no location
   scopes inside l') *)
Theorem C16_provider_service_not_inside : forall bad st l st' others l' i v x,
  wf_loc loc_consts l -> update_from_loc loc_consts st l = Ret st' ->
  nth_error (l_vals l') i = Some (Some v) -> nth_error (l_vals l) i = Some x -> x <> Some v ->
  Forall (fun o => scope_inside loc_consts (urlsplit bad) l' o = false) others ->
  exists s, mk_loc_scopes loc_consts st' = Ret [s] /\
    service_matches loc_consts true (urlsplit bad) l' (Some ([s] ++ others)) = Ret false.
Proof. exact (provider_service_not_inside loc_consts C16_consts_ok). Qed.
Print Assumptions C16_provider_service_not_inside.

(* the code as it is in /repo today (fixed = false) does raise: a scope with four path segments *)
Definition c16_witness_scope : bytes :=   (* "sdc.ctxt.loc:/a/b/c" *)
  [115; 100; 99; 46; 99; 116; 120; 116; 46; 108; 111; 99; 58; 47; 97; 47; 98; 47; 99].
Theorem C16_filter_total_unpatched_refuted : exists self svs,
  filter_inside loc_consts false (urlsplit false) self svs = Raise.
Proof.
  exists (mkLoc (c_default_root loc_consts) [None; None; None; None; None; None]),
         [Some [c16_witness_scope]].
  vm_compute. reflexivity.
Qed.
Print Assumptions C16_filter_total_unpatched_refuted.

(* non-vacuity: a location with reserved and non-ASCII bytes meets the hypotheses, is published,
   and its scope parses back *)
Example C16_nonvacuous :
  let l := mkLoc (c_default_root loc_consts)
                 [Some [72; 79; 47; 83; 80; 32; 37; 43; 38; 61]; None; None; Some [195; 169; 240; 159; 152; 128]; None; Some [66]] in
  wf_loc loc_consts l /\ nonempty_fields l /\ root_ok (l_root l) = true /\
  (exists s, published_of loc_consts l = Some s) /\
  from_scope loc_consts (urlsplit false) (scope_string loc_consts l) = inl l.
Proof.
  cbv zeta. split; [|split; [|split; [|split]]].
  - split; [reflexivity|]. repeat (constructor; try reflexivity).
  - repeat constructor; discriminate.
  - reflexivity.
  - eexists. vm_compute. reflexivity.
  - vm_compute. reflexivity.
Qed.
