(* C12 -- Instances never share mutable state or alter the defaults of later instances.
   Property theorems only; model: Alias/Model.v, proofs: Alias/Proofs.v.

   [fixed] is the code with fixes/C12_parse_default (an absent defaulted member is a COPY of the class
   default) and fixes/C12_mk_copy (mk_copy copies nested objects); [today] is the unrepaired code, for which
   the statement is refuted below.  Values are compared for EVERY unfolding depth n. *)
From Coq Require Import List ZArith.
From SDC Require Import Alias.Model Alias.Proofs.
Import ListNotations.

(* Whatever is constructed, parsed, copied (shallow or deep), updated from another instance or written
   afterwards -- every history -- each class default keeps the value it had at process start ... *)
Theorem C12_defaults_constant : forall c ds ops k n, parse_fresh c = true ->
  default_value n (run c (init ds) ops) k = default_value n (init ds) k.
Proof. exact defaults_constant. Qed.
Print Assumptions C12_defaults_constant.

(* ... hence a freshly constructed object has the same value at any time in the life of the process. *)
Theorem C12_fresh_instance_constant : forall c ds ops fs n, parse_fresh c = true ->
  last_values n (step c (run c (init ds) ops) (ONew fs)) = last_values n (step c (init ds) (ONew fs)).
Proof. exact new_constant. Qed.
Print Assumptions C12_fresh_instance_constant.

(* After any history of construct / parse / mk_copy / deepcopy / nested write, ANY further operation
   (including an update) leaves the value of every instance other than its target unchanged. *)
Theorem C12_instances_independent : forall ds ops o r' n, no_update ops -> target o <> Some r' ->
  r' < length (insts (run fixed (init ds) ops)) ->
  inst_values n (step fixed (run fixed (init ds) ops) o) r' = inst_values n (run fixed (init ds) ops) r'.
Proof. exact instances_independent. Qed.
Print Assumptions C12_instances_independent.

(* the invariant behind it: reachable states are separated (no nested object belongs to two instances,
   none belongs to an instance and a class default) *)
Theorem C12_separation_reachable : forall ds ops, no_update ops ->
  Inv (run fixed (init ds) ops) /\ Sep (run fixed (init ds) ops).
Proof.
  exact (fun ds ops NU => conj (reachable_inv fixed ds ops eq_refl) (reachable_sep fixed ds ops eq_refl eq_refl NU)).
Qed.
Print Assumptions C12_separation_reachable.

(* The unrepaired code violates the statement: parse with the defaulted member absent, write through the
   parsed instance -> the class default and every later cls() show the written value. *)
Theorem C12_parse_refuted : exists ds ops fs,
  default_value 3 (run today (init ds) ops) 0 <> default_value 3 (init ds) 0 /\
  last_values 3 (step today (run today (init ds) ops) (ONew fs)) <> last_values 3 (step today (init ds) (ONew fs)).
Proof.
  exists wit_parse_ds, wit_parse_ops, [XImm 0; XDefault 0]. split; vm_compute; discriminate.
Qed.
Print Assumptions C12_parse_refuted.

(* ... and a nested write on an mk_copy() changes the instance it was copied from. *)
Theorem C12_mkcopy_refuted : exists ds ops o r', no_update ops /\ target o <> Some r' /\
  inst_values 3 (step today (run today (init ds) ops) o) r' <> inst_values 3 (run today (init ds) ops) r'.
Proof.
  exists wit_parse_ds, [ONew [XImm 5; XDefault 0]; OCopy 0], (OWrite 1 [1] 0 7), 0.
  split; [reflexivity|]. split; vm_compute; discriminate.
Qed.
Print Assumptions C12_mkcopy_refuted.

(* non-vacuity: a history with defaults two levels deep, a parse with absent members, copies and writes;
   separation is not trivially true (the instances own nested objects) and the write is visible *)
Example C12_nonvacuous :
  let ds := [TNode [TImm 1; TNode [TImm 2]]; TNode []] in
  let ops := [ONew [XImm 4; XDefault 0; XNode [XDefault 1]]; OParse [XImm 5; XDefault 0; XNode []];
              OCopy 1; ODeepCopy 0; OWrite 1 [1; 1] 0 8; OWrite 2 [1] 0 9] in
  let s := run fixed (init ds) ops in
  all_insts s = [[TImm 4; TNode [TImm 1; TNode [TImm 2]]; TNode [TNode []]];
                 [TImm 5; TNode [TImm 1; TNode [TImm 8]]; TNode []];
                 [TImm 5; TNode [TImm 9; TNode [TImm 2]]; TNode []];
                 [TImm 4; TNode [TImm 1; TNode [TImm 2]]; TNode [TNode []]]] /\
  all_defaults s = ds /\ check_C12 fixed ds ops = true /\ check_C12 today ds ops = false.
Proof. vm_compute. repeat split. Qed.
