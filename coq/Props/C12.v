(* C12 -- Instances never share mutable state or alter the defaults of later instances.
   Property theorems only; model: Alias/Model.v, proofs: Alias/Proofs.v.

   A configuration [c] says what the code does at the four places where sharing can arise:
     parse_fresh  an absent defaulted member is a COPY of the class default      (fixes/C12_parse_default)
     mkcopy_deep  mk_copy copies nested objects                                  (fixes/C12_mk_copy)
     arg_fresh    no constructor stores the object of a mutable default ARGUMENT (true today: there is none)
     upd          update_from_other_container: UShallow = copy.copy per member (today), UDeep, UAlias
   [fixed] is the repaired code (UShallow), [today] the code before the repairs, [fixed_deep] the code with a
   deep-copying update, [shared_arg] / [byref_update] the two seeded classes of defect.
   Operations: construct, parse, mk_copy, deepcopy, update, nested attribute write and IN-PLACE list
   operations (append / pop / clear).  Values are compared for EVERY unfolding depth n. *)
From Coq Require Import List ZArith.
From SDC Require Import Alias.Model Alias.Proofs.
Import ListNotations.

(* Whatever is constructed, parsed, copied (shallow or deep), updated from another instance (any copy mode),
   written or mutated in place afterwards -- every history -- each class default keeps the value it had at
   process start ... *)
Theorem C12_defaults_constant : forall c ds ops k n, parse_fresh c = true -> arg_fresh c = true ->
  default_value n (run c (init ds) ops) k = default_value n (init ds) k.
Proof. exact defaults_constant. Qed.
Print Assumptions C12_defaults_constant.

(* ... hence a freshly constructed object has the same value at any time in the life of the process. *)
Theorem C12_fresh_instance_constant : forall c ds ops fs n, parse_fresh c = true -> arg_fresh c = true ->
  last_values n (step c (run c (init ds) ops) (ONew fs)) = last_values n (step c (init ds) (ONew fs)).
Proof. exact new_constant. Qed.
Print Assumptions C12_fresh_instance_constant.

(* After any history of construct / parse / mk_copy / deepcopy / nested write / in-place list operation, ANY
   further operation (including an update) leaves the value of every instance other than its target unchanged. *)
Theorem C12_instances_independent : forall ds ops o r' n, no_update ops -> target o <> Some r' ->
  r' < length (insts (run fixed (init ds) ops)) ->
  inst_values n (step fixed (run fixed (init ds) ops) o) r' = inst_values n (run fixed (init ds) ops) r'.
Proof. exact instances_independent. Qed.
Print Assumptions C12_instances_independent.

(* the invariant behind it: reachable states are separated (no nested object belongs to two instances,
   none belongs to an instance and a class default) *)
Theorem C12_separation_reachable : forall ds ops, no_update ops ->
  Inv (run fixed (init ds) ops) /\ Sep (run fixed (init ds) ops).
Proof.
  exact (fun ds ops NU => conj (reachable_inv fixed ds ops eq_refl eq_refl)
                               (reachable_sep fixed ds ops eq_refl eq_refl eq_refl NU)).
Qed.
Print Assumptions C12_separation_reachable.

(* an operation sequence over ANY separated heap stays separated: without updates, or with updates once
   update_from_other_container copies deeply *)
Theorem C12_separation_preserved : forall c s ops,
  parse_fresh c = true -> mkcopy_deep c = true -> arg_fresh c = true -> (upd c = UDeep \/ no_update ops) ->
  Inv s -> Sep s -> Inv (run c s ops) /\ Sep (run c s ops).
Proof. exact sep_preserved. Qed.
Print Assumptions C12_separation_preserved.

(* ... and then independence holds for EVERY history (what a deep-copying update would buy) *)
Theorem C12_instances_independent_if_update_deep : forall ds ops o r' n, target o <> Some r' ->
  r' < length (insts (run fixed_deep (init ds) ops)) ->
  inst_values n (step fixed_deep (run fixed_deep (init ds) ops) o) r' = inst_values n (run fixed_deep (init ds) ops) r'.
Proof. exact instances_independent_deep. Qed.
Print Assumptions C12_instances_independent_if_update_deep.

(* The unrepaired code violates the statement: parse with the defaulted member absent, write through the
   parsed instance -> the class default and every later cls() show the written value. *)
Theorem C12_parse_refuted : exists ds ops fs,
  default_value 3 (run today (init ds) ops) 0 <> default_value 3 (init ds) 0 /\
  last_values 3 (step today (run today (init ds) ops) (ONew fs)) <> last_values 3 (step today (init ds) (ONew fs)).
Proof.
  exists wit_parse_ds, wit_parse_ops, [XImm 0; XDefault 0]. split; vm_compute; discriminate.
Qed.
Print Assumptions C12_parse_refuted.

(* ... and a nested write on an mk_copy() changes the instance it was copied from. *)
Theorem C12_mkcopy_refuted : exists ds ops o r', no_update ops /\ target o <> Some r' /\
  inst_values 3 (step today (run today (init ds) ops) o) r' <> inst_values 3 (run today (init ds) ops) r'.
Proof.
  exists wit_parse_ds, [ONew [XImm 5; XDefault 0]; OCopy 0], (OWrite 1 [1] 0 7), 0.
  split; [reflexivity|]. split; vm_compute; discriminate.
Qed.
Print Assumptions C12_mkcopy_refuted.

(* STILL TRUE of the repaired code (known finding): after dst.update_from_other_container(src) the objects
   below the copied member values are shared, a nested write on dst changes src -- C12_instances_independent
   is the partial statement that excludes exactly the histories containing an update. *)
Theorem C12_update_refuted : exists ds ops o r', target o <> Some r' /\
  inst_values 4 (step fixed (run fixed (init ds) ops) o) r' <> inst_values 4 (run fixed (init ds) ops) r'.
Proof.
  exists [], [ONew [XNode [XNode [XImm 1]]]; ONew [XNode []]; OUpdate 1 0 []], (OWrite 1 [0; 0] 0 9), 0.
  split; vm_compute; discriminate.
Qed.
Print Assumptions C12_update_refuted.

(* class of defect 1: update hands list members over by reference -> an in-place append on the destination's
   list changes the source (the repaired code keeps them apart) *)
Theorem C12_update_byref_refuted : exists ds ops o r', target o <> Some r' /\
  inst_values 3 (step byref_update (run byref_update (init ds) ops) o) r'
    <> inst_values 3 (run byref_update (init ds) ops) r' /\
  inst_values 3 (step fixed (run fixed (init ds) ops) o) r' = inst_values 3 (run fixed (init ds) ops) r'.
Proof.
  exists [], [ONew [XNode [XImm 1]]; ONew [XNode []]; OUpdate 1 0 []], (OMut 1 [0] (MAppend 9)), 0.
  split; [vm_compute; discriminate|]. split; [vm_compute; discriminate|reflexivity].
Qed.
Print Assumptions C12_update_byref_refuted.

(* class of defect 2: a constructor that stores its mutable default ARGUMENT -- no update, no parse needed:
   an in-place append on one instance changes another instance, the default object, and every later cls() *)
Theorem C12_ctor_default_arg_refuted : exists ds ops o fs, no_update (ops ++ [o]) /\ target o <> Some 1 /\
  inst_values 3 (step shared_arg (run shared_arg (init ds) ops) o) 1 <> inst_values 3 (run shared_arg (init ds) ops) 1 /\
  default_value 3 (step shared_arg (run shared_arg (init ds) ops) o) 0 <> default_value 3 (init ds) 0 /\
  last_values 3 (step shared_arg (step shared_arg (run shared_arg (init ds) ops) o) (ONew fs))
    <> last_values 3 (step shared_arg (init ds) (ONew fs)).
Proof.
  exists wit_arg_ds, [ONew [XImm 5; XArg 0]; ONew [XImm 6; XArg 0]], (OMut 0 [1] (MAppend 7)), [XImm 0; XArg 0].
  split; [reflexivity|]. repeat split; vm_compute; discriminate.
Qed.
Print Assumptions C12_ctor_default_arg_refuted.

(* non-vacuity: a history with defaults two levels deep, a parse with absent members, copies, writes and
   in-place list operations; separation is not trivially true (the instances own nested objects) and the
   mutations are visible in their target only *)
Example C12_nonvacuous :
  let ds := [TNode [TImm 1; TNode [TImm 2]]; TNode []] in
  let ops := [ONew [XImm 4; XDefault 0; XNode [XDefault 1]]; OParse [XImm 5; XDefault 0; XNode []];
              OCopy 1; ODeepCopy 0; OWrite 1 [1; 1] 0 8; OWrite 2 [1] 0 9;
              OMut 2 [1; 1] (MAppend 3); OMut 3 [2] MClear; OMut 0 [1] MPop] in
  let s := run fixed (init ds) ops in
  all_insts s = [[TImm 4; TNode [TImm 1]; TNode [TNode []]];
                 [TImm 5; TNode [TImm 1; TNode [TImm 8]]; TNode []];
                 [TImm 5; TNode [TImm 9; TNode [TImm 2; TImm 3]]; TNode []];
                 [TImm 4; TNode [TImm 1; TNode [TImm 2]]; TNode []]] /\
  all_defaults s = ds /\ check_C12 fixed ds ops = true /\ check_C12 today ds ops = false.
Proof. vm_compute. repeat split. Qed.
