(* C02 -- MDIB version counters are monotonic, gap-free and referentially consistent.
   Property theorems only (model: Mdib/Model.v, proofs: Mdib/Proofs.v). *)
From Coq Require Import List ZArith.
From SDC Require Import Mdib.Model Mdib.Proofs Mdib.Proofs_Ctx.
Import ListNotations.
Open Scope Z_scope.

(* Every transaction of every kind (state, context, descriptor; any sequence of API calls, rejected or
   not; aborted by the application at any point or not): if it is not committed the MDIB is exactly
   what it was, if it is committed MdibVersion grew by exactly one -- or the transaction was empty and
   the MDIB is exactly what it was. *)
Theorem C02_version_step : forall k ab acts m,
  let m' := fst (transaction k ab acts m) in
  let c := snd (transaction k ab acts m) in
  (c <> 0 -> m' = m) /\ (c = 0 -> ver m' = ver m + 1 \/ m' = m).
Proof. exact version_step. Qed.
Print Assumptions C02_version_step.

(* over any history of transactions of any kind MdibVersion never decreases and has no gaps *)
Theorem C02_history_version : forall hist m,
  ver m <= ver (exec m hist) <= ver m + Z.of_nat (length hist).
Proof. exact any_history_version. Qed.
Print Assumptions C02_history_version.

(* histories of state transactions (metric, alert, component, operational, real-time sample; classic
   and entity interface; with rejected calls and aborts): the version of every state - or, while a
   handle is absent, the version remembered for it - never decreases; every state keeps referring to an
   existing descriptor and carries its DescriptorVersion; descriptors and context states are untouched *)
Theorem C02_state_history : forall hist m, Forall state_txn hist ->
  (forall h, ev_s m h <= ev_s (exec m hist) h) /\
  (states_consistent m -> states_consistent (exec m hist)) /\
  descrs (exec m hist) = descrs m /\ cstates (exec m hist) = cstates m /\
  ver m <= ver (exec m hist) <= ver m + Z.of_nat (length hist).
Proof. exact state_history. Qed.
Print Assumptions C02_state_history.

(* a state whose published content changed in a state transaction has StateVersion + 1; states the
   transaction did not name are untouched *)
Theorem C02_state_tx_strict : forall k m acts, 0 <= k < 5 -> state_only acts ->
  let m' := fst (transaction k None acts m) in
  (forall h s s', states m h = Some s -> states m' h = Some s' -> s' <> s -> s_ver s' = s_ver s + 1) /\
  (forall h, (forall p, ~ In (AState h p) acts) -> states m' h = states m h).
Proof.
  exact (fun k m acts Hk Ho =>
           conj (proj2 (state_tx_versions k m acts Hk Ho))
                (proj2 (proj2 (state_tx_frame k m acts Hk Ho)))).
Qed.
Print Assumptions C02_state_tx_strict.

(* context transactions (mk_context_state with explicit or generated handle, get_context_state, disassociate_all,
   deletion through the entity interface - any sequence of calls, rejected ones abandon the transaction): the
   version of every context state handle - or the version remembered for it while absent, so also across delete
   and re-create - never decreases; a changed context state has StateVersion + 1; descriptors and single states
   are untouched; every context state keeps referring to an existing context descriptor and carries its
   DescriptorVersion *)
Theorem C02_context_tx : forall m acts, ctx_only acts -> fresh_ok m acts ->
  let m' := fst (transaction 5 None acts m) in
  ((forall h, ev_c m h <= ev_c m' h) /\
   (forall h c c', cstates m h = Some c -> cstates m' h = Some c' -> c' <> c -> c_ver c' = c_ver c + 1) /\
   descrs m' = descrs m /\ states m' = states m) /\
  (cstates_consistent m -> cstates_consistent m').
Proof. exact (fun m acts Ho Hf => conj (ctx_tx_versions m acts Ho Hf) (ctx_tx_consistent m acts Ho Hf)). Qed.
Print Assumptions C02_context_tx.

Example C02_nonvacuous :
  let m := mkMdib (fun h => if Z.eqb h 7 then Some (mkDescr None K_METRIC 2 1) else None)
                  (fun h => if Z.eqb h 7 then Some (mkState 2 5 1) else None)
                  (fun _ => None) 10 (fun _ => None) (fun _ => None) (fun _ => None) [7] [] in
  let m' := exec m [(K_METRIC, None, [AState 7 42]); (K_METRIC, Some 1%nat, [AState 7 43]); (K_ALERT, None, [AState 7 44])] in
  ver m' = 11 /\ states m' 7 = Some (mkState 2 6 42) /\ Forall state_txn [(K_METRIC, @None nat, [AState 7 42])].
Proof.
  cbv zeta. split; [vm_compute; reflexivity|]. split; [vm_compute; reflexivity|].
  constructor; [|constructor]. split; [unfold K_METRIC; split; [apply Z.le_refl|reflexivity]|].
  intros a [<-|[]]. now exists 7, 42.
Qed.
