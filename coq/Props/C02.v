(* C02 -- MDIB version counters are monotonic, gap-free and referentially consistent.
   Property theorems only (model: Mdib/Model.v, proofs: Mdib/Proofs.v). *)
From Coq Require Import List ZArith.
From SDC Require Import Mdib.Model Mdib.Proofs Mdib.Proofs_Ctx Mdib.Proofs_Descr.
Import ListNotations.
Open Scope Z_scope.

(* Every transaction of every kind (state, context, descriptor; any sequence of API calls, rejected or
   not; aborted by the application at any point or not): if it is not committed the MDIB is exactly
   what it was, if it is committed MdibVersion grew by exactly one -- or the transaction was empty and
   the MDIB is exactly what it was. *)
Theorem C02_version_step : forall k ab acts m,
  let m' := fst (transaction k ab acts m) in
  let c := snd (transaction k ab acts m) in
  (c <> 0 -> m' = m) /\ (c = 0 -> ver m' = ver m + 1 \/ m' = m).
Proof. exact version_step. Qed.
Print Assumptions C02_version_step.

(* over any history of transactions of any kind MdibVersion never decreases and has no gaps *)
Theorem C02_history_version : forall hist m,
  ver m <= ver (exec m hist) <= ver m + Z.of_nat (length hist).
Proof. exact any_history_version. Qed.
Print Assumptions C02_history_version.

(* histories of state transactions (metric, alert, component, operational, real-time sample; classic
   and entity interface; with rejected calls and aborts): the version of every state - or, while a
   handle is absent, the version remembered for it - never decreases; every state keeps referring to an
   existing descriptor and carries its DescriptorVersion; descriptors and context states are untouched *)
Theorem C02_state_history : forall hist m, Forall state_txn hist ->
  (forall h, ev_s m h <= ev_s (exec m hist) h) /\
  (states_consistent m -> states_consistent (exec m hist)) /\
  descrs (exec m hist) = descrs m /\ cstates (exec m hist) = cstates m /\
  ver m <= ver (exec m hist) <= ver m + Z.of_nat (length hist).
Proof. exact state_history. Qed.
Print Assumptions C02_state_history.

(* a state whose published content changed in a state transaction has StateVersion + 1; states the
   transaction did not name are untouched *)
Theorem C02_state_tx_strict : forall k m acts, 0 <= k < 5 -> state_only acts ->
  let m' := fst (transaction k None acts m) in
  (forall h s s', states m h = Some s -> states m' h = Some s' -> s' <> s -> s_ver s' = s_ver s + 1) /\
  (forall h, (forall p, ~ In (AState h p) acts) -> states m' h = states m h).
Proof.
  exact (fun k m acts Hk Ho =>
           conj (proj2 (state_tx_versions k m acts Hk Ho))
                (proj2 (proj2 (state_tx_frame k m acts Hk Ho)))).
Qed.
Print Assumptions C02_state_tx_strict.

(* context transactions (mk_context_state with explicit or generated handle, get_context_state, disassociate_all,
   deletion through the entity interface - any sequence of calls, rejected ones abandon the transaction): the
   version of every context state handle - or the version remembered for it while absent, so also across delete
   and re-create - never decreases; a changed context state has StateVersion + 1; descriptors and single states
   are untouched; every context state keeps referring to an existing context descriptor and carries its
   DescriptorVersion *)
Theorem C02_context_tx : forall m acts, ctx_only acts -> fresh_ok m acts ->
  let m' := fst (transaction 5 None acts m) in
  ((forall h, ev_c m h <= ev_c m' h) /\
   (forall h c c', cstates m h = Some c -> cstates m' h = Some c' -> c' <> c -> c_ver c' = c_ver c + 1) /\
   descrs m' = descrs m /\ states m' = states m) /\
  (cstates_consistent m -> cstates_consistent m').
Proof. exact (fun m acts Ho Hf => conj (ctx_tx_versions m acts Ho Hf) (ctx_tx_consistent m acts Ho Hf)). Qed.
Print Assumptions C02_context_tx.

Example C02_nonvacuous :
  let m := mkMdib (fun h => if Z.eqb h 7 then Some (mkDescr None K_METRIC 2 1) else None)
                  (fun h => if Z.eqb h 7 then Some (mkState 2 5 1) else None)
                  (fun _ => None) 10 (fun _ => None) (fun _ => None) (fun _ => None) [7] [] in
  let m' := exec m [(K_METRIC, None, [AState 7 42]); (K_METRIC, Some 1%nat, [AState 7 43]); (K_ALERT, None, [AState 7 44])] in
  ver m' = 11 /\ states m' 7 = Some (mkState 2 6 42) /\ Forall state_txn [(K_METRIC, @None nat, [AState 7 42])].
Proof.
  cbv zeta. split; [vm_compute; reflexivity|]. split; [vm_compute; reflexivity|].
  constructor; [|constructor]. split; [unfold K_METRIC; split; [apply Z.le_refl|reflexivity]|].
  intros a [<-|[]]. now exists 7, 42.
Qed.

(* ---------------------------------------------------------------- descriptor transactions (kind 6) *)
(* Side conditions (Mdib/Proofs_Descr.v):
     mdib_wf m        ddom / cdom list every descriptor / context state, no single state without descriptor,
                      context descriptors have no single state (a property of the MDIB, preserved by every transaction:
                      C02_history_all needs it for the initial MDIB only);
     descr_only acts  only add_descriptor / get_descriptor / remove_descriptor / get_state calls (and their entity twins).
     tree_ok m        every non-root descriptor has an existing parent (needed for the (re-)creation clause only; a property
                      of the MDIB as well, preserved by every transaction: C02_descr_tx_tree, C02_history_all).
   No condition relates the calls of one transaction to each other: a transaction that creates or updates a descriptor
   inside a subtree it removes, or creates one below a parent that neither exists nor is created with it, is refused
   (C02_descr_conflict_rejected, C02_descr_orphan_rejected); every other combination - several children of one parent,
   parent and child, nested removals, any order - is covered by the theorems. *)

(* a transaction that creates / updates a descriptor (or adds a child) inside a subtree it removes: ApiUsageError,
   the MDIB is exactly what it was *)
Theorem C02_descr_conflict_rejected : forall m acts t,
  body 6 m empty_tx acts = Ok t -> subtree_conflict m t = true -> transaction 6 None acts m = (m, 3).
Proof. exact conflict_rejected. Qed.
Print Assumptions C02_descr_conflict_rejected.

(* a transaction that creates a descriptor whose parent neither exists nor is created by the same transaction: ApiUsageError,
   the MDIB is exactly what it was *)
Theorem C02_descr_orphan_rejected : forall m acts t,
  body 6 m empty_tx acts = Ok t -> orphan_create m t = true -> transaction 6 None acts m = (m, 3).
Proof. exact orphan_rejected. Qed.
Print Assumptions C02_descr_orphan_rejected.

(* 1. a descriptor that exists before and after a committed descriptor transaction has its version unchanged or + 1;
   + 1 exactly when it is updated by a call or is the parent of an added / removed descriptor - once, however many
   children are added and removed (its parent, kind and, if only bumped, its content are kept); otherwise it is untouched.
   (A parent that is itself removed does not exist afterwards: C02_descr_tx_survivor.) *)
Theorem C02_descr_tx_versions : forall m acts, mdib_wf m -> descr_only acts ->
  snd (transaction 6 None acts m) = 0 ->
  forall h d0 d', descrs m h = Some d0 -> descrs (fst (transaction 6 None acts m)) h = Some d' ->
    (touched m acts h /\ d_ver d' = d_ver d0 + 1 /\ d_parent d' = d_parent d0 /\ d_kind d' = d_kind d0 /\
     ((forall p, ~ In (ADUpd h p) acts) -> d_pay d' = d_pay d0)) \/
    (~ touched m acts h /\ d' = d0).
Proof. exact descr_tx_versions. Qed.
Print Assumptions C02_descr_tx_versions.

Theorem C02_descr_tx_survivor : forall m acts, mdib_wf m -> descr_only acts ->
  snd (transaction 6 None acts m) = 0 ->
  forall h D, In (ADDel D) acts -> In h (subtree m D) -> descrs (fst (transaction 6 None acts m)) h = None.
Proof. exact descr_tx_survivor. Qed.
Print Assumptions C02_descr_tx_survivor.

(* frame: a handle that no call names, that is not the parent of an added / removed descriptor and is not below a removed
   one keeps its descriptor (or stays absent) and its state, committed or not *)
Theorem C02_descr_tx_frame : forall m acts, mdib_wf m -> descr_only acts ->
  forall h, ~ named acts h -> ~ touched m acts h -> (forall D, In (ADDel D) acts -> ~ below m h D) ->
    descrs (fst (transaction 6 None acts m)) h = descrs m h /\ states (fst (transaction 6 None acts m)) h = states m h.
Proof. exact descr_tx_frame. Qed.
Print Assumptions C02_descr_tx_frame.

(* 2. every state keeps referring to an existing descriptor and carries its DescriptorVersion - also the states of updated
   descriptors, of bumped parents and of created descriptors *)
Theorem C02_descr_tx_consistent : forall m acts, mdib_wf m -> descr_only acts ->
  states_consistent m -> states_consistent (fst (transaction 6 None acts m)).
Proof. exact descr_tx_consistent. Qed.
Print Assumptions C02_descr_tx_consistent.

(* a StateVersion moves by at most one; a descriptor that got a new version (updated or bumped) takes its state along:
   new StateVersion, new DescriptorVersion *)
Theorem C02_descr_tx_states : forall m acts, mdib_wf m -> descr_only acts ->
  (forall h o s', states m h = Some o -> states (fst (transaction 6 None acts m)) h = Some s' ->
     s' = o \/ s_ver s' = s_ver o + 1) /\
  (states_consistent m -> forall h d0 d' o, descrs m h = Some d0 -> descrs (fst (transaction 6 None acts m)) h = Some d' ->
     d_ver d' <> d_ver d0 -> states m h = Some o ->
     exists s', states (fst (transaction 6 None acts m)) h = Some s' /\ s_ver s' = s_ver o + 1 /\ s_dver s' = d_ver d').
Proof. exact descr_tx_states. Qed.
Print Assumptions C02_descr_tx_states.

(* 3a. removal: the whole subtree is gone with its states and context states; the last versions are remembered per handle
   (also when a descendant is removed by a call of its own in the same transaction, in either order) *)
Theorem C02_descr_tx_deleted : forall m acts, mdib_wf m -> descr_only acts ->
  snd (transaction 6 None acts m) = 0 ->
  forall D x, In (ADDel D) acts -> In x (subtree m D) ->
    descrs (fst (transaction 6 None acts m)) x = None /\ states (fst (transaction 6 None acts m)) x = None /\
    (forall d0, descrs m x = Some d0 -> sv_d (fst (transaction 6 None acts m)) x = Some (d_ver d0)) /\
    (forall s, states m x = Some s -> sv_s (fst (transaction 6 None acts m)) x = Some (s_ver s)) /\
    (forall ch c, cstates m ch = Some c -> c_dh c = x ->
       cstates (fst (transaction 6 None acts m)) ch = None /\ sv_c (fst (transaction 6 None acts m)) ch = Some (c_ver c)).
Proof. exact descr_tx_deleted. Qed.
Print Assumptions C02_descr_tx_deleted.

(* [subtree m D] is the real subtree: x is in it iff x has a descriptor and D is reachable from x over parent links *)
Theorem C02_subtree_exact : forall m, mdib_wf m -> forall D x,
  In x (subtree m D) <-> descrs m x <> None /\ below m x D.
Proof. exact subtree_exact. Qed.
Print Assumptions C02_subtree_exact.

(* 3b. (re-)creation: the added descriptor starts at 0 or continues from the remembered version + 1
   ([set_version sv h 0] = saved + 1 if a version is remembered for h, else 0); its state carries that DescriptorVersion
   and continues its own counter the same way *)
Theorem C02_descr_tx_created : forall m acts, mdib_wf m -> descr_only acts -> tree_ok m ->
  snd (transaction 6 None acts m) = 0 ->
  forall h par k p sp, In (ADAdd h par k p sp) acts ->
    descrs m h = None /\
    descrs (fst (transaction 6 None acts m)) h = Some (mkDescr par k (set_version (sv_d m) h 0) p) /\
    (k <> K_CTX -> exists s, states (fst (transaction 6 None acts m)) h = Some s /\
                             s_dver s = set_version (sv_d m) h 0 /\ s_ver s = set_version (sv_s m) h 0).
Proof. exact descr_tx_created. Qed.
Print Assumptions C02_descr_tx_created.

(* every non-root descriptor has an existing parent - also after removals of whole subtrees (all descendants go along) and
   after additions (the parent exists or is added in the same transaction, otherwise the transaction is refused) *)
Theorem C02_descr_tx_tree : forall m acts, mdib_wf m -> descr_only acts ->
  tree_ok m -> tree_ok (fst (transaction 6 None acts m)).
Proof. exact descr_tx_tree. Qed.
Print Assumptions C02_descr_tx_tree.

(* 4. histories of transactions of ALL kinds (state, context, descriptor with ANY descriptor calls; aborted ones arbitrary;
   [hist_ok] only says that the calls fit the kind of transaction and that uuid4 handles are fresh): well-formedness and
   state <-> descriptor consistency and "every non-root descriptor has an existing parent" are preserved (needed for the
   initial MDIB only), the version of every descriptor handle - present or remembered, so also across delete and
   re-create - never decreases *)
Theorem C02_history_all : forall hist m, mdib_wf m -> hist_ok m hist ->
  mdib_wf (exec m hist) /\
  (states_consistent m -> states_consistent (exec m hist)) /\
  (tree_ok m -> tree_ok (exec m hist)) /\
  (forall h, ev_d m h <= ev_d (exec m hist) h) /\
  (forall h d d', descrs m h = Some d -> descrs (exec m hist) h = Some d' -> d_ver d <= d_ver d').
Proof. exact all_history. Qed.
Print Assumptions C02_history_all.

(* the transactions that used to leave states without a descriptor (or raised in the middle of the commit) on
   1 <- 2 <- 3 are refused now; a removal nested in another removal commits to a consistent MDIB *)
Example C02_descr_add_below_removed_rejected : rejected [ADAdd 4 (Some 2) K_METRIC 40 41; ADDel 2].
Proof. exact add_below_removed_rejected. Qed.
Example C02_descr_update_below_removed_rejected : rejected [ADUpd 3 33; ADDel 2].
Proof. exact update_below_removed_rejected. Qed.
Example C02_descr_update_after_remove_rejected : rejected [ADDel 2; ADUpd 3 33].
Proof. exact update_after_remove_rejected. Qed.
(* the first transaction of the orphan history (add a descriptor below the missing handle 9) is refused; parent and child
   in one transaction commit in either order *)
Example C02_descr_orphan_add_rejected : rejected [ADAdd 4 (Some 9) K_METRIC 40 41].
Proof. exact orphan_add_rejected. Qed.
Example C02_descr_parent_and_child_commit :
  snd (transaction 6 None [ADAdd 4 (Some 9) K_METRIC 40 41; ADAdd 9 (Some 1) K_COMP 90 91] w_m) = 0 /\
  snd (transaction 6 None [ADAdd 9 (Some 1) K_COMP 90 91; ADAdd 4 (Some 9) K_METRIC 40 41] w_m) = 0.
Proof. exact parent_and_child_commit. Qed.
Example C02_descr_nested_remove_commits :
  let r := transaction 6 None [ADDel 3; ADDel 1] w_m in
  snd r = 0 /\ ver (fst r) = 1 /\ states_consistent (fst r) /\ mdib_wf (fst r) /\
  map (descrs (fst r)) [1; 2; 3] = [None; None; None] /\ map (states (fst r)) [1; 2; 3] = [None; None; None] /\
  map (sv_d (fst r)) [1; 2; 3] = [Some 0; Some 0; Some 0] /\ map (sv_s (fst r)) [1; 2; 3] = [Some 0; Some 0; Some 0].
Proof. exact nested_remove_commits. Qed.

(* the hypotheses of the descriptor theorems are satisfiable: parent 2 with children 3 and 4, one transaction adds 5
   below 2 (5 has remembered versions 6 / 2), removes 3 and updates 4 *)
Example C02_descr_nonvacuous :
  tree_ok ex_m /\ mdib_wf ex_m /\ states_consistent ex_m /\ descr_only ex_acts /\
  let r := transaction 6 None ex_acts ex_m in
  snd r = 0 /\ ver (fst r) = 11 /\
  map (descrs (fst r)) [1; 2; 3; 4; 5] =
    [Some (mkDescr None K_COMP 0 10); Some (mkDescr (Some 1) K_COMP 4 20); None;
     Some (mkDescr (Some 2) K_METRIC 6 42); Some (mkDescr (Some 2) K_METRIC 7 50)] /\
  map (states (fst r)) [1; 2; 3; 4; 5] =
    [Some (mkState 0 2 11); Some (mkState 4 8 21); None; Some (mkState 6 1 41); Some (mkState 7 3 51)] /\
  sv_d (fst r) 3 = Some 1 /\ sv_s (fst r) 3 = Some 4.
Proof. exact (conj ex_tree descr_tx_nonvacuous). Qed.
