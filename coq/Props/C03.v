(* C03 -- Transactions are atomic and the data they hand out is isolated from the MDIB.
   Property theorems only.  Atomicity is a theorem about the provider model (Mdib/Model.v); isolation of
   handed-out objects is the separation theorem of the object-graph model (Alias/, shared with C12) plus
   the differential `alias` stream that mutates every nested path of every handed-out object. *)
From Coq Require Import List ZArith.
From SDC Require Import Mdib.Model Mdib.Proofs.
Import ListNotations.
Open Scope Z_scope.

(* a transaction that is not committed - whatever the reason - leaves the MDIB (content, lookups are
   functions of the content, all version counters, saved versions) exactly as it was *)
Theorem C03_not_committed_noop : forall k ab acts m,
  snd (transaction k ab acts m) <> 0 -> fst (transaction k ab acts m) = m.
Proof. exact transaction_not_committed_noop. Qed.
Print Assumptions C03_not_committed_noop.

(* application code raising after ANY number n of API calls inside the transaction body *)
Theorem C03_abort_at_any_point : forall k n acts m,
  snd (transaction k (Some n) acts m) <> 0 /\ fst (transaction k (Some n) acts m) = m.
Proof. exact abort_never_commits. Qed.
Print Assumptions C03_abort_at_any_point.

(* an API call the transaction rejects (KeyError / ValueError / ApiUsageError) at any position *)
Theorem C03_rejected_call : forall k m acts1 a acts2 t e,
  body k m empty_tx acts1 = Ok t -> apply_action k m t a = Rej e ->
  fst (transaction k None (acts1 ++ a :: acts2) m) = m /\
  snd (transaction k None (acts1 ++ a :: acts2) m) <> 0.
Proof. exact rejected_call_noop. Qed.
Print Assumptions C03_rejected_call.

(* the result code tells exactly whether the MDIB may have changed *)
Theorem C03_committed_or_untouched : forall k ab acts m,
  snd (transaction k ab acts m) = 0 \/ fst (transaction k ab acts m) = m.
Proof.
  exact (fun k ab acts m =>
           match Z.eq_dec (snd (transaction k ab acts m)) 0 with
           | left e => or_introl e
           | right n => or_intror (transaction_not_committed_noop k ab acts m n)
           end).
Qed.
Print Assumptions C03_committed_or_untouched.

Example C03_nonvacuous :
  let m := mkMdib (fun h => if Z.eqb h 7 then Some (mkDescr None K_METRIC 2 1) else None)
                  (fun h => if Z.eqb h 7 then Some (mkState 2 5 1) else None)
                  (fun _ => None) 10 (fun _ => None) (fun _ => None) (fun _ => None) [7] [] in
  snd (transaction K_METRIC None [AState 7 1; AState 8 2] m) = 1 /\       (* KeyError on the 2nd call *)
  snd (transaction K_METRIC None [AState 7 1; AState 7 2] m) = 2 /\       (* ValueError: already in transaction *)
  snd (transaction K_ALERT None [AState 7 1] m) = 3 /\                    (* ApiUsageError: wrong kind *)
  snd (transaction K_METRIC (Some 1%nat) [AState 7 1] m) = 4 /\           (* aborted by the application *)
  snd (transaction K_METRIC None [AState 7 1] m) = 0.
Proof. vm_compute. repeat split. Qed.
