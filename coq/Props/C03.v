(* C03 -- Transactions are atomic and the data they hand out is isolated from the MDIB.
   Property theorems only.  Atomicity is a theorem about the provider model (Mdib/Model.v); isolation of
   handed-out objects is the separation theorem of the object-graph model (Alias/, shared with C12) plus
   the differential `alias` stream that mutates every nested path of every handed-out object. *)
From Coq Require Import List ZArith.
From SDC Require Import Mdib.Model Mdib.Proofs.
From SDC Require Alias.Model Alias.Proofs Alias.Isolation_Proofs.
Import ListNotations.
Open Scope Z_scope.

(* a transaction that is not committed - whatever the reason - leaves the MDIB (content, lookups are
   functions of the content, all version counters, saved versions) exactly as it was *)
Theorem C03_not_committed_noop : forall k ab acts m,
  snd (transaction k ab acts m) <> 0 -> fst (transaction k ab acts m) = m.
Proof. exact transaction_not_committed_noop. Qed.
Print Assumptions C03_not_committed_noop.

(* application code raising after ANY number n of API calls inside the transaction body *)
Theorem C03_abort_at_any_point : forall k n acts m,
  snd (transaction k (Some n) acts m) <> 0 /\ fst (transaction k (Some n) acts m) = m.
Proof. exact abort_never_commits. Qed.
Print Assumptions C03_abort_at_any_point.

(* an API call the transaction rejects (KeyError / ValueError / ApiUsageError) at any position *)
Theorem C03_rejected_call : forall k m acts1 a acts2 t e,
  body k m empty_tx acts1 = Ok t -> apply_action k m t a = Rej e ->
  fst (transaction k None (acts1 ++ a :: acts2) m) = m /\
  snd (transaction k None (acts1 ++ a :: acts2) m) <> 0.
Proof. exact rejected_call_noop. Qed.
Print Assumptions C03_rejected_call.

(* the result code tells exactly whether the MDIB may have changed *)
Theorem C03_committed_or_untouched : forall k ab acts m,
  snd (transaction k ab acts m) = 0 \/ fst (transaction k ab acts m) = m.
Proof.
  exact (fun k ab acts m =>
           match Z.eq_dec (snd (transaction k ab acts m)) 0 with
           | left e => or_introl e
           | right n => or_intror (transaction_not_committed_noop k ab acts m n)
           end).
Qed.
Print Assumptions C03_committed_or_untouched.

(* ---- isolation of handed-out objects (object-graph model Alias/, configuration [fixed] = the code with the
   mk_copy / parse-default repairs; [OCopy r] is what every transaction getter, entity getter and report
   builder does before it hands an object out) ---------------------------------------------------------- *)
Module A := Alias.Model.

(* (a) after ANY history of construct / parse / copy / nested write / in-place list operation the MDIB hands
   out a copy of stored object r; whatever the application then does - nested writes and in-place list
   operations at any depth of the copy, further copies, new objects, writes to any OTHER stored object -
   for as long as it likes, the stored object keeps its value at every unfolding depth n *)
Theorem C03_handed_out_copy_isolated : forall ds ops r app n,
  A.no_update ops -> A.no_update app -> Forall (fun o => A.target o <> Some r) app ->
  (r < length (A.insts (A.run A.fixed (A.init ds) ops)))%nat ->
  A.inst_values n (A.run A.fixed (A.init ds) (ops ++ A.OCopy r :: app)) r =
  A.inst_values n (A.run A.fixed (A.init ds) ops) r.
Proof. exact Alias.Isolation_Proofs.handed_out_copy_isolated. Qed.
Print Assumptions C03_handed_out_copy_isolated.

(* (b) the other direction: the handed-out copy is a snapshot - later commits that rewrite the stored object
   (or anything else but the copy) never show in it *)
Theorem C03_handed_out_copy_stable : forall ds ops r later n,
  A.no_update ops -> A.no_update later ->
  (r < length (A.insts (A.run A.fixed (A.init ds) ops)))%nat ->
  Forall (fun o => A.target o <> Some (length (A.insts (A.run A.fixed (A.init ds) ops)))) later ->
  A.inst_values n (A.run A.fixed (A.init ds) (ops ++ A.OCopy r :: later)) (length (A.insts (A.run A.fixed (A.init ds) ops))) =
  A.inst_values n (A.run A.fixed (A.init ds) (ops ++ [A.OCopy r])) (length (A.insts (A.run A.fixed (A.init ds) ops))).
Proof. exact Alias.Isolation_Proofs.handed_out_copy_stable. Qed.
Print Assumptions C03_handed_out_copy_stable.

(* the statement is FALSE of a getter that hands out a shallow copy (mk_copy before fixes/C12_mk_copy; the
   class of the seeded change C03_mkcopy_props): one nested write on the copy shows in the stored object *)
Theorem C03_shallow_copy_refuted : exists ds ops r app,
  A.no_update ops /\ A.no_update app /\ Forall (fun o => A.target o <> Some r) app /\
  (r < length (A.insts (A.run A.today (A.init ds) ops)))%nat /\
  A.inst_values 3%nat (A.run A.today (A.init ds) (ops ++ A.OCopy r :: app)) r <>
  A.inst_values 3%nat (A.run A.today (A.init ds) ops) r.
Proof.
  exists Alias.Proofs.wit_parse_ds, [A.ONew [A.XImm 5; A.XDefault 0]], 0%nat, [A.OWrite 1%nat [1%nat] 0%nat 7].
  split; [reflexivity|]. split; [reflexivity|]. split; [repeat constructor; discriminate|].
  split; vm_compute; [auto|discriminate].
Qed.
Print Assumptions C03_shallow_copy_refuted.

(* hypotheses are satisfiable and the conclusion is not trivial: the copy really is written *)
Example C03_isolation_nonvacuous :
  let ds := Alias.Proofs.wit_parse_ds in
  let ops := [A.ONew [A.XImm 5; A.XDefault 0]] in
  let app := [A.OWrite 1%nat [1%nat] 0%nat 7; A.OMut 1%nat [1%nat] (A.MAppend 9)] in
  A.inst_values 3%nat (A.run A.fixed (A.init ds) (ops ++ A.OCopy 0%nat :: app)) 0%nat = A.inst_values 3%nat (A.run A.fixed (A.init ds) ops) 0%nat /\
  A.inst_values 3%nat (A.run A.fixed (A.init ds) (ops ++ A.OCopy 0%nat :: app)) 1%nat <> A.inst_values 3%nat (A.run A.fixed (A.init ds) ops) 0%nat.
Proof. vm_compute. split; [reflexivity|discriminate]. Qed.

Example C03_nonvacuous :
  let m := mkMdib (fun h => if Z.eqb h 7 then Some (mkDescr None K_METRIC 2 1) else None)
                  (fun h => if Z.eqb h 7 then Some (mkState 2 5 1) else None)
                  (fun _ => None) 10 (fun _ => None) (fun _ => None) (fun _ => None) [7] [] in
  snd (transaction K_METRIC None [AState 7 1; AState 8 2] m) = 1 /\       (* KeyError on the 2nd call *)
  snd (transaction K_METRIC None [AState 7 1; AState 7 2] m) = 2 /\       (* ValueError: already in transaction *)
  snd (transaction K_ALERT None [AState 7 1] m) = 3 /\                    (* ApiUsageError: wrong kind *)
  snd (transaction K_METRIC (Some 1%nat) [AState 7 1] m) = 4 /\           (* aborted by the application *)
  snd (transaction K_METRIC None [AState 7 1] m) = 0.
Proof. vm_compute. repeat split. Qed.
