(* C04 -- Reports are complete, truthful, schema-valid and delivered in version order.
   Property theorems only.  Content: Mdib/Model.v; delivery order under concurrent writers: Conc/Model.v. *)
From Coq Require Import List ZArith.
From SDC Require Import Mdib.Model Mdib.Proofs.
Import ListNotations.
Open Scope Z_scope.

(* the report of a committed state transaction (its item list, stamped with the committed MdibVersion)
   contains exactly the states the transaction changed - each once, with the values and version counters
   they have in the MDIB after the commit - and nothing else *)
Theorem C04_state_report_exact : forall k m t, stx_ok k m t ->
  let m' := commit_states m t in
  NoDup (map fst (t_s t)) /\
  (forall h s, In (h, s) (t_s t) -> states m' h = Some s /\ states m h <> Some s) /\
  (forall h, states m' h <> states m h -> exists s, In (h, s) (t_s t)) /\
  (t_s t <> [] -> ver m' = ver m + 1).
Proof. exact state_report_exact. Qed.
Print Assumptions C04_state_report_exact.

(* every state transaction body that is accepted produces such an item list *)
Theorem C04_body_wellformed : forall k m acts t, 0 <= k < 5 -> state_only acts ->
  body k m empty_tx acts = Ok t -> stx_ok k m t.
Proof. exact (fun k m acts t Hk Ho B => body_state_ok k m Hk acts empty_tx t Ho (empty_stx_ok k m) B). Qed.
Print Assumptions C04_body_wellformed.

(* ---- delivery order under concurrent writers (model: Conc/Model.v, programs traced from the running code) ---- *)
From SDC Require Import Conc.Model Conc.Proofs Conc.Gen_Programs.

(* the traced commit sends its reports between acquiring and releasing the transaction lock *)
Theorem C04_commit_program_safe : prog_eqb prog_commit writer_prog = true.
Proof. exact eq_refl. Qed.
Print Assumptions C04_commit_program_safe.

(* ANY number of writer threads (each committing any number of transactions) and request handlers, EVERY
   interleaving of their lock acquisitions: each subscriber is handed the reports in strictly increasing
   MdibVersion order, and never a version the MDIB has not reached *)
Theorem C04_order : forall progs v0 sched,
  Forall (fun p => p = prog_commit \/ In p handler_programs) progs ->
  sorted_lt (g_queue (run sched (init progs v0))) = true /\
  Forall (fun q => q <= g_ver (run sched (init progs v0))) (g_queue (run sched (init progs v0))).
Proof.
  exact (fun progs v0 sched Hp =>
           let ok := conj C04_commit_program_safe (conj (eq_refl : forallb (fun p => prog_eqb p reader_prog) handler_programs = true) Hp) in
           conj (order_all_schedules prog_commit handler_programs progs v0 sched ok)
                (queue_bounded prog_commit handler_programs progs v0 sched ok)).
Qed.
Print Assumptions C04_order.

(* the hypothesis matters: sending after the locks were released lets version 2 overtake version 1 *)
Theorem C04_unsafe_refuted :
  exists sched, sorted_lt (g_queue (run sched (init [unsafe_writer_prog; unsafe_writer_prog] 0))) = false.
Proof. exists [0; 0; 0; 0; 0; 1; 1; 1; 1; 1; 1; 0]%nat. vm_compute. reflexivity. Qed.
Print Assumptions C04_unsafe_refuted.

(* ---- every transaction kind, and the periodic collector (programs traced by harness/impl/c04_trace_impl.py) ---- *)

(* the traced commit of EVERY transaction kind (metric, alert, component, operational, context incl. a new context state,
   rt_sample / WaveformStream, descriptor update / create / delete) commits and puts its notifications on the wire between
   acquiring and releasing the transaction lock and the MDIB lock *)
Theorem C04_all_commit_programs_safe : forallb (fun p => prog_eqb p writer_prog) commit_programs = true.
Proof. exact eq_refl. Qed.
Print Assumptions C04_all_commit_programs_safe.

(* every traced iteration of the periodic collector reads the MdibVersion that labels its PeriodicStates and makes the
   state copies inside ONE critical section of the MDIB lock *)
Theorem C04_periodic_collector_safe : forallb (fun p => prog_eqb p reader_prog) periodic_programs = true.
Proof. exact eq_refl. Qed.
Print Assumptions C04_periodic_collector_safe.

Lemma C04_system_all progs :
  Forall (fun p => In p commit_programs \/ In p (handler_programs ++ periodic_programs)) progs ->
  system_ok_all commit_programs (handler_programs ++ periodic_programs) progs.
Proof.
  exact (fun Hp => conj C04_all_commit_programs_safe
                     (conj (forallb_app_true _ _ _ (eq_refl : forallb (fun p => prog_eqb p reader_prog) handler_programs = true)
                                             C04_periodic_collector_safe) Hp)).
Qed.

(* ANY number of writer threads running commits of ANY kind, request handlers and periodic collectors, EVERY interleaving:
   the subscriber queue is strictly increasing in MdibVersion and never ahead of the MDIB *)
Theorem C04_order_all_kinds : forall progs v0 sched,
  Forall (fun p => In p commit_programs \/ In p (handler_programs ++ periodic_programs)) progs ->
  sorted_lt (g_queue (run sched (init progs v0))) = true /\
  Forall (fun q => q <= g_ver (run sched (init progs v0))) (g_queue (run sched (init progs v0))).
Proof.
  exact (fun progs v0 sched Hp =>
           conj (order_all_kinds _ _ progs v0 sched (C04_system_all progs Hp))
                (queue_bounded_all_kinds _ _ progs v0 sched (C04_system_all progs Hp))).
Qed.
Print Assumptions C04_order_all_kinds.

(* ... and every completed collection (label, state copies) of a periodic collector shows the content of exactly the
   MdibVersion it is labelled with, whatever commits of whatever kind run concurrently *)
Theorem C04_periodic_label_truthful : forall progs v0 sched,
  Forall (fun p => In p commit_programs \/ In p (handler_programs ++ periodic_programs)) progs ->
  responses_consistent (run sched (init progs v0)) = true.
Proof. exact (fun progs v0 sched Hp => snapshot_all_kinds _ _ progs v0 sched (C04_system_all progs Hp)). Qed.
Print Assumptions C04_periodic_label_truthful.

(* the hypothesis matters: a collector that reads the label before it takes the MDIB lock labels the content of
   version 1 with MdibVersion 0 *)
Theorem C04_early_label_refuted :
  exists sched, responses_consistent (run sched (init [writer_prog; early_label_prog] 0)) = false.
Proof. exists [1; 0; 0; 0; 0; 0; 0; 1; 1; 1; 1]%nat. vm_compute. reflexivity. Qed.
Print Assumptions C04_early_label_refuted.

Example C04_all_kinds_nonvacuous :
  let s := run [0; 2; 0; 1; 0; 0; 0; 1; 0; 2; 1; 2; 1; 1; 2; 1; 2; 2; 2; 2]%nat
               (init [prog_commit_rt_sample; prog_periodic_collect_500; prog_commit_descriptor] 7) in
  g_ver s = 9 /\ g_queue s = [8; 9] /\ g_done s = [(8, 8)] /\
  In prog_commit_rt_sample commit_programs /\ In prog_periodic_collect_500 periodic_programs /\
  (7 <= length commit_programs)%nat.
Proof. cbv zeta. repeat split; vm_compute; auto 20. Qed.
