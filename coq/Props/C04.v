(* C04 -- Reports are complete, truthful, schema-valid and delivered in version order.
   Property theorems only.  Content: Mdib/Model.v; delivery order under concurrent writers: Conc/Model.v. *)
From Coq Require Import List ZArith.
From SDC Require Import Mdib.Model Mdib.Proofs.
Import ListNotations.
Open Scope Z_scope.

(* the report of a committed state transaction (its item list, stamped with the committed MdibVersion)
   contains exactly the states the transaction changed - each once, with the values and version counters
   they have in the MDIB after the commit - and nothing else *)
Theorem C04_state_report_exact : forall k m t, stx_ok k m t ->
  let m' := commit_states m t in
  NoDup (map fst (t_s t)) /\
  (forall h s, In (h, s) (t_s t) -> states m' h = Some s /\ states m h <> Some s) /\
  (forall h, states m' h <> states m h -> exists s, In (h, s) (t_s t)) /\
  (t_s t <> [] -> ver m' = ver m + 1).
Proof. exact state_report_exact. Qed.
Print Assumptions C04_state_report_exact.

(* every state transaction body that is accepted produces such an item list *)
Theorem C04_body_wellformed : forall k m acts t, 0 <= k < 5 -> state_only acts ->
  body k m empty_tx acts = Ok t -> stx_ok k m t.
Proof. exact (fun k m acts t Hk Ho B => body_state_ok k m Hk acts empty_tx t Ho (empty_stx_ok k m) B). Qed.
Print Assumptions C04_body_wellformed.

(* ---- delivery order under concurrent writers (model: Conc/Model.v, programs traced from the running code) ---- *)
From SDC Require Import Conc.Model Conc.Proofs Conc.Gen_Programs.

(* the traced commit sends its reports between acquiring and releasing the transaction lock *)
Theorem C04_commit_program_safe : prog_eqb prog_commit writer_prog = true.
Proof. exact eq_refl. Qed.
Print Assumptions C04_commit_program_safe.

(* ANY number of writer threads (each committing any number of transactions) and request handlers, EVERY
   interleaving of their lock acquisitions: each subscriber is handed the reports in strictly increasing
   MdibVersion order, and never a version the MDIB has not reached *)
Theorem C04_order : forall progs v0 sched,
  Forall (fun p => p = prog_commit \/ In p handler_programs) progs ->
  sorted_lt (g_queue (run sched (init progs v0))) = true /\
  Forall (fun q => q <= g_ver (run sched (init progs v0))) (g_queue (run sched (init progs v0))).
Proof.
  exact (fun progs v0 sched Hp =>
           let ok := conj C04_commit_program_safe (conj (eq_refl : forallb (fun p => prog_eqb p reader_prog) handler_programs = true) Hp) in
           conj (order_all_schedules prog_commit handler_programs progs v0 sched ok)
                (queue_bounded prog_commit handler_programs progs v0 sched ok)).
Qed.
Print Assumptions C04_order.

(* the hypothesis matters: sending after the locks were released lets version 2 overtake version 1 *)
Theorem C04_unsafe_refuted :
  exists sched, sorted_lt (g_queue (run sched (init [unsafe_writer_prog; unsafe_writer_prog] 0))) = false.
Proof. exists [0; 0; 0; 0; 0; 1; 1; 1; 1; 1; 1; 0]%nat. vm_compute. reflexivity. Qed.
Print Assumptions C04_unsafe_refuted.
