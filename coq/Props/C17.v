(* C17 -- HTTP body framing and content coding are lossless and honour negotiation.
   Property theorems only; each is closed by [exact] of a lemma proved in Http/*_Proofs.v, Http/Roundtrip.v.
   The model is the code WITH the proposed repair fixes/C17_q0.diff (parse_header drops q <= 0) and
   fixes/C13_reader_framing.diff (strict chunk sizes, end of data ends the chunk loop); the behaviour
   as found is kept as [parse_header_found] / [dechunk_found] for the two [_as_found] theorems. *)
From Coq Require Import List NArith ZArith Bool Lia.
From SDC Require Import Http.Chunk Http.Chunk_Proofs Http.Negotiation Http.Negotiation_Proofs
     Http.Roundtrip Http.Gen_Params.
Import ListNotations.
Open Scope N_scope.

(* chunk-size lines are read with at most hdr_max bytes including CRLF: sizes below 16^(hdr_max-2) *)
Definition size_limit : N := 16 ^ N.of_nat (hdr_max - 2).

Lemma hdr_max_ok : (3 <= hdr_max)%nat.
Proof. unfold hdr_max. lia. Qed.

(* every body, every chunk size >= 1 (bound stated: min(chunk size, body length) < size_limit, which is
   2^56 for hdr_max = 16): the framing produced is a sequence of  1*HEXDIG CRLF data CRLF  chunks with non-empty
   data, closed by the zero chunk and an empty trailer *)
Theorem C17_mk_chunks_wellformed : forall n body,
  1 <= n -> N.min n (lenN body) < size_limit ->
  chunked (hdr_max - 2) (mk_chunks n body) body.
Proof. exact (fun n body Hn Hb => mk_chunks_chunked n body (hdr_max - 2) Hn ltac:(unfold hdr_max; lia) Hb). Qed.
Print Assumptions C17_mk_chunks_wellformed.

(* the reader decodes every strictly well-formed chunked body (not only its own writer's), stops
   exactly behind it and leaves the rest of the stream untouched *)
Theorem C17_reader_accepts_valid_chunking : forall w b rest fuel,
  chunked (hdr_max - 2) w b -> (length w < fuel)%nat ->
  dechunk hdr_max fuel (uncapped (w ++ rest)) = DOk b (uncapped rest).
Proof. exact (fun w b rest fuel H Hf => dechunk_complete hdr_max w b H rest fuel ltac:(unfold hdr_max; lia) Hf). Qed.
Print Assumptions C17_reader_accepts_valid_chunking.

Theorem C17_dechunk_mk_chunks : forall n body rest,
  1 <= n -> N.min n (lenN body) < size_limit ->
  let s := uncapped (mk_chunks n body ++ rest) in
  dechunk hdr_max (fuel_for s) s = DOk body (uncapped rest).
Proof. exact (fun n body rest => dechunk_mk_chunks hdr_max n body rest hdr_max_ok). Qed.
Print Assumptions C17_dechunk_mk_chunks.

(* whatever the reader returns was framed as a chunked body: nothing is invented, nothing beyond
   the message is consumed *)
Theorem C17_dechunk_sound : forall fuel s b s',
  dechunk hdr_max fuel s = DOk b s' -> exists w, sdata s = w ++ sdata s' /\ chunked_any w b.
Proof. exact (dechunk_sound hdr_max). Qed.
Print Assumptions C17_dechunk_sound.

(* request path and response path, every registered coding or none, chunked or Content-Length.
   Premises (Section hypotheses of Http/Roundtrip.v, validated differentially by the harness):
   decompress c (compress c b) = b for the available codings; http.client decodes strictly
   well-formed chunked bodies. *)
Theorem C17_request_roundtrip :
  forall (compress decompress : bytes -> bytes -> option bytes),
  (forall c b, In c available_encodings -> exists z, compress c b = Some z /\ decompress c z = Some b) ->
  forall coding chunk xml h wire,
  chunk < size_limit -> coding_ok available_encodings coding ->
  encode compress coding chunk xml = Some (h, wire) ->
  decode_request hdr_max available_encodings decompress h wire = Some xml.
Proof.
  exact (fun compress decompress law coding chunk xml h wire =>
           request_roundtrip hdr_max available_encodings compress decompress law coding chunk xml h wire hdr_max_ok).
Qed.
Print Assumptions C17_request_roundtrip.

Theorem C17_response_roundtrip :
  forall (compress decompress : bytes -> bytes -> option bytes),
  (forall c b, In c available_encodings -> exists z, compress c b = Some z /\ decompress c z = Some b) ->
  forall client_dechunk : bytes -> option bytes,
  (forall w b, chunked (hdr_max - 2) w b -> client_dechunk w = Some b) ->
  forall coding chunk xml h wire,
  chunk < size_limit -> coding_ok available_encodings coding ->
  encode compress coding chunk xml = Some (h, wire) ->
  decode_response available_encodings decompress client_dechunk h wire = Some xml.
Proof.
  exact (fun compress decompress law cd cdok coding chunk xml h wire =>
           response_roundtrip hdr_max available_encodings compress decompress law cd cdok coding chunk xml h wire hdr_max_ok).
Qed.
Print Assumptions C17_response_roundtrip.

(* negotiation, server side (_compress_if_supported): [items] is the effective quality per coding
   name after the whole header was read *)
Theorem C17_choice_sound : forall header enabled items c,
  parse_items header = Some items ->
  server_choice header enabled = Some (Some c) ->
  In c enabled /\
  exists q, In (c, q) items /\ qpos q = true /\
            forall c' q', In (c', q') items -> qpos q' = true -> In c' enabled -> (zkey q' <= zkey q)%Z.
Proof. exact server_choice_sound. Qed.
Print Assumptions C17_choice_sound.

Theorem C17_choice_none : forall header enabled items,
  parse_items header = Some items ->
  server_choice header enabled = Some None ->
  forall c q, In (c, q) items -> qpos q = true -> ~ In c enabled.
Proof. exact server_choice_none. Qed.
Print Assumptions C17_choice_none.

Theorem C17_effective_quality_unique : forall header items,
  parse_items header = Some items -> NoDup (map fst items).
Proof. exact parse_items_NoDup. Qed.
Print Assumptions C17_effective_quality_unique.

(* client side (_send_soap_request): request_encodings is parse_header of the peer's Accept-Encoding *)
Theorem C17_client_choice_sound : forall header items supported c,
  parse_items header = Some items ->
  client_choice (accepted_of items) supported = Some c ->
  In c supported /\ exists q, In (c, q) items /\ qpos q = true.
Proof. exact client_choice_sound. Qed.
Print Assumptions C17_client_choice_sound.

(* keep-alive: the coding of the i-th response on a connection is the choice for the i-th request's own
   header, whatever was negotiated for the requests before it (so C17_choice_sound applies to every
   response); a handler that caches the first evaluation for the connection is refuted *)
Theorem C17_choice_per_request : forall enabled before h after,
  nth_error (conn_choices enabled (before ++ h :: after)) (length before) = Some (server_choice h enabled).
Proof. exact conn_choices_independent. Qed.
Print Assumptions C17_choice_per_request.

Theorem C17_cached_choice_refuted :
  exists enabled h1 h2 c items q,
    nth_error (conn_choices_cached enabled [h1; h2]) 1 = Some (Some (Some c)) /\
    parse_items h2 = Some items /\ In (c, q) items /\ qpos q = false.
Proof. exact conn_choices_cached_refuted. Qed.
Print Assumptions C17_cached_choice_refuted.

(* unsupported codings are rejected whatever the framing; a coded body is never returned raw *)
Theorem C17_unsupported_rejected : forall fuel h s enc,
  h_ce h = Some enc -> ~ In enc available_encodings ->
  match read_request_body hdr_max available_encodings fuel h s with
  | RBody _ _ | RDecode _ _ _ => False
  | _ => True
  end.
Proof. exact (unsupported_rejected hdr_max available_encodings). Qed.
Print Assumptions C17_unsupported_rejected.

Theorem C17_unsupported_rejected_response : forall h s enc,
  h_ce h = Some enc -> ~ In enc available_encodings ->
  match read_response_body available_encodings h s with
  | RBody _ _ | RDecode _ _ _ => False
  | _ => True
  end.
Proof. exact (unsupported_rejected_response available_encodings). Qed.
Print Assumptions C17_unsupported_rejected_response.

Theorem C17_coded_never_raw :
  forall (decompress : bytes -> bytes -> option bytes) h wire enc,
  h_ce h = Some enc ->
  forall b, decode_request hdr_max available_encodings decompress h wire = Some b ->
  exists z, decompress enc z = Some b.
Proof. exact (coded_never_raw hdr_max available_encodings). Qed.
Print Assumptions C17_coded_never_raw.

(* the pinned source offers a coding that the peer excluded: "gzip;q=0" with gzip enabled *)
Theorem C17_choice_refuted_as_found :
  exists header enabled c items q,
    parse_items header = Some items /\
    server_choice_found header enabled = Some (Some c) /\
    In (c, q) items /\ qpos q = false.
Proof.
  exists (Some [103; 122; 105; 112; 59; 113; 61; 48]), [[103; 122; 105; 112]], [103; 122; 105; 112],
         [([103; 122; 105; 112], QVal false 0)], (QVal false 0).
  vm_compute. repeat split; auto.
Qed.
Print Assumptions C17_choice_refuted_as_found.

Example C17_q0_repaired :
  server_choice (Some [103; 122; 105; 112; 59; 113; 61; 48]) [[103; 122; 105; 112]] = Some None.
Proof. vm_compute. reflexivity. Qed.

(* a non-trivial instance: 7 bytes in chunks of 3, trailing bytes of a pipelined request untouched;
   "x, lz4;q=0.3, gzip;q=0.2" with both enabled picks lz4 *)
Example C17_nonvacuous :
  mk_chunks 3 [97; 98; 99; 100; 101; 102; 103] =
    [51; 13; 10; 97; 98; 99; 13; 10; 51; 13; 10; 100; 101; 102; 13; 10; 49; 13; 10; 103; 13; 10; 48; 13; 10; 13; 10] /\
  (let s := uncapped (mk_chunks 3 [97; 98; 99; 100; 101; 102; 103] ++ [80; 79]) in
   dechunk hdr_max (fuel_for s) s = DOk [97; 98; 99; 100; 101; 102; 103] (uncapped [80; 79])) /\
  server_choice (Some [120; 44; 32; 108; 122; 52; 59; 113; 61; 48; 46; 51; 44; 32; 103; 122; 105; 112; 59; 113; 61; 48; 46; 50])
                [[103; 122; 105; 112]; [108; 122; 52]] = Some (Some [108; 122; 52]).
Proof. vm_compute. repeat split. Qed.
