(* C11 -- Every MDIB lookup always agrees with a scan of the stored objects.
   Property theorems only. *)
From Coq Require Import List ZArith.
From SDC Require Import Multikey.Model Multikey.Proofs Multikey.Gen_Tables.
Import ListNotations.
Open Scope Z_scope.

(* after ANY sequence of add / remove / update(re-index) / clear / attribute changes / rejected
   operations -- single-object and BULK (AddMany / RemoveMany / UpdateMany, arbitrary batches: the same
   object twice, stored objects, duplicate unique keys at any position, empty) --, starting from the empty
   table, the table invariant holds ... *)
Theorem C11_invariant_reachable : forall kinds ops, Inv kinds (fst (run kinds empty ops)).
Proof. exact (fun kinds ops => run_inv kinds ops empty (empty_inv kinds)). Qed.
Print Assumptions C11_invariant_reachable.

(* ... hence every lookup (any index, any key) lists every object exactly as often as a linear scan
   of the stored objects would, with the attribute values seen at the last (re-)indexing ... *)
Theorem C11_lookup_is_scan : forall kinds ops i k o,
  let t := fst (run kinds empty ops) in
  (i < length kinds)%nat ->
  count_occ Z.eq_dec (lookup t i k) o = scan_mult kinds t (iattrs t) i k o.
Proof.
  exact (fun kinds ops i k o =>
           lookup_is_scan kinds _ i k o (run_inv kinds ops empty (empty_inv kinds))).
Qed.
Print Assumptions C11_lookup_is_scan.

(* ... and with the CURRENT attribute values whenever every changed object has been re-indexed. *)
Theorem C11_lookup_is_scan_current : forall kinds ops i k o,
  let t := fst (run kinds empty ops) in
  reindexed t -> (i < length kinds)%nat ->
  count_occ Z.eq_dec (lookup t i k) o = scan_mult kinds t (attrs t) i k o.
Proof.
  exact (fun kinds ops i k o =>
           lookup_is_scan_current kinds _ i k o (run_inv kinds ops empty (empty_inv kinds))).
Qed.
Print Assumptions C11_lookup_is_scan_current.

(* An insertion that is rejected (duplicate unique key, list key in a unique index) leaves the
   object set, every index and the reference lists exactly as they were. *)
Theorem C11_rejected_insert_noop : forall kinds ops o t',
  let t := fst (run kinds empty ops) in
  add kinds t o = (t', RRejected) -> same_table t' t.
Proof.
  exact (fun kinds ops o t' =>
           rejected_insert_noop kinds _ o t' (run_inv kinds ops empty (empty_inv kinds))).
Qed.
Print Assumptions C11_rejected_insert_noop.

(* The BULK entry points (add_objects / add_objects_no_lock, in every table class) are loops over the
   single insertion and stop at the first rejected element.  What the code does for a rejected batch is
   PREFIX semantics, not all-or-nothing: the table is exactly the table after the accepted insertion of
   the elements before the offending one; the offending element (rolled back) and all elements behind it
   left no trace in the object set, in any index or in the reference lists. *)
Theorem C11_rejected_batch_is_prefix : forall kinds ops os t',
  let t := fst (run kinds empty ops) in
  add_many kinds t os = (t', RRejected) ->
  exists pre o post t1,
    os = pre ++ o :: post /\ add_many kinds t pre = (t1, ROk) /\
    (exists t1', add kinds t1 o = (t1', RRejected)) /\ same_table t' t1.
Proof.
  exact (fun kinds ops os t' =>
           rejected_batch_is_prefix kinds os _ t' (run_inv kinds ops empty (empty_inv kinds))).
Qed.
Print Assumptions C11_rejected_batch_is_prefix.

(* non-vacuity: a history on the real descriptor table's index set with a rejected insert *)
Example C11_nonvacuous :
  let ops := [SetAttr 1 0%nat (VOne 7); SetAttr 1 1%nat (VOne 3); SetAttr 2 0%nat (VOne 7);
              SetAttr 2 1%nat (VOne 3); Add 1; Add 2] in
  snd (run descriptors_kinds empty ops) = [ROk; ROk; ROk; ROk; ROk; RRejected] /\
  lookup (fst (run descriptors_kinds empty ops)) 1 (Some 3) = [1] /\
  objs (fst (run descriptors_kinds empty ops)) = [1].
Proof. vm_compute. repeat split. Qed.

(* non-vacuity of the batch theorem: object 2 duplicates the unique handle of object 1 in the middle of
   a batch; 1 stays (prefix), 2 is rolled back, 3 is never looked at *)
Example C11_batch_nonvacuous :
  let ops := [SetAttr 1 0%nat (VOne 7); SetAttr 2 0%nat (VOne 7); SetAttr 3 0%nat (VOne 8)] in
  let t := fst (run descriptors_kinds empty ops) in
  snd (add_many descriptors_kinds t [1; 2; 3]) = RRejected /\
  objs (fst (add_many descriptors_kinds t [1; 2; 3])) = [1] /\
  lookup (fst (add_many descriptors_kinds t [1; 2; 3])) 0 (Some 7) = [1] /\
  lookup (fst (add_many descriptors_kinds t [1; 2; 3])) 0 (Some 8) = [].
Proof. vm_compute. repeat split. Qed.
