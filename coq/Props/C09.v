(* C09 -- Operation invocations follow the BICEPS invocation-state protocol end to end.
   Property theorems only; each is closed by [exact]/[apply] of a lemma proved in
   Invocation/Proofs.v, instantiated with the constants read from the source on every run
   (Invocation/Gen_Consts.v: SCO queue length, report-part buffer length, the state answered by
   direct processing, the consumer's state classes, "transaction id under a lock"). *)
From Coq Require Import List ZArith Bool Lia Sorted.
From SDC Require Import Invocation.Model Invocation.Proofs Invocation.Gen_Consts Invocation.Inst.
Import ListNotations.
Open Scope Z_scope.

(* the constants found in the source today satisfy what the theorems below need: direct processing
   answers the state the handler returned (Fail when it raised), the consumer's "non final" states are
   exactly Wait and Start, the response states that complete a call at once are final states, such a
   completion keeps the report parts received so far, the id counter is incremented under its lock,
   every access of the consumer's manager to its buffer and its table of pending transactions happens
   with _transactions_lock held (so that one model step is one critical section and a concurrent
   execution is the sequence of its critical sections), both bounds are positive *)
Theorem C09_gen_consts_ok : gen_ok = true.
Proof. vm_compute. reflexivity. Qed.
Print Assumptions C09_gen_consts_ok.

Lemma dresp_gen_ok st : final st = true -> dresp_gen st = st.
Proof. destruct st; intros H; try discriminate H; vm_compute; reflexivity. Qed.
Lemma rresp_gen_ok : direct_raise_resp = Fail.
Proof. vm_compute. reflexivity. Qed.
Lemma nonfinal_gen_ok st : nonfinal_gen st = negb (final st).
Proof. destruct st; vm_compute; reflexivity. Qed.
Lemma completing_gen_final st : completing_gen st = true -> final st = true.
Proof. destruct st; vm_compute; intros H; try reflexivity; discriminate H. Qed.
Lemma lostwait_gen_ok : sco_full_queue_loses_wait = false.
Proof. vm_compute. reflexivity. Qed.
Lemma keeps_gen_ok : consumer_keeps_early_parts = true.
Proof. vm_compute. reflexivity. Qed.

(* ---------------------------------------------------------------- provider *)

(* transaction ids: for every sequence of requests, worker steps and handler completions, from every
   state, the ids given to the requests (in the order the requests are handled) are the next numbers
   without gap -- hence unique and strictly increasing.  Concurrent requests: the increment is one
   atomic step because it happens under _transaction_id_lock (txid_under_lock, part of gen_ok). *)
Theorem C09_ids_increasing : forall es s,
  let ids := resp_ids (snd (prun_gen s es)) in
  ids = zseq (p_next s + 1) (count_reqs es) /\ StronglySorted Z.lt ids /\ NoDup ids.
Proof.
  intros es s ids. unfold ids, prun_gen. rewrite lostwait_gen_ok.
  rewrite (proj1 (prun_ids sco_queue_cap dresp_gen direct_raise_resp es s)).
  split; [reflexivity|]. split; [apply zseq_sorted|apply zseq_nodup].
Qed.
Print Assumptions C09_ids_increasing.

(* the states reported for one transaction.  For every schedule of requests (direct or queued, known
   or unknown operation, handler returning a final state or raising), worker steps and completions:
   every request got exactly one answer; a fault only for a queued operation, and then nothing was
   reported; otherwise response and report states are, at every moment, a prefix of a legal exchange,
   and the complete legal exchange once the worker has come to rest -- which reads "Wait Start final"
   or "final" when an immediately repeated state is counted once. *)
Theorem C09_legal_sequence : forall es n mv,
  reqs_ok es ->
  let s := fst (prun_gen (pinit n mv) es) in
  let o := snd (prun_gen (pinit n mv) es) in
  forall id r, In (id, r) (p_hist s) ->
  exists x, resp_of id o = [x] /\
    match x with
    | None => r_known r = true /\ r_direct r = false /\ parts_of id o = []
    | Some i =>
        let reports := part_states (parts_of id o) in
        i_id i = id /\ tx_legal_prefix (i_st i) reports = true /\
        (quiescent s = true ->
           tx_legal (i_st i) reports = true /\ legal_word (collapse (i_st i :: reports)) = true)
    end.
Proof.
  intros es n mv Hok s o id r H.
  destruct (prov_legal sco_queue_cap dresp_gen direct_raise_resp dresp_gen_ok rresp_gen_ok es n mv Hok id r H)
    as (x & Hx & Hm).
  exists x. split; [exact Hx|]. destruct x as [i|]; [|exact Hm].
  destruct Hm as (H1 & H2 & H3). repeat split; auto. now apply tx_legal_word, H3.
Qed.
Print Assumptions C09_legal_sequence.

(* a request is refused with a fault exactly when it is for a known, queued operation and the worker's
   queue holds sco_queue_cap operations (the bound is part of the claim) *)
Theorem C09_refused_only_when_full : forall s r id,
  In (OResp id None) (snd (pstep_gen s (EvReq r))) <->
  id = p_next s + 1 /\ r_known r = true /\ r_direct r = false /\ (sco_queue_cap <= length (p_queue s))%nat.
Proof. exact (fault_iff sco_queue_cap dresp_gen direct_raise_resp). Qed.
Print Assumptions C09_refused_only_when_full.

(* a handler that raises: every final state reported is Fail with InvocationError Oth and a message;
   direct processing answers Fail and reports exactly that; queued processing has reported it once
   the worker is at rest *)
Theorem C09_raise_is_fail : forall es n mv,
  let s := fst (prun_gen (pinit n mv) es) in
  let o := snd (prun_gen (pinit n mv) es) in
  forall id r, In (id, r) (p_hist s) -> r_known r = true -> r_out r = Raises ->
  (forall p, In p (parts_of id o) -> final (i_st (p_info p)) = true ->
             p_info p = mkInfo id Fail Oth true) /\
  (r_direct r = true ->
     resp_of id o = [Some (mkInfo id Fail ENone false)] /\ part_states (parts_of id o) = [Fail]) /\
  (r_direct r = false -> resp_of id o = [Some (mkInfo id Wait ENone false)] ->
     quiescent s = true ->
     exists p, In p (parts_of id o) /\ p_info p = mkInfo id Fail Oth true).
Proof. exact (prov_raise sco_queue_cap dresp_gen direct_raise_resp rresp_gen_ok). Qed.
Print Assumptions C09_raise_is_fail.

(* a request for an operation that does not exist: the step changes nothing but the id counter (queue,
   worker, MdibVersion, executed handlers untouched) and answers Fail / Inv with a message; and in
   every run nothing is ever reported or executed for that transaction *)
Theorem C09_unknown_noop :
  (forall s r, r_known r = false ->
     pstep_gen s (EvReq r) =
     (mkP (p_next s + 1) (p_queue s) (p_cur s) (p_mv s) (p_execd s) (p_hist s ++ [(p_next s + 1, r)]),
      [OResp (p_next s + 1) (Some (mkInfo (p_next s + 1) Fail Inv true))])) /\
  (forall es n mv,
     let s := fst (prun_gen (pinit n mv) es) in
     let o := snd (prun_gen (pinit n mv) es) in
     forall id r, In (id, r) (p_hist s) -> r_known r = false ->
     resp_of id o = [Some (mkInfo id Fail Inv true)] /\ parts_of id o = [] /\ ~ In id (p_execd s)).
Proof.
  split.
  - exact (unknown_step sco_queue_cap dresp_gen direct_raise_resp).
  - exact (prov_unknown sco_queue_cap dresp_gen direct_raise_resp).
Qed.
Print Assumptions C09_unknown_noop.

(* the worker left alone comes to rest -- one Take/Finish round per outstanding operation -- so the
   "at rest" clause of C09_legal_sequence is reached from every state: after any schedule of requests
   and worker steps followed by sco_queue_cap + 1 rounds, every answered transaction shows its complete
   legal exchange *)
Theorem C09_every_transaction_completes : forall es n mv,
  reqs_ok es ->
  let es' := es ++ drain (S sco_queue_cap) in
  let s := fst (prun_gen (pinit n mv) es') in
  let o := snd (prun_gen (pinit n mv) es') in
  quiescent s = true /\
  forall id r i, In (id, r) (p_hist s) -> resp_of id o = [Some i] ->
    tx_legal (i_st i) (part_states (parts_of id o)) = true.
Proof.
  intros es n mv Hok es' s o.
  assert (Hq : quiescent s = true) by apply (drained_quiescent sco_queue_cap dresp_gen direct_raise_resp es n mv).
  split; [exact Hq|]. intros id r i Hin Hr.
  destruct (C09_legal_sequence es' n mv (reqs_ok_drain es (S sco_queue_cap) Hok) id r Hin) as (x & Hx & Hm).
  fold o in Hx. rewrite Hr in Hx. injection Hx as <-. simpl in Hm. apply Hm. exact Hq.
Qed.
Print Assumptions C09_every_transaction_completes.

(* every Wait is followed by exactly one final state: for arbitrary bursts of requests (more than the
   queue holds, any mix of operations, direct and unknown ones in between) and arbitrary worker
   progress, once the worker has drained, every transaction whose response said Wait has reported
   exactly Wait, Start and one final state.  A request that found the queue full was refused without
   any state (C09_refused_only_when_full) -- it is never answered Wait and then forgotten. *)
Theorem C09_wait_ends_in_one_final : forall es n mv,
  reqs_ok es ->
  let es' := es ++ drain (S sco_queue_cap) in
  let s := fst (prun_gen (pinit n mv) es') in
  let o := snd (prun_gen (pinit n mv) es') in
  forall id r i, In (id, r) (p_hist s) -> resp_of id o = [Some i] -> i_st i = Wait ->
  exists f, final f = true /\ part_states (parts_of id o) = [Wait; Start; f].
Proof.
  intros es n mv Hok es' s o id r i Hin Hr Hw.
  destruct (C09_every_transaction_completes es n mv Hok) as [_ H].
  specialize (H id r i Hin Hr). rewrite Hw in H. now apply tx_legal_wait.
Qed.
Print Assumptions C09_wait_ends_in_one_final.

(* ---------------------------------------------------------------- consumer *)

(* The result handle completes exactly once.  From every manager state in which transaction [id] is
   new, for every event sequence [es] whose events concerning [id] are an interleaving of the response
   with the report parts nf ++ [f] (nf non final, f final; all other events -- responses and parts
   of other transactions, pending or unknown -- are arbitrary), provided at most recent_cap report
   parts (of any transaction) are received before the response:
   - the set_result log of [id] has exactly one entry and [id] is no longer pending;
   - if the response does not complete the call at once, the result carries the final state of f
     and all report parts nf ++ [f], in order;
   - if it does (Fail, Cnclld, CnclldMan -- final states), the result carries the response's state
     and the parts of [id] received before the response. *)
Theorem C09_completes_once : forall id es s0 rst nf f,
  fresh id s0 ->
  Merge [CResp id rst] (map CPart (nf ++ [f])) (filter (mentions id) es) ->
  Forall (fun p => final (cp_st p) = false) nf -> final (cp_st f) = true ->
  (parts_before id es <= recent_cap)%nat ->
  let s' := crun_gen s0 es in
  aget id (c_pend s') = None /\
  done_of id s' =
    [if completing_gen rst
     then mkCR rst rst true (own_parts id (before_resp id es))
     else mkCR (cp_st f) rst false (nf ++ [f])] /\
  (completing_gen rst = true -> final rst = true).
Proof.
  intros id es s0 rst nf f Hfr Hm Hnf Hf Hc s'.
  assert (Hnf' : Forall (fun p => nonfinal_gen (cp_st p) = true) nf).
  { eapply Forall_impl; [|exact Hnf]. intros p Hp. simpl in Hp. rewrite nonfinal_gen_ok, Hp. reflexivity. }
  assert (Hf' : nonfinal_gen (cp_st f) = false) by (rewrite nonfinal_gen_ok, Hf; reflexivity).
  destruct (cons_merge recent_cap consumer_keeps_early_parts completing_gen nonfinal_gen
              id es s0 rst nf f Hfr Hm Hnf' Hf' Hc) as [H1 H2].
  rewrite keeps_gen_ok in H2. split; [exact H1|]. split; [exact H2|]. apply completing_gen_final.
Qed.
Print Assumptions C09_completes_once.

(* a response that completes the call at once (Fail, Cnclld, CnclldMan): whatever is reported for the
   transaction -- nothing at all when the operation does not exist -- the result handle completes at the
   response, exactly once, with the response's state and the parts of [id] received before it *)
Theorem C09_refused_completes_once : forall id pre post s0 rst,
  fresh id s0 -> noresp id pre = true -> noresp id post = true -> completing_gen rst = true ->
  (count_parts pre <= recent_cap)%nat ->
  let s' := crun_gen s0 (pre ++ CResp id rst :: post) in
  aget id (c_pend s') = None /\ done_of id s' = [mkCR rst rst true (own_parts id pre)] /\ final rst = true.
Proof.
  intros id pre post s0 rst Hf Hn1 Hn2 Hc Hb s'.
  destruct (cons_completing recent_cap consumer_keeps_early_parts completing_gen nonfinal_gen
              id pre post s0 rst Hf Hn1 Hn2 Hc Hb) as [H1 H2].
  rewrite keeps_gen_ok in H2. split; [exact H1|]. split; [exact H2|]. now apply completing_gen_final.
Qed.
Print Assumptions C09_refused_completes_once.

(* the bound of the claim is pinned: at most 50 report parts (of any transaction) before the response.
   The buffer length found in the source may be larger, not smaller (part of gen_ok). *)
Lemma recent_cap_pinned : (pinned_recent_cap <= recent_cap)%nat.
Proof. apply Nat.leb_le. vm_compute. reflexivity. Qed.

Theorem C09_completes_once_within_50 : forall id es s0 rst nf f,
  fresh id s0 ->
  Merge [CResp id rst] (map CPart (nf ++ [f])) (filter (mentions id) es) ->
  Forall (fun p => final (cp_st p) = false) nf -> final (cp_st f) = true ->
  (parts_before id es <= 50)%nat ->
  let s' := crun_gen s0 es in
  aget id (c_pend s') = None /\
  done_of id s' =
    [if completing_gen rst
     then mkCR rst rst true (own_parts id (before_resp id es))
     else mkCR (cp_st f) rst false (nf ++ [f])].
Proof.
  intros id es s0 rst nf f Hfr Hm Hnf Hf Hc.
  assert (Hc' : (parts_before id es <= recent_cap)%nat).
  { pose proof recent_cap_pinned as H. unfold pinned_recent_cap in H. lia. }
  destruct (C09_completes_once id es s0 rst nf f Hfr Hm Hnf Hf Hc') as (H1 & H2 & _). auto.
Qed.
Print Assumptions C09_completes_once_within_50.

(* a consumer that is started again begins with an empty manager: every transaction id is new in it, so
   the theorems above apply from [cinit] whatever happened before the restart *)
Theorem C09_restart_is_fresh : forall id, fresh id cinit.
Proof. intros id. repeat split. Qed.
Print Assumptions C09_restart_is_fresh.

(* ---------------------------------------------------------------- limits and the code as found *)
Fixpoint foreign (n : nat) (tag : Z) : list cevent :=
  match n with O => [] | S k => CPart (mkCP 7 Fin tag) :: foreign k (tag + 1) end.

(* the bound of C09_completes_once is sharp: one more foreign part before the response and the
   final part is gone -- the call never completes *)
Theorem C09_overflow_refuted :
  exists es,
    Merge [CResp 1 Fin] (map CPart ([] ++ [mkCP 1 Fin 0])) (filter (mentions 1) es) /\
    parts_before 1 es = S recent_cap /\
    done_of 1 (crun_gen cinit es) = [] /\ aget 1 (c_pend (crun_gen cinit es)) <> None.
Proof.
  exists (CPart (mkCP 1 Fin 0) :: foreign recent_cap 100 ++ [CResp 1 Fin]).
  split; [|vm_compute; repeat split; discriminate].
  vm_compute. apply Merge_r. apply Merge_l. apply Merge_nil.
Qed.
Print Assumptions C09_overflow_refuted.

(* the code as found (before fixes/C09_direct_response_state.diff): direct processing answers Fin
   although the handler returned Fail and the report says Fail *)
Theorem C09_direct_refuted :
  exists r, reqs_ok [EvReq r] /\
    let o := snd (prun_orig (pinit 0 0) [EvReq r]) in
    resp_of 1 o = [Some (mkInfo 1 Fin ENone false)] /\ part_states (parts_of 1 o) = [Fail] /\
    tx_legal Fin [Fail] = false.
Proof.
  exists (mkReq true true (Returns Fail) 0 0). split; [repeat constructor|]. vm_compute. auto.
Qed.
Print Assumptions C09_direct_refuted.

(* the code as found (before fixes/C09_consumer_failed_parts.diff): a Fail response drops the report
   part (the one carrying the error information) that arrived before it *)
Theorem C09_failed_parts_refuted :
  let es := [CPart (mkCP 1 Fail 0); CResp 1 Fail] in
  own_parts 1 (before_resp 1 es) = [mkCP 1 Fail 0] /\
  done_of 1 (crun_orig cinit es) = [mkCR Fail Fail true []].
Proof. vm_compute. auto. Qed.
Print Assumptions C09_failed_parts_refuted.

(* why the lock discipline is part of gen_ok: a notification handler that leaves the critical section
   before it buffers the part of a (still) unknown transaction lets the response slip in between -- the
   final part ends up in the buffer, the call stays registered and never completes *)
Theorem C09_unlocked_buffer_refuted :
  let s := urun_gen (mkU cinit []) [UDecide (mkCP 1 Fin 0); UResp 1 Wait; UFlush] in
  done_of 1 (u_c s) = [] /\ aget 1 (c_pend (u_c s)) = Some (Wait, []) /\ c_recent (u_c s) = [mkCP 1 Fin 0].
Proof. vm_compute. auto. Qed.
Print Assumptions C09_unlocked_buffer_refuted.

(* why "a full queue refuses" is part of gen_ok: an enqueue that swallows queue.Full answers Wait and
   forgets the operation -- a burst of sco_queue_cap + 1 queued requests while the worker is busy, then
   the worker drains: the last transaction was answered Wait and nothing is ever reported for it *)
Theorem C09_lost_wait_refuted :
  let r := mkReq true false (Returns Fin) 0 0 in
  let es := repeat (EvReq r) (S sco_queue_cap) ++ drain (S sco_queue_cap) in
  let last := Z.of_nat (S sco_queue_cap) in
  reqs_ok es /\
  quiescent (fst (prun_lostwait (pinit 0 0) es)) = true /\
  resp_of last (snd (prun_lostwait (pinit 0 0) es)) = [Some (mkInfo last Wait ENone false)] /\
  parts_of last (snd (prun_lostwait (pinit 0 0) es)) = [].
Proof.
  split; [|vm_compute; auto].
  apply Forall_app. split.
  - apply Forall_forall. intros e He. apply repeat_spec in He. subst e. reflexivity.
  - generalize (S sco_queue_cap). induction n; simpl; repeat constructor; auto.
Qed.
Print Assumptions C09_lost_wait_refuted.

(* why "a restarted consumer gets a new manager" is part of gen_ok: a manager that survives the restart
   still buffers the parts of an old transaction 1 of another consumer; the device has rebooted, ids start
   again, and the first call (answered Wait, nothing reported yet) completes at once with the old
   transaction's final state and parts *)
Theorem C09_stale_manager_refuted :
  let old := [CPart (mkCP 1 Wait 0); CPart (mkCP 1 Start 1); CPart (mkCP 1 Fin 2)] in
  let s0 := crun_gen cinit old in
  ~ fresh 1 s0 /\
  done_of 1 (crun_gen s0 [CResp 1 Wait]) = [mkCR Fin Wait false [mkCP 1 Wait 0; mkCP 1 Start 1; mkCP 1 Fin 2]].
Proof. split; [intros (_ & H & _); vm_compute in H; discriminate H|vm_compute; reflexivity]. Qed.
Print Assumptions C09_stale_manager_refuted.

Example C09_nonvacuous :
  (* queued processing, raising handler, a second consumer's direct request in between *)
  let es := [EvReq (mkReq true false Raises 0 3); EvTake; EvReq (mkReq true true (Returns FinMod) 1 4); EvFinish] in
  reqs_ok es /\
  quiescent (fst (prun_gen (pinit 41 7) es)) = true /\
  enc_resps (snd (prun_gen (pinit 41 7) es)) = [[1; 42; 0; 0; 0]; [1; 43; 5; 0; 0]] /\
  part_states (parts_of 42 (snd (prun_gen (pinit 41 7) es))) = [Wait; Start; Fail] /\
  (* report before response, a foreign part in between *)
  let ces := [CPart (mkCP 42 Wait 0); CPart (mkCP 9 Fin 1); CResp 42 Wait; CPart (mkCP 42 Start 2); CPart (mkCP 42 Fail 3)] in
  fresh 42 cinit /\
  Merge [CResp 42 Wait] (map CPart ([mkCP 42 Wait 0; mkCP 42 Start 2] ++ [mkCP 42 Fail 3])) (filter (mentions 42) ces) /\
  (parts_before 42 ces <= recent_cap)%nat /\
  done_of 42 (crun_gen cinit ces) = [mkCR Fail Wait false [mkCP 42 Wait 0; mkCP 42 Start 2; mkCP 42 Fail 3]].
Proof.
  vm_compute. repeat split; auto; try (repeat constructor; fail); try lia.
Qed.
