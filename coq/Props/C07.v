(* C07 -- Get responses are consistent snapshots under concurrent transactions.
   Property theorems only (model: Conc/Model.v; the programs are regenerated on every run by tracing the
   running handlers: Conc/Gen_Programs.v). *)
From Coq Require Import List ZArith Bool.
From SDC Require Import Conc.Model Conc.Proofs Conc.Excl_Proofs Conc.Gen_Programs.
Import ListNotations.
Open Scope Z_scope.

(* the traced programs of GetMdib / GetMdState / GetMdDescription / GetContextStates (with and without handle
   list) all build their response inside ONE critical section of the MDIB lock, and the traced commit changes the
   MDIB only while holding that lock (finite check on the regenerated programs) *)
Theorem C07_handlers_safe :
  prog_eqb prog_commit writer_prog = true /\
  forallb (fun p => prog_eqb p reader_prog) handler_programs = true.
Proof. exact (conj eq_refl eq_refl). Qed.
Print Assumptions C07_handlers_safe.

(* ANY number of threads, each running the traced commit or one of the traced handlers any number of times,
   under EVERY interleaving at lock-acquire / release granularity: every completed response shows the content
   of exactly the MdibVersion it states *)
Theorem C07_snapshot : forall progs v0 sched,
  Forall (fun p => p = prog_commit \/ In p handler_programs) progs ->
  responses_consistent (run sched (init progs v0)) = true.
Proof.
  exact (fun progs v0 sched Hp =>
           snapshot_all_schedules prog_commit handler_programs progs v0 sched
             (conj (proj1 C07_handlers_safe) (conj (proj2 C07_handlers_safe) Hp))).
Qed.
Print Assumptions C07_snapshot.

(* the same system in EVERY reachable state (not only when a response is complete): no two threads are inside the
   MDIB lock together, nor inside the transaction lock *)
Theorem C07_mutual_exclusion : forall progs v0 sched,
  Forall (fun p => p = prog_commit \/ In p handler_programs) progs ->
  let s := run sched (init progs v0) in
  forall i j thi thj, i <> j -> nth_error (g_threads s) i = Some thi -> nth_error (g_threads s) j = Some thj ->
    (holds_mdib thi && holds_mdib thj = false) /\ (holds_tr thi && holds_tr thj = false).
Proof.
  exact (fun progs v0 sched Hp =>
           mutual_exclusion_all_schedules prog_commit handler_programs progs v0 sched
             (conj (proj1 C07_handlers_safe) (conj (proj2 C07_handlers_safe) Hp))).
Qed.
Print Assumptions C07_mutual_exclusion.

(* a Get handler between its two reads: what it has read so far IS the content of the current MdibVersion - no
   commit slips in between reading the content and reading the version - and the pair it ends with agrees *)
Theorem C07_handler_in_flight : forall progs v0 sched,
  Forall (fun p => p = prog_commit \/ In p handler_programs) progs ->
  let s := run sched (init progs v0) in
  forall i th, nth_error (g_threads s) i = Some th -> t_prog th = reader_prog ->
    ((t_pc th <= 1)%nat -> t_c th = -1 /\ t_v th = -1) /\
    (t_pc th = 2%nat -> t_c th = g_ver s /\ t_v th = -1) /\
    (t_pc th = 3%nat -> t_c th = g_ver s /\ t_v th = g_ver s) /\
    (t_pc th = 4%nat -> t_c th = t_v th).
Proof.
  exact (fun progs v0 sched Hp =>
           reader_in_flight_all_schedules prog_commit handler_programs progs v0 sched
             (conj (proj1 C07_handlers_safe) (conj (proj2 C07_handlers_safe) Hp))).
Qed.
Print Assumptions C07_handler_in_flight.

(* a committing thread: between its commit and the hand-over of the reports its version is the current one and
   newer than everything handed to a subscriber so far *)
Theorem C07_commit_in_flight : forall progs v0 sched,
  Forall (fun p => p = prog_commit \/ In p handler_programs) progs ->
  let s := run sched (init progs v0) in
  forall i th, nth_error (g_threads s) i = Some th -> t_prog th = writer_prog ->
    t_v th = -1 /\ t_c th = -1 /\
    (t_pc th = 3%nat -> t_pending th = g_ver s /\ Forall (fun q => q < g_ver s) (g_queue s)).
Proof.
  exact (fun progs v0 sched Hp =>
           writer_in_flight_all_schedules prog_commit handler_programs progs v0 sched
             (conj (proj1 C07_handlers_safe) (conj (proj2 C07_handlers_safe) Hp))).
Qed.
Print Assumptions C07_commit_in_flight.

(* the hypothesis matters: a handler that reads the version after leaving the critical section (the shape of
   GetMdState / GetContextStates before the repair) can answer MdibVersion 1 with the content of version 0 *)
Theorem C07_unsafe_refuted :
  exists sched, responses_consistent (run sched (init [writer_prog; unsafe_reader_prog] 0)) = false.
Proof. exists [1; 1; 1; 0; 0; 0; 0; 0; 0; 1; 1]%nat. vm_compute. reflexivity. Qed.
Print Assumptions C07_unsafe_refuted.

Example C07_nonvacuous :
  let s := run [0; 1; 0; 1; 0; 0; 1; 1; 0; 0; 1; 1; 0]%nat (init [prog_commit; prog_GetMdState] 5) in
  g_ver s = 6 /\ g_done s = [(5, 5)] /\ In prog_GetMdState handler_programs.
Proof. cbv zeta. split; [vm_compute; reflexivity|]. split; [vm_compute; reflexivity|]. right. left. reflexivity. Qed.
