(* C07 -- Get responses are consistent snapshots under concurrent transactions.
   Property theorems only (model: Conc/Model.v; the programs are regenerated on every run by tracing the
   running handlers: Conc/Gen_Programs.v). *)
From Coq Require Import List ZArith.
From SDC Require Import Conc.Model Conc.Proofs Conc.Gen_Programs.
Import ListNotations.
Open Scope Z_scope.

(* the traced programs of GetMdib / GetMdState / GetMdDescription / GetContextStates (with and without handle
   list) all build their response inside ONE critical section of the MDIB lock, and the traced commit changes the
   MDIB only while holding that lock (finite check on the regenerated programs) *)
Theorem C07_handlers_safe :
  prog_eqb prog_commit writer_prog = true /\
  forallb (fun p => prog_eqb p reader_prog) handler_programs = true.
Proof. exact (conj eq_refl eq_refl). Qed.
Print Assumptions C07_handlers_safe.

(* ANY number of threads, each running the traced commit or one of the traced handlers any number of times,
   under EVERY interleaving at lock-acquire / release granularity: every completed response shows the content
   of exactly the MdibVersion it states *)
Theorem C07_snapshot : forall progs v0 sched,
  Forall (fun p => p = prog_commit \/ In p handler_programs) progs ->
  responses_consistent (run sched (init progs v0)) = true.
Proof.
  exact (fun progs v0 sched Hp =>
           snapshot_all_schedules prog_commit handler_programs progs v0 sched
             (conj (proj1 C07_handlers_safe) (conj (proj2 C07_handlers_safe) Hp))).
Qed.
Print Assumptions C07_snapshot.

(* the hypothesis matters: a handler that reads the version after leaving the critical section (the shape of
   GetMdState / GetContextStates before the repair) can answer MdibVersion 1 with the content of version 0 *)
Theorem C07_unsafe_refuted :
  exists sched, responses_consistent (run sched (init [writer_prog; unsafe_reader_prog] 0)) = false.
Proof. exists [1; 1; 1; 0; 0; 0; 0; 0; 0; 1; 1]%nat. vm_compute. reflexivity. Qed.
Print Assumptions C07_unsafe_refuted.

Example C07_nonvacuous :
  let s := run [0; 1; 0; 1; 0; 0; 1; 1; 0; 0; 1; 1; 0]%nat (init [prog_commit; prog_GetMdState] 5) in
  g_ver s = 6 /\ g_done s = [(5, 5)] /\ In prog_GetMdState handler_programs.
Proof. cbv zeta. split; [vm_compute; reflexivity|]. split; [vm_compute; reflexivity|]. right. left. reflexivity. Qed.
