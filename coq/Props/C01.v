(* C01 -- Consumer MDIB is an exact mirror of the provider MDIB after any report history.
   Property theorems only (models: Mdib/Model.v provider, Mdib/Consumer.v consumer). *)
From Coq Require Import List ZArith.
From SDC Require Import Mdib.Model Mdib.Proofs Mdib.Proofs_Ctx Mdib.Consumer Mdib.Consumer_Proofs.
Import ListNotations.
Open Scope Z_scope.

(* one committed state transaction (metric / alert / component / operational / waveform): a consumer that
   mirrors the provider before, and processes the report of the commit, mirrors the provider after - same
   descriptors, states (values and version counters), context states and MdibVersion - and the
   notifications it raises name exactly the states the report changed *)
Theorem C01_mirror_step : forall k m t c,
  stx_ok k m t -> t_s t <> [] -> mirrors c m ->
  let m' := commit_states m t in
  let r := state_report m' (cm_seq c) (cm_inst c) t in
  mirrors (fst (receive c r)) m' /\
  snd (receive c r) = map (fun e => (N_STATE, fst e)) (t_s t).
Proof. exact mirror_step_state_tx. Qed.
Print Assumptions C01_mirror_step.

(* the same for one committed CONTEXT transaction (new, updated, associated, disassociated states; location change)
   as long as it reports everything it does (deleting a context state through the entity interface cannot be
   reported - that case is the known finding): mirror afterwards, notifications = exactly the reported states *)
Theorem C01_mirror_step_context : forall m t c,
  ctx_ok m t -> no_deletion t -> t_c t <> [] -> mirrors c m ->
  let m' := commit_states m t in
  let r := RCtx (mkVg (ver m') (cm_seq c) (cm_inst c)) (ctx_report_items t) in
  mirrors (fst (receive c r)) m' /\
  snd (receive c r) = map (fun e => (N_CTX, fst e)) (ctx_report_items t).
Proof. exact mirror_step_ctx_tx. Qed.
Print Assumptions C01_mirror_step_context.

(* every accepted context transaction body yields such an item list *)
Theorem C01_context_body_wellformed : forall m acts t,
  ctx_only acts -> fresh_ok m acts -> body 5 m empty_tx acts = Ok t -> ctx_ok m t.
Proof. exact (fun m acts t Ho Hf B => body_ctx_ok m acts empty_tx t Ho Hf (empty_ctx_ok m) B). Qed.
Print Assumptions C01_context_body_wellformed.

(* every finite history of state transactions (any kinds, classic or entity interface, rejected calls,
   aborts, empty transactions), reports processed in emission order: mirror after every prefix (the
   statement is for an arbitrary history, hence for each of its prefixes), SequenceId / InstanceId kept *)
Theorem C01_mirror_history : forall seq inst hist m c,
  Forall state_txn hist -> mirrors c m -> cm_seq c = seq -> cm_inst c = inst ->
  let '(m', c') := fold_left (pc_step seq inst) hist (m, c) in
  m' = exec m hist /\ mirrors c' m' /\ cm_seq c' = seq /\ cm_inst c' = inst.
Proof. exact mirror_history. Qed.
Print Assumptions C01_mirror_history.

(* the side-by-side system really is the provider of C02 on its provider side *)
Theorem C01_provider_side : forall seq inst m c x,
  state_txn x -> fst (pc_step seq inst (m, c) x) = exec1 m x.
Proof. exact pc_step_provider. Qed.
Print Assumptions C01_provider_side.

Example C01_nonvacuous :
  let m := mkMdib (fun h => if Z.eqb h 7 then Some (mkDescr None K_METRIC 2 1) else None)
                  (fun h => if Z.eqb h 7 then Some (mkState 2 5 1) else None)
                  (fun _ => None) 10 (fun _ => None) (fun _ => None) (fun _ => None) [7] [] in
  let c := mirror_of m 1 1 in
  let '(m', c') := fold_left (pc_step 1 1) [(K_METRIC, @None nat, [AState 7 42]); (K_METRIC, Some 0%nat, [AState 7 9])] (m, c) in
  cm_ver c' = 11 /\ cm_states c' 7 = Some (mkState 2 6 42) /\ states m' 7 = Some (mkState 2 6 42).
Proof. vm_compute. repeat split. Qed.

(* ================================================================ descriptor transactions *)
From Coq Require Import Bool Lia.
From SDC Require Import Mdib.Consumer_Descr_Proofs.

(* The report of a committed descriptor transaction, [descr_report m t seq inst] (Mdib/Consumer_Descr_Proofs.v):
   one part per descriptor of TransactionResult.descr_updated (UPDATE), descr_created (CREATE), descr_deleted
   (DELETE), in this order, each with the states whose descriptor handle it is, MdibVersion = committed version.
   Well-formedness:
     pm_ok m    - provider lookups enumerate what they hold; no state / context state without descriptor
     cdom_ok c  - the same for the consumer lookups
     tree_ok m  - every parent handle of the provider MDIB refers to an existing descriptor
     dtx_ok m t - the shape of a descriptor transaction body (dshape, guaranteed by the API calls),
                  subtree_conflict m t = false (the check process_transaction makes before it changes anything:
                  nothing is created or updated inside a subtree that the transaction removes; a conflicting
                  transaction is refused with ApiUsageError), and the residue dpar_res m t: the parent handle of a
                  removed descriptor is not a descriptor that the same transaction creates - it follows from
                  tree_ok m (C01_descr_body_wellformed).  Removals may be nested in any order. *)
Theorem C01_mirror_step_descriptor : forall m t, pm_ok m -> dtx_ok m t -> forall c,
  t_d t <> [] -> mirrors c m -> cdom_ok c ->
  let m' := commit_descr m t in
  let r := descr_report m t (cm_seq c) (cm_inst c) in
  let c' := fst (receive c r) in
  mirrors c' m' /\ cdom_ok c' /\ cm_seq c' = cm_seq c /\ cm_inst c' = cm_inst c /\ pm_ok m' /\
  exists R, (forall y, In y R <-> In y (map fst (tx_deleted m t))) /\
    snd (receive c r) = map (fun e => (N_UPD, fst e)) (tx_updated m t) ++
                        map (fun e => (N_NEW, fst e)) (tx_created m t) ++ map (fun y => (N_DEL, y)) R.
Proof. exact mirror_step_descr. Qed.
Print Assumptions C01_mirror_step_descriptor.

(* the deleted descriptors are those below a removed handle *)
Theorem C01_descr_deleted_set : forall m t, pm_ok m -> dtx_ok m t -> forall y,
  In y (map fst (tx_deleted m t)) <->
  descrs m y <> None /\ exists r, In (r, None) (t_d t) /\ reachR (descrs m) y r.
Proof. exact tx_deleted_spec. Qed.
Print Assumptions C01_descr_deleted_set.

(* the episodic state reports that the provider sends after the description modification report for the same
   transaction (same MdibVersion, states already delivered) change nothing: mirror after ALL reports of the step *)
Theorem C01_mirror_step_descriptor_all : forall m t c,
  pm_ok m -> dtx_ok m t -> t_d t <> [] -> mirrors c m -> cdom_ok c ->
  let m' := commit_descr m t in
  let c' := receive_all c (descr_reports m t (cm_seq c) (cm_inst c)) in
  mirrors c' m' /\ cdom_ok c' /\ cm_seq c' = cm_seq c /\ cm_inst c' = cm_inst c /\ pm_ok m'.
Proof. exact mirror_step_descr_all. Qed.
Print Assumptions C01_mirror_step_descriptor_all.

(* every accepted body of add / update / remove descriptor and get_state calls that passes the two checks
   process_transaction makes before it changes anything (nothing created / updated inside a removed subtree, no
   descriptor created below a parent that neither exists nor is created) is well-formed on an MDIB whose parent
   handles exist, and creates no orphan; no obligation on the calls is left *)
Theorem C01_descr_body_wellformed : forall m acts t,
  descr_only acts -> body 6 m empty_tx acts = Ok t -> subtree_conflict m t || orphan_create m t = false ->
  tree_ok m -> dtx_ok m t /\ dpar_ok m t.
Proof. exact descr_body_wellformed. Qed.
Print Assumptions C01_descr_body_wellformed.

(* hence tree_ok is kept by every commit (dpar_ok is what the orphan check gives: [orphan_create_dpar_ok]) *)
Theorem C01_descr_tree_preserved : forall m t, pm_ok m -> dtx_ok m t ->
  t_d t <> [] -> tree_ok m -> dpar_ok m t -> tree_ok (commit_descr m t).
Proof. exact commit_descr_tree_ok. Qed.
Print Assumptions C01_descr_tree_preserved.

Theorem C01_orphan_check : forall m t, orphan_create m t = false -> dpar_ok m t.
Proof. exact orphan_create_dpar_ok. Qed.
Print Assumptions C01_orphan_check.

(* dtx_ok can be evaluated: boolean twin *)
Theorem C01_dtx_okb_sound : forall m t, dtx_okb m t = true -> dtx_ok m t.
Proof. exact dtx_okb_sound. Qed.
Print Assumptions C01_dtx_okb_sound.

(* every finite history of state transactions (any kind), context transactions without deletions through the
   entity interface, and descriptor transactions of ANY add / update / remove / get_state calls (txn_ok for kind 6 is
   just descr_only) - rejected calls, aborts, empty transactions, nested removals and transactions refused by the
   conflict / orphan checks included - with the reports processed in emission order: mirror after every prefix.
   sys_ok = mirrors /\ cdom_ok /\ pm_ok /\ tree_ok /\ sequence and instance id; it is required of the initial pair
   only and holds after every prefix *)
Theorem C01_mirror_history_all : forall seq inst hist m c,
  hist_ok m hist -> sys_ok seq inst m c ->
  let '(m', c') := fold_left (pc_step3 seq inst) hist (m, c) in
  m' = exec m hist /\ sys_ok seq inst m' c'.
Proof. exact mirror_history3. Qed.
Print Assumptions C01_mirror_history_all.

Example C01_descr_nonvacuous :
  let m := mkMdib (fun h => alist_get [(1, mkDescr None K_COMP 0 10); (2, mkDescr (Some 1) K_METRIC 0 11);
                                       (3, mkDescr (Some 1) K_METRIC 0 12); (5, mkDescr (Some 1) K_CTX 0 13);
                                       (6, mkDescr (Some 3) K_ALERT 0 14)] h)
                  (fun h => alist_get [(1, mkState 0 0 20); (2, mkState 0 3 21); (3, mkState 0 1 22); (6, mkState 0 0 23)] h)
                  (fun h => alist_get [(50, mkCState 5 0 2 2 (Some 1) None 30)] h)
                  7 (fun _ => None) (fun _ => None) (fun _ => None)
                  (map fst [(1, mkDescr None K_COMP 0 10); (2, mkDescr (Some 1) K_METRIC 0 11);
                            (3, mkDescr (Some 1) K_METRIC 0 12); (5, mkDescr (Some 1) K_CTX 0 13);
                            (6, mkDescr (Some 3) K_ALERT 0 14)])
                  (map fst [(50, mkCState 5 0 2 2 (Some 1) None 30)]) in
  (* parent 1 with children 2, 3 (which has child 6) and context descriptor 5.
     1st transaction: add 4 below 1, update 2 (and its state), remove 6 AND its parent 3 (nested removal), update
     context descriptor 5; then a metric transaction on the new descriptor, a context transaction, and a
     transaction that removes 2 and creates 7 below it - refused by the conflict check *)
  let acts := [ADAdd 4 (Some 1) K_METRIC 15 25; ADUpd 2 16; ADState 2 26; ADDel 6; ADDel 3; ADUpd 5 17] in
  let bad := [ADDel 2; ADAdd 7 (Some 2) K_ALERT 18 28] in
  let orphan := [ADAdd 8 (Some 99) K_METRIC 19 29] in     (* 99 neither exists nor is created: refused *)
  let hist := [(6, @None nat, acts); (K_METRIC, @None nat, [AState 4 42]); (5, @None nat, [ACtxGet 50 31 None]);
               (6, @None nat, bad); (6, @None nat, orphan)] in
  sys_ok 1 1 m (mirror_of m 1 1) /\ hist_ok m hist /\
  (exists t, body 6 m empty_tx acts = Ok t /\ dtx_okb m t = true /\ t_d t <> [] /\
     map fst (tx_updated m t) = [1; 2; 5] /\ map fst (tx_created m t) = [4] /\ map fst (tx_deleted m t) = [6; 3]) /\
  (exists t, body 6 (exec m (firstn 3 hist)) empty_tx bad = Ok t /\ subtree_conflict (exec m (firstn 3 hist)) t = true /\
     snd (transaction 6 None bad (exec m (firstn 3 hist))) = 3) /\
  (exists t, body 6 (exec m (firstn 4 hist)) empty_tx orphan = Ok t /\ orphan_create (exec m (firstn 4 hist)) t = true /\
     subtree_conflict (exec m (firstn 4 hist)) t = false /\ snd (transaction 6 None orphan (exec m (firstn 4 hist))) = 3) /\
  let '(m', c') := fold_left (pc_step3 1 1) hist (m, mirror_of m 1 1) in
  ver m' = 10 /\ cm_ver c' = 10 /\ descrs m' 3 = None /\ cm_descrs c' 3 = None /\ cm_states c' 6 = None /\
  cm_descrs c' 1 = Some (mkDescr None K_COMP 1 10) /\ cm_states c' 2 = Some (mkState 1 4 26) /\
  cm_descrs c' 7 = None /\ cm_descrs c' 8 = None /\ descrs m' 8 = None /\
  cm_states c' 4 = Some (mkState 0 1 42) /\ cm_cstates c' 50 = Some (mkCState 5 1 4 2 (Some 1) None 31).
Proof.
  cbv zeta.
  match goal with |- sys_ok _ _ ?m0 _ /\ _ => set (m := m0) end.
  assert (Hpm : pm_ok m) by (apply pm_ok_alists; reflexivity).
  split; [|split; [|split; [|split; [|split]]]].
  - split; [repeat split|]. split; [|split; [exact Hpm|split; [|split; reflexivity]]].
    + split; [exact (pm_dd _ Hpm)|exact (pm_cd _ Hpm)].
    + intros h d p Eh Ep. cbn [descrs m] in Eh |- *. apply alist_get_some_in in Eh. cbn in Eh.
      repeat (destruct Eh as [Eh|Eh]; [injection Eh as <- <-; cbn in Ep; try discriminate; injection Ep as <-; vm_compute; discriminate|]).
      contradiction.
  - split; [|split; [|split; [|split; [|split; [|exact I]]]]].
    + right. right. split; [reflexivity|].
      intros a Ha. cbn in Ha. repeat (destruct Ha as [<-|Ha]; [exact I|]). contradiction.
    + left. split; [unfold K_METRIC; lia|]. intros a [<-|[]]. now exists 4, 42.
    + right. left. split; [reflexivity|]. split; [intros a [<-|[]]; exact I|]. split.
      * intros dh h assoc p [Ha|[]]. discriminate.
      * intros t B. vm_compute in B. injection B as <-. intros h [Hi|[]]. discriminate.
    + right. right. split; [reflexivity|].
      intros a Ha. cbn in Ha. repeat (destruct Ha as [<-|Ha]; [exact I|]). contradiction.
    + right. right. split; [reflexivity|].
      intros a Ha. cbn in Ha. repeat (destruct Ha as [<-|Ha]; [exact I|]). contradiction.
  - eexists. split; [vm_compute; reflexivity|]. vm_compute. repeat split; discriminate.
  - eexists. split; [vm_compute; reflexivity|]. vm_compute. split; reflexivity.
  - eexists. split; [vm_compute; reflexivity|]. vm_compute. repeat split.
  - vm_compute. repeat split.
Qed.
