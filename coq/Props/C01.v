(* C01 -- Consumer MDIB is an exact mirror of the provider MDIB after any report history.
   Property theorems only (models: Mdib/Model.v provider, Mdib/Consumer.v consumer). *)
From Coq Require Import List ZArith.
From SDC Require Import Mdib.Model Mdib.Proofs Mdib.Proofs_Ctx Mdib.Consumer Mdib.Consumer_Proofs.
Import ListNotations.
Open Scope Z_scope.

(* one committed state transaction (metric / alert / component / operational / waveform): a consumer that
   mirrors the provider before, and processes the report of the commit, mirrors the provider after - same
   descriptors, states (values and version counters), context states and MdibVersion - and the
   notifications it raises name exactly the states the report changed *)
Theorem C01_mirror_step : forall k m t c,
  stx_ok k m t -> t_s t <> [] -> mirrors c m ->
  let m' := commit_states m t in
  let r := state_report m' (cm_seq c) (cm_inst c) t in
  mirrors (fst (receive c r)) m' /\
  snd (receive c r) = map (fun e => (N_STATE, fst e)) (t_s t).
Proof. exact mirror_step_state_tx. Qed.
Print Assumptions C01_mirror_step.

(* the same for one committed CONTEXT transaction (new, updated, associated, disassociated states; location change)
   as long as it reports everything it does (deleting a context state through the entity interface cannot be
   reported - that case is the known finding): mirror afterwards, notifications = exactly the reported states *)
Theorem C01_mirror_step_context : forall m t c,
  ctx_ok m t -> no_deletion t -> t_c t <> [] -> mirrors c m ->
  let m' := commit_states m t in
  let r := RCtx (mkVg (ver m') (cm_seq c) (cm_inst c)) (ctx_report_items t) in
  mirrors (fst (receive c r)) m' /\
  snd (receive c r) = map (fun e => (N_CTX, fst e)) (ctx_report_items t).
Proof. exact mirror_step_ctx_tx. Qed.
Print Assumptions C01_mirror_step_context.

(* every accepted context transaction body yields such an item list *)
Theorem C01_context_body_wellformed : forall m acts t,
  ctx_only acts -> fresh_ok m acts -> body 5 m empty_tx acts = Ok t -> ctx_ok m t.
Proof. exact (fun m acts t Ho Hf B => body_ctx_ok m acts empty_tx t Ho Hf (empty_ctx_ok m) B). Qed.
Print Assumptions C01_context_body_wellformed.

(* every finite history of state transactions (any kinds, classic or entity interface, rejected calls,
   aborts, empty transactions), reports processed in emission order: mirror after every prefix (the
   statement is for an arbitrary history, hence for each of its prefixes), SequenceId / InstanceId kept *)
Theorem C01_mirror_history : forall seq inst hist m c,
  Forall state_txn hist -> mirrors c m -> cm_seq c = seq -> cm_inst c = inst ->
  let '(m', c') := fold_left (pc_step seq inst) hist (m, c) in
  m' = exec m hist /\ mirrors c' m' /\ cm_seq c' = seq /\ cm_inst c' = inst.
Proof. exact mirror_history. Qed.
Print Assumptions C01_mirror_history.

(* the side-by-side system really is the provider of C02 on its provider side *)
Theorem C01_provider_side : forall seq inst m c x,
  state_txn x -> fst (pc_step seq inst (m, c) x) = exec1 m x.
Proof. exact pc_step_provider. Qed.
Print Assumptions C01_provider_side.

Example C01_nonvacuous :
  let m := mkMdib (fun h => if Z.eqb h 7 then Some (mkDescr None K_METRIC 2 1) else None)
                  (fun h => if Z.eqb h 7 then Some (mkState 2 5 1) else None)
                  (fun _ => None) 10 (fun _ => None) (fun _ => None) (fun _ => None) [7] [] in
  let c := mirror_of m 1 1 in
  let '(m', c') := fold_left (pc_step 1 1) [(K_METRIC, @None nat, [AState 7 42]); (K_METRIC, Some 0%nat, [AState 7 9])] (m, c) in
  cm_ver c' = 11 /\ cm_states c' 7 = Some (mkState 2 6 42) /\ states m' 7 = Some (mkState 2 6 42).
Proof. vm_compute. repeat split. Qed.
