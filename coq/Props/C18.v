(* C18 -- Scalar XML value conversions are exact over the wire value space.
   Property theorems only; each is closed by [exact] of a lemma proved in Scalars/*_Proofs.v.
   The models are those of the code with the repairs fixes/C18_*.diff applied; the [.._refuted]
   theorems record what the unrepaired code did (timestamps, decimal digit cap) and what is left
   as a known finding (booleans). *)
From Coq Require Import List ZArith Bool Lia String Ascii QArith Qabs.
From SDC Require Import Scalars.Lex Scalars.Lex_Proofs Scalars.Timestamp Scalars.Timestamp_Proofs
  Scalars.Decimal Scalars.Decimal_Proofs Scalars.Decimal_Lex_Proofs Scalars.Duration Scalars.Duration_Proofs
  Scalars.DateTime Scalars.DateTime_Proofs Scalars.Duration_Float_Proofs Scalars.DecimalFloat Scalars.DecimalFloat_Proofs.
Import ListNotations.
Open Scope Z_scope.

(* ------------------------------------------------------------------ timestamps *)
(* binary64 round-to-nearest as modelled: the result (a, b) of rounding p/q has relative error at
   most 2^-53, |a/b - p/q| <= (p/q) * 2^-53, written without division *)
Theorem C18_rnd53_relative_error : forall p q, 0 <= p -> 0 < q ->
  0 < snd (rnd53 p q) /\
  - (p * snd (rnd53 p q)) <= (fst (rnd53 p q) * q - p * snd (rnd53 p q)) * 2 ^ 53 <= p * snd (rnd53 p q).
Proof. exact rnd53_relerr. Qed.
Print Assumptions C18_rnd53_relative_error.

(* ... and its mantissa has 53 bits *)
Theorem C18_rnd53_mantissa_53_bits : forall p q, 0 < p -> 0 < q -> 2 ^ 52 <= rnd53_mant p q <= 2 ^ 53.
Proof. exact rnd53_mant_53bit. Qed.
Print Assumptions C18_rnd53_mantissa_53_bits.

(* every millisecond count below 2^53/1000 survives XML -> Python -> XML unchanged *)
Theorem C18_ts_xml_py_xml : forall n, 0 <= n -> n * 1000 < 2 ^ 53 -> ts_to_xml (ts_to_py n) = n.
Proof. exact ts_xml_py_xml. Qed.
Print Assumptions C18_ts_xml_py_xml.

(* Python -> XML -> Python changes a timestamp x = a/b (any non-negative dyadic or other fraction, in
   particular every binary64) with 1000 x <= 2^50 by less than one millisecond:
   with x' = fst x' / snd x',  |x' - x| * 1000 < 1, written without division *)
Theorem C18_ts_py_xml_py : forall a b, 0 <= a -> 0 < b -> a * 1000 <= 2 ^ 50 * b ->
  let x' := ts_to_py (ts_to_xml (a, b)) in
  0 < snd x' /\ - (b * snd x') < (fst x' * b - a * snd x') * 1000 < b * snd x'.
Proof. exact ts_py_xml_py. Qed.
Print Assumptions C18_ts_py_xml_py.

(* the same with rational values: |x' - x| < 1/1000 *)
Theorem C18_ts_py_xml_py_Q : forall a b, 0 <= a -> 0 < b -> a * 1000 <= 2 ^ 50 * b ->
  (Qabs (frQ (ts_to_py (ts_to_xml (a, b))) - frQ (a, b)) < 1 # 1000)%Q.
Proof. exact ts_py_xml_py_Q. Qed.
Print Assumptions C18_ts_py_xml_py_Q.

(* wire level: the decimal string of n is parsed, converted to a float, converted back and printed unchanged *)
Theorem C18_ts_wire_roundtrip : forall n, 0 <= n -> n * 1000 < 2 ^ 53 ->
  option_map ts_to_xml_str (ts_to_py_str (str (print_Z n))) = Some (str (print_Z n)).
Proof. exact ts_str_xml_py_xml. Qed.
Print Assumptions C18_ts_wire_roundtrip.

(* the code before the repair (int() truncation) loses the millisecond 1001 *)
Theorem C18_ts_truncation_refuted :
  exists n, 0 <= n /\ n * 1000 < 2 ^ 53 /\ ts_to_xml_trunc (ts_to_py n) <> n.
Proof. exact ts_trunc_refuted. Qed.
Print Assumptions C18_ts_truncation_refuted.

(* ------------------------------------------------------------------ decimals *)
(* a Decimal with at most 18 coefficient digits and ANY exponent (so in particular -18..18), negative and
   zero included, is written to a string that reads back with the same numeric value *)
Theorem C18_decimal_value : forall d, wf_dec d = true -> len (ddigs d) <= 18 ->
  exists d', dec_parse (dec_to_xml_l d) = Some d' /\ dec_value_eq d' d.
Proof. exact dec_py_xml_py. Qed.
Print Assumptions C18_decimal_value.

(* exponent notation is never written: only digits, '.' and '-' *)
Theorem C18_decimal_no_exponent : forall d, wf_dec d = true -> forallb plain_char (dec_to_xml_l d) = true.
Proof. exact dec_no_exponent. Qed.
Print Assumptions C18_decimal_no_exponent.

(* XML -> Python: whatever to_py accepts lies in the lexical space of xsd:decimal
   (white space, optional sign, digits with optional '.' and fraction digits) and is the Decimal with exactly
   those digits: no 'E', 'NaN', 'Infinity', '_' or non-ASCII digit is accepted, no digit is dropped *)
Theorem C18_decimal_rejects_non_lexical : forall s d, dec_parse s = Some d -> dec_lexical s d.
Proof. exact dec_parse_lexical. Qed.
Print Assumptions C18_decimal_rejects_non_lexical.

(* the digit cap of the code before the repair (tail[:18 - len(head)]) loses 1E-18 *)
Lemma dec_old_cap_refuted_lemma :
  exists d, wf_dec d = true /\ len (ddigs d) <= 18 /\ -18 <= dexp d <= 18 /\
    exists d', dec_parse (surgery_old (format_f d)) = Some d' /\ dec_value_eqb d' d = false.
Proof. exists (mkdec false "1" (-18)). vm_compute. repeat split; try congruence. eexists. split; reflexivity. Qed.
Theorem C18_decimal_old_cap_refuted :
  exists d, wf_dec d = true /\ len (ddigs d) <= 18 /\ -18 <= dexp d <= 18 /\
    exists d', dec_parse (surgery_old (format_f d)) = Some d' /\ dec_value_eqb d' d = false.
Proof. exact dec_old_cap_refuted_lemma. Qed.
Print Assumptions C18_decimal_old_cap_refuted.

(* float arguments (DecimalConverter._float_to_xml: round(x, n) and the 'f' format with n = 1 / 2 / 3 fraction digits for
   |x| >= 100 / >= 10 / below, both modelled exactly on the binary64 |x| = a / b): for EVERY non-negative binary64, in
   particular above 1e16 where str(float) would use an exponent, only digits, '.' and '-' are written *)
Theorem C18_decimal_float_no_exponent : forall neg a b, 0 <= a -> 0 < b ->
  forallb plain_char (float_to_xml_l neg a b) = true.
Proof. exact float_no_exponent. Qed.
Print Assumptions C18_decimal_float_no_exponent.

(* the documented rounding: the printed count of 10^-n units is within half a unit of y = round(x, n) *)
Theorem C18_decimal_float_rounding : forall a b, 0 <= a -> 0 < b ->
  let n := fdigits a b in let y := round_nd a b n in
  0 < snd y /\ - snd y <= 2 * (float_units a b * snd y - fst y * 10 ^ n) <= snd y.
Proof. exact float_units_of_round. Qed.
Print Assumptions C18_decimal_float_rounding.

(* ------------------------------------------------------------------ integers *)
Theorem C18_int_py_xml_py : forall n, int_parse (print_Z n) = Some n.
Proof. exact int_print_parse. Qed.
Print Assumptions C18_int_py_xml_py.

(* whatever is accepted lies in  ws* [+-]? digit+ ws*  and denotes the returned value: other forms are rejected *)
Theorem C18_int_rejects_non_lexical : forall s v, int_parse s = Some v -> int_lexical s v.
Proof. exact int_parse_lexical. Qed.
Print Assumptions C18_int_rejects_non_lexical.

(* ------------------------------------------------------------------ booleans: known finding *)
(* BooleanConverter.to_py never rejects: "foo" is coerced to False (asserted by tests/test_dataconverters.py) *)
Theorem C18_bool_rejects_refuted : exists s, bool_lexical s = false /\ bool_to_py s = false.
Proof. exact bool_rejects_refuted. Qed.
Print Assumptions C18_bool_rejects_refuted.

(* partial: on the four literals of xsd:boolean the conversion is right, and canonical forms round-trip *)
Theorem C18_bool_partial : forall s, bool_lexical s = true -> bool_denotes s (bool_to_py s).
Proof. exact bool_to_py_on_lexical. Qed.
Print Assumptions C18_bool_partial.

Theorem C18_bool_py_xml_py : forall b, bool_to_py (bool_to_xml b) = b.
Proof. exact bool_xml_py_xml_canonical. Qed.
Print Assumptions C18_bool_py_xml_py.

(* ------------------------------------------------------------------ enumerations *)
Theorem C18_enum_accepts_iff_literal : forall lits s, (exists v, enum_to_py lits s = Some v) <-> In s lits.
Proof. exact enum_accepts_iff. Qed.
Print Assumptions C18_enum_accepts_iff_literal.

Theorem C18_enum_roundtrip : forall lits s v, enum_to_py lits s = Some v -> v = s.
Proof. exact enum_roundtrip. Qed.
Print Assumptions C18_enum_roundtrip.

(* ------------------------------------------------------------------ durations (microsecond resolution) *)
Theorem C18_duration_roundtrip : forall u, 0 <= u < max_us -> parse_duration_us (duration_string_us u) = u.
Proof. exact duration_py_xml_py. Qed.
Print Assumptions C18_duration_roundtrip.

Theorem C18_duration_rejects_non_lexical : forall s, parse_duration_us s <> D_REJECT -> dur_lexical s.
Proof. exact duration_rejects_non_lexical. Qed.
Print Assumptions C18_duration_rejects_non_lexical.

(* XML -> Python, binary64-faithful model [parse_duration_f] of parse_duration (Scalars/Duration.v): the code computes
   float('<seconds>.<fraction>'), timedelta rounds that binary64 half-even to whole microseconds, total_seconds() divides by
   10**6.  A fraction of ANY length is therefore rounded (not truncated, not re-scaled).  For every lexical form
       PT [<digits>H] [<digits>M] [<digits>[.<digits>]S] [LF]
   whose exact value N/D microseconds is at most 2^31 s: the form is accepted, the timedelta's microsecond count u is within
   0.75 us of N/D, and the returned binary64 a/b is within LESS THAN ONE MICROSECOND of the exact value:
   |a/b - N/(10^6 D)| < 10^-6, written without division. *)
Theorem C18_duration_parse_within_1us : forall oh om os nl, wf_fld oh -> wf_fld om -> wf_secs os ->
  is_some oh || is_some om || is_some os = true -> (nl = [] \/ nl = [ascii_of_N 10]) ->
  let s := "P"%char :: "T"%char :: fld "H"%char oh ++ fld "M"%char om ++ secs os ++ nl in
  let N := fst (dur_exact_us oh om os) in let D := snd (dur_exact_us oh om os) in
  N <= 2 ^ 31 * 1000000 * D ->
  exists u a b, parse_duration_f s = DfOk u (a, b) /\ 0 < b /\ 0 < D /\
     - (3 * D) <= 4 * (u * D - N) <= 3 * D /\
     - (b * D) < a * D * 1000000 - N * b < b * D.
Proof. exact parse_duration_f_1us. Qed.
Print Assumptions C18_duration_parse_within_1us.

(* up to six fraction digits nothing is rounded: the microsecond count is exactly the decimal value *)
Theorem C18_duration_parse_exact_up_to_6_digits : forall d f, all_digits d = true -> all_digits f = true -> len f <= 6 ->
  digits_val d < 2 ^ 31 ->
  td_float_us (sec_float d f) = digits_val d * 1000000 + digits_val f * 10 ^ (6 - len f).
Proof. exact td_float_us_exact6. Qed.
Print Assumptions C18_duration_parse_exact_up_to_6_digits.

(* Python -> XML -> Python on the binary64-faithful parser: what duration_string writes is read back as the same
   microsecond count (and total_seconds() of it) *)
Theorem C18_duration_roundtrip_float_model : forall u, 0 <= u < max_us ->
  parse_duration_f (duration_string_us u) = DfOk u (rnd53 u 1000000).
Proof. exact duration_f_py_xml_py. Qed.
Print Assumptions C18_duration_roundtrip_float_model.

Theorem C18_duration_float_model_rejects_non_lexical : forall s, parse_duration_f s <> DfReject -> dur_lexical s.
Proof. exact parse_duration_f_rejects_non_lexical. Qed.
Print Assumptions C18_duration_float_model_rejects_non_lexical.

(* ------------------------------------------------------------------ date / time (seconds at microsecond resolution) *)
(* every valid xsd:dateTime / date / gYearMonth / gYear value (any year, optional time zone, end-of-day form)
   is written to a string that parses back to exactly the same value *)
Theorem C18_datetime_roundtrip : forall v, dt_valid v = true -> parse_dt (dt_chars v) = DtOk v.
Proof. exact dt_py_xml_py. Qed.
Print Assumptions C18_datetime_roundtrip.

(* the second field is kept as a binary64: for a decimal second n/D < 60 with a fraction of any length the stored value
   (repaired code: the largest binary64 below 60 when float() rounds up to 60.0) is below 60 and within one microsecond *)
Theorem C18_datetime_second_within_1us : forall n D, 0 <= n -> 0 < D -> n < 60 * D ->
  let x := clamp_second (rnd53 n D) in
  0 < snd x /\ fst x < 60 * snd x /\ - (snd x * D) < (fst x * D - n * snd x) * 1000000 < snd x * D.
Proof. exact clamp_second_within_1us. Qed.
Print Assumptions C18_datetime_second_within_1us.

(* the code before the repair: 59.999999999999999 is a valid second, float() gives 60.0, XsdDateInformation refuses it *)
Theorem C18_datetime_second_rounds_to_60_refuted : exists n D, 0 <= n /\ 0 < D /\ n < 60 * D /\
  60 * snd (rnd53 n D) <= fst (rnd53 n D).
Proof. exact second_rounds_to_60_ex. Qed.
Print Assumptions C18_datetime_second_rounds_to_60_refuted.

(* ------------------------------------------------------------------ non-vacuity *)
Example C18_nonvacuous :
  ts_to_py 1001 = (4616297704445814784, 4611686018427387904) /\ ts_to_xml (ts_to_py 1001) = 1001 /\
  ts_to_xml_trunc (ts_to_py 1001) = 1000 /\
  wf_dec (mkdec true "123456789012345678" (-18)) = true /\
  dec_to_xml (mkdec true "123456789012345678" (-18)) = "-0.123456789012345678"%string /\
  dec_to_xml (mkdec false "1" (-7)) = "0.0000001"%string /\
  duration_to_xml 3661000001 = "PT1H1M1.000001S"%string /\ duration_to_py "PT1H1M1.000001S" = 3661000001 /\
  int_to_py " +0012 " = Some 12 /\ int_to_py "1_0" = None /\
  dt_valid (mkdt 2020 (Some 5) None None false (Some (-360))) = true /\
  dt_to_xml (mkdt 2020 (Some 5) None None false (Some (-360))) = "2020-05-06:00"%string.
Proof. vm_compute. repeat split; congruence. Qed.

(* fractions longer than six digits: rounded half-even on the binary64, never mis-scaled *)
Example C18_nonvacuous_long_fraction :
  duration_to_py_us "PT0.0100000S" = 10000 /\ duration_to_py_us "PT1.1234567S" = 1123457 /\
  duration_to_py_us "PT0.0000004S" = 0 /\ duration_to_py_us "PT0.0000005S" = 0 /\ duration_to_py_us "PT0.0000015S" = 2 /\
  duration_to_py_us "PT1H1M1.5000000000000000000001S" = 3661500000 /\
  check_duration_1us (chars "PT2147483647.9999999S") = true /\
  dt_second_float "2020-05-06T10:11:59.999999999999999" = Some max_second /\
  dt_second_float_old "2020-05-06T10:11:59.999999999999999" = None /\
  option_map (fr_eqb (rnd53 1201 100)) (dt_second_float "2020-05-06T10:11:12.0100000") = Some true /\
  decf_to_xml false (10 ^ 17) 1 = "100000000000000000"%string /\ decf_to_xml true 25 1000 = "-0.025"%string /\
  decf_to_xml false 421 10 = "42.1"%string /\ decf_to_xml false 9007199254740993 8 = "1125899906842624"%string.
Proof. vm_compute. repeat split; congruence. Qed.
