(* placeholder during development *)
From SDC Require Import Wsd.Match Wsd.Table Wsd.Gen_Match.
