(* C14 -- WS-Discovery answers and records exactly what its matching rules prescribe.
   Property theorems only; each is closed by [exact] of a lemma proved in Wsd/Match_Proofs.v,
   Wsd/Table_Proofs.v or Wsd/Udp_Proofs.v.  Strings are UTF-8 byte lists, urlsplit / unquote are the
   byte-level urllib.parse model (Location/Quote.v); [match_consts] (MatchBy URIs) and [known_ids_cap]
   are regenerated from the source on every run.  fixed = true is the code with the proposed repair
   (a ValueError of urlsplit means "no match"), fixed = false the code as it is. *)
From Coq Require Import List NArith ZArith Bool Lia.
From SDC Require Import Location.Quote Location.Loc Wsd.Uri Wsd.Match Wsd.Match_Proofs
  Wsd.Udp Wsd.Udp_Proofs Wsd.Gen_Params Wsd.Table Wsd.Table_Proofs Wsd.Gen_Match.
Import ListNotations.

(* ---------------------------------------------------------------- scope matching *)
(* RFC 3986 rule on URI records: for well-formed URIs (any scheme case, optional authority, any
   segments incl. empty ones, trailing slash, %-escapes of any case, optional query / fragment) rendered
   to text, match_scope answers True exactly when scheme and authority agree case-insensitively and
   the percent-decoded segments of the first are a segment-wise prefix of those of the second; query
   and fragment play no role.  Holds for the code as it is and for the repaired code. *)
Theorem C14_rfc3986_spec : forall fixed (badf : bytes -> bool) mb u1 u2,
  wf_uri u1 = true -> wf_uri u2 = true -> is_rfc match_consts mb = true ->
  (match_scope match_consts fixed (fun s => urlsplit (badf s) s) mb (render u1) (render u2) = Ret true <->
   lower_s (u_scheme u1) = lower_s (u_scheme u2) /\
   lower_s (opt_val (u_auth u1)) = lower_s (opt_val (u_auth u2)) /\
   is_prefix (decoded_parts u1) (decoded_parts u2)).
Proof. exact (rfc_on_records match_consts). Qed.
Print Assumptions C14_rfc3986_spec.

(* the same rule on arbitrary texts, in terms of the components urlsplit finds (any urlsplit) *)
Theorem C14_rfc3986_text : forall split fixed my other,
  match_rfc fixed split my other = Ret true <-> rfc_spec split my other.
Proof. exact match_rfc_spec. Qed.
Print Assumptions C14_rfc3986_text.

Theorem C14_match_reflexive : forall split fixed a,
  split a <> SplitErr -> match_rfc fixed split a a = Ret true.
Proof. exact match_rfc_refl. Qed.
Print Assumptions C14_match_reflexive.

Theorem C14_match_transitive : forall split fixed a b c,
  match_rfc fixed split a b = Ret true -> match_rfc fixed split b c = Ret true ->
  match_rfc fixed split a c = Ret true.
Proof. exact match_rfc_trans. Qed.
Print Assumptions C14_match_transitive.

(* which MatchBy values select which rule (constants regenerated from the source): absent, empty,
   rfc3986, ldap and uuid all use the RFC 3986 rule; strcmp0 is its own rule *)
Theorem C14_matchby_values :
  is_rfc match_consts None = true /\ is_rfc match_consts (Some []) = true /\
  is_rfc match_consts (Some (m_uri match_consts)) = true /\
  is_rfc match_consts (Some (m_ldap match_consts)) = true /\
  is_rfc match_consts (Some (m_uuid match_consts)) = true /\
  is_rfc match_consts (Some (m_strcmp match_consts)) = false /\
  is_strcmp match_consts (Some (m_strcmp match_consts)) = true.
Proof. vm_compute. repeat split; reflexivity. Qed.
Print Assumptions C14_matchby_values.

(* string matching is exact *)
Theorem C14_strcmp_exact : forall fixed split mb a b,
  is_rfc match_consts mb = false -> is_strcmp match_consts mb = true ->
  match_scope match_consts fixed split mb a b = Ret (bytes_eqb a b) /\ (bytes_eqb a b = true <-> a = b).
Proof. intros. split; [now apply match_scope_strcmp|apply Location.Proofs.bytes_eqb_eq]. Qed.
Print Assumptions C14_strcmp_exact.

(* any other MatchBy value matches nothing *)
Theorem C14_unknown_matchby : forall split fixed mb a b,
  is_rfc match_consts mb = false -> is_strcmp match_consts mb = false ->
  match_scope match_consts fixed split mb a b = Ret false.
Proof. exact (match_scope_other match_consts). Qed.
Print Assumptions C14_unknown_matchby.

(* the rule URIs are compared as they are: an upper-cased or extended rule URI selects no rule at all *)
Theorem C14_matchby_exact_uri :
  let none mb := is_rfc match_consts (Some mb) || is_strcmp match_consts (Some mb) in
  none (upper_s (m_uri match_consts)) = false /\ none (upper_s (m_strcmp match_consts)) = false /\
  none (m_uri match_consts ++ [47]%N) = false /\ none (m_strcmp match_consts ++ [47]%N) = false /\
  none [32]%N = false.
Proof. vm_compute. repeat split; reflexivity. Qed.
Print Assumptions C14_matchby_exact_uri.

(* ... and under such a rule nothing matches at any level, identical text included: not one scope against a
   service's scope list, not a service against a filter with at least one scope, no service of a list *)
Theorem C14_unknown_rule_matches_nothing : forall fixed split mb u us srv sv svs types,
  is_rfc match_consts mb = false -> is_strcmp match_consts mb = false ->
  scope_in_list match_consts fixed split mb u srv = Ret false /\
  matches_filter match_consts fixed split sv types (Some (mb, u :: us)) = Ret false /\
  filter_services match_consts fixed split svs types (Some (mb, u :: us)) = Ret [].
Proof.
  intros. split; [now apply scope_in_list_other|]. split; [now apply matches_filter_other|now apply filter_services_other].
Qed.
Print Assumptions C14_unknown_rule_matches_nothing.

(* a text that is not a well-formed URI matches nothing under the RFC 3986 rule, not even itself (repaired code) *)
Theorem C14_malformed_matches_nothing : forall split mb a b,
  is_rfc match_consts mb = true -> split a = SplitErr \/ split b = SplitErr ->
  match_scope match_consts true split mb a b = Ret false.
Proof. exact (match_scope_malformed match_consts). Qed.
Print Assumptions C14_malformed_matches_nothing.

(* a requested scope that is VERBATIM among the scopes of a service: the verdict is decided by the requested rule
   alone -- RFC 3986 rules: matched iff the text is a well-formed URI; strcmp0: matched; any other rule: not matched *)
Theorem C14_identical_text_by_rule : forall split mb u es, In u es ->
  scope_in_list match_consts true split mb u (Some es) =
  Ret (if is_rfc match_consts mb then negb (is_err (split u)) else is_strcmp match_consts mb).
Proof. exact (identical_text_by_rule match_consts). Qed.
Print Assumptions C14_identical_text_by_rule.

(* repaired code: match_scope always returns a verdict, whatever urlsplit does with the two texts *)
Theorem C14_match_total : forall split mb a b,
  exists r, match_scope match_consts true split mb a b = Ret r.
Proof. exact (match_scope_total match_consts). Qed.
Print Assumptions C14_match_total.

(* the code as it is raises on a scope whose authority urlsplit rejects ("http://[x/a") *)
Theorem C14_match_total_unpatched_refuted : exists a b,
  match_scope match_consts false (urlsplit false) None a b = Raise.
Proof.
  exists [104; 116; 116; 112; 58; 47; 47; 91; 120; 47; 97]%N, [104; 116; 116; 112; 58; 47; 47; 104; 47; 97]%N.
  vm_compute. reflexivity.
Qed.
Print Assumptions C14_match_total_unpatched_refuted.

(* ---------------------------------------------------------------- Probe / Resolve *)
(* a Probe is answered with exactly the published services that offer all requested types and match
   all requested scopes under the requested rule, one ProbeMatch each, in publication order; nothing
   else changes (repaired code) *)
Theorem C14_probe_exact : forall split allow d types scopes,
  handle match_consts true split allow d (MProbe types scopes) =
  (d, map OProbeMatch (filter (matchesb match_consts true split types scopes) (t_values (local d)))).
Proof. exact (probe_exact match_consts). Qed.
Print Assumptions C14_probe_exact.

(* a Probe that names a rule the node does not implement and asks for at least one scope is not answered, whatever
   the published services offer (identical scope texts included) *)
Theorem C14_probe_unknown_rule_unanswered : forall fixed split allow d types mb u us,
  is_rfc match_consts mb = false -> is_strcmp match_consts mb = false ->
  handle match_consts fixed split allow d (MProbe types (Some (mb, u :: us))) = (d, []).
Proof. exact (probe_unknown_rule match_consts). Qed.
Print Assumptions C14_probe_unknown_rule_unanswered.

Theorem C14_probe_match_only_for_probe : forall fixed split allow d m s,
  In (OProbeMatch s) (snd (handle match_consts fixed split allow d m)) -> exists types scopes, m = MProbe types scopes.
Proof. exact (probe_match_only_for_probe match_consts). Qed.
Print Assumptions C14_probe_match_only_for_probe.

(* a ResolveMatch leaves the node only in answer to a Resolve for a published endpoint reference, and
   describes that service; and every such Resolve is answered *)
Theorem C14_resolve_only_published : forall fixed split allow d m s,
  In (OResolveMatch s) (snd (handle match_consts fixed split allow d m)) ->
  exists epr, m = MResolve epr /\ t_get epr (local d) = Some s.
Proof. exact (resolve_only_published match_consts). Qed.
Print Assumptions C14_resolve_only_published.

Theorem C14_resolve_published_answered : forall fixed split allow d epr s,
  t_get epr (local d) = Some s -> handle match_consts fixed split allow d (MResolve epr) = (d, [OResolveMatch s]).
Proof. exact (resolve_published_answered match_consts). Qed.
Print Assumptions C14_resolve_published_answered.

(* ---------------------------------------------------------------- the table of discovered services *)
(* after ANY sequence of received messages (Hello / ProbeMatches / ResolveMatches / Bye / Probe /
   Resolve / unknown, with or without AppSequence, any versions, any order, duplicates), for every
   non-empty endpoint reference: the table has an entry iff there was an announcement since the last
   Bye, and the entry's metadata version is the highest one announced since then *)
Theorem C14_table_max_version : forall fixed split allow ms epr, epr <> []%list ->
  table_entry_ok epr (rev (flat_map (tevs_of allow) ms))
                 (t_get epr (remote (handle_all match_consts fixed split allow (mkD [] []) ms))).
Proof. exact (table_after_messages match_consts). Qed.
Print Assumptions C14_table_max_version.

(* a Bye removes the entry of its endpoint reference and nothing else, whatever it carries besides the endpoint
   reference (AppSequence or not, MetadataVersion lower / equal / higher than the recorded one, Types, Scopes, XAddrs) *)
Theorem C14_bye_clears : forall fixed split allow d epr bx,
  handle match_consts fixed split allow d (MBye epr bx) = (mkD (t_del epr (remote d)) (local d), []) /\
  t_get epr (remote (fst (handle match_consts fixed split allow d (MBye epr bx)))) = None /\
  (forall k, bytes_eqb k epr = false ->
             t_get k (remote (fst (handle match_consts fixed split allow d (MBye epr bx)))) = t_get k (remote d)).
Proof. exact (bye_clears match_consts). Qed.
Print Assumptions C14_bye_clears.

(* "since its last Bye" read literally: the first announcement after a Bye is recorded as it is, from any state
   (any recorded version), after any Bye, with any (e.g. restarted, lower) metadata version *)
Theorem C14_announcement_after_bye : forall fixed split allow d bx a iid s, s_epr s <> []%list ->
  eff_iid allow a = Some iid ->          (* acted on: AppSequence with any InstanceId, or none and the option on (then 0) *)
  t_get (s_epr s) (remote (handle_all match_consts fixed split allow d [MBye (s_epr s) bx; MHello a s]))
    = Some (with_iid iid s) /\
  t_get (s_epr s) (remote (handle_all match_consts fixed split allow d [MBye (s_epr s) bx; MResolveMatches a (Some s)]))
    = Some (with_iid iid s) /\
  t_get (s_epr s) (remote (handle_all match_consts fixed split allow d [MBye (s_epr s) bx; MProbeMatches a [s]]))
    = Some (with_iid iid s).
Proof. exact (announcement_after_bye match_consts). Qed.
Print Assumptions C14_announcement_after_bye.

(* what makes an announcement acted on.  An AppSequence with ANY InstanceId (0 is a legal xs:unsignedInt) is acted on,
   with the module option allow_missing_app_sequence on or off: Hello and ResolveMatch are entered into the table (version
   arbitration of add_remote), every ProbeMatch likewise *)
Theorem C14_announcement_with_appseq : forall fixed split allow d iid s ms,
  handle match_consts fixed split allow d (MHello (Some iid) s) =
    (mkD (add_remote (remote d) (with_iid iid s)) (local d), match s_xaddrs s with [] => [OResolve (s_epr s)] | _ => [] end) /\
  handle match_consts fixed split allow d (MResolveMatches (Some iid) (Some s)) =
    (mkD (add_remote (remote d) (with_iid iid s)) (local d), []) /\
  remote (fst (handle match_consts fixed split allow d (MProbeMatches (Some iid) ms))) =
    fold_left apply_tev (map (fun s => TAnn (with_iid iid s)) ms) (remote d).
Proof. exact (announcement_with_appseq match_consts). Qed.
Print Assumptions C14_announcement_with_appseq.

(* without AppSequence an announcement is ignored when the option is off and handled exactly like InstanceId 0 when on *)
Theorem C14_announcement_without_appseq : forall fixed split d,
  (forall s, handle match_consts fixed split false d (MHello None s) = (d, [])) /\
  (forall ms, handle match_consts fixed split false d (MProbeMatches None ms) = (d, [])) /\
  (forall m, handle match_consts fixed split false d (MResolveMatches None m) = (d, [])) /\
  (forall s, handle match_consts fixed split true d (MHello None s) = handle match_consts fixed split true d (MHello (Some 0%Z) s)) /\
  (forall ms, handle match_consts fixed split true d (MProbeMatches None ms) =
              handle match_consts fixed split true d (MProbeMatches (Some 0%Z) ms)) /\
  (forall m, handle match_consts fixed split true d (MResolveMatches None m) =
             handle match_consts fixed split true d (MResolveMatches (Some 0%Z) m)).
Proof. exact (announcement_without_appseq match_consts). Qed.
Print Assumptions C14_announcement_without_appseq.

(* the empty endpoint reference is never recorded *)
Theorem C14_no_empty_epr : forall rh, t_get [] (table_of rh) = None.
Proof. exact table_no_empty_epr. Qed.
Print Assumptions C14_no_empty_epr.

(* ---------------------------------------------------------------- message ids (bounded memory of Wsd/Udp.v) *)
Lemma cap_pos : (0 < known_ids_cap)%nat.
Proof. unfold known_ids_cap. lia. Qed.

(* an id that was acted on is not acted on again while it is among the remembered ids, i.e. as long as
   fewer than cap further ids were registered (the bound is part of the claim) *)
Theorem C14_dedup : forall k id es,
  is_known k id = false ->
  no_restart es = true ->                   (* stop() + start() creates a new NetworkingThread with an empty memory *)
  (count_inserts known_ids_cap (remember known_ids_cap k id) es < known_ids_cap)%nat ->
  dstep known_ids_cap k (EvIn id) = (remember known_ids_cap k id, true) /\
  snd (dstep known_ids_cap (fst (drun known_ids_cap (remember known_ids_cap k id) es)) (EvIn id)) = false.
Proof. exact (acted_at_most_once known_ids_cap cap_pos). Qed.
Print Assumptions C14_dedup.

(* in the node model a datagram with a remembered id changes nothing and sends nothing *)
Theorem C14_known_id_not_acted : forall fixed split allow cap n mid m,
  is_known (kn_ids n) mid = true -> deliver match_consts fixed split allow cap n mid m = (n, []).
Proof. exact (known_id_not_acted match_consts). Qed.
Print Assumptions C14_known_id_not_acted.

(* ---------------------------------------------------------------- non-vacuity *)
(* "x://Host/a%2Fb/" against "X://host/a%2fb//c?q#f": well-formed, matched; and a table history *)
Example C14_nonvacuous :
  let u1 := mkUri [120]%N (Some [72; 111; 115; 116]%N) [[]; [97; 37; 50; 70; 98]; []]%N None None in
  let u2 := mkUri [88]%N (Some [104; 111; 115; 116]%N) [[]; [97; 37; 50; 102; 98]; []; [99]]%N (Some [113]%N) (Some [102]%N) in
  wf_uri u1 = true /\ wf_uri u2 = true /\
  match_scope match_consts false (urlsplit false) None (render u1) (render u2) = Ret true /\
  match_scope match_consts false (urlsplit false) None (render u2) (render u1) = Ret false /\
  (let s v := mkService [114]%N [] None [] v 1 in
   map (fun kv => s_mdv (snd kv))
       (remote (handle_all match_consts false (urlsplit false) false (mkD [] [])
                  [MHello (Some 0%Z) (s 2%Z); MHello (Some 1%Z) (s 1%Z); MBye [114]%N (mkBx None (Some 1%Z) [] (Some [[120]%N]) [[121]%N]); MResolveMatches (Some 1%Z) (Some (s 1%Z));
                   MProbeMatches (Some 1%Z) [s 3%Z; s 2%Z]])) = [3%Z]).
Proof. vm_compute. repeat split; reflexivity. Qed.
