(* C08 -- WS-Eventing subscriptions deliver exactly while alive and end cleanly.
   Property theorems only; each is closed by [exact] of a lemma of Eventing/Proofs.v.
   The model is Eventing/Model.v (the repaired code, see fixes/C08_*.diff); time in ticks of 1/8 s.

   Vocabulary:  [final c ops] is the provider state after an arbitrary history [ops] of
   Subscribe / Renew / GetStatus / Unsubscribe / Advance / Report / Housekeeping / Stop operations
   (delivery outcomes are part of Report / Stop); [msgs_of (step ...)] are the messages handed to
   subscriber-facing SOAP clients by one operation; [live c s now] says that subscription [s] is not
   closed, not expired, not unsubscribed and below the delivery-failure limit; an entry of
   [st_table] is an accepted subscription that housekeeping / shutdown has not dropped. *)
From Coq Require Import List ZArith Bool String Lia.
From SDC Require Import Eventing.Gen_Consts Eventing.Gen_Clauses Eventing.Model Eventing.Proofs Eventing.FanOut Eventing.FanOutProofs.
Import ListNotations.
Open Scope Z_scope.
Open Scope list_scope.

(* --- delivery: a notification is handed over iff the subscription is accepted and alive and matches --- *)
Theorem C08_delivery_iff : forall c ops a outs k b dest,
  let st := final c ops in
  In (Notify k b dest) (msgs_of (step c st (Report a outs))) <->
  b = a /\ exists s, In s (st_table st) /\ s_id s = k /\ dest = s_notify s /\
                     live c s (st_now st) /\ matches (s_filter s) a = true.
Proof. exact (fun c ops => delivery_iff c (final c ops)). Qed.
Print Assumptions C08_delivery_iff.

(* table entries are exactly the accepted Subscribe requests: same filter, NotifyTo, EndTo; the id was
   returned in the SubscribeResponse *)
Theorem C08_table_entries_were_accepted : forall c ops s, In s (st_table (final c ops)) ->
  exists pre q post cs,
    ops = pre ++ Subscribe q :: post /\ accepts c q = true /\
    same_static (new_sub c (final c pre) q) s /\
    resp_of (step c (final c pre) (Subscribe q)) = RSub (s_id s) cs.
Proof. exact table_accepted. Qed.
Print Assumptions C08_table_entries_were_accepted.

(* nothing but a report hands out notifications, nothing but shutdown hands out SubscriptionEnd *)
Theorem C08_only_report_and_stop_send : forall c ops o,
  match o with Report _ _ | Stop _ _ => True | _ => msgs_of (step c (final c ops) o) = [] end.
Proof. exact (fun c ops => only_report_and_stop_send c (final c ops)). Qed.
Print Assumptions C08_only_report_and_stop_send.

Theorem C08_report_hands_no_end : forall c ops a outs k d e,
  ~ In (End k d e) (msgs_of (step c (final c ops) (Report a outs))).
Proof. exact (fun c ops => report_hands_no_end c (final c ops)). Qed.
Print Assumptions C08_report_hands_no_end.

(* housekeeping never drops a live subscription and drops exactly the obsolete ones *)
Theorem C08_housekeeping_keeps_live : forall c ops s,
  0 <= c_grace c -> In s (st_table (final c ops)) -> live c s (st_now (final c ops)) ->
  In s (st_table (fst (step c (final c ops) Housekeeping))).
Proof. exact (fun c ops => housekeeping_keeps_live c (final c ops)). Qed.
Print Assumptions C08_housekeeping_keeps_live.

(* ... and nothing but housekeeping and shutdown removes an entry (its static part is kept) *)
Theorem C08_only_housekeeping_and_stop_drop : forall c ops o s,
  In s (st_table (final c ops)) ->
  match o with
  | Housekeeping | Stop _ _ => True
  | _ => exists s', In s' (st_table (fst (step c (final c ops) o))) /\ same_static s s'
  end.
Proof. exact (fun c ops o s => step_keeps_entries c (final c ops) o s (proj1 (Inv_final c ops))). Qed.
Print Assumptions C08_only_housekeeping_and_stop_drop.

(* --- the filter: on the SDC action URIs suffix matching IS membership --- *)
Theorem C08_filter_is_membership : forall f a,
  incl f sdc_actions -> In a sdc_actions -> (matches f a = true <-> In a f).
Proof. exact (filter_is_membership_gen sdc_actions sdc_actions_suffix_free). Qed.
Print Assumptions C08_filter_is_membership.

(* --- granted expiry --- *)
Theorem C08_granted_bound : forall c ops q k cs,
  let st := final c ops in
  resp_of (step c st (Subscribe q)) = RSub k cs ->
  exists s, In s (st_table (fst (step c st (Subscribe q)))) /\ s_id s = k /\ k = st_next st /\
    s_started s = st_now st /\ s_expire s = grant c (q_expires q) /\
    s_expire s <= c_maxd c /\ (forall d, q_expires q = Some d -> s_expire s <= d) /\
    (q_expires q = None -> s_expire s = c_maxd c) /\
    cs = Z.max (round2 (s_expire s)) 0 /\
    cs <= Z.max (round2 (c_maxd c)) 0 /\ (forall d, q_expires q = Some d -> cs <= Z.max (round2 d) 0).
Proof. exact (fun c ops => subscribe_granted c (final c ops)). Qed.
Print Assumptions C08_granted_bound.

Theorem C08_renew_granted_bound : forall c ops i e cs,
  let st := final c ops in
  resp_of (step c st (Renew i e)) = RRenew cs ->
  exists k s0 s, i = Id k /\ In s0 (st_table st) /\ s_id s0 = k /\ s_unsub s0 = None /\
    In s (st_table (fst (step c st (Renew i e)))) /\ same_static s0 s /\
    s_started s = st_now st /\ s_expire s = grant c e /\
    s_expire s <= c_maxd c /\ (forall d, e = Some d -> s_expire s <= d) /\
    (e = None -> s_expire s = c_maxd c) /\
    cs = Z.max (round2 (s_expire s)) 0 /\
    cs <= Z.max (round2 (c_maxd c)) 0 /\ (forall d, e = Some d -> cs <= Z.max (round2 d) 0).
Proof.
  exact (fun c ops i e cs => renew_granted c (final c ops) i e cs (proj1 (Inv_final c ops))).
Qed.
Print Assumptions C08_renew_granted_bound.

(* GetStatus reports the rounded remainder of the granted expiry and changes nothing *)
Theorem C08_status_consistent : forall c ops i cs,
  let st := final c ops in
  resp_of (step c st (GetStatus i)) = RStat cs ->
  fst (step c st (GetStatus i)) = st /\
  exists k s, i = Id k /\ In s (st_table st) /\ s_id s = k /\ s_unsub s = None /\
    cs = Z.max (round2 (s_expire s - (st_now st - s_started s))) 0.
Proof. exact (fun c ops => status_consistent c (final c ops)). Qed.
Print Assumptions C08_status_consistent.

(* ... and the grant of an entry is changed by nothing but a successful Renew naming it *)
Theorem C08_grant_stable : forall c ops o s s',
  let st := final c ops in
  In s (st_table st) -> In s' (st_table (fst (step c st o))) -> s_id s' = s_id s ->
  (s_started s' = s_started s /\ s_expire s' = s_expire s) \/
  (exists e cs, o = Renew (Id (s_id s)) e /\ resp_of (step c st o) = RRenew cs).
Proof. exact (fun c ops o s s' => grant_stable c (final c ops) o s s' (Inv_final c ops)). Qed.
Print Assumptions C08_grant_stable.

(* the reported remainder never exceeds the grant *)
Theorem C08_remaining_le_grant : forall c ops s,
  let st := final c ops in
  In s (st_table st) -> rem_cs s (st_now st) <= Z.max (round2 (s_expire s)) 0 /\ s_expire s <= c_maxd c.
Proof. exact remaining_le_grant. Qed.
Print Assumptions C08_remaining_le_grant.

(* --- delivery failures: EVERY kind counts ---------------------------------------------------------------
   [outcome] lists the kinds of failure an exchange with a subscriber can end in (HTTP error status / SOAP
   fault, refused connection, connect time-out, socket / asyncio time-out, connection reset, an answer that
   is not XML); the model treats each of them, for the sync and the async manager, as one failed delivery: *)
Theorem C08_every_failure_kind_counts : forall c ops a outs s,
  let st := final c ops in
  In s (st_table st) -> live c s (st_now st) -> matches (s_filter s) a = true ->
  outcome_at outs (s_notify s) <> OOk ->
  In (set_errors s (s_errors s + 1)) (st_table (fst (step c st (Report a outs)))).
Proof. exact (fun c ops => failure_counts c (final c ops)). Qed.
Print Assumptions C08_every_failure_kind_counts.

Theorem C08_only_an_answered_exchange_is_a_delivery : forall sync d o,
  snd (exchange_state sync d o) = true -> o = OOk.
Proof. exact exchange_state_ok. Qed.
Print Assumptions C08_only_an_answered_exchange_is_a_delivery.

Theorem C08_over_the_limit_nothing_is_delivered : forall c ops a outs s k b dest,
  let st := final c ops in
  In s (st_table st) -> c_maxerr c <= s_errors s -> s_id s = k ->
  ~ In (Notify k b dest) (msgs_of (step c st (Report a outs))).
Proof.
  intros c ops a outs s k b dest st Hs E Hk H.
  apply (C08_delivery_iff c ops a outs k b dest) in H. destruct H as [_ [s' [Hs' [Hk' [_ [L _]]]]]].
  pose proof (proj1 (Inv_final c ops)) as ND.
  assert (s' = s) as ->.
  { pose proof (tfind_NoDup _ _ ND Hs') as F1. pose proof (tfind_NoDup _ _ ND Hs) as F2.
    fold st in F1, F2. rewrite Hk' in F1. rewrite Hk in F2. congruence. }
  exact (over_limit_not_live c s _ E L).
Qed.
Print Assumptions C08_over_the_limit_nothing_is_delivered.

(* the except clauses of the send paths as they are in the source today (regenerated on every run by
   harness/impl/gen_eventing_clauses.py): (function, exception classes, counts a notify error, marks a
   connection error, re-raises).  A new, removed or changed clause stops this proof; the correspondence
   streams inject an outcome that reaches every clause of the counting functions. *)
Theorem C08_send_path_clauses_as_modelled : send_path_clauses = [
  ("BicepsSubscription.send_notification_report", "HTTPReturnCodeError", true, false, true);
  ("BicepsSubscription.send_notification_report", "Exception", true, true, true);
  ("SubscriptionsManagerBase._send_notification_report", "ConnectionRefusedError", false, false, false);
  ("SubscriptionsManagerBase._send_notification_report", "HTTPReturnCodeError", false, false, false);
  ("SubscriptionsManagerBase._send_notification_report", "NotConnected", false, false, false);
  ("SubscriptionsManagerBase._send_notification_report", "TimeoutError", false, false, false);
  ("SubscriptionsManagerBase._send_notification_report", "DocumentInvalid", false, false, true);
  ("SubscriptionsManagerBase._send_notification_report", "XMLSyntaxError", false, false, false);
  ("SubscriptionsManagerBase._send_notification_report", "Exception", false, false, true);
  ("SubscriptionBase.send_notification_end_message", "Exception", false, false, false);
  ("BicepsSubscriptionAsync.async_send_notification_report", "HTTPReturnCodeError", true, false, true);
  ("BicepsSubscriptionAsync.async_send_notification_report", "TimeoutError", true, true, true);
  ("BicepsSubscriptionAsync.async_send_notification_report", "Exception", true, true, true);
  ("BICEPSSubscriptionsManagerBaseAsync._async_send_notification_report", "HTTPReturnCodeError", false, false, false);
  ("BICEPSSubscriptionsManagerBaseAsync._async_send_notification_report",
   "TimeoutError | ClientConnectionError | ClientConnectorError | ServerConnectionError | TimeoutError", false, false, false);
  ("BICEPSSubscriptionsManagerBaseAsync._async_send_notification_report", "DocumentInvalid", false, false, true);
  ("BICEPSSubscriptionsManagerBaseAsync._async_send_notification_report", "Exception", false, false, true);
  ("BicepsSubscriptionAsync.async_send_notification_end_message", "ClientConnectorError", false, false, false);
  ("BicepsSubscriptionAsync.async_send_notification_end_message", "Exception", false, false, false)
]%string.
Proof. reflexivity. Qed.
Print Assumptions C08_send_path_clauses_as_modelled.

(* whatever the table looks like: every except clause of the two functions that count delivery failures
   counts one, and the last clause of each catches every exception; the sync manager's per-receiver wrapper
   goes on with the next receiver after what one SUBSCRIBER can cause (refused / not connected / time-out /
   HTTP error status / an answer that is not XML) and ends the fan-out, passing the exception to the sending
   thread, for what is wrong with the REPORT (invalid document) or unknown (final catch-all) *)
Definition counting_fn (f : string) : bool :=
  String.eqb f "BicepsSubscription.send_notification_report" ||
  String.eqb f "BicepsSubscriptionAsync.async_send_notification_report".

Theorem C08_every_send_path_clause_counts :
  forallb (fun cl => let '(f, _, counts, _, _) := cl in implb (counting_fn f) counts) send_path_clauses = true /\
  forallb (fun f => match rev (filter (fun cl => let '(g, _, _, _, _) := cl in String.eqb g f) send_path_clauses) with
                    | (_, e, _, _, _) :: _ => String.eqb e "Exception"
                    | [] => false
                    end)
          ["BicepsSubscription.send_notification_report"; "BicepsSubscriptionAsync.async_send_notification_report"]%string = true /\
  forallb (fun cl => let '(f, e, _, _, reraises) := cl in
                     implb (String.eqb f "SubscriptionsManagerBase._send_notification_report")
                           (Bool.eqb reraises (String.eqb e "DocumentInvalid" || String.eqb e "Exception")))
          send_path_clauses = true /\
  forallb (fun e => existsb (fun cl => let '(f, e', _, _, reraises) := cl in
                                       String.eqb f "SubscriptionsManagerBase._send_notification_report" &&
                                       String.eqb e' e && negb reraises) send_path_clauses)
          ["ConnectionRefusedError"; "HTTPReturnCodeError"; "NotConnected"; "TimeoutError"; "XMLSyntaxError"]%string = true.
Proof. vm_compute. repeat split; reflexivity. Qed.
Print Assumptions C08_every_send_path_clause_counts.

(* --- unknown subscriptions: fault, no message, state unchanged --- *)
Theorem C08_unknown_fault_noop : forall c ops i,
  let st := final c ops in
  ~ known st i ->
  (forall e, step c st (Renew i e) = (st, (RFault, []))) /\
  step c st (GetStatus i) = (st, (RFault, [])) /\
  step c st (Unsubscribe i) = (st, (RFault, [])).
Proof. exact (fun c ops => unknown_fault_noop c (final c ops)). Qed.
Print Assumptions C08_unknown_fault_noop.

Theorem C08_known_is_served : forall c ops i,
  let st := final c ops in
  known st i ->
  (forall e, exists cs, resp_of (step c st (Renew i e)) = RRenew cs) /\
  (exists cs, resp_of (step c st (GetStatus i)) = RStat cs) /\
  resp_of (step c st (Unsubscribe i)) = RUnsub.
Proof. exact (fun c ops i => known_served c (final c ops) i (proj1 (Inv_final c ops))). Qed.
Print Assumptions C08_known_is_served.

(* "no longer known": after a successful Unsubscribe the id is unknown, and an id that is unknown
   (never issued ids excepted) stays unknown whatever happens next *)
Theorem C08_unsubscribed_is_unknown : forall c ops i,
  let st := final c ops in
  resp_of (step c st (Unsubscribe i)) = RUnsub -> ~ known (fst (step c st (Unsubscribe i))) i.
Proof. exact (fun c ops i => unsubscribed_unknown c (final c ops) i (proj1 (Inv_final c ops))). Qed.
Print Assumptions C08_unsubscribed_is_unknown.

Theorem C08_unknown_for_ever : forall c ops ops' k,
  let st := final c ops in
  k < st_next st -> ~ known st (Id k) -> ~ known (fst (run c st ops')) (Id k).
Proof. exact (fun c ops ops' k => unknown_forever c ops' (final c ops) k (Inv_final c ops)). Qed.
Print Assumptions C08_unknown_for_ever.

(* --- shutdown: exactly one SubscriptionEnd per live subscription, to EndTo if given else NotifyTo --- *)
Theorem C08_stop_exactly_one_end : forall c ops outs,
  let st := final c ops in
  let ms := msgs_of (step c st (Stop true outs)) in
  (forall s, In s (st_table st) -> live c s (st_now st) ->
     count_occ msg_eq_dec ms (End (s_id s) (fst (end_dest s)) (snd (end_dest s))) = 1%nat /\
     (forall d e, In (End (s_id s) d e) ms -> (d, e) = end_dest s)) /\
  (forall k d e, In (End k d e) ms ->
     exists s, In s (st_table st) /\ s_id s = k /\ live c s (st_now st) /\ (d, e) = end_dest s) /\
  (forall k a d, ~ In (Notify k a d) ms) /\
  msgs_of (step c st (Stop false outs)) = [] /\
  st_table (fst (step c st (Stop true outs))) = [] /\ st_table (fst (step c st (Stop false outs))) = [].
Proof. exact (fun c ops outs => stop_exactly_one_end c (final c ops) outs (proj1 (Inv_final c ops))). Qed.
Print Assumptions C08_stop_exactly_one_end.

Theorem C08_end_goes_to_endto_else_notifyto : forall s,
  (forall a, s_end s = Some a -> end_dest s = (a, true)) /\
  (s_end s = None -> end_dest s = (s_notify s, false)).
Proof. exact end_dest_spec. Qed.
Print Assumptions C08_end_goes_to_endto_else_notifyto.

(* --- the constants found in the source today (regenerated on every run) --- *)
Theorem C08_default_cfg_wf : 0 < c_maxerr default_cfg /\ 0 < c_maxd default_cfg /\ 0 <= c_grace default_cfg.
Proof. exact default_cfg_wf. Qed.
Print Assumptions C08_default_cfg_wf.

(* with them, a subscription accepted with a positive (or no) requested duration is live at once *)
Theorem C08_fresh_subscription_live : forall ops q,
  let st := final default_cfg ops in
  accepts default_cfg q = true -> (forall d, q_expires q = Some d -> 0 < d) ->
  live default_cfg (new_sub default_cfg st q) (st_now st).
Proof.
  exact (fun ops q => fresh_subscription_live default_cfg (final default_cfg ops) q
                        (proj1 default_cfg_wf) (proj1 (proj2 default_cfg_wf))).
Qed.
Print Assumptions C08_fresh_subscription_live.

(* the boolean twin used by the harness to search the model agrees with the theorems *)
Theorem C08_check_twin_holds : forall c ops, check_C08 c init ops = true.
Proof. exact (fun c ops => check_C08_holds c ops init). Qed.
Print Assumptions C08_check_twin_holds.

(* --- the fan-out of one report, fine-grained (Eventing/FanOut.v) ---------------------------------------------
   send_to_subscribers is not atomic: the receiver list is built once, then the receivers are served one after
   the other (blocking posts) while other threads subscribe, renew, unsubscribe, the clock runs, housekeeping
   and other senders work.  [xfinal c xs] is the provider state after a history [xs] of plain operations and
   such fine-grained reports ([Fan a outs order inter]: [order] = iteration order of the subscription table,
   [inter] = for the n-th hand-off of the report the operations performed while that delivery is in progress;
   with an async manager the operations that need the table lock wait until the fan-out is over).
   [fan_visits] lists, for every receiver in turn, the provider state at the moment it is served
   ([v_st], the send time) and whether a notification was handed to its client ([v_hand]). *)

(* every entry of the receiver list is served exactly once, in order; the list holds the ids of the table
   entries whose filter matches, taken when the fan-out starts (a subscription accepted later is not in it) *)
Theorem C08_fanout_serves_each_receiver_once : forall c xs a outs order inter,
  let st := xfinal c xs in
  map v_k (fan_visits c st a outs order inter) = receivers st a order /\
  forall k, In k (receivers st a order) <->
            In k order /\ exists s, In s (st_table st) /\ s_id s = k /\ matches (s_filter s) a = true.
Proof.
  intros c xs a outs order inter st. split.
  - apply fan_keys.
  - intros k. apply receivers_spec. exact (proj1 (Inv_xfinal c xs)).
Qed.
Print Assumptions C08_fanout_serves_each_receiver_once.

(* delivery iff alive AT SEND TIME: a receiver is handed the notification iff, at the moment its turn comes,
   it is in the table, not closed, not expired, not unsubscribed and below the failure limit -- whatever
   happened while the earlier receivers of the same report were served *)
Theorem C08_fanout_delivery_iff_alive_at_send_time : forall c xs a outs order inter v,
  let st := xfinal c xs in
  In v (fan_visits c st a outs order inter) ->
  ((exists h, v_hand v = Some h) <->
   exists s, In s (st_table (v_st v)) /\ s_id s = v_k v /\ live c s (st_now (v_st v))) /\
  (forall m obs, v_hand v = Some (m, obs) ->
   exists s, In s (st_table (v_st v)) /\ s_id s = v_k v /\ m = Notify (v_k v) a (s_notify s)).
Proof. exact (fun c xs a outs order inter v => fan_visit_spec c (xfinal c xs) a outs order inter v (Inv_xfinal c xs)). Qed.
Print Assumptions C08_fanout_delivery_iff_alive_at_send_time.

(* the sync manager: an Unsubscribe of j handled while an earlier receiver is being served (answered with
   UnsubscribeResponse, or with a fault because j was unknown already) keeps the report from every later
   receiver entry j of this fan-out *)
Theorem C08_fanout_unsubscribe_during_delivery : forall c xs a outs order inter j pre v post,
  let st := xfinal c xs in
  c_sync c = true -> j < st_next st ->
  fan_visits c st a outs order inter = pre ++ v :: post ->
  (exists h, v_hand v = Some h) ->
  In (Unsubscribe (Id j)) (nth (List.length (hands_of pre)) inter []) ->
  Forall (fun v' => v_k v' = j -> v_hand v' = None) post.
Proof.
  exact (fun c xs a outs order inter j pre v post S L E =>
           fan_unsub_blocks c j a outs (receivers (xfinal c xs) a order) inter (xfinal c xs) [] pre v post
                            (Inv_xfinal c xs) S L E).
Qed.
Print Assumptions C08_fanout_unsubscribe_during_delivery.

(* an id that is not (or no longer) known when the fan-out starts is not known at any send time of it, is
   handed nothing, and is still unknown when the fan-out and the waiting operations are through *)
Theorem C08_fanout_unknown_stays_unknown : forall c xs a outs order inter j,
  let st := xfinal c xs in
  j < st_next st -> ~ known st (Id j) ->
  (forall v, In v (fan_visits c st a outs order inter) ->
     ~ known (v_st v) (Id j) /\ (v_k v = j -> v_hand v = None)) /\
  ~ known (fst (fan_step c st a outs order inter)) (Id j).
Proof. exact (fun c xs a outs order inter j => fan_step_gone c (xfinal c xs) a outs order inter j (Inv_xfinal c xs)). Qed.
Print Assumptions C08_fanout_unknown_stays_unknown.

(* the atomic [Report] step of the coarse model is the special case "nothing interleaved, receivers in table
   order" of the fine-grained one: same state afterwards, same messages *)
Theorem C08_fanout_without_interleaving_is_the_atomic_report : forall c xs a outs,
  let st := xfinal c xs in
  let order := map s_id (st_table st) in
  fst (fan_step c st a outs order []) = fst (step c st (Report a outs)) /\
  map fst (fst (snd (fan_step c st a outs order []))) = msgs_of (step c st (Report a outs)) /\
  snd (snd (fan_step c st a outs order [])) = [].
Proof. exact (fun c xs a outs => fan_step_plain c (xfinal c xs) a outs (proj1 (Inv_xfinal c xs))). Qed.
Print Assumptions C08_fanout_without_interleaving_is_the_atomic_report.

(* the theorems about single operations hold after fine-grained histories as well (they are proved for every
   state satisfying the invariant); the two the statement names: *)
Theorem C08_fine_histories_extend_coarse : forall c ops, xfinal c (map Plain ops) = final c ops.
Proof. exact xfinal_plain. Qed.
Print Assumptions C08_fine_histories_extend_coarse.

Theorem C08_delivery_iff_after_fine_history : forall c xs a outs k b dest,
  let st := xfinal c xs in
  In (Notify k b dest) (msgs_of (step c st (Report a outs))) <->
  b = a /\ exists s, In s (st_table st) /\ s_id s = k /\ dest = s_notify s /\
                     live c s (st_now st) /\ matches (s_filter s) a = true.
Proof. exact (fun c xs => delivery_iff c (xfinal c xs)). Qed.
Print Assumptions C08_delivery_iff_after_fine_history.

Theorem C08_stop_exactly_one_end_after_fine_history : forall c xs outs,
  let st := xfinal c xs in
  let ms := msgs_of (step c st (Stop true outs)) in
  (forall s, In s (st_table st) -> live c s (st_now st) ->
     count_occ msg_eq_dec ms (End (s_id s) (fst (end_dest s)) (snd (end_dest s))) = 1%nat /\
     (forall d e, In (End (s_id s) d e) ms -> (d, e) = end_dest s)) /\
  (forall k d e, In (End k d e) ms ->
     exists s, In s (st_table st) /\ s_id s = k /\ live c s (st_now st) /\ (d, e) = end_dest s) /\
  (forall k a d, ~ In (Notify k a d) ms) /\
  msgs_of (step c st (Stop false outs)) = [] /\
  st_table (fst (step c st (Stop true outs))) = [] /\ st_table (fst (step c st (Stop false outs))) = [].
Proof. exact (fun c xs outs => stop_exactly_one_end c (xfinal c xs) outs (proj1 (Inv_xfinal c xs))). Qed.
Print Assumptions C08_stop_exactly_one_end_after_fine_history.

Theorem C08_fine_check_twin_holds : forall c xs, xcheck c init xs = true.
Proof. exact (fun c xs => xcheck_holds c xs init (Inv_init c)). Qed.
Print Assumptions C08_fine_check_twin_holds.

(* non-vacuity: two subscribers of the same report; the second one's Unsubscribe is handled while the first
   one is being served: with the table order 0,1 subscriber 1 gets nothing, with the order 1,0 it had been served
   already; the clock passing subscriber 0's expiry during the delivery to 1 silences 0 *)
Example C08_fanout_nonvacuous :
  let q0 := mkReq true true (Some [act 2]) (Some 81) 0 None in
  let q1 := mkReq true true (Some [act 2]) None 1 None in
  let st := final default_cfg [Subscribe q0; Subscribe q1] in
  snd (fan_step default_cfg st (act 2) [OOk; OOk] [0; 1] [[Unsubscribe (Id 1)]])
    = ([(Notify 0 (act 2) 0, [(RUnsub, [])])], []) /\
  snd (fan_step default_cfg st (act 2) [OOk; OOk] [1; 0] [[Unsubscribe (Id 1)]])
    = ([(Notify 1 (act 2) 1, [(RUnsub, [])]); (Notify 0 (act 2) 0, [])], []) /\
  snd (fan_step default_cfg st (act 2) [OOk; OOk] [1; 0] [[Advance 81]])
    = ([(Notify 1 (act 2) 1, [(RNone, [])])], []) /\
  msgs_of (step default_cfg (fst (fan_step default_cfg st (act 2) [OOk; OOk] [0; 1] [[Unsubscribe (Id 1)]]))
                (Stop true [])) = [End 0 0 false].
Proof. vm_compute. repeat split; reflexivity. Qed.

(* non-vacuity: two subscribers; one unsubscribes, a report reaches only the other; a delivery
   failure silences it; shutdown then ends nobody; and an earlier shutdown ends exactly the live one *)
Example C08_delivery_nonvacuous :
  let q0 := mkReq true true (Some [act 2]) (Some 81) 0 (Some 1) in
  let q1 := mkReq true true (Some [act 2; act 4]) None 1 None in
  let ops := [Subscribe q0; Subscribe q1; Unsubscribe (Id 1); Advance 8] in
  map (fun r => msgs_of r) [step default_cfg (final default_cfg ops) (Report (act 2) [OOk; OOk])]
    = [[Notify 0 (act 2) 0]] /\
  msgs_of (step default_cfg (final default_cfg ops) (Stop true [])) = [End 0 1 true] /\
  msgs_of (step default_cfg (final default_cfg (ops ++ [Report (act 2) [OTimeout]]))
                (Report (act 2) [OOk])) = [] /\
  resp_of (step default_cfg (final default_cfg ops) (GetStatus (Id 0))) = RStat 912 /\
  resp_of (step default_cfg (final default_cfg ops) (GetStatus (Id 1))) = RFault.
Proof. vm_compute. repeat split; reflexivity. Qed.
