(* C06 -- Consumer MDIB never regresses under lost, duplicated or reordered reports.
   Property theorems only (model: Mdib/Consumer.v).  All statements quantify over ARBITRARY report lists:
   any subset, duplication or reordering of anything is such a list. *)
From Coq Require Import List ZArith.
From SDC Require Import Mdib.Model Mdib.Proofs Mdib.Consumer Mdib.Consumer_Proofs.
Import ListNotations.
Open Scope Z_scope.

(* MdibVersion never goes backwards, whatever arrives in whatever order *)
Theorem C06_version_monotone : forall rs c, cm_ver c <= cm_ver (receive_all c rs).
Proof. exact receive_all_ver_monotone. Qed.
Print Assumptions C06_version_monotone.

(* a report older than the held MdibVersion changes nothing *)
Theorem C06_stale_noop : forall c r, vg_ver (report_vg r) < cm_ver c -> process c r = (c, []).
Proof. exact stale_report_noop. Qed.
Print Assumptions C06_stale_noop.

(* a duplicated state report (nothing newer than what is held) changes no table, raises no notification *)
Theorem C06_duplicate_noop : forall c vg items,
  cm_ver c <= vg_ver vg ->
  (forall h s, In (h, s) items -> exists o, cm_states c h = Some o /\ s_ver s <= s_ver o) ->
  process c (RState vg items) = (set_vg c vg, []).
Proof. exact duplicate_state_report_noop. Qed.
Print Assumptions C06_duplicate_noop.

(* state reports: every held state is the one held before or one the report carries (published-only),
   StateVersion never decreases, no state disappears *)
Theorem C06_state_no_regression : forall c vg items h,
  let c' := fst (process c (RState vg items)) in
  (forall s', cm_states c' h = Some s' ->
      (cm_states c h = Some s' \/ In (h, s') items) /\
      (forall s, cm_states c h = Some s -> s_ver s <= s_ver s')) /\
  (forall s, cm_states c h = Some s -> exists s', cm_states c' h = Some s').
Proof. exact state_report_no_regression. Qed.
Print Assumptions C06_state_no_regression.

(* the same for context reports *)
Theorem C06_context_no_regression : forall c vg items h,
  let c' := fst (process c (RCtx vg items)) in
  (forall s', cm_cstates c' h = Some s' ->
      (cm_cstates c h = Some s' \/ In (h, s') items) /\
      (forall s, cm_cstates c h = Some s -> c_ver s <= c_ver s')) /\
  (forall s, cm_cstates c h = Some s -> exists s', cm_cstates c' h = Some s').
Proof. exact ctx_report_no_regression. Qed.
Print Assumptions C06_context_no_regression.

Theorem C06_context_duplicate_noop : forall c vg items,
  cm_ver c <= vg_ver vg ->
  (forall h s, In (h, s) items -> exists o, cm_cstates c h = Some o /\ c_ver s <= c_ver o) ->
  process c (RCtx vg items) = (set_vg c vg, []).
Proof. exact duplicate_ctx_report_noop. Qed.
Print Assumptions C06_context_duplicate_noop.

(* a change of SequenceId or InstanceId invalidates the consumer ... *)
Theorem C06_seq_change_invalidates : forall c r,
  cm_mode c = CInitialized ->
  (vg_seq (report_vg r) <> cm_seq c \/ vg_inst (report_vg r) <> cm_inst c) ->
  let c' := fst (receive c r) in
  cm_mode c' = CInvalid /\ cm_descrs c' = cm_descrs c /\ cm_states c' = cm_states c /\
  cm_cstates c' = cm_cstates c /\ cm_ver c' = cm_ver c /\ snd (receive c r) = [].
Proof. exact seq_change_invalidates. Qed.
Print Assumptions C06_seq_change_invalidates.

(* ... and an invalid consumer is frozen: no report sequence changes it (until the application reloads) *)
Theorem C06_invalid_is_frozen : forall rs c, cm_mode c = CInvalid ->
  let c' := receive_all c rs in
  cm_mode c' = CInvalid /\ cm_descrs c' = cm_descrs c /\ cm_states c' = cm_states c /\
  cm_cstates c' = cm_cstates c /\ cm_ver c' = cm_ver c.
Proof. exact invalid_is_frozen. Qed.
Print Assumptions C06_invalid_is_frozen.

Example C06_nonvacuous :
  let c := mkCMdib (fun _ => None) (fun h => if Z.eqb h 7 then Some (mkState 2 5 1) else None) (fun _ => None)
                   10 1 1 CInitialized [] [] [] in
  let new := RState (mkVg 11 1 1) [(7, mkState 2 6 9)] in
  let old := RState (mkVg 9 1 1) [(7, mkState 2 4 3)] in
  let other := RState (mkVg 12 2 1) [(7, mkState 2 7 3)] in
  cm_states (receive_all c [new; old; new]) 7 = Some (mkState 2 6 9) /\
  cm_mode (receive_all c [new; other; new]) = CInvalid.
Proof. vm_compute. split; reflexivity. Qed.

(* ================================================================ DescriptionModificationReports *)
From Coq Require Import Bool.
From SDC Require Import Mdib.Consumer_Descr_Proofs.

(* [C06_version_monotone], [C06_stale_noop], [C06_seq_change_invalidates] and [C06_invalid_is_frozen] above are
   stated for every report, description modification reports included: a stale one is a no-op. *)

(* published-only: whatever the description modification report (stale, duplicated, out of order, interrupted by
   the KeyError of a CREATE of an existing handle), every descriptor / state / context state held afterwards is
   the one held before or an item of one of the report's parts *)
Theorem C06_descr_published_only : forall c vg parts,
  let c' := fst (process c (RDescr vg parts)) in
  (forall h d, cm_descrs c' h = Some d ->
     cm_descrs c h = Some d \/ exists p, In p parts /\ In (h, d) (dp_descrs p)) /\
  (forall h s, cm_states c' h = Some s ->
     cm_states c h = Some s \/ exists p, In p parts /\ In (h, s) (dp_states p)) /\
  (forall h s, cm_cstates c' h = Some s ->
     cm_cstates c h = Some s \/ exists p, In p parts /\ In (h, s) (dp_cstates p)).
Proof. exact descr_report_published_only. Qed.
Print Assumptions C06_descr_published_only.

(* no version counter goes back, PROVIDED no item of the report is older than the held one: the description
   modification path has no StateVersion gate, only the MdibVersion gate *)
Theorem C06_descr_no_regression : forall c vg parts,
  let c' := fst (process c (RDescr vg parts)) in
  (forall h d d', cm_descrs c h = Some d -> cm_descrs c' h = Some d' ->
     (forall p x, In p parts -> In (h, x) (dp_descrs p) -> d_ver d <= d_ver x) -> d_ver d <= d_ver d') /\
  (forall h s s', cm_states c h = Some s -> cm_states c' h = Some s' ->
     (forall p x, In p parts -> In (h, x) (dp_states p) -> s_ver s <= s_ver x) -> s_ver s <= s_ver s') /\
  (forall h s s', cm_cstates c h = Some s -> cm_cstates c' h = Some s' ->
     (forall p x, In p parts -> In (h, x) (dp_cstates p) -> c_ver s <= c_ver x) -> c_ver s <= c_ver s').
Proof. exact descr_report_no_regression. Qed.
Print Assumptions C06_descr_no_regression.

(* the proviso is necessary: a report with a current MdibVersion that carries an older state takes the
   StateVersion back (witness: consumer at MdibVersion 10 holding state 7 with StateVersion 5; report with
   MdibVersion 10, one UPDATE part for descriptor 7 with state 7 at StateVersion 3) *)
Theorem C06_descr_ungated_refuted :
  exists c vg parts h s s',
    cm_ver c <= vg_ver vg /\ cm_mode c = CInitialized /\ vg_seq vg = cm_seq c /\ vg_inst vg = cm_inst c /\
    cm_states c h = Some s /\ cm_states (fst (receive c (RDescr vg parts))) h = Some s' /\ s_ver s' < s_ver s.
Proof. exact descr_report_ungated_regression. Qed.
Print Assumptions C06_descr_ungated_refuted.

(* the result is determined pointwise by the parts.  UPDATE part for one descriptor (what the provider emits):
   the descriptor is replaced, listed states / context states replace the held ones (without version gate),
   unknown ones are ignored, nothing else changes *)
Theorem C06_descr_update_part : forall c h d S CS,
  cm_descrs c h <> None -> NoDup (map fst S) -> NoDup (map fst CS) ->
  (d_kind d = K_CTX -> forall ch s, cm_cstates c ch = Some s -> c_dh s = h -> alist_has CS ch = true) ->
  exists c', apply_part c (mkDPart 1 [(h, d)] S CS) = (c', [(N_UPD, h)], false) /\
  (forall y, cm_descrs c' y = if Z.eqb h y then Some d else cm_descrs c y) /\
  (forall y, cm_states c' y = match alist_get S y with Some s => known_val (cm_states c y) s | None => cm_states c y end) /\
  (forall y, cm_cstates c' y = match alist_get CS y with Some s => known_val (cm_cstates c y) s | None => cm_cstates c y end).
Proof. exact upd_part_spec. Qed.
Print Assumptions C06_descr_update_part.

(* CREATE part for one descriptor: added with its states; a CREATE of a held handle abandons the part untouched *)
Theorem C06_descr_create_part : forall c h d S CS,
  cm_descrs c h = None -> NoDup (map fst S) -> NoDup (map fst CS) ->
  exists c', apply_part c (mkDPart 0 [(h, d)] S CS) = (c', [(N_NEW, h)], false) /\
  (forall y, cm_descrs c' y = if Z.eqb h y then Some d else cm_descrs c y) /\
  (forall y, cm_states c' y = match alist_get S y with Some s => Some s | None => cm_states c y end) /\
  (forall y, cm_cstates c' y = match alist_get CS y with Some s => Some s | None => cm_cstates c y end).
Proof. exact crt_part_spec. Qed.
Print Assumptions C06_descr_create_part.

Theorem C06_descr_create_existing : forall c h d S CS,
  cm_descrs c h <> None -> apply_part c (mkDPart 0 [(h, d)] S CS) = (c, [], true).
Proof. exact crt_part_existing. Qed.
Print Assumptions C06_descr_create_existing.

(* DELETE part for one descriptor: exactly the descriptors of the subtree below it, exactly their states, exactly
   the context states that belong to them are removed and notified; everything else - tables, MdibVersion,
   sequence / instance id, mode - is unchanged *)
Theorem C06_descr_delete_part : forall c h d S CS modi, modi <> 0 -> modi <> 1 ->
  let sub := csubtree c h in
  let r := apply_part c (mkDPart modi [(h, d)] S CS) in
  let c' := fst (fst r) in
  snd r = false /\ snd (fst r) = map (fun x => (N_DEL, x)) sub /\
  (forall x, cm_descrs c' x = if memz x sub then None else cm_descrs c x) /\
  (forall x, cm_states c' x = if memz x sub then None else cm_states c x) /\
  (forall ch, cm_cstates c' ch =
              match cm_cstates c ch with
              | Some s => if memz ch (cm_cdom c) && memz (c_dh s) sub then None else Some s
              | None => None
              end) /\
  cm_ver c' = cm_ver c /\ cm_seq c' = cm_seq c /\ cm_inst c' = cm_inst c /\ cm_mode c' = cm_mode c.
Proof. exact del_part_frame. Qed.
Print Assumptions C06_descr_delete_part.

(* the subtree is what lies below the handle along parent handles (for a consumer whose lookups enumerate what
   they hold); a DELETE part with several descriptors removes their subtrees one after the other *)
Theorem C06_descr_subtree : forall c root x, cdom_ok c ->
  In x (csubtree c root) <-> cm_descrs c x <> None /\ reachR (cm_descrs c) x root.
Proof. exact csubtree_In_sem. Qed.
Print Assumptions C06_descr_subtree.

Theorem C06_descr_delete_parts : forall c p, dp_mod p <> 0 -> dp_mod p <> 1 ->
  fst (fst (apply_part c p)) = fold_left (fun c' e => crm_sub c' (fst e)) (dp_descrs p) c /\ snd (apply_part c p) = false.
Proof. exact del_part_eq. Qed.
Print Assumptions C06_descr_delete_parts.

(* the lookups stay consistent under every report of every kind: whatever is held can be enumerated *)
Theorem C06_lookups_consistent : forall c r, cdom_ok c -> cdom_ok (fst (receive c r)).
Proof. exact receive_cdom_ok. Qed.
Print Assumptions C06_lookups_consistent.

Example C06_descr_nonvacuous :
  let c := mkCMdib (fun h => alist_get [(1, mkDescr None K_COMP 0 10); (2, mkDescr (Some 1) K_METRIC 0 11);
                                        (3, mkDescr (Some 2) K_ALERT 0 12); (5, mkDescr (Some 1) K_CTX 0 13)] h)
                   (fun h => alist_get [(1, mkState 0 0 20); (2, mkState 0 3 21); (3, mkState 0 1 22)] h)
                   (fun h => alist_get [(50, mkCState 5 0 2 2 (Some 1) None 30)] h)
                   10 1 1 CInitialized [] [1; 2; 3; 5] [50] in
  let del := RDescr (mkVg 11 1 1) [mkDPart 2 [(2, mkDescr (Some 1) K_METRIC 0 11)] [] []] in
  let c' := fst (receive c del) in
  csubtree c 2 = [2; 3] /\ cm_descrs c' 2 = None /\ cm_descrs c' 3 = None /\ cm_states c' 3 = None /\
  cm_states c' 1 = Some (mkState 0 0 20) /\ cm_cstates c' 50 = Some (mkCState 5 0 2 2 (Some 1) None 30) /\
  snd (receive c del) = [(N_DEL, 2); (N_DEL, 3)] /\
  fst (receive c' del) = set_vg c' (mkVg 11 1 1).
Proof. vm_compute. repeat split. Qed.
