(* C06 -- Consumer MDIB never regresses under lost, duplicated or reordered reports.
   Property theorems only (model: Mdib/Consumer.v).  All statements quantify over ARBITRARY report lists:
   any subset, duplication or reordering of anything is such a list. *)
From Coq Require Import List ZArith.
From SDC Require Import Mdib.Model Mdib.Proofs Mdib.Consumer Mdib.Consumer_Proofs.
Import ListNotations.
Open Scope Z_scope.

(* MdibVersion never goes backwards, whatever arrives in whatever order *)
Theorem C06_version_monotone : forall rs c, cm_ver c <= cm_ver (receive_all c rs).
Proof. exact receive_all_ver_monotone. Qed.
Print Assumptions C06_version_monotone.

(* a report older than the held MdibVersion changes nothing *)
Theorem C06_stale_noop : forall c r, vg_ver (report_vg r) < cm_ver c -> process c r = (c, []).
Proof. exact stale_report_noop. Qed.
Print Assumptions C06_stale_noop.

(* a duplicated state report (nothing newer than what is held) changes no table, raises no notification *)
Theorem C06_duplicate_noop : forall c vg items,
  cm_ver c <= vg_ver vg ->
  (forall h s, In (h, s) items -> exists o, cm_states c h = Some o /\ s_ver s <= s_ver o) ->
  process c (RState vg items) = (set_vg c vg, []).
Proof. exact duplicate_state_report_noop. Qed.
Print Assumptions C06_duplicate_noop.

(* state reports: every held state is the one held before or one the report carries (published-only),
   StateVersion never decreases, no state disappears *)
Theorem C06_state_no_regression : forall c vg items h,
  let c' := fst (process c (RState vg items)) in
  (forall s', cm_states c' h = Some s' ->
      (cm_states c h = Some s' \/ In (h, s') items) /\
      (forall s, cm_states c h = Some s -> s_ver s <= s_ver s')) /\
  (forall s, cm_states c h = Some s -> exists s', cm_states c' h = Some s').
Proof. exact state_report_no_regression. Qed.
Print Assumptions C06_state_no_regression.

(* the same for context reports *)
Theorem C06_context_no_regression : forall c vg items h,
  let c' := fst (process c (RCtx vg items)) in
  (forall s', cm_cstates c' h = Some s' ->
      (cm_cstates c h = Some s' \/ In (h, s') items) /\
      (forall s, cm_cstates c h = Some s -> c_ver s <= c_ver s')) /\
  (forall s, cm_cstates c h = Some s -> exists s', cm_cstates c' h = Some s').
Proof. exact ctx_report_no_regression. Qed.
Print Assumptions C06_context_no_regression.

Theorem C06_context_duplicate_noop : forall c vg items,
  cm_ver c <= vg_ver vg ->
  (forall h s, In (h, s) items -> exists o, cm_cstates c h = Some o /\ c_ver s <= c_ver o) ->
  process c (RCtx vg items) = (set_vg c vg, []).
Proof. exact duplicate_ctx_report_noop. Qed.
Print Assumptions C06_context_duplicate_noop.

(* a change of SequenceId or InstanceId invalidates the consumer ... *)
Theorem C06_seq_change_invalidates : forall c r,
  cm_mode c = CInitialized ->
  (vg_seq (report_vg r) <> cm_seq c \/ vg_inst (report_vg r) <> cm_inst c) ->
  let c' := fst (receive c r) in
  cm_mode c' = CInvalid /\ cm_descrs c' = cm_descrs c /\ cm_states c' = cm_states c /\
  cm_cstates c' = cm_cstates c /\ cm_ver c' = cm_ver c /\ snd (receive c r) = [].
Proof. exact seq_change_invalidates. Qed.
Print Assumptions C06_seq_change_invalidates.

(* ... and an invalid consumer is frozen: no report sequence changes it (until the application reloads) *)
Theorem C06_invalid_is_frozen : forall rs c, cm_mode c = CInvalid ->
  let c' := receive_all c rs in
  cm_mode c' = CInvalid /\ cm_descrs c' = cm_descrs c /\ cm_states c' = cm_states c /\
  cm_cstates c' = cm_cstates c /\ cm_ver c' = cm_ver c.
Proof. exact invalid_is_frozen. Qed.
Print Assumptions C06_invalid_is_frozen.

Example C06_nonvacuous :
  let c := mkCMdib (fun _ => None) (fun h => if Z.eqb h 7 then Some (mkState 2 5 1) else None) (fun _ => None)
                   10 1 1 CInitialized [] [] [] in
  let new := RState (mkVg 11 1 1) [(7, mkState 2 6 9)] in
  let old := RState (mkVg 9 1 1) [(7, mkState 2 4 3)] in
  let other := RState (mkVg 12 2 1) [(7, mkState 2 7 3)] in
  cm_states (receive_all c [new; old; new]) 7 = Some (mkState 2 6 9) /\
  cm_mode (receive_all c [new; other; new]) = CInvalid.
Proof. vm_compute. split; reflexivity. Qed.
