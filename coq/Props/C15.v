(* C15 -- Discovery datagrams are retransmitted within the SOAP-over-UDP time envelope.
   Property theorems only; each is closed by [exact] of a lemma proved elsewhere. *)
From Coq Require Import List ZArith Lia.
From Coq Require Import Permutation.
From SDC Require Import Wsd.Udp Wsd.Udp_Proofs Wsd.Gen_Params Wsd.Gen_Kinds Wsd.Kinds Wsd.Kinds_Proofs.
From SDC Require Import Wsd.SendLoop Wsd.SendLoop_Proofs Wsd.Wire_Proofs.
Import ListNotations.
Open Scope Z_scope.

(* every outcome of the two random draws, any well-formed parameter set *)
Theorem C15_envelope : forall p d0 g,
  wf p -> 0 <= d0 <= init_ms p -> min_ms p <= g < max_ms p -> envelope p d0 g.
Proof. exact envelope_holds. Qed.
Print Assumptions C15_envelope.

(* the parameter sets found in the source today are well-formed (regenerated on every run) *)
Theorem C15_unicast_params_wf : wf unicast_params.
Proof. exact (wfb_wf unicast_params eq_refl). Qed.
Print Assumptions C15_unicast_params_wf.

Theorem C15_multicast_params_wf : wf multicast_params.
Proof. exact (wfb_wf multicast_params eq_refl). Qed.
Print Assumptions C15_multicast_params_wf.

Theorem C15_envelope_unicast : forall d0 g,
  0 <= d0 <= init_ms unicast_params -> min_ms unicast_params <= g < max_ms unicast_params ->
  envelope unicast_params d0 g.
Proof. exact (fun d0 g => envelope_holds unicast_params d0 g C15_unicast_params_wf). Qed.
Print Assumptions C15_envelope_unicast.

Theorem C15_envelope_multicast : forall d0 g,
  0 <= d0 <= init_ms multicast_params -> min_ms multicast_params <= g < max_ms multicast_params ->
  envelope multicast_params d0 g.
Proof. exact (fun d0 g => envelope_holds multicast_params d0 g C15_multicast_params_wf). Qed.
Print Assumptions C15_envelope_multicast.

Lemma cap_pos : (0 < known_ids_cap)%nat.
Proof. unfold known_ids_cap. lia. Qed.

(* WHICH parameter set (and which destination) a message kind uses is part of the property: the table traced
   from the real WSDiscovery object (Gen_Kinds.v, regenerated on every run) is the demanded one -- Hello, Bye,
   Probe, Resolve: multicast group + multicast set; ProbeMatches, ResolveMatches: requester + unicast set *)
Theorem C15_kind_parameter_set : forall k,
  impl_kind_pset k = (if is_multicast_kind k then PMulticast else PUnicast) /\
  impl_kind_dest k = (if is_multicast_kind k then DGroup else DRequester).
Proof. exact (fun k => conj (kind_pset_ok k) (kind_dest_ok k)). Qed.
Print Assumptions C15_kind_parameter_set.

(* every message kind, every outcome of the two draws: exactly 1 + repeat queue entries, repeat being the one of
   the set that belongs to the kind, inside the envelope *)
Theorem C15_envelope_kind : forall k d0 g,
  let p := if is_multicast_kind k then multicast_params else unicast_params in
  0 <= d0 <= init_ms p -> min_ms p <= g < max_ms p ->
  kind_params k = p /\ envelope (kind_params k) d0 g /\ length (kind_schedule_us k d0 g) = S (repeat p).
Proof.
  intros k d0 g. cbv zeta. rewrite <- spec_params_cases. intros Hd Hg.
  split; [exact (kind_params_ok k)|exact (kind_envelope k d0 g Hd Hg)].
Qed.
Print Assumptions C15_envelope_kind.

(* an own message id, registered before the first transmission, is dropped when it loops back, as
   long as fewer than [cap] further ids were remembered in between (the bound is part of the claim).
   [es] may contain any public operation of WSDiscovery (EvOp: publish, clear_service, clear_local_services,
   clear_remote_services, search, get_found, stop) and any other traffic; it contains no restart: stop() joins the
   send thread, so no own transmission is in flight when start() creates the next (empty) memory *)
Theorem C15_own_ids_ignored : forall k id es,
  no_restart es = true ->
  (count_inserts known_ids_cap (remember known_ids_cap k id) es < known_ids_cap)%nat ->
  snd (dstep known_ids_cap (fst (drun known_ids_cap (remember known_ids_cap k id) es)) (EvIn id)) = false.
Proof. exact (own_id_ignored known_ids_cap cap_pos). Qed.
Print Assumptions C15_own_ids_ignored.

(* no public operation touches the id memory or hands a message to the handler; they do not count as insertions *)
Theorem C15_api_ops_keep_memory : forall k o es,
  dstep known_ids_cap k (EvOp o) = (k, false) /\
  count_inserts known_ids_cap k (EvOp o :: es) = count_inserts known_ids_cap k es /\
  fst (drun known_ids_cap k (EvOp o :: es)) = fst (drun known_ids_cap k es).
Proof. exact (fun k o es => conj eq_refl (conj eq_refl (drun_fst known_ids_cap k (EvOp o) es))). Qed.
Print Assumptions C15_api_ops_keep_memory.

Example C15_envelope_nonvacuous :
  wf multicast_params /\ 0 <= 499 <= init_ms multicast_params /\
  min_ms multicast_params <= 249 < max_ms multicast_params /\
  times (schedule_ms multicast_params 499 249) = [499; 748; 1246; 1746; 2246].
Proof. repeat split; try (vm_compute; congruence). Qed.

(* a clear_remote_services() between the registration of an own id and its loop back changes nothing *)
Example C15_own_ids_nonvacuous :
  snd (dstep known_ids_cap
        (fst (drun known_ids_cap (remember known_ids_cap [] (-1)) [EvOp OpClearRemote; EvIn 7; EvOut (-2); EvIn (-1)]))
        (EvIn (-1))) = false /\
  kind_schedule_us KResolveMatches 499 249 = [(499000, 1); (748000, 2); (1246000, 3)].
Proof. split; vm_compute; reflexivity. Qed.

(* ---- the send loop (_run_send over the priority queue): what is scheduled is what is transmitted ---- *)
(* at any moment of any history of enqueues and polls (any clock values): transmitted + still queued = enqueued,
   as multisets - no datagram is transmitted twice, none is dropped, none is invented *)
Theorem C15_sendloop_exactly_once : forall es,
  Permutation (sent_items (srun es) ++ fst (srun es)) (puts es).
Proof. exact sendloop_conservation. Qed.
Print Assumptions C15_sendloop_exactly_once.

(* no transmission goes out before its scheduled time, so the lower bounds of the envelope (initial delay >= 0,
   first gap >= min, following gaps) carry over from the schedule to the wire up to the poll raster *)
Theorem C15_sendloop_never_early : forall es,
  Forall (fun p => fst (snd p) <= fst p) (snd (srun es)).
Proof. exact sendloop_never_early. Qed.
Print Assumptions C15_sendloop_never_early.

(* the head of the queue is always the earliest pending transmission *)
Theorem C15_sendloop_queue_ordered : forall es, time_sorted (fst (srun es)).
Proof. exact sendloop_queue_sorted. Qed.
Print Assumptions C15_sendloop_queue_ordered.

(* the loop ends on an empty queue only (also after schedule_stop): once the clock has passed every scheduled
   time, as many polls as there are enqueued transmissions leave the queue empty and every one of the
   1 + repeat transmissions of every message has gone out exactly once, none early *)
Theorem C15_sendloop_drains : forall es now n,
  Forall (fun x => fst x <= now) (puts es) -> (length (puts es) <= n)%nat ->
  let s := srun (es ++ List.repeat (Tick now) n) in
  fst s = [] /\ Permutation (sent_items s) (puts es) /\ on_time s.
Proof. exact sendloop_drains. Qed.
Print Assumptions C15_sendloop_drains.

(* schedule and loop composed - "every discovery message is transmitted exactly 1 + repeat times": whatever other
   traffic shares the queue and however the enqueues interleave with the polls of the send thread, once the clock
   has passed every due time exactly the others' entries and the 1 + repeat entries of the message have gone out,
   each once, none before its scheduled time (whose envelope is C15_envelope) *)
Theorem C15_wire_transmissions : forall p d0 g es others now n,
  Permutation (puts es) (others ++ schedule_ms p d0 g) ->
  Forall (fun x => fst x <= now) (puts es) -> (length (puts es) <= n)%nat ->
  let s := srun (es ++ List.repeat (Tick now) n) in
  fst s = [] /\
  Permutation (sent_items s) (others ++ schedule_ms p d0 g) /\
  length (schedule_ms p d0 g) = S (repeat p) /\
  on_time s.
Proof. exact wire_transmissions. Qed.
Print Assumptions C15_wire_transmissions.

Theorem C15_wire_single_message : forall p d0 g now n,
  Forall (fun x => fst x <= now) (schedule_ms p d0 g) -> (S (repeat p) <= n)%nat ->
  let s := srun (map Put (schedule_ms p d0 g) ++ List.repeat (Tick now) n) in
  fst s = [] /\ Permutation (sent_items s) (schedule_ms p d0 g) /\ length (sent_items s) = S (repeat p) /\ on_time s.
Proof. exact wire_single_message. Qed.
Print Assumptions C15_wire_single_message.

(* two messages in flight, polls before, between and after the due times, a late enqueue that overtakes *)
Example C15_sendloop_nonvacuous :
  observe (srun [Put (50, 1); Put (120, 2); Tick 40; Put (45, 1); Tick 47; Tick 47; Tick 60; Put (30, 2); Tick 61; Tick 200])
  = ([(47, 45); (60, 50); (61, 30); (200, 120)], []).
Proof. vm_compute. reflexivity. Qed.
