(* C15 -- Discovery datagrams are retransmitted within the SOAP-over-UDP time envelope.
   Property theorems only; each is closed by [exact] of a lemma proved elsewhere. *)
From Coq Require Import List ZArith Lia.
From SDC Require Import Wsd.Udp Wsd.Udp_Proofs Wsd.Gen_Params.
Import ListNotations.
Open Scope Z_scope.

(* every outcome of the two random draws, any well-formed parameter set *)
Theorem C15_envelope : forall p d0 g,
  wf p -> 0 <= d0 <= init_ms p -> min_ms p <= g < max_ms p -> envelope p d0 g.
Proof. exact envelope_holds. Qed.
Print Assumptions C15_envelope.

(* the parameter sets found in the source today are well-formed (regenerated on every run) *)
Theorem C15_unicast_params_wf : wf unicast_params.
Proof. exact (wfb_wf unicast_params eq_refl). Qed.
Print Assumptions C15_unicast_params_wf.

Theorem C15_multicast_params_wf : wf multicast_params.
Proof. exact (wfb_wf multicast_params eq_refl). Qed.
Print Assumptions C15_multicast_params_wf.

Theorem C15_envelope_unicast : forall d0 g,
  0 <= d0 <= init_ms unicast_params -> min_ms unicast_params <= g < max_ms unicast_params ->
  envelope unicast_params d0 g.
Proof. exact (fun d0 g => envelope_holds unicast_params d0 g C15_unicast_params_wf). Qed.
Print Assumptions C15_envelope_unicast.

Theorem C15_envelope_multicast : forall d0 g,
  0 <= d0 <= init_ms multicast_params -> min_ms multicast_params <= g < max_ms multicast_params ->
  envelope multicast_params d0 g.
Proof. exact (fun d0 g => envelope_holds multicast_params d0 g C15_multicast_params_wf). Qed.
Print Assumptions C15_envelope_multicast.

Lemma cap_pos : (0 < known_ids_cap)%nat.
Proof. unfold known_ids_cap. lia. Qed.

(* an own message id, registered before the first transmission, is dropped when it loops back, as
   long as fewer than [cap] further ids were remembered in between (the bound is part of the claim) *)
Theorem C15_own_ids_ignored : forall k id es,
  (count_inserts known_ids_cap (remember known_ids_cap k id) es < known_ids_cap)%nat ->
  snd (dstep known_ids_cap (fst (drun known_ids_cap (remember known_ids_cap k id) es)) (EvIn id)) = false.
Proof. exact (own_id_ignored known_ids_cap cap_pos). Qed.
Print Assumptions C15_own_ids_ignored.

Example C15_envelope_nonvacuous :
  wf multicast_params /\ 0 <= 499 <= init_ms multicast_params /\
  min_ms multicast_params <= 249 < max_ms multicast_params /\
  times (schedule_ms multicast_params 499 249) = [499; 748; 1246; 1746; 2246].
Proof. repeat split; try (vm_compute; congruence). Qed.
