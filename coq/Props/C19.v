(* C19 -- With TLS configured no endpoint is advertised or contacted in plaintext.
   Property theorems only; each is closed by [exact] of a lemma proved in Tls/Proofs.v.

   [secure r e]: event e of party r respects the property - an advertised address is https, a SOAP client is
   constructed with r's CLIENT context and opens an HTTPSConnection with it, no exchange succeeds with a plaintext
   port, an own HTTP server wraps its listening socket (server side) with r's SERVER context.
   Histories are arbitrary lists of inputs; the addresses found in received messages (NotifyTo / EndTo for the
   provider, hosted-service and subscription-manager addresses for the consumer) and the kind of the peer's port
   are chosen by the environment in every step.  Not modelled: the TLS handshake itself (abstracted by
   [handshake]). *)
From Coq Require Import List ZArith Bool.
From SDC Require Import Tls.Model Tls.Proofs.
Import ListNotations.

(* a provider with a TLS container: every history, shared or own server, with or without alternative host name.
   Every request input carries the fields that the PEER chooses ([peerf]: wsa:To of any scheme and netloc with or
   without the path of the called service, wsa:ReplyTo, wsa:From, the Host header netloc, URLs in reference
   parameters) and Subscribe carries peer-chosen NotifyTo / EndTo: all universally quantified here *)
Theorem C19_provider_https_only : forall pc st ins,
  p_tls pc = true -> Forall (secure RP) (prun pc st ins).
Proof. exact provider_https_only. Qed.
Print Assumptions C19_provider_https_only.

(* a consumer with force_ssl_connect=True (repaired code: fixed = true): every history - including any number of
   stop_all (CStop), start_all again (CStart) and restart() (CRestart) against peers of either kind -, every device /
   hosted / subscription-manager address of any scheme, own or shared event sink, with or without alternative host
   name *)
Theorem C19_consumer_enforced_never_plain : forall cc i ins,
  c_mode cc = CEnforced -> c_ctor (c_mode cc) = Some i ->
  Forall (secure RC) (crun true cc (c_init i) ins).
Proof. exact (fun cc i ins Hm Hc => consumer_enforced_never_plain true cc i ins Hm Hc (or_introl eq_refl)). Qed.
Print Assumptions C19_consumer_enforced_never_plain.

(* the invariant behind it: is_ssl_connection - the only memory of force_ssl_connect=True - is still True after every
   history; a stop_all / restart that forgets it turns the consumer into an optional one *)
Theorem C19_consumer_enforced_stays_enforced : forall cc i ins,
  c_mode cc = CEnforced -> c_ctor (c_mode cc) = Some i ->
  isc (cfinal true cc (c_init i) ins) = Some true.
Proof. exact (fun cc i ins Hm Hc => consumer_enforced_stays_enforced true cc i ins Hm Hc (or_introl eq_refl)). Qed.
Print Assumptions C19_consumer_enforced_stays_enforced.

(* the code as found (fixed = false) violates the statement: an enforced consumer that is given a plaintext
   shared HTTP server places an http NotifyTo address in its Subscribe request *)
Theorem C19_consumer_shared_plain_sink_refuted :
  exists cc ins, c_mode cc = CEnforced /\
    In (Adv KNotifyTo RC (mkaddr Http HIp)) (crun false cc (c_init (Some true)) ins) /\
    ~ Forall (secure RC) (crun false cc (c_init (Some true)) ins).
Proof. exact consumer_shared_plain_sink_refuted. Qed.
Print Assumptions C19_consumer_shared_plain_sink_refuted.

(* ... and only there: the code as found satisfies the statement for every other event sink *)
Theorem C19_consumer_enforced_partial : forall cc i ins,
  c_mode cc = CEnforced -> c_ctor (c_mode cc) = Some i -> c_srv cc <> Shared Http ->
  Forall (secure RC) (crun false cc (c_init i) ins).
Proof. exact (fun cc i ins Hm Hc Hn => consumer_enforced_never_plain false cc i ins Hm Hc (or_intror Hn)). Qed.
Print Assumptions C19_consumer_enforced_partial.

(* the inputs with which a foreign, hand-built peer drives the real provider in stream 'foreign' are such a history *)
Theorem C19_foreign_peer_secure : forall c,
  p_tls (f_pc c) = true -> Forall (secure RP) (prun (f_pc c) [] (foreign_inputs c)).
Proof. exact (fun c H => provider_https_only (f_pc c) [] (foreign_inputs c) H). Qed.
Print Assumptions C19_foreign_peer_secure.

(* the scenario runner that every check run compares with the real provider and consumer (start-up, any list of
   probe / GetMdib / operation / notification / Renew / GetStatus / Unsubscribe / Subscribe, either shutdown order,
   every configuration): its events respect the statement, so an agreeing implementation trace does too *)
Theorem C19_scenario_provider_secure : forall c,
  p_tls (s_pc c) = true -> Forall (secure RP) (snd (run_events c)).
Proof. exact scenario_provider_secure. Qed.
Print Assumptions C19_scenario_provider_secure.

Theorem C19_scenario_consumer_secure : forall c,
  c_mode (s_cc c) = CEnforced -> s_fixed c = true -> Forall (secure RC) (snd (run_events c)).
Proof. exact (fun c Hm Hf => scenario_consumer_secure c Hm (or_introl Hf)). Qed.
Print Assumptions C19_scenario_consumer_secure.

(* contexts built from a CA file require and verify the peer certificate in both directions *)
Theorem C19_ca_requires_peer_cert : forall cy pw c s,
  mk_ssl_contexts CaGiven cy pw = CtxOk c s ->
  requires_peer_cert c /\ requires_peer_cert s /\
  for_client c = true /\ for_client s = false /\ own_cert c = true /\ own_cert s = true.
Proof. exact ca_requires_peer_cert. Qed.
Print Assumptions C19_ca_requires_peer_cert.

(* ... read from the caller's side: whenever a CA file is NAMED (present or not), the call either raises or returns
   contexts that both verify the peer; a named file that does not exist always raises (it is never "optional") *)
Theorem C19_named_ca_verifies_or_raises : forall ca cy pw,
  ca <> CaNone -> named_ca_ok (mk_ssl_contexts ca cy pw) /\ mk_ssl_contexts CaMissing cy pw = CtxNotFound.
Proof. exact (fun ca cy pw H => conj (named_ca_verifies_or_raises ca cy pw H) (named_ca_missing_raises cy pw)). Qed.
Print Assumptions C19_named_ca_verifies_or_raises.

(* the finite argument space (CA not named / present / named but missing x cyphers none / given / file missing x
   password fits or not = 18), swept by computation *)
Theorem C19_ctx_argument_sweep : forall p, In p all_ctx_args -> ctx_args_ok p = true.
Proof. exact (proj1 (forallb_forall ctx_args_ok all_ctx_args) ctx_sweep). Qed.
Print Assumptions C19_ctx_argument_sweep.

(* a TLS consumer is handed an http device address and http hosted addresses: it still connects with its client
   context, serves its own sink through the server context and advertises https NotifyTo / EndTo *)
Example C19_consumer_nonvacuous :
  let cc := mkcconf CEnforced Own true in
  let ins := [CStart (mkaddr Http HAlt) true [mkaddr Http HIp]; CSubscribe (mkaddr Http HIp) true] in
  c_ctor (c_mode cc) = Some (Some true) /\
  crun true cc (c_init (Some true)) ins =
    [Create RC (Some CClient) HAlt; Conn RC true (Some CClient); Attempt RC true true HsOk;
     Create RC (Some CClient) HIp; Conn RC true (Some CClient); Attempt RC true true HsOk;
     Wrap CServer true;
     Create RC (Some CClient) HIp; Conn RC true (Some CClient); Attempt RC true true HsOk;
     Adv KNotifyTo RC (mkaddr Https HAlt); Adv KEndTo RC (mkaddr Https HAlt)].
Proof. split; reflexivity. Qed.

(* a TLS provider gets a Subscribe whose wsa:To / ReplyTo / From / Host / reference parameter all name http
   addresses of another netloc, http NotifyTo / EndTo addresses and a plaintext sink: the manager address stays
   https on its own netloc, it connects with its client context, gets an SSL error and sends nothing *)
Example C19_provider_nonvacuous :
  let pc := mkpconf true Own true in
  let hostile := mkpeerf (Some (mkaddr Http HOther)) true (Some (mkaddr Http HOther)) (Some (mkaddr Http HIp)) HOther
                         (Some (mkaddr Http HIp)) in
  prun pc [] [PStart; PSubscribe hostile (mkaddr Http HIp) (Some (mkaddr Http HIp)); PNotify 0 false; PEnd 0 true] =
    [Wrap PServer true; Adv KXaddr RP (mkaddr Https HAlt); Adv KBaseUrl RP (mkaddr Https HIp);
     Adv KSubMgr RP (mkaddr Https HIp);
     Create RP (Some PClient) HIp; Conn RP true (Some PClient); Attempt RP true false HsSslError;
     Create RP (Some PClient) HIp; Conn RP true (Some PClient); Attempt RP true true HsOk;
     Adv KSubMgrEnd RP (mkaddr Https HIp)].
Proof. reflexivity. Qed.

(* life cycle: TLS start, stop_all, then a plaintext peer answers at the device address (also via restart()): the
   enforced consumer gets ssl.SSLError both times and opens nothing in plaintext *)
Example C19_consumer_restart_nonvacuous :
  let cc := mkcconf CEnforced Own false in
  let x := mkaddr Https HIp in
  crun true cc (c_init (Some true)) [CStart x true []; CStop; CStart x false []; CRestart x false []] =
    [Create RC (Some CClient) HIp; Conn RC true (Some CClient); Attempt RC true true HsOk; Wrap CServer true;
     Create RC (Some CClient) HIp; Conn RC true (Some CClient); Attempt RC true false HsSslError;
     Create RC (Some CClient) HIp; Conn RC true (Some CClient); Attempt RC true false HsSslError].
Proof. reflexivity. Qed.

(* the hypothesis "enforced" is needed: with force_ssl_connect=False the consumer falls back to plaintext when the
   device port is not TLS (documented behaviour of SdcConsumer) *)
Example C19_optional_consumer_falls_back :
  In (Attempt RC false false HsOk)
     (crun true (mkcconf COptional Own false) (c_init None) [CStart (mkaddr Https HIp) false []]).
Proof. vm_compute. tauto. Qed.
