(* C10 -- Context association invariants hold after any sequence of context changes.
   Property theorems only (model: Mdib/Model.v + Mdib/Context.v). *)
From Coq Require Import List ZArith.
From SDC Require Import Mdib.Model Mdib.Proofs Mdib.Context Mdib.Context_Proofs Mdib.Context_Handler_Proofs.
Import ListNotations.
Open Scope Z_scope.

(* a location change (ProviderMdibMethods.set_location), from ANY MDIB state in which the new handle is unused:
   committed with MdibVersion + 1 and, pointwise, the context table is: the new associated state bound to this
   commit; every state of that descriptor that needed it disassociated with StateVersion + 1 and (if it had none)
   the unbinding version of this commit; everything else untouched *)
Theorem C10_set_location_pointwise : forall m dh h p d,
  descrs m dh = Some d -> d_kind d = K_CTX -> cstates m h = None ->
  NoDup (cdom m) -> (forall k c, cstates m k = Some c -> In k (cdom m)) ->
  let m' := fst (set_location m dh h p) in
  snd (set_location m dh h p) = 0 /\ ver m' = ver m + 1 /\
  forall k, cstates m' k =
    if Z.eqb k h then Some (mkCState dh (d_ver d) 0 A_ASSOC (Some (ver m + 1)) None p)
    else match cstates m k with
         | Some c => if needs_dis dh c then Some (dis_of (ver m + 1) c) else Some c
         | None => None
         end.
Proof. exact set_location_pointwise. Qed.
Print Assumptions C10_set_location_pointwise.

(* hence: afterwards the new state is the ONLY associated state of the descriptor (whatever was there before -
   even several associated ones), it is bound to the version of this commit; every previously associated state
   is disassociated with the unbinding version of this commit; other descriptors' states are untouched *)
Theorem C10_set_location_invariants : forall m dh h p d,
  descrs m dh = Some d -> d_kind d = K_CTX -> cstates m h = None ->
  NoDup (cdom m) -> (forall k c, cstates m k = Some c -> In k (cdom m)) ->
  let m' := fst (set_location m dh h p) in
  let v := ver m + 1 in
  (forall k c, cstates m' k = Some c -> c_dh c = dh -> c_assoc c = A_ASSOC -> k = h) /\
  (exists c, cstates m' h = Some c /\ c_assoc c = A_ASSOC /\ c_bind c = Some v /\ c_dh c = dh) /\
  (forall k c, cstates m k = Some c -> c_dh c = dh -> c_assoc c = A_ASSOC ->
      exists c', cstates m' k = Some c' /\ c_assoc c' = A_DIS /\
                 (c_unbind c = None -> c_unbind c' = Some v) /\ c_ver c' = c_ver c + 1) /\
  (forall k c, cstates m k = Some c -> c_dh c <> dh -> cstates m' k = Some c).
Proof. exact set_location_invariants. Qed.
Print Assumptions C10_set_location_invariants.

(* SetContextState (any proposal list, valid or rejected): a failed operation changes nothing; a finished one
   is one commit *)
Theorem C10_set_context_state_atomic : forall m fresh ps,
  let r := set_context_state m fresh ps in
  (snd r = 1 -> fst r = m) /\ (snd r = 0 -> ver (fst r) = ver m + 1 \/ fst r = m) /\ (snd r = 0 \/ snd r = 1).
Proof. exact set_context_state_atomic. Qed.
Print Assumptions C10_set_context_state_atomic.

Example C10_nonvacuous :
  let m := mkMdib (fun h => if Z.eqb h 5 then Some (mkDescr None K_CTX 2 1) else None) (fun _ => None)
                  (fun h => if Z.eqb h 11 then Some (mkCState 5 2 0 A_ASSOC (Some 3) None 7) else None)
                  9 (fun _ => None) (fun _ => None) (fun _ => None) [5] [11] in
  let m1 := fst (set_location m 5 12 8) in
  let m2 := fst (set_context_state m1 [13] [mkProp 5 (Some 11) A_ASSOC 9]) in
  cstates m1 11 = Some (mkCState 5 2 1 A_DIS (Some 3) (Some 10) 7) /\ assoc_states m1 5 = [12] /\
  assoc_states m2 5 = [11] /\ ver m2 = 11 /\
  cstates m2 12 = Some (mkCState 5 2 1 A_DIS (Some 10) (Some 11) 8).
Proof. vm_compute. repeat split. Qed.

(* ================================================================ the association invariant, for histories
   (proofs: Mdib/Context_Handler_Proofs.v)

   ctx_inv m :=  NoDup (cdom m)                                              handles are listed once
              /\ (forall k c, cstates m k = Some c -> In k (cdom m))         every state's handle is listed
              /\ (forall dh, length (assoc_states m dh) <= 1)                at most one associated state per descriptor
              /\ assoc_open m                                                an associated state has no unbinding version

   assoc_step m m' :=  no state deleted or moved to another descriptor
              /\ a state associated in m and not in m' is A_DIS with c_unbind = Some (ver m')
              /\ a state associated in m' and not (or not existing) in m has c_bind = Some (ver m')
              /\ (m' = m \/ ver m' = ver m + 1)

   The only hypothesis about the inputs is that uuid4 handles are fresh: the handles an operation draws have never
   been used in the MDIB.  The proposal lists are ARBITRARY (any number of proposals, for one or several
   descriptors, new / existing / unknown handles, any association codes, accepted or rejected). *)
Lemma C10_ctx_inv_unfold : forall m,
  ctx_inv m <-> (NoDup (cdom m) /\ (forall k c, cstates m k = Some c -> In k (cdom m)) /\
                 (forall dh, (length (assoc_states m dh) <= 1)%nat) /\
                 (forall k c, cstates m k = Some c -> c_assoc c = A_ASSOC -> c_unbind c = None)).
Proof. intros m. reflexivity. Qed.

(* the SetContextState handler with a single proposal preserves the invariant *)
Theorem C10_handler_single_preserves : forall m fresh p,
  ctx_inv m -> (forall h, In h fresh -> ~ In h (cdom m)) ->
  ctx_inv (fst (set_context_state m fresh [p])).
Proof. exact handler_single_preserves. Qed.
Print Assumptions C10_handler_single_preserves.

(* ... and so does the handler with ANY proposal list *)
Theorem C10_handler_preserves : forall m fresh ps,
  ctx_inv m -> (forall h, In h fresh -> ~ In h (cdom m)) ->
  ctx_inv (fst (set_context_state m fresh ps)).
Proof. exact handler_preserves. Qed.
Print Assumptions C10_handler_preserves.

(* the version clauses of the handler (any proposal list): nothing is deleted or re-parented; a state that stopped
   being associated is marked disassociated with the unbinding version of this commit; a state that became
   associated (or is new and associated) has the binding version of this commit; if anything changed MdibVersion
   was incremented by exactly one; a failed operation changes nothing *)
Theorem C10_handler_versions : forall m fresh ps,
  ctx_inv m -> (forall h, In h fresh -> ~ In h (cdom m)) ->
  let m' := fst (set_context_state m fresh ps) in
  (forall k c, cstates m k = Some c -> exists c', cstates m' k = Some c' /\ c_dh c' = c_dh c) /\
  (forall k c c', cstates m k = Some c -> cstates m' k = Some c' -> c_assoc c = A_ASSOC -> c_assoc c' <> A_ASSOC ->
     c_assoc c' = A_DIS /\ c_unbind c' = Some (ver m + 1)) /\
  (forall k c', cstates m' k = Some c' -> c_assoc c' = A_ASSOC ->
     match cstates m k with Some c => c_assoc c <> A_ASSOC | None => True end ->
     c_bind c' = Some (ver m + 1)) /\
  (m' <> m -> ver m' = ver m + 1) /\
  (snd (set_context_state m fresh ps) = 1 -> m' = m).
Proof. exact handler_versions. Qed.
Print Assumptions C10_handler_versions.

(* states of descriptors for which the request proposes nothing are untouched; the only new handles are drawn ones *)
Theorem C10_handler_frame : forall m fresh ps,
  ctx_inv m -> (forall h, In h fresh -> ~ In h (cdom m)) ->
  forall k c, cstates m k = Some c -> (forall p, In p ps -> pr_dh p <> c_dh c) ->
  cstates (fst (set_context_state m fresh ps)) k = Some c.
Proof. exact handler_frame. Qed.
Print Assumptions C10_handler_frame.

Theorem C10_handler_handles : forall m fresh ps,
  ctx_inv m -> (forall h, In h fresh -> ~ In h (cdom m)) ->
  forall k, In k (cdom (fst (set_context_state m fresh ps))) -> In k (cdom m) \/ In k fresh.
Proof. exact handler_dom. Qed.
Print Assumptions C10_handler_handles.

(* a location change preserves the invariant (whether it is committed or rejected) *)
Theorem C10_set_location_preserves : forall m dh h p,
  ctx_inv m -> ~ In h (cdom m) -> ctx_inv (fst (set_location m dh h p)).
Proof. exact set_location_preserves. Qed.
Print Assumptions C10_set_location_preserves.

(* histories: any list of location changes and SetContextState operations with arbitrary proposal lists.
   Dynamic side condition [hist_fresh m ops]: no operation draws a handle the MDIB has ever used:
     hist_fresh m []       = True
     hist_fresh m (o :: r) = (forall h, In h (op_handles o) -> ~ In h (cdom m)) /\ hist_fresh (fst (cstep m o)) r
   with op_handles (CLoc _ h _) = [h], op_handles (CSet fresh _) = fresh.
   The invariant holds after every prefix *)
Theorem C10_history : forall ops m,
  ctx_inv m -> hist_fresh m ops -> forall n, ctx_inv (crun m (firstn n ops)).
Proof. exact history_inv. Qed.
Print Assumptions C10_history.

(* static side condition, a predicate on the history alone: the drawn handles are pairwise distinct and unused in the
   initial MDIB (what uuid4 provides) *)
Theorem C10_history_static : forall ops m,
  ctx_inv m -> NoDup (hist_handles ops) -> (forall h, In h (hist_handles ops) -> ~ In h (cdom m)) ->
  forall n, ctx_inv (crun m (firstn n ops)).
Proof. exact history_inv_static. Qed.
Print Assumptions C10_history_static.

(* ... and every step of such a history satisfies the version clauses, with the versions equal to the MdibVersion
   at which the change became visible (ver of the state after the step) *)
Theorem C10_history_versions : forall ops m,
  ctx_inv m -> NoDup (hist_handles ops) -> (forall h, In h (hist_handles ops) -> ~ In h (cdom m)) ->
  forall n o, nth_error ops n = Some o ->
  let a := crun m (firstn n ops) in
  let b := crun m (firstn (S n) ops) in
  b = fst (cstep a o) /\
  (forall k c, cstates a k = Some c -> exists c', cstates b k = Some c' /\ c_dh c' = c_dh c) /\
  (forall k c c', cstates a k = Some c -> cstates b k = Some c' -> c_assoc c = A_ASSOC -> c_assoc c' <> A_ASSOC ->
     c_assoc c' = A_DIS /\ c_unbind c' = Some (ver b)) /\
  (forall k c', cstates b k = Some c' -> c_assoc c' = A_ASSOC ->
     match cstates a k with Some c => c_assoc c <> A_ASSOC | None => True end ->
     c_bind c' = Some (ver b)) /\
  (b = a \/ ver b = ver a + 1).
Proof. exact history_steps_static. Qed.
Print Assumptions C10_history_versions.

(* the hypotheses are satisfiable on a non-trivial state and history: two context descriptors (5, 6) with one
   associated state each; a location change, a disassociation, a request with proposals for two descriptors
   (a new associated patient + re-association of the old location), and a request with two proposals for ONE
   descriptor (re-associate 11, update 14) - the first proposal of the last request is LOST (11 stays
   disassociated: the copy of the second proposal overwrites it), but the invariant holds *)
Definition C10_ex_m : mdib :=
  mkMdib (fun h => if Z.eqb h 5 then Some (mkDescr None K_CTX 2 1) else
                   if Z.eqb h 6 then Some (mkDescr None K_CTX 0 1) else None) (fun _ => None)
         (fun h => if Z.eqb h 11 then Some (mkCState 5 2 0 A_ASSOC (Some 3) None 7) else
                   if Z.eqb h 21 then Some (mkCState 6 0 0 A_ASSOC (Some 1) None 7) else None)
         9 (fun _ => None) (fun _ => None) (fun _ => None) [5; 6] [11; 21].
Definition C10_ex_ops : list cop :=
  [CLoc 6 22 8;
   CSet [13] [mkProp 5 (Some 11) A_DIS 9];
   CSet [14; 15] [mkProp 5 None A_ASSOC 1; mkProp 6 (Some 21) A_ASSOC 2];
   CSet [16] [mkProp 5 (Some 11) A_ASSOC 3; mkProp 5 (Some 14) A_NO 4]].

Example C10_history_nonvacuous :
  ctx_inv C10_ex_m /\ NoDup (hist_handles C10_ex_ops) /\
  (forall h, In h (hist_handles C10_ex_ops) -> ~ In h (cdom C10_ex_m)) /\
  map (fun n => let x := crun C10_ex_m (firstn n C10_ex_ops) in (ver x, assoc_states x 5, assoc_states x 6))
      [0; 1; 2; 3; 4]%nat =
  [(9, [11], [21]); (10, [11], [22]); (11, [], [22]); (12, [14], [21]); (13, [], [21])] /\
  cstates (crun C10_ex_m C10_ex_ops) 14 = Some (mkCState 5 2 1 A_DIS (Some 12) (Some 13) 4).
Proof.
  split; [|split; [|split; [|split]]].
  - split; [|split; [|split]].
    + repeat constructor; cbn; intuition discriminate.
    + intros k c. cbn. destruct (Z.eqb_spec k 11) as [->|_]; [intros _; now left|].
      destruct (Z.eqb_spec k 21) as [->|_]; [intros _; right; now left|discriminate].
    + intros dh. destruct (Z.eq_dec dh 5) as [->|N5]; [vm_compute; apply le_n|].
      destruct (Z.eq_dec dh 6) as [->|N6]; [vm_compute; apply le_n|].
      destruct (assoc_states C10_ex_m dh) as [|x r] eqn:E; [apply Nat.le_0_l|]. exfalso.
      assert (Hx : In x (assoc_states C10_ex_m dh)) by (rewrite E; now left).
      apply assoc_states_in in Hx as (Hi & c & Ec & Ed & _).
      destruct Hi as [<-|[<-|[]]]; vm_compute in Ec; injection Ec as <-; cbn in Ed; congruence.
    + intros k c. cbn. destruct (Z.eqb k 11); [intros [= <-]; reflexivity|].
      destruct (Z.eqb k 21); [intros [= <-]; reflexivity|discriminate].
  - repeat constructor; cbn; intuition discriminate.
  - cbn. intros h Hh Hc. intuition (subst; discriminate).
  - vm_compute. reflexivity.
  - vm_compute. reflexivity.
Qed.
