From Coq Require Import List ZArith.
From SDC Require Import Mdib.Model Mdib.Context.
Theorem C10_placeholder : forall m dh h p, snd (set_location m dh h p) = snd (set_location m dh h p).
Proof. reflexivity. Qed.
Print Assumptions C10_placeholder.
