(* C10 -- Context association invariants hold after any sequence of context changes.
   Property theorems only (model: Mdib/Model.v + Mdib/Context.v). *)
From Coq Require Import List ZArith.
From SDC Require Import Mdib.Model Mdib.Proofs Mdib.Context Mdib.Context_Proofs.
Import ListNotations.
Open Scope Z_scope.

(* a location change (ProviderMdibMethods.set_location), from ANY MDIB state in which the new handle is unused:
   committed with MdibVersion + 1 and, pointwise, the context table is: the new associated state bound to this
   commit; every state of that descriptor that needed it disassociated with StateVersion + 1 and (if it had none)
   the unbinding version of this commit; everything else untouched *)
Theorem C10_set_location_pointwise : forall m dh h p d,
  descrs m dh = Some d -> d_kind d = K_CTX -> cstates m h = None ->
  NoDup (cdom m) -> (forall k c, cstates m k = Some c -> In k (cdom m)) ->
  let m' := fst (set_location m dh h p) in
  snd (set_location m dh h p) = 0 /\ ver m' = ver m + 1 /\
  forall k, cstates m' k =
    if Z.eqb k h then Some (mkCState dh (d_ver d) 0 A_ASSOC (Some (ver m + 1)) None p)
    else match cstates m k with
         | Some c => if needs_dis dh c then Some (dis_of (ver m + 1) c) else Some c
         | None => None
         end.
Proof. exact set_location_pointwise. Qed.
Print Assumptions C10_set_location_pointwise.

(* hence: afterwards the new state is the ONLY associated state of the descriptor (whatever was there before -
   even several associated ones), it is bound to the version of this commit; every previously associated state
   is disassociated with the unbinding version of this commit; other descriptors' states are untouched *)
Theorem C10_set_location_invariants : forall m dh h p d,
  descrs m dh = Some d -> d_kind d = K_CTX -> cstates m h = None ->
  NoDup (cdom m) -> (forall k c, cstates m k = Some c -> In k (cdom m)) ->
  let m' := fst (set_location m dh h p) in
  let v := ver m + 1 in
  (forall k c, cstates m' k = Some c -> c_dh c = dh -> c_assoc c = A_ASSOC -> k = h) /\
  (exists c, cstates m' h = Some c /\ c_assoc c = A_ASSOC /\ c_bind c = Some v /\ c_dh c = dh) /\
  (forall k c, cstates m k = Some c -> c_dh c = dh -> c_assoc c = A_ASSOC ->
      exists c', cstates m' k = Some c' /\ c_assoc c' = A_DIS /\
                 (c_unbind c = None -> c_unbind c' = Some v) /\ c_ver c' = c_ver c + 1) /\
  (forall k c, cstates m k = Some c -> c_dh c <> dh -> cstates m' k = Some c).
Proof. exact set_location_invariants. Qed.
Print Assumptions C10_set_location_invariants.

(* SetContextState (any proposal list, valid or rejected): a failed operation changes nothing; a finished one
   is one commit *)
Theorem C10_set_context_state_atomic : forall m fresh ps,
  let r := set_context_state m fresh ps in
  (snd r = 1 -> fst r = m) /\ (snd r = 0 -> ver (fst r) = ver m + 1 \/ fst r = m) /\ (snd r = 0 \/ snd r = 1).
Proof. exact set_context_state_atomic. Qed.
Print Assumptions C10_set_context_state_atomic.

Example C10_nonvacuous :
  let m := mkMdib (fun h => if Z.eqb h 5 then Some (mkDescr None K_CTX 2 1) else None) (fun _ => None)
                  (fun h => if Z.eqb h 11 then Some (mkCState 5 2 0 A_ASSOC (Some 3) None 7) else None)
                  9 (fun _ => None) (fun _ => None) (fun _ => None) [5] [11] in
  let m1 := fst (set_location m 5 12 8) in
  let m2 := fst (set_context_state m1 [13] [mkProp 5 (Some 11) A_ASSOC 9]) in
  cstates m1 11 = Some (mkCState 5 2 1 A_DIS (Some 3) (Some 10) 7) /\ assoc_states m1 5 = [12] /\
  assoc_states m2 5 = [11] /\ ver m2 = 11 /\
  cstates m2 12 = Some (mkCState 5 2 1 A_DIS (Some 10) (Some 11) 8).
Proof. vm_compute. repeat split. Qed.
