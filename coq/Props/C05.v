(* C05 -- BICEPS / WS-* data types round-trip losslessly through schema-valid XML.
   Property theorems only; model: XmlStruct/Model.v, proofs: XmlStruct/Proofs.v, class table: XmlStruct/Gen_Schema.v
   (regenerated from the library's class declarations and the bundled XSD files on every run).

   Proved about the model: value -> XML -> value is the identity, for every class table whose classes bind their
   members to pairwise different slots and for every value in normal form, at any nesting depth and under any
   xsi:type substitution; the second write is byte-identical; absent members read as the declared default.
   Instances with a history (XmlStruct/Instance.v): reading into an instance that already holds values is reading
   into a fresh one (and any store policy that keeps a previous value is refuted); a write leaves the value, the
   document the value was read from and every earlier written document as they were, and a second write yields
   the same document (and the lxml "move" semantics of extend() is refuted).
   The generated table is checked to satisfy the hypothesis (computed).  lxml serialisation, namespace prefixes and
   XSD validation themselves are not modelled (the harness checks them on the implementation). *)
From Coq Require Import List ZArith NArith Bool.
From SDC Require Import XmlStruct.Model XmlStruct.Proofs XmlStruct.Gen_Schema.
From SDC Require Import XmlStruct.Instance XmlStruct.InstanceProofs.
Import ListNotations.

(* every property kind: writing a valid value into a node whose slot is empty and reading it gives that value *)
Theorem C05_kind_read_write : forall encf decf p f t,
  free (slot_of p) t -> valid_field encf decf p f ->
  exists t', write_prop encf p f t = Some t' /\ read_member decf p t' = Some f.
Proof. exact read_write. Qed.
Print Assumptions C05_kind_read_write.

(* ... and leaves every other slot of the node as it was *)
Theorem C05_kind_frame : forall encf (enc_tag : forall v n k, encf v n = Some k -> t_tag k = n) s q v t t',
  distinct s (slot_of q) -> write_prop encf q v t = Some t' -> view s t' = view s t.
Proof. exact write_frame. Qed.
Print Assumptions C05_kind_frame.

(* as_etree_node / mk_node then from_node is the identity, for any class table with non-clashing members, any
   value in normal form, any depth, any element name *)
Theorem C05_class_roundtrip : forall classes, (forall c, In c classes -> wf_slots c) ->
  forall n cid fs tag, valid classes n (VStruct cid fs) ->
  exists t, enc classes n (VStruct cid fs) tag = Some t /\ dec classes n cid t = Some (VStruct cid fs).
Proof. exact class_roundtrip. Qed.
Print Assumptions C05_class_roundtrip.

(* writing the value that was read back produces the same XML *)
Theorem C05_second_write_identical : forall classes, (forall c, In c classes -> wf_slots c) ->
  forall n cid fs tag t, valid classes n (VStruct cid fs) -> enc classes n (VStruct cid fs) tag = Some t ->
  exists v, dec classes n cid t = Some v /\ enc classes n v tag = Some t.
Proof. exact second_write_identical. Qed.
Print Assumptions C05_second_write_identical.

(* a member whose attribute / element is absent reads as None, the empty list, or (a copy of) the declared default *)
Theorem C05_absent_defaults : forall decf p n t, p_name p = Some n -> free (slot_of p) t ->
  read_member decf p t = Some (absent_value p).
Proof. exact read_absent. Qed.
Print Assumptions C05_absent_defaults.

(* the class table generated from the library: no class is unconstructible, and every class either satisfies the
   hypothesis of the round-trip theorem (element names unique within the class, no xsi:type clash, flags
   consistent, elements in the order of the schema type's sequence) or is one of the read-only helper classes that
   bind a member to the node itself (msg_types Mds / Vmd / Channel, GetMdibResponse) *)
Theorem C05_all_classes_wf :
  broken_classes = [] /\ forallb (fun c => wf_class c || uses_self_node c) all_classes = true.
Proof. split; vm_compute; reflexivity. Qed.
Print Assumptions C05_all_classes_wf.

(* wherever the schema documents the value an absent attribute / element stands for (default= or "The implied value
   SHALL be ..."), the class declares exactly that value as implied_py_value - not as default_py_value, not at all *)
Theorem C05_implied_values_match_schema : implied_mismatches = [].
Proof. vm_compute; reflexivity. Qed.
Print Assumptions C05_implied_values_match_schema.

(* ... hence the round-trip theorem applies to the generated table restricted to the well-formed classes *)
Theorem C05_generated_roundtrip : forall n cid fs tag, valid (filter wf_class all_classes) n (VStruct cid fs) ->
  exists t, enc (filter wf_class all_classes) n (VStruct cid fs) tag = Some t /\
            dec (filter wf_class all_classes) n cid t = Some (VStruct cid fs).
Proof. exact (class_roundtrip (filter wf_class all_classes) (wf_filter all_classes)). Qed.
Print Assumptions C05_generated_roundtrip.

(* the hypothesis is needed: two members bound to the same element (ClinicalInfo.Type/.Code before the repair) *)
Theorem C05_duplicate_slot_refuted :
  exists classes v t, enc classes 3 v 100%N = Some t /\ dec classes 3 1%N t <> Some v.
Proof.
  exists clash_classes, (VStruct 1%N [VNone; VStruct 2%N [VAtom 5]]).
  destruct duplicate_slot_refuted as (_ & t & E & D). exists t. split; [exact E|]. rewrite D. discriminate.
Qed.
Print Assumptions C05_duplicate_slot_refuted.

(* ---- instances with a history: update_from_node on a populated instance, repeated writes ---- *)

(* update_from_node into an instance that already holds ANY values gives what from_node gives (fresh instance) *)
Theorem C05_populated_read_is_fresh_read : forall decf ps olds t, length olds = length ps ->
  update_all keep_impl decf ps olds t = read_all decf ps t.
Proof. exact update_all_never. Qed.
Print Assumptions C05_populated_read_is_fresh_read.

(* ... hence: write a value, read the document into any instance of its class - the value, nothing of the old content *)
Theorem C05_written_document_into_any_instance : forall classes, (forall c, In c classes -> wf_slots c) ->
  forall n cid fs tag t olds, valid classes n (VStruct cid fs) -> enc classes n (VStruct cid fs) tag = Some t ->
  length olds = length fs -> dec_into keep_impl classes n cid olds t = Some (VStruct cid fs).
Proof. exact written_into_any_instance. Qed.
Print Assumptions C05_written_document_into_any_instance.

(* a descriptor that skips the assignment when the XML has no value (the list properties before the repair; "do not
   overwrite with None" in the base class) keeps a stale value: for EVERY member whose attribute / element may be
   absent there is an instance content for which the result differs from reading into a fresh instance *)
Theorem C05_keeping_old_values_refuted : forall keep decf p n t, keep p = true -> p_name p = Some n ->
  free (slot_of p) t -> reads_none_when_absent p = true ->
  exists old, update_member keep decf p old t <> read_member decf p t.
Proof. exact keep_refuted_absent. Qed.
Print Assumptions C05_keeping_old_values_refuted.

(* ... although that policy, restricted to the list kinds, is invisible on freshly constructed instances *)
Theorem C05_list_policy_invisible_on_fresh_instances : forall decf ps t,
  update_all keep_lists decf ps (map init_val ps) t = read_all decf ps t.
Proof. exact update_all_lists_fresh. Qed.
Print Assumptions C05_list_policy_invisible_on_fresh_instances.

(* writing is pure: the new document holds the content of the value; the value and all documents that exist (the
   one the value was read from, the ones written before) are what they were *)
Theorem C05_write_pure : forall w,
  render (step attach_impl w OWrite) = (fst (render w) ++ [snd (render w)], snd (render w)).
Proof. intros w. apply write_pure. Qed.
Print Assumptions C05_write_pure.

(* writing the same value again yields the same document *)
Theorem C05_second_write_identical_document : forall w,
  fst (render (step attach_impl (step attach_impl w OWrite) OWrite)) = fst (render w) ++ [snd (render w); snd (render w)] /\
  snd (render (step attach_impl (step attach_impl w OWrite) OWrite)) = snd (render w).
Proof. exact second_write_identical_docs. Qed.
Print Assumptions C05_second_write_identical_document.

(* no sequence of assignments, reads and writes changes a document that exists *)
Theorem C05_documents_never_change : forall ops w d, (d < length (w_docs w))%nat ->
  nth d (fst (render (exec attach_impl w ops))) [] = nth d (fst (render w)) [].
Proof. exact documents_never_change. Qed.
Print Assumptions C05_documents_never_change.

(* the value read from a written document - after whatever happened since - is the value written *)
Theorem C05_read_back_after_later_operations : forall ops w,
  snd (render (step attach_impl (exec attach_impl (step attach_impl w OWrite) ops) (ORead (length (w_docs w)))))
  = snd (render w).
Proof. exact read_back_after. Qed.
Print Assumptions C05_read_back_after_later_operations.

(* with container.extend(value) instead of copies (lxml re-parents the elements): the second write empties the first
   document; the first write of a value that was read from a document empties that document *)
Theorem C05_move_refuted : forall b,
  (let w1 := exec Move world0 [ONew [b]; OWrite] in
   fst (render w1) = [[b]] /\ fst (render (step Move w1 OWrite)) = [[]; [b]]) /\
  (let w0 := exec Move world0 [OParse [b]] in
   fst (render w0) = [[b]] /\ fst (render (exec Move w0 [ORead 0%nat; OWrite])) = [[]; [b]]).
Proof. intros b. split; [apply move_refuted|apply move_source_refuted]. Qed.
Print Assumptions C05_move_refuted.

(* ---- attribute access (descriptor.__get__): what the application sees ---- *)

(* a stored value - whatever its truth value: False, 0, 0.0, Decimal 0, '' - is what attribute access returns *)
Theorem C05_attribute_access_returns_present_value : forall fz p implied raw, raw <> VNone ->
  public_get get_impl fz p implied raw = raw.
Proof. exact public_get_present. Qed.
Print Assumptions C05_attribute_access_returns_present_value.

(* the implied value is what attribute access returns when nothing is stored *)
Theorem C05_attribute_access_absent_is_implied : forall g fz p i, base_get (p_kind p) = true ->
  public_get g fz p (Some i) VNone = i.
Proof. exact public_get_absent. Qed.
Print Assumptions C05_attribute_access_absent_is_implied.

(* write, read back, look through attribute access: every member that carried a value shows that value *)
Theorem C05_public_roundtrip : forall classes, (forall c, In c classes -> wf_slots c) ->
  forall fz n cid fs tag t c impls, valid classes n (VStruct cid fs) -> enc classes n (VStruct cid fs) tag = Some t ->
  lookup classes cid = Some c -> length impls = length (c_props c) ->
  exists fs', dec classes n cid t = Some (VStruct cid fs') /\
              Forall2 (fun w pub => w <> VNone -> pub = w) fs (public_all get_impl fz (c_props c) impls fs').
Proof. exact public_roundtrip. Qed.
Print Assumptions C05_public_roundtrip.

(* `if not value` instead of `if value is None`: EVERY stored falsy value that differs from the implied value is
   replaced by it (Retriggerable="false" reads true, Qi="0" reads 1, PT0S reads 1 s, Lang="" reads "en") *)
Theorem C05_get_if_falsy_refuted : forall fz p i raw, base_get (p_kind p) = true -> raw <> VNone -> fz raw = true ->
  i <> raw -> public_get GetIfFalsy fz p (Some i) raw = i /\ public_get GetIfFalsy fz p (Some i) raw <> raw.
Proof. exact get_if_falsy_refuted. Qed.
Print Assumptions C05_get_if_falsy_refuted.

(* non-vacuity: a nested value with an extension, an xsi:type substitution, empty strings, a defaulted member *)
Example C05_nonvacuous :
  forallb wf_class demo_classes = true /\
  (exists t, enc demo_classes 3 demo_value 100%N = Some t /\ dec demo_classes 3 4%N t = Some demo_value) /\
  dec demo_classes 3 4%N (Node 100%N [(24%N, [7%Z])] None []) = Some (VStruct 4%N [VAtom 7; VDflt; VWords []; VNone]).
Proof.
  split; [exact demo_wf|]. split; [|exact demo_absent].
  destruct demo_roundtrip as (t & E & D & _). eauto.
Qed.

(* non-vacuity of the history theorems: an optional word-list element (wsd XAddrs) absent in the XML, instance holds
   [7]: the repaired policy stores [], the old list policy keeps [7]; an extension written twice *)
Example C05_history_nonvacuous :
  let p := mkProp KTextList (Some 30%N) COther true false false 0%N false in
  let t := Node 100%N [] None [] in
  update_member keep_impl (fun _ _ => None) p (VWords [7%Z]) t = Some (VWords []) /\
  update_member keep_lists (fun _ _ => None) p (VWords [7%Z]) t = Some (VWords [7%Z]) /\
  run_own [ONew [Node 99%N [] (Some [6%Z]) []]; OWrite; OWrite]
  = [([], [Node 99%N [] (Some [6%Z]) []]);
     ([[Node 99%N [] (Some [6%Z]) []]], [Node 99%N [] (Some [6%Z]) []]);
     ([[Node 99%N [] (Some [6%Z]) []]; [Node 99%N [] (Some [6%Z]) []]], [Node 99%N [] (Some [6%Z]) []])].
Proof. repeat split. Qed.

(* Retriggerable="false" with implied value true: atom 2 = "false" (falsy), atom 1 = "true" *)
Example C05_get_nonvacuous :
  let p := mkProp KAttr (Some 40%N) COther true false false 0%N false in
  run_get (p, Some (VAtom 1), true, VAtom 2) = VAtom 2 /\
  public_get GetIfFalsy (fun _ => true) p (Some (VAtom 1)) (VAtom 2) = VAtom 1 /\
  run_get (p, Some (VAtom 1), true, VNone) = VAtom 1.
Proof. repeat split. Qed.
