(* C05 -- BICEPS / WS-* data types round-trip losslessly through schema-valid XML.
   Property theorems only; model: XmlStruct/Model.v, proofs: XmlStruct/Proofs.v, class table: XmlStruct/Gen_Schema.v
   (regenerated from the library's class declarations and the bundled XSD files on every run).

   Proved about the model: value -> XML -> value is the identity, for every class table whose classes bind their
   members to pairwise different slots and for every value in normal form, at any nesting depth and under any
   xsi:type substitution; the second write is byte-identical; absent members read as the declared default.
   The generated table is checked to satisfy the hypothesis (computed).  lxml serialisation, namespace prefixes and
   XSD validation themselves are not modelled (the harness checks them on the implementation). *)
From Coq Require Import List ZArith NArith Bool.
From SDC Require Import XmlStruct.Model XmlStruct.Proofs XmlStruct.Gen_Schema.
Import ListNotations.

(* every property kind: writing a valid value into a node whose slot is empty and reading it gives that value *)
Theorem C05_kind_read_write : forall encf decf p f t,
  free (slot_of p) t -> valid_field encf decf p f ->
  exists t', write_prop encf p f t = Some t' /\ read_member decf p t' = Some f.
Proof. exact read_write. Qed.
Print Assumptions C05_kind_read_write.

(* ... and leaves every other slot of the node as it was *)
Theorem C05_kind_frame : forall encf (enc_tag : forall v n k, encf v n = Some k -> t_tag k = n) s q v t t',
  distinct s (slot_of q) -> write_prop encf q v t = Some t' -> view s t' = view s t.
Proof. exact write_frame. Qed.
Print Assumptions C05_kind_frame.

(* as_etree_node / mk_node then from_node is the identity, for any class table with non-clashing members, any
   value in normal form, any depth, any element name *)
Theorem C05_class_roundtrip : forall classes, (forall c, In c classes -> wf_slots c) ->
  forall n cid fs tag, valid classes n (VStruct cid fs) ->
  exists t, enc classes n (VStruct cid fs) tag = Some t /\ dec classes n cid t = Some (VStruct cid fs).
Proof. exact class_roundtrip. Qed.
Print Assumptions C05_class_roundtrip.

(* writing the value that was read back produces the same XML *)
Theorem C05_second_write_identical : forall classes, (forall c, In c classes -> wf_slots c) ->
  forall n cid fs tag t, valid classes n (VStruct cid fs) -> enc classes n (VStruct cid fs) tag = Some t ->
  exists v, dec classes n cid t = Some v /\ enc classes n v tag = Some t.
Proof. exact second_write_identical. Qed.
Print Assumptions C05_second_write_identical.

(* a member whose attribute / element is absent reads as None, the empty list, or (a copy of) the declared default *)
Theorem C05_absent_defaults : forall decf p n t, p_name p = Some n -> free (slot_of p) t ->
  read_member decf p t = Some (absent_value p).
Proof. exact read_absent. Qed.
Print Assumptions C05_absent_defaults.

(* the class table generated from the library: no class is unconstructible, and every class either satisfies the
   hypothesis of the round-trip theorem (element names unique within the class, no xsi:type clash, flags
   consistent, elements in the order of the schema type's sequence) or is one of the read-only helper classes that
   bind a member to the node itself (msg_types Mds / Vmd / Channel, GetMdibResponse) *)
Theorem C05_all_classes_wf :
  broken_classes = [] /\ forallb (fun c => wf_class c || uses_self_node c) all_classes = true.
Proof. split; vm_compute; reflexivity. Qed.
Print Assumptions C05_all_classes_wf.

(* ... hence the round-trip theorem applies to the generated table restricted to the well-formed classes *)
Theorem C05_generated_roundtrip : forall n cid fs tag, valid (filter wf_class all_classes) n (VStruct cid fs) ->
  exists t, enc (filter wf_class all_classes) n (VStruct cid fs) tag = Some t /\
            dec (filter wf_class all_classes) n cid t = Some (VStruct cid fs).
Proof. exact (class_roundtrip (filter wf_class all_classes) (wf_filter all_classes)). Qed.
Print Assumptions C05_generated_roundtrip.

(* the hypothesis is needed: two members bound to the same element (ClinicalInfo.Type/.Code before the repair) *)
Theorem C05_duplicate_slot_refuted :
  exists classes v t, enc classes 3 v 100%N = Some t /\ dec classes 3 1%N t <> Some v.
Proof.
  exists clash_classes, (VStruct 1%N [VNone; VStruct 2%N [VAtom 5]]).
  destruct duplicate_slot_refuted as (_ & t & E & D). exists t. split; [exact E|]. rewrite D. discriminate.
Qed.
Print Assumptions C05_duplicate_slot_refuted.

(* non-vacuity: a nested value with an extension, an xsi:type substitution, empty strings, a defaulted member *)
Example C05_nonvacuous :
  forallb wf_class demo_classes = true /\
  (exists t, enc demo_classes 3 demo_value 100%N = Some t /\ dec demo_classes 3 4%N t = Some demo_value) /\
  dec demo_classes 3 4%N (Node 100%N [(24%N, [7%Z])] None []) = Some (VStruct 4%N [VAtom 7; VDflt; VWords []; VNone]).
Proof.
  split; [exact demo_wf|]. split; [|exact demo_absent].
  destruct demo_roundtrip as (t & E & D & _). eauto.
Qed.
