(* C18 -- DecimalConverter.to_xml for float arguments (src/sdc11073/xml_types/dataconverters.py:
   _float_to_xml, then the string surgery of to_xml; values read with USE_DECIMAL_TYPE = False are floats).

     if abs(x) >= 100: s = f'{round(x, 1):.1f}'  elif abs(x) >= 10: s = f'{round(x, 2):.2f}'  else: s = f'{round(x, 3):.3f}'

   round(x, n) of a binary64 is correctly rounded: the exact binary value is rounded half-even to n decimal digits
   (dtoa mode 3) and the result is the binary64 nearest to that decimal; f'{y:.nf}' rounds the exact binary value of y
   half-even to n digits again.  Both steps are modelled exactly with [rne_div] / [rnd53]; the fixed-point format never
   uses an exponent.  A float is |x| = a / b (b a power of two) and a sign flag (python keeps the sign of -0.0).
   Definitions only. *)
From Coq Require Import List ZArith Bool String Ascii.
From SDC Require Import Scalars.Lex Scalars.Timestamp Scalars.Decimal.
Import ListNotations.
Open Scope Z_scope.

(* the documented rounding: 1 / 2 / 3 fraction digits for |x| >= 100 / >= 10 / below *)
Definition fdigits (a b : Z) : Z := if 100 * b <=? a then 1 else if 10 * b <=? a then 2 else 3.
(* round(x, n) *)
Definition round_nd (a b n : Z) : Z * Z := rnd53 (rne_div (a * 10 ^ n) b) (10 ^ n).
(* f'{y:.nf}' as a count of 10^-n units *)
Definition format_nf (y : Z * Z) (n : Z) : Z := rne_div (fst y * 10 ^ n) (snd y).
Definition padn (w n : Z) : list ascii := let d := digits_of n in zeros (w - len d) ++ d.

Definition float_format_l (neg : bool) (a b : Z) : list ascii :=
  let n := fdigits a b in
  let k := format_nf (round_nd a b n) n in
  sign_chars neg ++ digits_of (k / 10 ^ n) ++ "."%char :: padn n (k mod 10 ^ n).
Definition float_to_xml_l (neg : bool) (a b : Z) : list ascii := surgery (float_format_l neg a b).
Definition decf_to_xml (neg : bool) (a b : Z) : string := str (float_to_xml_l neg a b).
(* the value written before the surgery, in 10^-n units, for the rounding claim *)
Definition float_units (a b : Z) : Z := format_nf (round_nd a b (fdigits a b)) (fdigits a b).
