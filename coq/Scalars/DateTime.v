(* C18 -- xsd:dateTime / date / gYearMonth / gYear (src/sdc11073/xml_types/isoduration.py:
   parse_date_time, XsdDateInformation.__str__, _parse_tz, _tz_to_string), seconds at microsecond
   resolution.

   A value is (year, month?, day?, time?, end_of_day, tz?) with time = (hour, minute, microseconds of
   the second field, 0 <= us < 60_000_000) and tz = offset in minutes (UTC = 0).  The second field is a
   binary64 in the code; for values with at most 6 fraction digits repr(float) is the shortest decimal,
   i.e. the same digits (oracle: modelled, validated differentially); more fraction digits are outside the model.

   The regular expression is matched with backtracking over the optional groups
       YEAR(-MONTH(-DAY(T(TIME|EOD))?)?)?TZ?$
   which is modelled as "first success" over the four nesting depths, deepest first.
   Definitions only. *)
From Coq Require Import List ZArith Bool String Ascii.
From SDC Require Import Scalars.Lex Scalars.Decimal Scalars.Duration.
Import ListNotations.
Open Scope Z_scope.

Definition time3 : Type := Z * Z * Z.                        (* hour, minute, microseconds *)
Definition dt : Type := Z * option Z * option Z * option time3 * bool * option Z.
Definition mkdt (y : Z) (mo d : option Z) (t : option time3) (eod : bool) (tz : option Z) : dt :=
  (y, mo, d, t, eod, tz).

(* ---------------------------------------------------------------- __str__ *)
Definition pad (w : Z) (n : Z) : list ascii := let d := digits_of n in zeros (w - len d) ++ d.

Definition seconds_chars (us : Z) : list ascii :=
  pad 2 (us / 1000000) ++
  (if 0 <? us mod 1000000 then "."%char :: rstrip0 (zfill6 (digits_of (us mod 1000000))) else []).

Definition tz_chars (tz : option Z) : list ascii :=
  match tz with
  | None => []
  | Some off =>
      if off =? 0 then ["Z"%char]
      else (if 0 <=? off then "+"%char else "-"%char)
             :: pad 2 (Z.abs off / 60) ++ ":"%char :: pad 2 (Z.abs off mod 60)
  end.

Definition dt_chars (v : dt) : list ascii :=
  let '(y, mo, d, t, eod, tz) := v in
  (if y <? 0 then ["-"%char] else []) ++ pad 4 (Z.abs y)
  ++ match mo with Some m => "-"%char :: pad 2 m | None => [] end
  ++ match d with Some x => "-"%char :: pad 2 x | None => [] end
  ++ (if eod then chars "T24:00:00"
      else match t with
           | Some (h, mi, us) => "T"%char :: pad 2 h ++ ":"%char :: pad 2 mi ++ ":"%char :: seconds_chars us
           | None => []
           end)
  ++ tz_chars tz.

Definition dt_to_xml (v : dt) : string := str (dt_chars v).

(* the constructor's validation (XsdDateInformation.__post_init__) at microsecond resolution *)
Definition in_range (lo hi : Z) (o : option Z) : bool :=
  match o with Some x => (lo <=? x) && (x <=? hi) | None => true end.
Definition dt_valid (v : dt) : bool :=
  let '(y, mo, d, t, eod, tz) := v in
  in_range 1 12 mo && in_range 1 31 d
  && (is_some mo || negb (is_some d))
  && (is_some d || (negb (is_some t) && negb eod))
  && negb (eod && is_some t)
  && match t with Some (h, mi, us) => (0 <=? h) && (h <=? 23) && (0 <=? mi) && (mi <=? 59) && (0 <=? us) && (us <? 60000000)
     | None => true end
  && in_range (-840) 840 tz.

(* ---------------------------------------------------------------- parse_date_time *)
(* exactly two digits *)
Definition two_digits (l : list ascii) : option (Z * list ascii) :=
  match l with
  | a :: b :: r => if is_digit a && is_digit b then Some (digit_val a * 10 + digit_val b, r) else None
  | _ => None
  end.
Definition expect (c : ascii) (l : list ascii) : option (list ascii) :=
  match l with x :: r => if ceq x c then Some r else None | [] => None end.
Definition two_in (lo hi : Z) (l : list ascii) : option (Z * list ascii) :=
  match two_digits l with
  | Some (v, r) => if (lo <=? v) && (v <=? hi) then Some (v, r) else None
  | None => None
  end.

Definition at_end (r : list ascii) : bool :=
  match r with [] => true | [c] => N.eqb (code c) 10 | _ => false end.

Inductive tzres := TzNone | TzBad | TzOk (off : Z) (rest : list ascii).
(* (Z | [+-](0\d|1[0-4]):[0-5]\d) ; 14:mm with mm <> 0 is rejected by _parse_tz after the match *)
Definition parse_tz (l : list ascii) : tzres :=
  match l with
  | c :: r =>
      if ceq c "Z"%char then TzOk 0 r
      else if ceq c "+"%char || ceq c "-"%char then
        match two_in 0 14 r with
        | Some (h, r1) =>
            match expect ":"%char r1 with
            | Some r2 =>
                match two_in 0 59 r2 with
                | Some (m, r3) =>
                    if (h =? 14) && negb (m =? 0) then TzBad
                    else TzOk (if ceq c "-"%char then - (h * 60 + m) else h * 60 + m) r3
                | None => TzNone
                end
            | None => TzNone
            end
        | None => TzNone
        end
      else TzNone
  | [] => TzNone
  end.

(* result of one alternative *)
Inductive alt := NoMatch | Bad | Unmodelled | Match (tz : option Z).
(* TZ?$ *)
Definition tz_end (r : list ascii) : alt :=
  match parse_tz r with
  | TzOk off r' => if at_end r' then Match (Some off) else if at_end r then Match None else NoMatch
  | TzBad => Bad    (* the regular expression matches, _parse_tz raises *)
  | TzNone => if at_end r then Match None else NoMatch
  end.

(* [0-5]\d(\.\d+)? : microseconds, rest; fraction longer than 6 digits: outside the model *)
Definition parse_second (l : list ascii) : option (option Z * list ascii) :=
  match two_in 0 59 l with
  | Some (s, r) =>
      match r with
      | c :: r1 =>
          if is_dot c then
            let (f, r2) := span is_digit r1 in
            if is_nil f then Some (Some (s * 1000000), r)
            else if 6 <? len f then Some (None, r2)
            else Some (Some (s * 1000000 + digits_val f * 10 ^ (6 - len f)), r2)
          else Some (Some (s * 1000000), r)
      | [] => Some (Some (s * 1000000), r)
      end
  | None => None
  end.

(* 24:00:00(\.0+)? *)
Definition parse_eod (l : list ascii) : option (list ascii) :=
  match l with
  | a :: b :: c :: d :: e :: f :: g :: h :: r =>
      if list_ceq [a; b; c; d; e; f; g; h] (chars "24:00:00") then
        match r with
        | x :: r1 =>
            if is_dot x then
              let (z, r2) := span is_zero_char r1 in if is_nil z then Some r else Some r2
            else Some r
        | [] => Some r
        end
      else None
  | _ => None
  end.

Inductive dtres := DtReject | DtUnmodelled | DtOk (v : dt).

Definition bind_alt (a : alt) (k : option Z -> dtres) (next : dtres) : dtres :=
  match a with
  | Match tz => k tz
  | Bad => DtReject
  | Unmodelled => DtUnmodelled
  | NoMatch => next
  end.

(* T(HH:MM:SS|EOD) after the day *)
Definition time_part (l : list ascii) : option (option (option time3) * bool * list ascii) :=
  (* Some (Some (Some t), false, r): time; Some (Some None, true, r): eod; (None,..): unmodelled seconds *)
  match expect "T"%char l with
  | Some r0 =>
      match two_in 0 23 r0 with
      | Some (h, r1) =>
          match expect ":"%char r1 with
          | Some r2 =>
              match two_in 0 59 r2 with
              | Some (mi, r3) =>
                  match expect ":"%char r3 with
                  | Some r4 =>
                      match parse_second r4 with
                      | Some (Some us, r5) => Some (Some (Some (h, mi, us)), false, r5)
                      | Some (None, r5) => Some (None, false, r5)
                      | None => None
                      end
                  | None => None
                  end
              | None => None
              end
          | None => None
          end
      | None =>
          match parse_eod r0 with
          | Some r1 => Some (Some None, true, r1)
          | None => None
          end
      end
  | None => None
  end.

Definition dash_two (lo hi : Z) (l : list ascii) : option (Z * list ascii) :=
  match expect "-"%char l with Some r => two_in lo hi r | None => None end.

Definition parse_dt (s : list ascii) : dtres :=
  let (neg, r0) := match s with c :: r => if ceq c "-"%char then (true, r) else (false, s) | [] => (false, s) end in
  let (yd, r1) := span is_digit r0 in
  let year_ok := (len yd =? 4) || ((4 <? len yd) && negb (match yd with c :: _ => is_zero_char c | [] => true end)) in
  if negb year_ok then DtReject else
  let y := if neg then - digits_val yd else digits_val yd in
  let alt_year := bind_alt (tz_end r1) (fun tz => DtOk (y, None, None, None, false, tz)) DtReject in
  match dash_two 1 12 r1 with
  | Some (mo, r2) =>
      let alt_month := bind_alt (tz_end r2) (fun tz => DtOk (y, Some mo, None, None, false, tz)) alt_year in
      match dash_two 1 31 r2 with
      | Some (d, r3) =>
          let alt_day := bind_alt (tz_end r3) (fun tz => DtOk (y, Some mo, Some d, None, false, tz)) alt_month in
          match time_part r3 with
          | Some (Some t, eod, r4) =>
              bind_alt (tz_end r4) (fun tz => DtOk (y, Some mo, Some d, t, eod, tz)) alt_day
          | Some (None, _, r4) =>
              bind_alt (tz_end r4) (fun _ => DtUnmodelled) alt_day
          | None => alt_day
          end
      | None => alt_month
      end
  | None => alt_year
  end.

Definition dt_to_py (s : string) : dtres := parse_dt (chars s).

(* ---------------------------------------------------------------- correspondence helpers *)
Definition oz_eqb (a b : option Z) : bool :=
  match a, b with Some x, Some y => x =? y | None, None => true | _, _ => false end.
Definition time_eqb (a b : option time3) : bool :=
  match a, b with
  | Some (h, m, u), Some (h', m', u') => (h =? h') && (m =? m') && (u =? u')
  | None, None => true
  | _, _ => false
  end.
Definition dt_eqb (a b : dt) : bool :=
  let '(y, mo, d, t, e, tz) := a in let '(y', mo', d', t', e', tz') := b in
  (y =? y') && oz_eqb mo mo' && oz_eqb d d' && time_eqb t t' && Bool.eqb e e' && oz_eqb tz tz'.
Definition dtres_eqb (a b : dtres) : bool :=
  match a, b with
  | DtReject, DtReject => true
  | DtUnmodelled, _ => true          (* outside the model: not compared *)
  | DtOk x, DtOk y => dt_eqb x y
  | _, _ => false
  end.
Definition check_dt (v : dt) : bool :=
  negb (dt_valid v) || match parse_dt (dt_chars v) with DtOk v' => dt_eqb v v' | _ => false end.

(* ---------------------------------------------------------------- the second field as the code keeps it
   parse_date_time stores float('<ss>[.<fraction>]') (correctly rounded binary64, [rnd53]) for a fraction of ANY
   length; [parse_dt] above works at microsecond resolution and answers DtUnmodelled beyond six digits, so the float
   is modelled separately: the exact decimal value (numerator, denominator) of the field that follows "Thh:mm:" ... *)
From SDC Require Import Scalars.Timestamp.
Fixpoint after_T (l : list ascii) : list ascii :=
  match l with
  | [] => []
  | c :: r => if ceq c "T"%char then r else after_T r
  end.
Definition second_field (s : list ascii) : Z * Z :=
  let r := skipn 6 (after_T s) in
  let (d, r1) := span is_digit r in
  match r1 with
  | c :: r2 => if is_dot c then let (f, _) := span is_digit r2 in (digits_val (d ++ f), 10 ^ len f) else (digits_val d, 1)
  | [] => (digits_val d, 1)
  end.
(* ... and its binary64, for every string that parse_date_time accepts with a time of day.
   Repaired code (fixes/C18_datetime_second_below_60): a second field such as 59.999999999999999 is below 60 but its
   nearest binary64 is 60.0, which XsdDateInformation refuses (0.0 <= second < 60.0): a valid lexical form was rejected.
   The repaired parser takes the largest binary64 below 60 (60 - 2^-47) in that case.  [dt_second_float_old] is the
   code before the repair. *)
Definition max_second : Z * Z := (60 * 2 ^ 47 - 1, 2 ^ 47).
Definition clamp_second (x : Z * Z) : Z * Z := if 60 * snd x <=? fst x then max_second else x.
Definition dt_second_float (s : string) : option (Z * Z) :=
  match parse_dt (chars s) with
  | DtOk (_, _, _, Some _, _, _) | DtUnmodelled =>
      let x := second_field (chars s) in Some (clamp_second (rnd53 (fst x) (snd x)))
  | _ => None
  end.
Definition dt_second_float_old (s : string) : option (Z * Z) :=
  match parse_dt (chars s) with
  | DtOk (_, _, _, Some _, _, _) | DtUnmodelled =>
      let x := second_field (chars s) in
      let y := rnd53 (fst x) (snd x) in if 60 * snd y <=? fst y then None else Some y
  | _ => None
  end.
