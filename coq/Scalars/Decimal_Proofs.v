(* C18 -- DecimalConverter: py -> xml -> py keeps the numeric value (up to 18 coefficient digits),
   no exponent notation is ever written, and the boolean checker twin agrees with both. *)
From Coq Require Import List ZArith NArith Bool Lia ZifyBool Ascii String.
From SDC Require Import Scalars.Lex Scalars.Lex_Proofs Scalars.Decimal.
Import ListNotations.
Open Scope Z_scope.

(* ---------------------------------------------------------------- generic list facts *)
Lemma forallb_imp : forall (p q : ascii -> bool) l,
  (forall c, p c = true -> q c = true) -> forallb p l = true -> forallb q l = true.
Proof.
  intros p q l I. induction l as [|c l IH]; simpl; intros H; [reflexivity|].
  apply andb_prop in H as [H1 H2]. now rewrite (I _ H1), IH.
Qed.

Lemma forallb_repeat : forall (p : ascii -> bool) c k, p c = true -> forallb p (repeat c k) = true.
Proof. intros p c k H. induction k; simpl; [reflexivity|]. now rewrite H, IHk. Qed.

Lemma forallb_firstn : forall (p : ascii -> bool) k l, forallb p l = true -> forallb p (firstn k l) = true.
Proof.
  induction k; intros l H; [reflexivity|]. destruct l as [|c l]; [reflexivity|].
  simpl in *. apply andb_prop in H as [H1 H2]. now rewrite H1, IHk.
Qed.

Lemma forallb_skipn : forall (p : ascii -> bool) k l, forallb p l = true -> forallb p (skipn k l) = true.
Proof.
  induction k; intros l H; [exact H|]. destruct l as [|c l]; [reflexivity|].
  simpl in *. apply andb_prop in H as [H1 H2]. now apply IHk.
Qed.

Lemma forallb_rev : forall (p : ascii -> bool) l, forallb p (rev l) = forallb p l.
Proof.
  induction l as [|c l IH]; [reflexivity|]. simpl. rewrite forallb_app, IH. simpl.
  destruct (p c), (forallb p l); reflexivity.
Qed.

Lemma existsb_rev' : forall (p : ascii -> bool) l, existsb p (rev l) = existsb p l.
Proof.
  induction l as [|c l IH]; [reflexivity|]. simpl. rewrite existsb_app, IH. simpl.
  destruct (p c), (existsb p l); reflexivity.
Qed.

Lemma forallb_lstrip : forall (p q : ascii -> bool) l, forallb p l = true -> forallb p (lstrip q l) = true.
Proof.
  induction l as [|c l IH]; intros H; [reflexivity|]. simpl. destruct (q c); [|exact H].
  simpl in H. apply andb_prop in H as [_ H]. now apply IH.
Qed.

Lemma forallb_neg_existsb : forall (p : ascii -> bool) l,
  forallb (fun c => negb (p c)) l = true -> existsb p l = false.
Proof.
  induction l as [|c l IH]; simpl; intros H; [reflexivity|].
  apply andb_prop in H as [H1 H2]. rewrite (IH H2). destruct (p c); [discriminate|reflexivity].
Qed.

(* ---------------------------------------------------------------- lengths *)
Lemma len_nonneg : forall l, 0 <= len l.
Proof. intros. unfold len. lia. Qed.
Lemma len_app : forall a b, len (a ++ b) = len a + len b.
Proof. intros. unfold len. rewrite app_length. lia. Qed.
Lemma len_cons : forall c l, len (c :: l) = 1 + len l.
Proof. intros. unfold len. simpl List.length. lia. Qed.
Lemma len_zeros : forall k, 0 <= k -> len (zeros k) = k.
Proof. intros. unfold len, zeros. rewrite repeat_length. lia. Qed.
Lemma len_lstrip : forall p l, len (lstrip p l) <= len l.
Proof.
  induction l as [|c l IH]; simpl; [lia|]. destruct (p c); [|lia]. rewrite len_cons. lia.
Qed.
Lemma len_firstn_skipn : forall k l, len (firstn k l) + len (skipn k l) = len l.
Proof. intros. rewrite <- len_app. now rewrite firstn_skipn. Qed.

(* ---------------------------------------------------------------- character classes *)
Lemma digit_not_dot : forall c, is_digit c = true -> is_dot c = false.
Proof. intros c. unfold is_digit, is_dot, ceq. change (code ".") with 46%N. lia. Qed.
Lemma digit_not_sign : forall c, is_digit c = true -> is_sign c = false.
Proof. intros c. unfold is_digit, is_sign, ceq. change (code "-") with 45%N. change (code "+") with 43%N. lia. Qed.
Lemma digit_not_minus : forall c, is_digit c = true -> ceq c "-" = false.
Proof. intros c. unfold is_digit, ceq. change (code "-") with 45%N. lia. Qed.
Lemma digit_not_plus : forall c, is_digit c = true -> ceq c "+" = false.
Proof. intros c. unfold is_digit, ceq. change (code "+") with 43%N. lia. Qed.
Lemma digit_plain : forall c, is_digit c = true -> plain_char c = true.
Proof. intros c H. unfold plain_char. now rewrite H. Qed.
Lemma zero_is_digit : forall c, is_zero_char c = true -> is_digit c = true.
Proof. intros c. unfold is_zero_char, is_digit, ceq. change (code "0") with 48%N. lia. Qed.

Lemma digits_no_dot : forall l, all_digits l = true -> existsb is_dot l = false.
Proof.
  intros l H. apply forallb_neg_existsb. revert H. apply forallb_imp.
  intros c D. now rewrite digit_not_dot.
Qed.

Lemma sign_chars_no_dot : forall neg, existsb is_dot (sign_chars neg) = false.
Proof. destruct neg; reflexivity. Qed.

Lemma all_digits_zeros : forall k, all_digits (zeros k) = true.
Proof. intros. unfold all_digits, zeros. now apply forallb_repeat. Qed.

Lemma all_digits_app : forall a b, all_digits (a ++ b) = all_digits a && all_digits b.
Proof. intros. apply forallb_app. Qed.

(* ---------------------------------------------------------------- digit values *)
Lemma digits_val_allzero : forall z, forallb is_zero_char z = true -> digits_val z = 0.
Proof.
  induction z as [|c z IH]; simpl; intros H; [reflexivity|].
  apply andb_prop in H as [H1 H2]. apply ceq_eq in H1. subst c.
  rewrite digits_val_zero_cons. now apply IH.
Qed.

Lemma digits_val_app_zeros : forall l z, forallb is_zero_char z = true ->
  digits_val (l ++ z) = digits_val l * 10 ^ len z.
Proof. intros l z H. rewrite digits_val_app, (digits_val_allzero z H). unfold len. lia. Qed.

Lemma digits_val_or_zero_app : forall a b, digits_val (or_zero a ++ b) = digits_val (a ++ b).
Proof. intros [|c a] b; simpl; [apply digits_val_zero_cons|reflexivity]. Qed.

Lemma digits_val_norm : forall l, digits_val (norm_digs l) = digits_val l.
Proof.
  intros l. unfold norm_digs. rewrite <- (digits_val_lstrip0 l).
  destruct (lstrip is_zero_char l); reflexivity.
Qed.

Lemma lstrip_zeros_app : forall k l, lstrip is_zero_char (repeat "0"%char k ++ l) = lstrip is_zero_char l.
Proof. induction k; intros l; simpl; [reflexivity|]. apply IHk. Qed.

(* ---------------------------------------------------------------- format(d, 'f') *)
Definition eff_exp (d : dec) : Z :=
  if forallb is_zero_char (ddigs d) && (0 <? dexp d) then 0 else dexp d.

Definition cap_of (ip fp : list ascii) : Z :=
  if is_nil (lstrip is_zero_char ip) then 18 + (len fp - len (lstrip is_zero_char fp))
  else 18 - len (lstrip is_zero_char ip).

Lemma int_frac_unfold : forall d, int_frac d =
  let digs := ddigs d in
  let n := len digs in
  let dot := eff_exp d + n in
  if dot <? 0 then (["0"%char], zeros (- dot) ++ digs)
  else if n <? dot then (digs ++ zeros (dot - n), [])
  else (or_zero (firstn (Z.to_nat dot) digs), skipn (Z.to_nat dot) digs).
Proof. reflexivity. Qed.

Lemma eff_exp_cases : forall d, digits_val (ddigs d) = 0 \/ eff_exp d = dexp d.
Proof.
  intros d. unfold eff_exp. destruct (forallb is_zero_char (ddigs d)) eqn:F; simpl.
  - left. now apply digits_val_allzero.
  - now right.
Qed.

Lemma wf_digs_all : forall l, wf_digs l = true -> all_digits l = true /\ l <> [].
Proof.
  intros l H. unfold wf_digs in H. apply andb_prop in H as [H _]. apply andb_prop in H as [H1 H2].
  split; [exact H1|]. destruct l; [discriminate|discriminate].
Qed.

Lemma int_frac_shape : forall d ip fp, wf_dec d = true -> int_frac d = (ip, fp) ->
  ip <> [] /\ all_digits ip = true /\ all_digits fp = true /\
  ((eff_exp d <= 0 /\ len fp = - eff_exp d /\ digits_val (ip ++ fp) = digits_val (ddigs d)) \/
   (0 < eff_exp d /\ fp = [] /\ digits_val ip = digits_val (ddigs d) * 10 ^ eff_exp d)) /\
  (len (ddigs d) <= 18 -> len fp <= Z.max (cap_of ip fp) 0).
Proof.
  intros d ip fp W H. apply wf_digs_all in W as [D N].
  rewrite int_frac_unfold in H. cbv zeta in H.
  set (e := eff_exp d) in *. set (digs := ddigs d) in *.
  pose proof (len_nonneg digs) as Ln.
  destruct (Z.ltb_spec (e + len digs) 0) as [L1|L1]; [|destruct (Z.ltb_spec (len digs) (e + len digs)) as [L2|L2]];
    inversion H; subst ip fp; clear H.
  - (* 0.000ddd *)
    split; [discriminate|]. split; [reflexivity|]. split.
    { now rewrite all_digits_app, D, all_digits_zeros. }
    split.
    + left. split; [lia|]. split.
      * rewrite len_app, len_zeros by lia. lia.
      * cbn [app]. rewrite digits_val_zero_cons, digits_val_app. unfold zeros. rewrite digits_val_repeat0. lia.
    + intros L18. unfold cap_of. cbn [lstrip]. change (is_zero_char "0") with true. cbn [lstrip is_nil].
      unfold zeros. rewrite lstrip_zeros_app. pose proof (len_lstrip is_zero_char digs). lia.
  - (* ddd000 *)
    split; [intros E; apply app_eq_nil in E as [E _]; contradiction|].
    split; [now rewrite all_digits_app, D, all_digits_zeros|].
    split; [reflexivity|]. split.
    + right. split; [lia|]. split; [reflexivity|].
      rewrite digits_val_app_zeros by apply (forallb_repeat is_zero_char "0"%char _ eq_refl).
      rewrite len_zeros by lia. f_equal. f_equal. lia.
    + intros _. change (len []) with 0. lia.
  - (* dd.ddd *)
    set (k := Z.to_nat (e + len digs)).
    split; [destruct (firstn k digs); discriminate|].
    split; [destruct (firstn k digs) eqn:E; [reflexivity|cbn [or_zero]; rewrite <- E; now apply forallb_firstn]|].
    split; [now apply forallb_skipn|].
    pose proof (len_firstn_skipn k digs) as LS.
    assert (LF : len (firstn k digs) = e + len digs).
    { unfold len. rewrite firstn_length. unfold len in *. lia. }
    split.
    + left. split; [lia|]. split; [lia|]. rewrite digits_val_or_zero_app. now rewrite firstn_skipn.
    + intros L18. unfold cap_of.
      pose proof (len_lstrip is_zero_char (skipn k digs)).
      pose proof (len_nonneg (skipn k digs)).
      destruct (firstn k digs) as [|c f] eqn:E.
      * cbn [or_zero lstrip]. change (is_zero_char "0") with true. cbn [lstrip is_nil]. lia.
      * cbn [or_zero]. pose proof (len_lstrip is_zero_char (c :: f)).
        destruct (is_nil (lstrip is_zero_char (c :: f))); lia.
Qed.

(* ---------------------------------------------------------------- the string surgery *)
Definition rstrip0 (l : list ascii) : list ascii := rev (lstrip is_zero_char (rev l)).

Lemma rstrip0_spec : forall l, exists z, l = rstrip0 l ++ z /\ forallb is_zero_char z = true.
Proof.
  intros l. destruct (lstrip_spec is_zero_char (rev l)) as [a [E [F _]]].
  exists (rev a). split; [|now rewrite forallb_rev].
  unfold rstrip0. rewrite <- rev_app_distr, <- E. now rewrite rev_involutive.
Qed.

Lemma rstrip0_digits : forall l, all_digits l = true -> all_digits (rstrip0 l) = true.
Proof.
  intros l H. unfold rstrip0, all_digits. rewrite forallb_rev. apply forallb_lstrip. now rewrite forallb_rev.
Qed.

Lemma dot_frac_cons : forall c l, dot_frac (c :: l) = "."%char :: c :: l.
Proof. reflexivity. Qed.

Lemma strip_rev_nodot : forall r, existsb is_dot r = false -> strip_rev r = r.
Proof.
  destruct r as [|c r]; intros H; [reflexivity|]. cbn [strip_rev]. rewrite H. now rewrite andb_false_r.
Qed.

Lemma strip_rev_frac : forall q h, all_digits q = true -> existsb is_dot h = false ->
  strip_rev (q ++ "."%char :: h) =
  match lstrip is_zero_char q with [] => h | _ :: _ => lstrip is_zero_char q ++ "."%char :: h end.
Proof.
  induction q as [|c q IH]; intros h D N.
  - cbn [app lstrip strip_rev]. change (is_dot ".") with true. rewrite orb_true_r.
    cbn [existsb]. change (is_dot ".") with true. cbn [orb andb]. now apply strip_rev_nodot.
  - unfold all_digits in D. cbn [forallb] in D. apply andb_prop in D as [Dc Dq].
    cbn [app lstrip strip_rev]. destruct (is_zero_char c) eqn:Z.
    + assert (X : existsb is_dot (c :: q ++ "."%char :: h) = true).
      { cbn [existsb]. rewrite existsb_app. cbn [existsb]. change (is_dot ".") with true.
        rewrite !orb_true_r. reflexivity. }
      rewrite X. cbn [orb andb]. now apply IH.
    + rewrite (digit_not_dot c Dc). reflexivity.
Qed.

Lemma surgery_format : forall neg ip fp, ip <> [] -> all_digits ip = true -> all_digits fp = true ->
  len fp <= Z.max (cap_of ip fp) 0 ->
  surgery (sign_chars neg ++ ip ++ dot_frac fp) = sign_chars neg ++ ip ++ dot_frac (rstrip0 fp).
Proof.
  intros neg ip fp N Di Df C. unfold surgery.
  assert (Nh : existsb is_dot (sign_chars neg ++ ip) = false).
  { rewrite existsb_app, sign_chars_no_dot, digits_no_dot by assumption. reflexivity. }
  destruct fp as [|f fp0].
  - change (rstrip0 []) with (@nil ascii). cbn [dot_frac]. rewrite app_nil_r, Nh. reflexivity.
  - rewrite dot_frac_cons. set (fp := f :: fp0) in *.
    rewrite app_assoc. rewrite existsb_app. cbn [existsb]. change (is_dot ".") with true.
    rewrite orb_true_r. cbn [orb].
    rewrite (span_exact (fun c => negb (is_dot c)) (sign_chars neg ++ ip) ("."%char :: fp)).
    2:{ clear -Nh. induction (sign_chars neg ++ ip) as [|c l IH]; [reflexivity|].
        cbn [existsb forallb] in *. apply orb_false_elim in Nh as [A B]. rewrite A. now apply IH. }
    2:{ right. exists "."%char, fp. split; reflexivity. }
    cbn [tl].
    assert (LS : lstrip is_sign (sign_chars neg ++ ip) = ip).
    { destruct ip as [|c ip0]; [congruence|]. unfold all_digits in Di. cbn [forallb] in Di.
      apply andb_prop in Di as [Dc _].
      destruct neg; cbn [sign_chars app lstrip]; [change (is_sign "-") with true; cbn [lstrip]|];
        now rewrite (digit_not_sign c Dc). }
    rewrite LS. fold (cap_of ip fp).
    rewrite firstn_all2 by (unfold len in C; lia).
    subst fp. cbn [is_nil]. set (fp := f :: fp0) in *.
    rewrite rev_app_distr. cbn [rev]. rewrite <- app_assoc. cbn [app].
    rewrite strip_rev_frac; [| unfold all_digits; now rewrite forallb_rev | rewrite existsb_rev'; exact Nh].
    unfold rstrip0. destruct (lstrip is_zero_char (rev fp)) as [|t0 t] eqn:E.
    + cbn [rev dot_frac]. rewrite rev_involutive, app_nil_r. reflexivity.
    + rewrite rev_app_distr. cbn [rev]. rewrite rev_involutive. rewrite <- !app_assoc. cbn [app].
      destruct (rev t ++ [t0]) as [|x y] eqn:E2; [apply app_eq_nil in E2 as [_ E2]; discriminate|].
      rewrite dot_frac_cons. reflexivity.
Qed.

(* ---------------------------------------------------------------- Decimal(xml) on what to_xml writes *)
Lemma dec_parse_plain : forall neg ip fp, ip <> [] -> all_digits ip = true -> all_digits fp = true ->
  dec_parse (sign_chars neg ++ ip ++ dot_frac fp) = Some (neg, norm_digs (ip ++ fp), - len fp).
Proof.
  intros neg ip fp N Di Df.
  destruct ip as [|c ip0]; [congruence|].
  assert (Dc : is_digit c = true) by (unfold all_digits in Di; cbn [forallb] in Di; lia).
  assert (TS : take_sign (lstrip is_ws (sign_chars neg ++ (c :: ip0) ++ dot_frac fp)) = (neg, (c :: ip0) ++ dot_frac fp)).
  { destruct neg; cbn [sign_chars app lstrip].
    - change (is_ws "-") with false. cbn [take_sign]. change (ceq "-" "-") with true. reflexivity.
    - rewrite (is_digit_not_ws c Dc). cbn [take_sign]. now rewrite (digit_not_minus c Dc), (digit_not_plus c Dc). }
  unfold dec_parse. rewrite TS.
  rewrite (span_exact is_digit (c :: ip0) (dot_frac fp) Di).
  2:{ destruct fp; [now left|right]. eexists _, _. split; reflexivity. }
  destruct fp as [|f fp0].
  - cbn [dot_frac is_nil]. rewrite app_nil_r. reflexivity.
  - rewrite dot_frac_cons. change (is_dot ".") with true. cbv iota.
    rewrite <- (app_nil_r (f :: fp0)) at 1.
    rewrite (span_exact is_digit (f :: fp0) [] Df (or_introl eq_refl)).
    reflexivity.
Qed.

(* ---------------------------------------------------------------- py -> xml -> py *)
Lemma dec_to_xml_l_eq : forall d ip fp, wf_dec d = true -> len (ddigs d) <= 18 -> int_frac d = (ip, fp) ->
  dec_to_xml_l d = sign_chars (dneg d) ++ ip ++ dot_frac (rstrip0 fp).
Proof.
  intros d ip fp W L IF. destruct (int_frac_shape d ip fp W IF) as (N & Di & Df & _ & C).
  unfold dec_to_xml_l, format_f. rewrite IF. apply surgery_format; auto.
Qed.

Lemma dec_py_xml_py : forall d, wf_dec d = true -> len (ddigs d) <= 18 ->
  exists d', dec_parse (dec_to_xml_l d) = Some d' /\ dec_value_eq d' d.
Proof.
  intros d W L. destruct (int_frac d) as [ip fp] eqn:IF.
  rewrite (dec_to_xml_l_eq d ip fp W L IF).
  destruct (int_frac_shape d ip fp W IF) as (N & Di & Df & V & _).
  rewrite dec_parse_plain by auto using rstrip0_digits.
  eexists. split; [reflexivity|].
  destruct (rstrip0_spec fp) as (z & E & Zz).
  set (fp' := rstrip0 fp) in *.
  unfold dec_value_eq, dec_num. cbn [dneg ddigs dexp fst snd].
  fold (dneg d). fold (ddigs d). fold (dexp d).
  rewrite digits_val_norm.
  set (V' := digits_val (ip ++ fp')). set (V0 := digits_val (ddigs d)) in *.
  set (a := len fp'). set (e := dexp d).
  pose proof (len_nonneg fp') as Ha. fold a in Ha. pose proof (len_nonneg z) as Hk.
  assert (G : V' * 10 ^ (- a - Z.min (- a) e) = V0 * 10 ^ (e - Z.min (- a) e));
    [|destruct (dneg d); lia].
  destruct V as [(E1 & E2 & E3)|(E1 & E2 & E3)].
  - (* exponent <= 0 *)
    assert (VV : V' * 10 ^ len z = V0).
    { rewrite <- E3. rewrite E. rewrite app_assoc. now rewrite digits_val_app_zeros. }
    assert (LL : len fp = a + len z) by (rewrite E; now rewrite len_app).
    destruct (eff_exp_cases d) as [Z0|EE].
    + fold V0 in Z0. rewrite Z0 in *.
      assert (V' = 0) by (pose proof (Z.pow_pos_nonneg 10 (len z) ltac:(lia) Hk); nia).
      lia.
    + fold e in EE. replace (- a - Z.min (- a) e) with (len z) by lia.
      replace (e - Z.min (- a) e) with 0 by lia. lia.
  - (* exponent > 0 *)
    subst fp. assert (fp' = []) by reflexivity.
    assert (VV : V' = V0 * 10 ^ eff_exp d).
    { unfold V'. rewrite H, app_nil_r. exact E3. }
    assert (a = 0) by (unfold a; now rewrite H).
    destruct (eff_exp_cases d) as [Z0|EE].
    + fold V0 in Z0. rewrite Z0 in *. lia.
    + fold e in EE. replace (- a - Z.min (- a) e) with 0 by lia.
      replace (e - Z.min (- a) e) with (eff_exp d) by lia. lia.
Qed.

(* ---------------------------------------------------------------- no exponent notation *)
Lemma strip_rev_forallb : forall (p : ascii -> bool) r, forallb p r = true -> forallb p (strip_rev r) = true.
Proof.
  induction r as [|c r IH]; intros H; [exact H|]. cbn [strip_rev].
  destruct ((is_zero_char c || is_dot c) && existsb is_dot (c :: r)); [|exact H].
  cbn [forallb] in H. apply andb_prop in H as [_ H]. now apply IH.
Qed.

Lemma surgery_plain : forall s, forallb plain_char s = true -> forallb plain_char (surgery s) = true.
Proof.
  intros s H. unfold surgery. destruct (existsb is_dot s); [|exact H].
  destruct (span (fun c => negb (is_dot c)) s) as [head r] eqn:SP.
  destruct (span_spec _ _ _ _ SP) as [E _]. subst s.
  rewrite forallb_app in H. apply andb_prop in H as [Hh Hr].
  cbv zeta. rewrite forallb_rev. apply strip_rev_forallb. rewrite forallb_rev.
  destruct (is_nil _); [exact Hh|].
  rewrite forallb_app, Hh. cbn [forallb andb]. change (plain_char ".") with true. cbn [andb].
  apply forallb_firstn. destruct r as [|c r]; [reflexivity|].
  cbn [tl]. cbn [forallb] in Hr. apply andb_prop in Hr as [_ Hr]. exact Hr.
Qed.

Lemma format_f_plain : forall d, wf_dec d = true -> forallb plain_char (format_f d) = true.
Proof.
  intros d W. unfold format_f. destruct (int_frac d) as [ip fp] eqn:IF.
  destruct (int_frac_shape d ip fp W IF) as (_ & Di & Df & _ & _).
  apply (forallb_imp _ _ _ digit_plain) in Di. apply (forallb_imp _ _ _ digit_plain) in Df.
  rewrite !forallb_app, Di.
  assert (S : forallb plain_char (sign_chars (dneg d)) = true) by (destruct (dneg d); reflexivity).
  rewrite S. cbn [andb]. destruct fp as [|f fp0]; [reflexivity|].
  rewrite dot_frac_cons. cbn [forallb] in *. change (plain_char ".") with true. exact Df.
Qed.

Lemma dec_no_exponent : forall d, wf_dec d = true -> forallb plain_char (dec_to_xml_l d) = true.
Proof. intros d W. unfold dec_to_xml_l. now apply surgery_plain, format_f_plain. Qed.

(* ---------------------------------------------------------------- the checker twin *)
Lemma dec_value_eqb_spec : forall d1 d2, dec_value_eqb d1 d2 = true <-> dec_value_eq d1 d2.
Proof. intros. unfold dec_value_eqb, dec_value_eq. cbv zeta. apply Z.eqb_eq. Qed.

Lemma check_decimal_spec : forall d, check_decimal d = true <->
  ((exists d', dec_parse (dec_to_xml_l d) = Some d' /\ dec_value_eq d' d) /\ forallb plain_char (dec_to_xml_l d) = true).
Proof.
  intros d. unfold check_decimal. destruct (dec_parse (dec_to_xml_l d)) as [d'|].
  - rewrite andb_true_iff, dec_value_eqb_spec. split.
    + intros [A B]. split; [exists d'; split; [reflexivity|exact A]|exact B].
    + intros [[d'' [E A]] B]. inversion E; subst d''. split; assumption.
  - split; [discriminate|]. intros [[d' [E _]] _]. discriminate.
Qed.
