(* C18 -- proofs about the xsd:duration model (Scalars/Duration.v):
   py -> xml -> py round trip at microsecond resolution, the parser only accepts the regular
   language dur_lexical, and the specification of the boolean checker twin. *)
From Coq Require Import List ZArith NArith Bool Lia ZifyBool Ascii String.
From SDC Require Import Scalars.Lex Scalars.Lex_Proofs Scalars.Timestamp Scalars.Decimal Scalars.Duration.
Import ListNotations.
Open Scope Z_scope.

(* ---------------------------------------------------------------- lengths, zeros *)
Lemma len_app : forall a b, len (a ++ b) = len a + len b.
Proof. intros. unfold len. rewrite app_length. lia. Qed.

Lemma len_nonneg : forall l, 0 <= len l.
Proof. intros. unfold len. lia. Qed.

Lemma len_lstrip_le : forall p l, len (lstrip p l) <= len l.
Proof.
  intros p. induction l as [|c l IH]; cbn [lstrip]; [lia|].
  destruct (p c); unfold len in *; cbn [List.length]; lia.
Qed.

Lemma len_zeros : forall k, 0 <= k -> len (zeros k) = k.
Proof. intros k H. unfold len, zeros. rewrite repeat_length. lia. Qed.

Lemma all_digits_repeat0 : forall k, all_digits (repeat "0"%char k) = true.
Proof. induction k as [|k IH]; [reflexivity|]. unfold all_digits in *. cbn [repeat forallb]. now rewrite IH. Qed.

Lemma digits_val_all_zero : forall z, forallb is_zero_char z = true -> digits_val z = 0.
Proof.
  induction z as [|c z IH]; cbn [forallb]; intros H; [reflexivity|].
  apply andb_prop in H as [H1 H2]. unfold is_zero_char in H1. apply ceq_eq in H1. subst c.
  rewrite digits_val_zero_cons. auto.
Qed.

Lemma all_digits_app : forall a b, all_digits (a ++ b) = true <-> all_digits a = true /\ all_digits b = true.
Proof. intros. unfold all_digits. rewrite forallb_app. apply andb_true_iff. Qed.

(* ---------------------------------------------------------------- rstrip0, zfill6, the printed fraction *)
Lemma rstrip0_spec : forall l, exists z, l = rstrip0 l ++ z /\ forallb is_zero_char z = true.
Proof.
  intros l. unfold rstrip0. destruct (lstrip_spec is_zero_char (rev l)) as [a [E [F _]]].
  exists (rev a). split.
  - rewrite <- rev_app_distr, <- E, rev_involutive. reflexivity.
  - apply forallb_forall. intros x Hx. apply in_rev in Hx.
    rewrite forallb_forall in F. auto.
Qed.

Lemma fraction_spec : forall us, 0 < us < 1000000 ->
  let f := rstrip0 (zfill6 (digits_of us)) in
  all_digits f = true /\ f <> [] /\ len f <= 6 /\ digits_val f * 10 ^ (6 - len f) = us.
Proof.
  intros us H f.
  destruct (digits_of_spec us ltac:(lia)) as [A [B C]].
  assert (L : len (digits_of us) <= 6).
  { unfold len. pose proof (digits_of_length us 5) as P.
    change (10 ^ Z.of_nat 6) with 1000000 in P. specialize (P ltac:(lia)). lia. }
  pose proof (len_nonneg (digits_of us)) as L0.
  assert (Z6len : len (zfill6 (digits_of us)) = 6).
  { unfold zfill6. rewrite len_app, len_zeros by lia. lia. }
  assert (Z6dig : all_digits (zfill6 (digits_of us)) = true).
  { unfold zfill6, zeros. apply all_digits_app. split; [apply all_digits_repeat0|assumption]. }
  assert (Z6val : digits_val (zfill6 (digits_of us)) = us).
  { unfold zfill6, zeros. rewrite digits_val_app, digits_val_repeat0. lia. }
  destruct (rstrip0_spec (zfill6 (digits_of us))) as [z [E Fz]]. fold f in E.
  rewrite E in Z6len, Z6dig, Z6val.
  rewrite len_app in Z6len. apply all_digits_app in Z6dig as [Df _].
  rewrite digits_val_app, (digits_val_all_zero z Fz) in Z6val. fold (len z) in Z6val.
  pose proof (len_nonneg z) as Lz. pose proof (len_nonneg f) as Lf.
  split; [assumption|]. split; [|split].
  - intros N. rewrite N in Z6val. change (digits_val []) with 0 in Z6val. lia.
  - lia.
  - replace (6 - len f) with (len z) by lia. lia.
Qed.

(* ---------------------------------------------------------------- opt_field / opt_seconds on well-formed input *)
Lemma opt_field_some : forall x d rest, all_digits d = true -> d <> [] -> is_digit x = false ->
  opt_field x (d ++ x :: rest) = (Some d, rest).
Proof.
  intros x d rest A N X. unfold opt_field.
  rewrite (span_exact is_digit d (x :: rest) A) by (right; eauto).
  destruct d; [congruence|]. rewrite ceq_refl. reflexivity.
Qed.

(* the input does not start with "digits x" *)
Definition tail_ok (x : ascii) (l : list ascii) : Prop :=
  l = [] \/ exists d c rest, l = d ++ c :: rest /\ all_digits d = true /\ is_digit c = false /\ ceq c x = false.

Lemma opt_field_none : forall x l, tail_ok x l -> opt_field x l = (None, l).
Proof.
  intros x l [->|[d [c [rest [-> [A [B C]]]]]]]; [reflexivity|]. unfold opt_field.
  rewrite (span_exact is_digit d (c :: rest) A) by (right; eauto).
  destruct d; [reflexivity|]. rewrite C. reflexivity.
Qed.

Definition fld (x : ascii) (o : option (list ascii)) : list ascii :=
  match o with Some d => d ++ [x] | None => [] end.
Definition wf_fld (o : option (list ascii)) : Prop :=
  match o with Some d => all_digits d = true /\ d <> [] | None => True end.
Definition secs (o : option (list ascii * list ascii)) : list ascii :=
  match o with
  | Some (d, []) => d ++ ["S"%char]
  | Some (d, f) => d ++ "."%char :: f ++ ["S"%char]
  | None => []
  end.
Definition wf_secs (o : option (list ascii * list ascii)) : Prop :=
  match o with Some (d, f) => all_digits d = true /\ d <> [] /\ all_digits f = true | None => True end.

Lemma opt_field_fld : forall x o R, is_digit x = false -> wf_fld o -> tail_ok x R ->
  opt_field x (fld x o ++ R) = (o, R).
Proof.
  intros x [d|] R X W T; cbn [fld].
  - destruct W as [A N]. rewrite <- app_assoc. cbn [app]. now apply opt_field_some.
  - cbn [app]. now apply opt_field_none.
Qed.

Lemma tail_ok_fld_app : forall x y o R, wf_fld o -> is_digit y = false -> ceq y x = false ->
  tail_ok x R -> tail_ok x (fld y o ++ R).
Proof.
  intros x y [d|] R W Y C T; cbn [fld]; [|exact T].
  destruct W as [A N]. rewrite <- app_assoc. cbn [app]. right. exists d, y, R. auto.
Qed.

Lemma tail_ok_secs : forall x o, wf_secs o -> ceq "S"%char x = false -> ceq "."%char x = false ->
  tail_ok x (secs o).
Proof.
  intros x [[d [|c f]]|] W S D; cbn [secs].
  - destruct W as [A [N F]]. right. exists d, "S"%char, []. auto.
  - destruct W as [A [N F]]. right. exists d, "."%char, ((c :: f) ++ ["S"%char]). auto.
  - now left.
Qed.

Lemma opt_seconds_secs : forall o, wf_secs o -> opt_seconds (secs o) = (o, []).
Proof.
  intros [[d [|c f]]|] W; cbn [secs]; [| |reflexivity]; destruct W as [A [N F]]; unfold opt_seconds.
  - rewrite (span_exact is_digit d ["S"%char] A) by (right; eauto).
    destruct d; [congruence|]. reflexivity.
  - rewrite (span_exact is_digit d ("."%char :: (c :: f) ++ ["S"%char]) A) by (right; eauto).
    destruct d; [congruence|].
    change (ceq "."%char "S"%char) with false. change (is_dot "."%char) with true. cbv iota.
    rewrite (span_exact is_digit (c :: f) ["S"%char] F) by (right; eauto).
    reflexivity.
Qed.

(* the value computed by the parser from the three matched groups *)
Definition parse_result (h m : option (list ascii)) (sf : option (list ascii * list ascii)) : Z :=
  match sf with
  | Some (d, f) =>
      if (15 <? sig_len d) || (negb (is_nil f) && (5 <? sig_len d)) then D_UNMODELLED
      else
        let total := optval h * 3600000000 + optval m * 60000000 + digits_val d * 1000000 + frac_us f in
        if max_us <=? total then D_OVERFLOW else total
  | None =>
      let total := optval h * 3600000000 + optval m * 60000000 in
      if max_us <=? total then D_OVERFLOW else total
  end.

Lemma parse_canonical : forall oh om os, wf_fld oh -> wf_fld om -> wf_secs os ->
  is_some oh || is_some om || is_some os = true ->
  parse_duration_us ("P"%char :: "T"%char :: fld "H"%char oh ++ fld "M"%char om ++ secs os)
  = parse_result oh om os.
Proof.
  intros oh om os Wh Wm Ws Some1. unfold parse_duration_us.
  change (ceq "P"%char "P"%char && ceq "T"%char "T"%char) with true. cbv iota.
  rewrite (opt_field_fld "H"%char oh) by
    (try reflexivity; try assumption;
     apply tail_ok_fld_app; try reflexivity; try assumption; apply tail_ok_secs; try reflexivity; assumption).
  rewrite (opt_field_fld "M"%char om) by
    (try reflexivity; try assumption; apply tail_ok_secs; try reflexivity; assumption).
  rewrite (opt_seconds_secs os Ws).
  rewrite Some1. reflexivity.
Qed.

(* ---------------------------------------------------------------- shape of the printed string *)
Lemma duration_string_shape : forall b1 b2 b3 b4 dh dm ds F,
  (b3 = false -> ds = ["0"%char]) -> (b4 = true -> F <> []) ->
  chars "PT"
  ++ when b1 (dh ++ ["H"%char])
  ++ when b2 (dm ++ ["M"%char])
  ++ when b3 ds
  ++ (if b4 then when (negb b3) ["0"%char] ++ "."%char :: F ++ ["S"%char] else when b3 ["S"%char])
  = "P"%char :: "T"%char
    :: fld "H"%char (if b1 then Some dh else None)
    ++ fld "M"%char (if b2 then Some dm else None)
    ++ secs (if b3 || b4 then Some (ds, if b4 then F else []) else None).
Proof.
  intros b1 b2 b3 b4 dh dm ds F H3 H4.
  change (chars "PT") with ["P"%char; "T"%char].
  destruct b4; [destruct F as [|c F]; [now elim H4|]|];
    (destruct b3; [|rewrite H3 by reflexivity]); destruct b1, b2;
    cbn [when fld secs app negb orb]; rewrite <- ?app_assoc; cbn [app]; reflexivity.
Qed.

(* ---------------------------------------------------------------- py -> xml -> py *)
Lemma optval_digits_of : forall n, 0 <= n -> optval (if 0 <? n then Some (digits_of n) else None) = n.
Proof.
  intros n H. destruct (Z.ltb_spec 0 n) as [L|L]; cbn [optval]; [|lia].
  now destruct (digits_of_spec n H) as [_ [_ C]].
Qed.

Lemma wf_fld_digits_of : forall n, 0 <= n -> wf_fld (if 0 <? n then Some (digits_of n) else None).
Proof.
  intros n H. destruct (0 <? n); cbn [wf_fld]; [|exact I].
  destruct (digits_of_spec n H) as [A [B _]]. auto.
Qed.

Lemma duration_py_xml_py : forall u, 0 <= u < max_us -> parse_duration_us (duration_string_us u) = u.
Proof.
  intros u [U0 U1].
  destruct (Z.eq_dec u 0) as [->|NZ]; [reflexivity|].
  unfold duration_string_us. destruct (Z.leb_spec u 0) as [L|L]; [lia|]. cbv zeta.
  set (s0 := u / 1000000). set (us := u mod 1000000).
  set (mi0 := s0 / 60). set (s := s0 mod 60).
  set (h := mi0 / 60). set (mi := mi0 mod 60).
  pose proof (Z.div_mod u 1000000 ltac:(lia)) as E1. fold s0 us in E1.
  pose proof (Z.mod_pos_bound u 1000000 ltac:(lia)) as B1. fold us in B1.
  assert (S0 : 0 <= s0) by (apply Z.div_pos; lia).
  pose proof (Z.div_mod s0 60 ltac:(lia)) as E2. fold mi0 s in E2.
  pose proof (Z.mod_pos_bound s0 60 ltac:(lia)) as B2. fold s in B2.
  assert (M0 : 0 <= mi0) by (apply Z.div_pos; lia).
  pose proof (Z.div_mod mi0 60 ltac:(lia)) as E3. fold h mi in E3.
  pose proof (Z.mod_pos_bound mi0 60 ltac:(lia)) as B3. fold mi in B3.
  assert (H0 : 0 <= h) by (apply Z.div_pos; lia).
  clearbody s0 us mi0 s h mi.
  set (F := rstrip0 (zfill6 (digits_of us))).
  assert (FS : 0 <? us = true ->
               all_digits F = true /\ F <> [] /\ len F <= 6 /\ digits_val F * 10 ^ (6 - len F) = us).
  { intros P. apply fraction_spec. lia. }
  clearbody F.
  replace (s =? 0) with (negb (0 <? s)) by lia.
  destruct (digits_of_spec s ltac:(lia)) as [As [Ns Vs]].
  rewrite duration_string_shape.
  2:{ intros P. assert (s = 0) by lia. subst s. reflexivity. }
  2:{ intros P. now destruct (FS P) as [_ [N _]]. }
  rewrite parse_canonical.
  - unfold parse_result. rewrite !optval_digits_of by lia.
    destruct (0 <? s) eqn:Ps; destruct (0 <? us) eqn:Pus; cbn [orb].
    all: try (assert (SL : sig_len (digits_of s) <= 2);
      [ unfold sig_len; pose proof (len_lstrip_le is_zero_char (digits_of s));
        pose proof (digits_of_length s 1) as P; change (10 ^ Z.of_nat 2) with 100 in P;
        specialize (P ltac:(lia)); unfold len in *; lia |]).
    all: try (destruct (FS eq_refl) as [_ [_ [FL FV]]];
              assert (FU : frac_us F = us) by (unfold frac_us; replace (len F <=? 6) with true by lia; exact FV)).
    all: try change (frac_us []) with 0.
    all: rewrite ?Vs, ?FU.
    all: unfold max_us in *; cbv zeta.
    all: repeat match goal with |- context [if ?b then _ else _] =>
           let E := fresh "E" in destruct b eqn:E end; unfold D_UNMODELLED, D_OVERFLOW; try lia.
  - apply wf_fld_digits_of; lia.
  - apply wf_fld_digits_of; lia.
  - destruct (0 <? s) eqn:Ps; destruct (0 <? us) eqn:Pus; cbn [orb wf_secs]; auto.
    + destruct (FS eq_refl) as [AF _]. auto.
    + destruct (FS eq_refl) as [AF _]. auto.
  - destruct (0 <? h) eqn:Ph; destruct (0 <? mi) eqn:Pm; destruct (0 <? s) eqn:Ps; destruct (0 <? us) eqn:Pus;
      cbn [is_some orb]; try reflexivity. lia.
Qed.

(* ---------------------------------------------------------------- accepted => lexically valid *)
Lemma opt_field_inv : forall x l o r, opt_field x l = (o, r) ->
  (o = None /\ r = l) \/ (exists d, o = Some d /\ digit_run d /\ l = d ++ x :: r).
Proof.
  intros x l o r H. unfold opt_field in H.
  destruct (span is_digit l) as [d r'] eqn:SP.
  destruct (span_spec _ _ _ _ SP) as [E [A _]].
  destruct d as [|d0 d]; [inversion H; auto|].
  destruct r' as [|c r'']; [inversion H; auto|].
  destruct (ceq c x) eqn:C; [|inversion H; auto].
  apply ceq_eq in C. subst c. inversion H; subst o r. right. exists (d0 :: d).
  split; [reflexivity|]. split; [|assumption]. split; [discriminate|exact A].
Qed.

Lemma opt_seconds_inv : forall l o r, opt_seconds l = (o, r) ->
  (o = None /\ r = l) \/
  (exists d, o = Some (d, []) /\ digit_run d /\ l = d ++ "S"%char :: r) \/
  (exists d f, o = Some (d, f) /\ digit_run d /\ digit_run f /\ l = d ++ "."%char :: f ++ "S"%char :: r).
Proof.
  intros l o r H. unfold opt_seconds in H.
  destruct (span is_digit l) as [d r'] eqn:SP.
  destruct (span_spec _ _ _ _ SP) as [E [A _]].
  destruct d as [|d0 d]; [inversion H; auto|].
  destruct r' as [|c r'']; [inversion H; auto|].
  destruct (ceq c "S"%char) eqn:C.
  { apply ceq_eq in C. subst c. inversion H; subst o r. right. left. exists (d0 :: d).
    split; [reflexivity|]. split; [|assumption]. split; [discriminate|exact A]. }
  destruct (is_dot c) eqn:D; [|inversion H; auto].
  unfold is_dot in D. apply ceq_eq in D. subst c.
  destruct (span is_digit r'') as [f r2] eqn:SP2.
  destruct (span_spec _ _ _ _ SP2) as [E2 [A2 _]].
  destruct f as [|f0 f]; [inversion H; auto|].
  destruct r2 as [|c2 r3]; [inversion H; auto|].
  destruct (ceq c2 "S"%char) eqn:C2; [|inversion H; auto].
  apply ceq_eq in C2. subst c2. inversion H; subst o r. right. right.
  exists (d0 :: d), (f0 :: f). split; [reflexivity|].
  split; [split; [discriminate|exact A]|]. split; [split; [discriminate|exact A2]|].
  rewrite E, E2. reflexivity.
Qed.

Lemma duration_rejects_non_lexical : forall s, parse_duration_us s <> D_REJECT -> dur_lexical s.
Proof.
  intros s H. unfold parse_duration_us in H.
  destruct s as [|p [|t r0]]; try (now elim H).
  destruct (ceq p "P"%char && ceq t "T"%char) eqn:PT; [|now elim H].
  apply andb_prop in PT as [Cp Ct]. apply ceq_eq in Cp, Ct. subst p t.
  destruct (opt_field "H"%char r0) as [h r1] eqn:OH.
  destruct (opt_field "M"%char r1) as [m r2] eqn:OM.
  destruct (opt_seconds r2) as [sf r3] eqn:OS.
  match type of H with (if ?a && ?b then _ else _) <> _ =>
    destruct a eqn:AtEnd; [destruct b eqn:SomeF; [clear H|now elim H]|now elim H] end.
  assert (NL : r3 = [] \/ r3 = [ascii_of_N 10]).
  { destruct r3 as [|c [|c' r3]]; [now left| |discriminate]. right.
    apply N.eqb_eq in AtEnd. unfold code in AtEnd. rewrite <- AtEnd, ascii_N_embedding. reflexivity. }
  apply opt_field_inv in OH. apply opt_field_inv in OM. apply opt_seconds_inv in OS.
  assert (FH : exists fh, r0 = fh ++ r1 /\ dur_field "H"%char fh /\ (is_some h = true -> fh <> [])).
  { destruct OH as [[-> ->]|[d [-> [R ->]]]].
    - exists []. split; [reflexivity|]. split; [now left|discriminate].
    - exists (d ++ ["H"%char]). split; [now rewrite <- app_assoc|]. split; [right; eauto|].
      intros _ N. apply app_eq_nil in N as [_ N]. discriminate. }
  assert (FM : exists fm, r1 = fm ++ r2 /\ dur_field "M"%char fm /\ (is_some m = true -> fm <> [])).
  { destruct OM as [[-> ->]|[d [-> [R ->]]]].
    - exists []. split; [reflexivity|]. split; [now left|discriminate].
    - exists (d ++ ["M"%char]). split; [now rewrite <- app_assoc|]. split; [right; eauto|].
      intros _ N. apply app_eq_nil in N as [_ N]. discriminate. }
  assert (FS : exists fs, r2 = fs ++ r3 /\ dur_seconds fs /\ (is_some sf = true -> fs <> [])).
  { destruct OS as [[-> ->]|[[d [-> [R ->]]]|[d [f [-> [Rd [Rf ->]]]]]]].
    - exists []. split; [reflexivity|]. split; [now left|discriminate].
    - exists (d ++ ["S"%char]). split; [now rewrite <- app_assoc|]. split; [right; left; eauto|].
      intros _ N. apply app_eq_nil in N as [_ N]. discriminate.
    - exists (d ++ "."%char :: f ++ ["S"%char]). split.
      { rewrite <- app_assoc. cbn [app]. rewrite <- app_assoc. reflexivity. }
      split; [right; right; eauto|].
      intros _ N. apply app_eq_nil in N as [_ N]. discriminate. }
  destruct FH as [fh [E0 [DH NH]]]. destruct FM as [fm [E1 [DM NM]]]. destruct FS as [fs [E2 [DS NS]]].
  exists fh, fm, fs, r3. subst r0 r1 r2. repeat split; try assumption.
  intros N. apply app_eq_nil in N as [N1 N]. apply app_eq_nil in N as [N2 N3].
  destruct (is_some h); [now apply NH|]. destruct (is_some m); [now apply NM|].
  destruct (is_some sf); [now apply NS|]. discriminate.
Qed.

(* ---------------------------------------------------------------- the checker twin *)
Lemma check_duration_spec : forall u, check_duration u = true <-> parse_duration_us (duration_string_us u) = u.
Proof. intros u. unfold check_duration. apply Z.eqb_eq. Qed.
