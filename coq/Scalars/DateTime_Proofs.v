(* C18 -- proofs about the xsd:dateTime / date / gYearMonth / gYear model (Scalars/DateTime.v):
   py -> xml -> py round trip for every valid value (any year, seconds at microsecond resolution)
   and the specification of the boolean checker twin. *)
From Coq Require Import List ZArith NArith Bool Lia ZifyBool Ascii String.
From SDC Require Import Scalars.Lex Scalars.Lex_Proofs Scalars.Timestamp Scalars.Decimal Scalars.Duration
  Scalars.Duration_Proofs Scalars.DateTime.
Import ListNotations.
Open Scope Z_scope.

(* ---------------------------------------------------------------- characters *)
Lemma digit_ceq_false : forall c x, is_digit c = true -> is_digit x = false -> ceq c x = false.
Proof.
  intros c x D X. destruct (ceq c x) eqn:E; [|reflexivity]. apply ceq_eq in E. subst. congruence.
Qed.

Lemma digits_val_two : forall a b, digits_val [a; b] = digit_val a * 10 + digit_val b.
Proof. intros. unfold digits_val. cbn [fold_left]. lia. Qed.

Lemma digits_val_lt : forall l, all_digits l = true -> digits_val l < 10 ^ len l.
Proof.
  induction l as [|x l IH] using rev_ind; intros H.
  - unfold digits_val, len. simpl. lia.
  - apply all_digits_app in H as [H1 H2]. rewrite digits_val_snoc, len_app.
    unfold all_digits in H2. cbn [forallb] in H2.
    pose proof (digit_val_range x ltac:(lia)) as R. specialize (IH H1).
    change (len [x]) with 1. pose proof (len_nonneg l) as L0.
    rewrite Z.pow_add_r by lia. change (10 ^ 1) with 10. lia.
Qed.

(* ---------------------------------------------------------------- pad *)
Lemma pad_spec : forall w n, 0 <= n -> all_digits (pad w n) = true /\ digits_val (pad w n) = n.
Proof.
  intros w n H. destruct (digits_of_spec n H) as [A [B C]]. unfold pad, zeros. split.
  - apply all_digits_app. split; [apply all_digits_repeat0|assumption].
  - rewrite digits_val_app, digits_val_repeat0. lia.
Qed.

Lemma pad_len : forall k n, 0 <= n < 10 ^ Z.of_nat (S k) ->
  len (pad (Z.of_nat (S k)) n) = Z.of_nat (S k).
Proof.
  intros k n H. pose proof (digits_of_length n k H) as L. unfold pad.
  rewrite len_app, len_zeros; unfold len; lia.
Qed.

Lemma pad2_shape : forall n, 0 <= n < 100 ->
  exists a b, pad 2 n = [a; b] /\ is_digit a = true /\ is_digit b = true /\ digit_val a * 10 + digit_val b = n.
Proof.
  intros n H. destruct (pad_spec 2 n ltac:(lia)) as [A V].
  pose proof (pad_len 1 n) as L. change (Z.of_nat 2) with 2 in L. change (10 ^ 2) with 100 in L.
  specialize (L H).
  destruct (pad 2 n) as [|a [|b [|c r]]]; unfold len in L; cbn [List.length] in L; try lia.
  exists a, b. unfold all_digits in A. cbn [forallb] in A. rewrite digits_val_two in V.
  repeat split; lia.
Qed.

Definition year_ok (yd : list ascii) : bool :=
  (len yd =? 4) || ((4 <? len yd) && negb (match yd with c :: _ => is_zero_char c | [] => true end)).

Lemma pad4_year : forall n, 0 <= n ->
  exists c r, pad 4 n = c :: r /\ all_digits (c :: r) = true /\ digits_val (c :: r) = n /\ year_ok (c :: r) = true.
Proof.
  intros n H. destruct (pad_spec 4 n H) as [A V].
  destruct (Z.lt_ge_cases n 10000) as [L|L].
  - pose proof (pad_len 3 n) as P. change (Z.of_nat 4) with 4 in P. change (10 ^ 4) with 10000 in P.
    specialize (P ltac:(lia)).
    destruct (pad 4 n) as [|c r] eqn:E; [unfold len in P; simpl in P; lia|].
    exists c, r. repeat split; auto. unfold year_ok. rewrite P. reflexivity.
  - destruct (digits_of_spec n H) as [A' [_ V']]. pose proof (digits_val_lt _ A') as B. rewrite V' in B.
    assert (G : 4 < len (digits_of n)).
    { destruct (Z.lt_ge_cases 4 (len (digits_of n))) as [G|G]; [exact G|]. exfalso.
      pose proof (len_nonneg (digits_of n)) as L0.
      assert (10 ^ len (digits_of n) <= 10 ^ 4) by (apply Z.pow_le_mono_r; lia). lia. }
    destruct (digits_of_head n ltac:(lia)) as (c & r & E & Z0).
    assert (P : pad 4 n = c :: r).
    { unfold pad, zeros. replace (Z.to_nat (4 - len (digits_of n))) with 0%nat by lia. exact E. }
    rewrite P in A, V. exists c, r. repeat split; auto.
    unfold year_ok. rewrite <- E, Z0. lia.
Qed.

(* ---------------------------------------------------------------- two digits *)
Lemma two_in_pad : forall lo hi n r, 0 <= n < 100 -> lo <= n <= hi ->
  two_in lo hi (pad 2 n ++ r) = Some (n, r).
Proof.
  intros lo hi n r H B. destruct (pad2_shape n H) as (a & b & E & Da & Db & V). rewrite E.
  cbn [app]. unfold two_in, two_digits. rewrite Da, Db, V. cbn [andb].
  replace ((lo <=? n) && (n <=? hi)) with true by lia. reflexivity.
Qed.

Lemma dash_two_pad : forall lo hi n r, 0 <= n < 100 -> lo <= n <= hi ->
  dash_two lo hi ("-"%char :: pad 2 n ++ r) = Some (n, r).
Proof. intros. unfold dash_two. cbn [expect]. change (ceq "-" "-") with true. cbv iota. now apply two_in_pad. Qed.

(* ---------------------------------------------------------------- time zone *)
Inductive tzshape : list ascii -> Prop :=
| ts_nil : tzshape []
| ts_z : tzshape ["Z"%char]
| ts_off : forall sg a b c d, sg = "+"%char \/ sg = "-"%char -> is_digit a = true -> is_digit b = true ->
    tzshape [sg; a; b; ":"%char; c; d].

Definition tz_ok (tz : option Z) : Prop := in_range (-840) 840 tz = true.

Lemma tz_chars_shape : forall tz, tz_ok tz -> tzshape (tz_chars tz).
Proof.
  intros [off|] H; [|constructor]. unfold tz_ok, in_range in H. unfold tz_chars.
  destruct (Z.eqb_spec off 0) as [->|N]; [constructor|].
  assert (Hh : 0 <= Z.abs off / 60 < 100).
  { split; [apply Z.div_pos; lia|apply Z.div_lt_upper_bound; lia]. }
  pose proof (Z.mod_pos_bound (Z.abs off) 60 ltac:(lia)) as Hm.
  destruct (pad2_shape _ Hh) as (a & b & E & Da & Db & _).
  destruct (pad2_shape (Z.abs off mod 60) ltac:(lia)) as (c & d & E' & _).
  rewrite E, E'. cbn [app]. constructor; auto. destruct (0 <=? off); auto.
Qed.

Lemma tz_end_chars : forall tz, tz_ok tz -> tz_end (tz_chars tz) = Match tz.
Proof.
  intros [off|] H; [|reflexivity]. unfold tz_ok, in_range in H. unfold tz_chars.
  destruct (Z.eqb_spec off 0) as [->|N]; [reflexivity|].
  pose proof (Z.div_mod (Z.abs off) 60 ltac:(lia)) as DM.
  assert (Hh : 0 <= Z.abs off / 60 <= 14).
  { split; [apply Z.div_pos; lia|]. assert (Z.abs off / 60 < 15) by (apply Z.div_lt_upper_bound; lia). lia. }
  pose proof (Z.mod_pos_bound (Z.abs off) 60 ltac:(lia)) as Hm.
  set (hh := Z.abs off / 60) in *. set (mm := Z.abs off mod 60) in *.
  unfold tz_end, parse_tz.
  assert (S1 : forall (b : bool), ceq (if b then "+"%char else "-"%char) "Z"%char = false) by (intros []; reflexivity).
  assert (S2 : forall (b : bool), ceq (if b then "+"%char else "-"%char) "+"%char
                                  || ceq (if b then "+"%char else "-"%char) "-"%char = true) by (intros []; reflexivity).
  rewrite S1, S2.
  rewrite two_in_pad by lia. cbn [expect]. change (ceq ":" ":") with true. cbv iota.
  rewrite <- (app_nil_r (pad 2 mm)). rewrite two_in_pad by lia.
  replace ((hh =? 14) && negb (mm =? 0)) with false by lia. cbn [at_end].
  f_equal. f_equal. destruct (Z.leb_spec 0 off); [change (ceq "+" "-") with false|change (ceq "-" "-") with true]; cbv iota; lia.
Qed.

(* what follows the date / time fields is empty or starts with "Z", "+" or "-" *)
Lemma tzshape_nd : forall T, tzshape T -> T = [] \/ exists c r, T = c :: r /\ is_digit c = false.
Proof.
  intros T [| |sg a b c d [->| ->] _ _]; [left; reflexivity|right..]; eexists _, _; split; reflexivity.
Qed.

Lemma tzshape_sep : forall T, tzshape T ->
  T = [] \/ exists c r, T = c :: r /\ is_digit c = false /\ is_dot c = false.
Proof.
  intros T [| |sg a b c d [->| ->] _ _]; [left; reflexivity|right..]; eexists _, _; repeat split; reflexivity.
Qed.

Lemma tzshape_time_part : forall T, tzshape T -> time_part T = None.
Proof. intros T [| |sg a b c d [->| ->] _ _]; reflexivity. Qed.

(* "-HH" of a negative offset may be taken for a month or a day: the rest then starts with a colon *)
Lemma tzshape_dash_two : forall lo hi T, tzshape T ->
  dash_two lo hi T = None \/ exists n c d, dash_two lo hi T = Some (n, [":"%char; c; d]).
Proof.
  intros lo hi T [| |sg a b c d [->| ->] Da Db]; try (left; reflexivity).
  unfold dash_two. cbn [expect]. change (ceq "-" "-") with true. cbv iota.
  unfold two_in, two_digits. rewrite Da, Db. cbn [andb].
  destruct ((lo <=? digit_val a * 10 + digit_val b) && (digit_val a * 10 + digit_val b <=? hi)); eauto.
Qed.

Lemma colon_dash_two : forall lo hi c d, dash_two lo hi [":"%char; c; d] = None.
Proof. reflexivity. Qed.
Lemma colon_tz_end : forall c d, tz_end [":"%char; c; d] = NoMatch.
Proof. reflexivity. Qed.
Lemma colon_time_part : forall c d, time_part [":"%char; c; d] = None.
Proof. reflexivity. Qed.

(* ---------------------------------------------------------------- seconds, end of day, time *)
Lemma parse_second_chars : forall us R, 0 <= us < 60000000 ->
  (R = [] \/ exists c r, R = c :: r /\ is_digit c = false /\ is_dot c = false) ->
  parse_second (seconds_chars us ++ R) = Some (Some us, R).
Proof.
  intros us R H S. unfold seconds_chars, parse_second.
  pose proof (Z.div_mod us 1000000 ltac:(lia)) as DM.
  pose proof (Z.mod_pos_bound us 1000000 ltac:(lia)) as Hf.
  assert (Hs : 0 <= us / 1000000 < 60).
  { split; [apply Z.div_pos; lia|apply Z.div_lt_upper_bound; lia]. }
  set (s := us / 1000000) in *. set (f := us mod 1000000) in *.
  rewrite <- app_assoc. rewrite two_in_pad by lia.
  destruct (Z.ltb_spec 0 f) as [P|P].
  - pose proof (fraction_spec f ltac:(lia)) as FS. cbv zeta in FS.
    set (F := rstrip0 (zfill6 (digits_of f))) in *. destruct FS as (A & N & L & V).
    cbn [app]. change (is_dot ".") with true. cbv iota.
    rewrite (span_exact is_digit F R A).
    2:{ destruct S as [->|(c & r & -> & D1 & D2)]; [now left|right; eauto]. }
    destruct F as [|c0 F0] eqn:EF; [congruence|]. cbn [is_nil]. rewrite <- EF in *.
    replace (6 <? len F) with false by lia. f_equal. f_equal. f_equal. lia.
  - assert (f = 0) by lia. cbn [app].
    destruct S as [->|(c & r & -> & D1 & D2)]; [|rewrite D2]; f_equal; f_equal; f_equal; lia.
Qed.

Lemma parse_eod_chars : forall T, tzshape T -> parse_eod (chars "24:00:00" ++ T) = Some T.
Proof. intros T [| |sg a b c d [->| ->] _ _]; reflexivity. Qed.

Lemma time_part_eod : forall T, tzshape T -> time_part (chars "T24:00:00" ++ T) = Some (Some None, true, T).
Proof.
  intros T H. change (chars "T24:00:00" ++ T) with ("T"%char :: chars "24:00:00" ++ T).
  unfold time_part. cbn [expect]. change (ceq "T" "T") with true. cbv iota.
  change (two_in 0 23 (chars "24:00:00" ++ T)) with (@None (Z * list ascii)). cbv iota.
  now rewrite parse_eod_chars.
Qed.

Lemma time_part_time : forall h mi us T, 0 <= h <= 23 -> 0 <= mi <= 59 -> 0 <= us < 60000000 -> tzshape T ->
  time_part (("T"%char :: pad 2 h ++ ":"%char :: pad 2 mi ++ ":"%char :: seconds_chars us) ++ T)
  = Some (Some (Some (h, mi, us)), false, T).
Proof.
  intros h mi us T Hh Hm Hu HT.
  cbn [app]. rewrite <- app_assoc. cbn [app]. rewrite <- app_assoc. cbn [app].
  unfold time_part. cbn [expect]. change (ceq "T" "T") with true. cbv iota.
  rewrite two_in_pad by lia. cbn [expect]. change (ceq ":" ":") with true. cbv iota.
  rewrite two_in_pad by lia. cbn [expect]. change (ceq ":" ":") with true. cbv iota.
  rewrite parse_second_chars by (auto using tzshape_sep). reflexivity.
Qed.

(* ---------------------------------------------------------------- the year and what follows *)
Definition after_year (y : Z) (r1 : list ascii) : dtres :=
  let alt_year := bind_alt (tz_end r1) (fun tz => DtOk (y, None, None, None, false, tz)) DtReject in
  match dash_two 1 12 r1 with
  | Some (mo, r2) =>
      let alt_month := bind_alt (tz_end r2) (fun tz => DtOk (y, Some mo, None, None, false, tz)) alt_year in
      match dash_two 1 31 r2 with
      | Some (d, r3) =>
          let alt_day := bind_alt (tz_end r3) (fun tz => DtOk (y, Some mo, Some d, None, false, tz)) alt_month in
          match time_part r3 with
          | Some (Some t, eod, r4) =>
              bind_alt (tz_end r4) (fun tz => DtOk (y, Some mo, Some d, t, eod, tz)) alt_day
          | Some (None, _, r4) =>
              bind_alt (tz_end r4) (fun _ => DtUnmodelled) alt_day
          | None => alt_day
          end
      | None => alt_month
      end
  | None => alt_year
  end.

Lemma parse_dt_digits : forall (neg : bool) c yd R, all_digits (c :: yd) = true -> year_ok (c :: yd) = true ->
  (R = [] \/ exists x r, R = x :: r /\ is_digit x = false) ->
  parse_dt ((if neg then ["-"%char] else []) ++ (c :: yd) ++ R)
  = after_year (if neg then - digits_val (c :: yd) else digits_val (c :: yd)) R.
Proof.
  intros neg c yd R A Y HR. unfold parse_dt, year_ok in *.
  assert (Dc : is_digit c = true) by (unfold all_digits in A; cbn [forallb] in A; lia).
  destruct neg; cbn [app].
  - change (ceq "-" "-") with true. cbv iota.
    change (c :: yd ++ R) with ((c :: yd) ++ R). rewrite (span_exact is_digit (c :: yd) R A HR).
    rewrite Y. reflexivity.
  - rewrite (digit_ceq_false c "-"%char Dc eq_refl).
    change (c :: yd ++ R) with ((c :: yd) ++ R). rewrite (span_exact is_digit (c :: yd) R A HR).
    rewrite Y. reflexivity.
Qed.

Lemma parse_year : forall y R, (R = [] \/ exists x r, R = x :: r /\ is_digit x = false) ->
  parse_dt ((if y <? 0 then ["-"%char] else []) ++ pad 4 (Z.abs y) ++ R) = after_year y R.
Proof.
  intros y R HR. destruct (pad4_year (Z.abs y) ltac:(lia)) as (c & r & E & A & V & Y).
  rewrite E, parse_dt_digits by assumption. rewrite V. f_equal. destruct (Z.ltb_spec y 0); lia.
Qed.

(* gYear *)
Lemma after_year_none : forall y tz, tz_ok tz ->
  after_year y (tz_chars tz) = DtOk (y, None, None, None, false, tz).
Proof.
  intros y tz H. pose proof (tz_chars_shape tz H) as S. unfold after_year.
  rewrite (tz_end_chars tz H). cbn [bind_alt].
  destruct (tzshape_dash_two 1 12 _ S) as [->|(n & c & d & ->)]; [reflexivity|].
  rewrite colon_dash_two, colon_tz_end. reflexivity.
Qed.

(* gYearMonth *)
Lemma after_year_month : forall y m tz, 1 <= m <= 12 -> tz_ok tz ->
  after_year y ("-"%char :: pad 2 m ++ tz_chars tz) = DtOk (y, Some m, None, None, false, tz).
Proof.
  intros y m tz Hm H. pose proof (tz_chars_shape tz H) as S. unfold after_year.
  rewrite dash_two_pad by lia. rewrite (tz_end_chars tz H). cbn [bind_alt].
  destruct (tzshape_dash_two 1 31 _ S) as [->|(n & c & d & ->)]; [reflexivity|].
  rewrite colon_time_part, colon_tz_end. reflexivity.
Qed.

(* date *)
Lemma after_year_day : forall y m x tz, 1 <= m <= 12 -> 1 <= x <= 31 -> tz_ok tz ->
  after_year y ("-"%char :: pad 2 m ++ "-"%char :: pad 2 x ++ tz_chars tz)
  = DtOk (y, Some m, Some x, None, false, tz).
Proof.
  intros y m x tz Hm Hx H. pose proof (tz_chars_shape tz H) as S. unfold after_year.
  rewrite dash_two_pad by lia. rewrite dash_two_pad by lia.
  rewrite (tzshape_time_part _ S), (tz_end_chars tz H). reflexivity.
Qed.

(* dateTime *)
Lemma after_year_time : forall y m x R t eod tz, 1 <= m <= 12 -> 1 <= x <= 31 -> tz_ok tz ->
  time_part R = Some (Some t, eod, tz_chars tz) ->
  after_year y ("-"%char :: pad 2 m ++ "-"%char :: pad 2 x ++ R)
  = DtOk (y, Some m, Some x, t, eod, tz).
Proof.
  intros y m x R t eod tz Hm Hx H TP. unfold after_year.
  rewrite dash_two_pad by lia. rewrite dash_two_pad by lia.
  rewrite TP, (tz_end_chars tz H). reflexivity.
Qed.

Lemma nd_dash : forall r, "-"%char :: r = [] \/ exists x r', "-"%char :: r = x :: r' /\ is_digit x = false.
Proof. intros. right. eexists _, _. split; reflexivity. Qed.

(* ---------------------------------------------------------------- py -> xml -> py *)
Lemma dt_py_xml_py : forall v, dt_valid v = true -> parse_dt (dt_chars v) = DtOk v.
Proof.
  intros [[[[[y mo] d] t] eod] tz] V. unfold dt_valid in V.
  assert (TZ : tz_ok tz) by (unfold tz_ok; lia).
  pose proof (tz_chars_shape tz TZ) as S.
  pose proof TZ as TZ'. unfold tz_ok in TZ'. rewrite TZ' in V. clear TZ'.
  unfold dt_chars.
  destruct mo as [m|]; destruct d as [x|]; destruct t as [[[h mi] us]|]; destruct eod;
    unfold in_range, is_some in V; try (exfalso; lia); cbn [app].
  - (* dateTime *)
    rewrite parse_year by apply nd_dash.
    apply after_year_time; try lia; try assumption. exact (time_part_time h mi us _ ltac:(lia) ltac:(lia) ltac:(lia) S).
  - (* end of day *)
    rewrite parse_year by apply nd_dash.
    apply after_year_time; try lia; try assumption. exact (time_part_eod _ S).
  - (* date *)
    rewrite parse_year by apply nd_dash. apply after_year_day; try lia; assumption.
  - (* gYearMonth *)
    rewrite parse_year by apply nd_dash. apply after_year_month; try lia; assumption.
  - (* gYear *)
    rewrite parse_year by (apply tzshape_nd; assumption). apply after_year_none; assumption.
Qed.

(* ---------------------------------------------------------------- the checker twin *)
Lemma oz_eqb_refl : forall a, oz_eqb a a = true.
Proof. intros [x|]; cbn [oz_eqb]; lia. Qed.

Lemma dt_eqb_refl : forall v, dt_eqb v v = true.
Proof.
  intros [[[[[y mo] d] t] eod] tz]. unfold dt_eqb. rewrite !oz_eqb_refl, Z.eqb_refl, eqb_reflx.
  destruct t as [[[h mi] us]|]; cbn [time_eqb]; rewrite ?Z.eqb_refl; reflexivity.
Qed.

Lemma check_dt_valid : forall v, dt_valid v = true -> check_dt v = true.
Proof.
  intros v H. unfold check_dt. rewrite H, (dt_py_xml_py v H), dt_eqb_refl. reflexivity.
Qed.

Lemma check_dt_spec : forall v, check_dt v = true <->
  (dt_valid v = true -> exists v', parse_dt (dt_chars v) = DtOk v' /\ dt_eqb v v' = true).
Proof.
  intros v. split.
  - intros _ H. exists v. split; [now apply dt_py_xml_py|apply dt_eqb_refl].
  - intros H. unfold check_dt. destruct (dt_valid v); [|reflexivity].
    destruct (H eq_refl) as (v' & -> & E). exact E.
Qed.
