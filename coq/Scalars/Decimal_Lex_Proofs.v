(* C18 -- what DecimalConverter.to_py accepts lies in the lexical space of xsd:decimal and denotes
   the value of the digits; the string-level timestamp round trip. *)
From Coq Require Import List ZArith NArith Bool Lia ZifyBool Ascii String.
From SDC Require Import Scalars.Lex Scalars.Lex_Proofs Scalars.Timestamp Scalars.Timestamp_Proofs Scalars.Decimal.
Import ListNotations.
Open Scope Z_scope.

(* ws* [+-]? ( digit+ ( "." digit* )? | "." digit+ ) ws*   and the Decimal it denotes *)
Definition dec_lexical (s : list ascii) (d : dec) : Prop :=
  exists w1 sg ip fp w2 neg,
    all_ws w1 = true /\ all_ws w2 = true /\ all_digits ip = true /\ all_digits fp = true /\
    ((sg = [] /\ neg = false) \/ (sg = ["+"%char] /\ neg = false) \/ (sg = ["-"%char] /\ neg = true)) /\
    ((s = w1 ++ sg ++ ip ++ w2 /\ fp = [] /\ ip <> []) \/
     (s = w1 ++ sg ++ ip ++ "."%char :: fp ++ w2 /\ (ip <> [] \/ fp <> []))) /\
    d = (neg, norm_digs (ip ++ fp), - len fp).

Lemma take_sign_spec : forall l neg r, take_sign l = (neg, r) ->
  exists sg, l = sg ++ r /\
    ((sg = [] /\ neg = false) \/ (sg = ["+"%char] /\ neg = false) \/ (sg = ["-"%char] /\ neg = true)).
Proof.
  intros l neg r H. unfold take_sign in H. destruct l as [|c l'].
  - inversion H; subst. exists []. auto.
  - destruct (ceq c "-") eqn:C1; [|destruct (ceq c "+") eqn:C2]; inversion H; subst.
    + apply ceq_eq in C1. subst. exists ["-"%char]. auto.
    + apply ceq_eq in C2. subst. exists ["+"%char]. auto 6.
    + exists []. auto.
Qed.

Lemma is_nil_false : forall l, is_nil l = false -> l <> [].
Proof. destruct l; simpl; congruence. Qed.
Lemma is_nil_true : forall l, is_nil l = true -> l = [].
Proof. destruct l; simpl; congruence. Qed.

Lemma dec_parse_lexical : forall s d, dec_parse s = Some d -> dec_lexical s d.
Proof.
  intros s d H. unfold dec_parse in H.
  destruct (lstrip_spec is_ws s) as [w1 [E1 [W1 _]]].
  destruct (take_sign (lstrip is_ws s)) as [neg r1] eqn:TS.
  destruct (take_sign_spec _ _ _ TS) as [sg [E2 SG]].
  destruct (span is_digit r1) as [ip r2] eqn:SP.
  destruct (span_spec _ _ _ _ SP) as [E3 [DI _]].
  destruct r2 as [|c r3].
  - destruct (is_nil ip) eqn:NI; [discriminate|]. inversion H; subst d.
    exists w1, sg, ip, [], [], neg. rewrite !app_nil_r in *.
    repeat split; auto. left. repeat split; auto using is_nil_false. congruence.
  - destruct (is_dot c) eqn:DOT.
    + unfold is_dot in DOT. apply ceq_eq in DOT. subst c.
      destruct (span is_digit r3) as [fp r4] eqn:SP2.
      destruct (span_spec _ _ _ _ SP2) as [E4 [DF _]].
      destruct (is_nil ip && is_nil fp) eqn:NN; [discriminate|].
      destruct (all_ws r4) eqn:W2; [|discriminate]. inversion H; subst d.
      exists w1, sg, ip, fp, r4, neg. repeat split; auto. right. split.
      * rewrite E1, E2, E3, E4. reflexivity.
      * destruct ip; [right; destruct fp; [discriminate|discriminate]|left; discriminate].
    + destruct (is_nil ip) eqn:NI; [discriminate|].
      destruct (all_ws (c :: r3)) eqn:W2; [|discriminate]. inversion H; subst d.
      exists w1, sg, ip, [], (c :: r3), neg. rewrite app_nil_r.
      repeat split; auto. left. repeat split; auto using is_nil_false.
      rewrite E1, E2, E3. reflexivity.
Qed.

(* wire level: a canonical millisecond string survives to_py / to_xml *)
Lemma ts_str_xml_py_xml : forall n, 0 <= n -> n * 1000 < 2 ^ 53 ->
  option_map ts_to_xml_str (ts_to_py_str (str (print_Z n))) = Some (str (print_Z n)).
Proof.
  intros n Hn Hb. unfold ts_to_py_str. rewrite chars_str, int_print_parse.
  destruct (Z.ltb_spec n 0); [lia|]. simpl. unfold ts_to_xml_str.
  fold (ts_to_py n). now rewrite ts_xml_py_xml.
Qed.
