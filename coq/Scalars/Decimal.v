(* C18 -- DecimalConverter (src/sdc11073/xml_types/dataconverters.py), repaired version.

   A finite Python Decimal is (sign, _int, _exp): a coefficient digit string without leading zeros
   ("0" for zero) and an integer exponent; value = (-1)^sign * int(_int) * 10^_exp.

     to_xml d  = surgery (format(d, 'f'))      Decimal argument
     to_py xml = Decimal(xml) after the xsd:decimal lexical check
                 (optional XML white space, optional sign, then digits with an optional dot and
                 optional fraction digits, or a dot followed by digits; optional white space)

   [format_f] transcribes decimal.Decimal.__format__ with type 'f' and no precision (oracle:
   modelled, validated differentially against CPython's _decimal).  [surgery] is the string
   surgery of DecimalConverter.to_xml: cap of 18 significant digits, then removal of trailing
   zeros / the trailing dot.  Definitions only. *)
From Coq Require Import List ZArith Bool String Ascii.
From SDC Require Import Scalars.Lex.
Import ListNotations.
Open Scope Z_scope.

Definition dec : Type := bool * list ascii * Z.     (* (negative?, coefficient digits, exponent) *)
Definition dneg (d : dec) : bool := fst (fst d).
Definition ddigs (d : dec) : list ascii := snd (fst d).
Definition dexp (d : dec) : Z := snd d.

Definition len (l : list ascii) : Z := Z.of_nat (List.length l).
Definition zeros (k : Z) : list ascii := repeat "0"%char (Z.to_nat k).
Definition is_dot (c : ascii) : bool := ceq c "."%char.
Definition is_sign (c : ascii) : bool := ceq c "+"%char || ceq c "-"%char.
Definition is_nil (l : list ascii) : bool := match l with [] => true | _ => false end.
Definition or_zero (l : list ascii) : list ascii := match l with [] => ["0"%char] | _ => l end.

(* well-formed coefficient: digits, non-empty, no leading zero unless it is "0" *)
Definition wf_digs (l : list ascii) : bool :=
  all_digits l && negb (is_nil l) &&
  match l with c :: _ :: _ => negb (is_zero_char c) | _ => true end.
Definition wf_dec (d : dec) : bool := wf_digs (ddigs d).

Definition dec_num (d : dec) : Z := if dneg d then - digits_val (ddigs d) else digits_val (ddigs d).
(* same numeric value: num1 * 10^e1 = num2 * 10^e2, scaled to the smaller exponent *)
Definition dec_value_eq (d1 d2 : dec) : Prop :=
  let m := Z.min (dexp d1) (dexp d2) in
  dec_num d1 * 10 ^ (dexp d1 - m) = dec_num d2 * 10 ^ (dexp d2 - m).
Definition dec_value_eqb (d1 d2 : dec) : bool :=
  let m := Z.min (dexp d1) (dexp d2) in
  dec_num d1 * 10 ^ (dexp d1 - m) =? dec_num d2 * 10 ^ (dexp d2 - m).

(* ---------------------------------------------------------------- format(d, 'f') *)
Definition int_frac (d : dec) : list ascii * list ascii :=
  let digs := ddigs d in
  let e := if forallb is_zero_char digs && (0 <? dexp d) then 0 else dexp d in
  let n := len digs in
  let dot := e + n in
  if dot <? 0 then (["0"%char], zeros (- dot) ++ digs)
  else if n <? dot then (digs ++ zeros (dot - n), [])
  else (or_zero (firstn (Z.to_nat dot) digs), skipn (Z.to_nat dot) digs).

Definition sign_chars (neg : bool) : list ascii := if neg then ["-"%char] else [].
Definition dot_frac (fp : list ascii) : list ascii := match fp with [] => [] | _ => "."%char :: fp end.

Definition format_f (d : dec) : list ascii :=
  let (ip, fp) := int_frac d in sign_chars (dneg d) ++ ip ++ dot_frac fp.

(* ---------------------------------------------------------------- DecimalConverter.to_xml, after formatting *)
(* while '.' in s and s[-1] in ('0', '.'): s = s[:-1]     -- on the reversed string *)
Fixpoint strip_rev (r : list ascii) : list ascii :=
  match r with
  | [] => []
  | c :: r' => if (is_zero_char c || is_dot c) && existsb is_dot r then strip_rev r' else r
  end.

Definition surgery (s : list ascii) : list ascii :=
  if existsb is_dot s then
    let (head, r) := span (fun c => negb (is_dot c)) s in
    let tail := tl r in
    let int_digits := lstrip is_zero_char (lstrip is_sign head) in
    let cap := if is_nil int_digits then 18 + (len tail - len (lstrip is_zero_char tail))
               else 18 - len int_digits in
    let tail' := firstn (Z.to_nat (Z.max cap 0)) tail in
    let s1 := if is_nil tail' then head else head ++ "."%char :: tail' in
    rev (strip_rev (rev s1))
  else s.

(* the code before the repair: tail[:18 - len(head)] (a negative bound counts from the end) *)
Definition surgery_old (s : list ascii) : list ascii :=
  if existsb is_dot s then
    let (head, r) := span (fun c => negb (is_dot c)) s in
    let tail := tl r in
    let k := 18 - len head in
    let tail' := if k <? 0 then firstn (Z.to_nat (len tail + k)) tail else firstn (Z.to_nat k) tail in
    let s1 := if is_nil tail' then head else head ++ "."%char :: tail' in
    rev (strip_rev (rev s1))
  else s.

Definition dec_to_xml_l (d : dec) : list ascii := surgery (format_f d).
Definition dec_to_xml (d : dec) : string := str (dec_to_xml_l d).

(* ---------------------------------------------------------------- Decimal(xml) on the xsd:decimal lexical space *)
Definition norm_digs (l : list ascii) : list ascii := or_zero (lstrip is_zero_char l).

Definition dec_parse (s : list ascii) : option dec :=
  let (neg, r1) := take_sign (lstrip is_ws s) in
  let (ip, r2) := span is_digit r1 in
  match r2 with
  | c :: r3 =>
      if is_dot c then
        let (fp, r4) := span is_digit r3 in
        if is_nil ip && is_nil fp then None
        else if all_ws r4 then Some (neg, norm_digs (ip ++ fp), - len fp) else None
      else if is_nil ip then None
      else if all_ws r2 then Some (neg, norm_digs ip, 0) else None
  | [] => if is_nil ip then None else Some (neg, norm_digs ip, 0)
  end.

Definition dec_to_py (s : string) : option dec := dec_parse (chars s).

(* no exponent notation, only characters of the xsd:decimal lexical space *)
Definition plain_char (c : ascii) : bool := is_digit c || is_dot c || ceq c "-"%char.

(* ---------------------------------------------------------------- correspondence helpers *)
Definition mkdec (neg : bool) (digs : string) (e : Z) : dec := (neg, chars digs, e).
Definition dec_out (d : dec) : bool * string * Z := (dneg d, str (ddigs d), dexp d).
Definition dec_out_eqb (x y : bool * string * Z) : bool :=
  Bool.eqb (fst (fst x)) (fst (fst y)) && String.eqb (snd (fst x)) (snd (fst y)) && (snd x =? snd y).
(* checker twin of C18_decimal_value on one decimal *)
Definition check_decimal (d : dec) : bool :=
  match dec_parse (dec_to_xml_l d) with
  | Some d' => dec_value_eqb d' d && forallb plain_char (dec_to_xml_l d)
  | None => false
  end.
