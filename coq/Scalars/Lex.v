(* C18 -- character classes, digit strings, integer parsing and printing shared by the scalar
   converter models.  Strings are [list ascii] (bytes of the UTF-8 encoding; every non-ASCII
   character is a sequence of bytes >= 128, none of which is a digit, a sign or white space).
   Definitions only. *)
From Coq Require Import List ZArith NArith Bool Ascii String.
Import ListNotations.
Open Scope Z_scope.

Definition chars (s : string) : list ascii := list_ascii_of_string s.
Definition str (l : list ascii) : string := string_of_list_ascii l.
(* for case files: a string given by its bytes *)
Definition bs (l : list N) : string := str (map ascii_of_N l).

Definition code (c : ascii) : N := N_of_ascii c.
Definition ceq (a b : ascii) : bool := N.eqb (code a) (code b).
Definition is_digit (c : ascii) : bool := (N.leb 48 (code c)) && (N.leb (code c) 57).
Definition digit_val (c : ascii) : Z := Z.of_N (code c) - 48.
(* XML white space: space, tab, CR, LF *)
Definition is_ws (c : ascii) : bool :=
  let n := code c in N.eqb n 32 || N.eqb n 9 || N.eqb n 13 || N.eqb n 10.

Definition digit_char (d : Z) : ascii :=
  match d with
  | 0 => "0" | 1 => "1" | 2 => "2" | 3 => "3" | 4 => "4"
  | 5 => "5" | 6 => "6" | 7 => "7" | 8 => "8" | _ => "9"
  end%char.

Fixpoint span (p : ascii -> bool) (l : list ascii) : list ascii * list ascii :=
  match l with
  | [] => ([], [])
  | c :: r => if p c then let (a, b) := span p r in (c :: a, b) else ([], l)
  end.

Fixpoint lstrip (p : ascii -> bool) (l : list ascii) : list ascii :=
  match l with
  | [] => []
  | c :: r => if p c then lstrip p r else l
  end.

(* Horner value of a digit string *)
Definition digits_val (l : list ascii) : Z :=
  fold_left (fun acc c => acc * 10 + digit_val c) l 0.

Definition all_digits (l : list ascii) : bool := forallb is_digit l.
Definition all_ws (l : list ascii) : bool := forallb is_ws l.
Definition is_zero_char (c : ascii) : bool := ceq c "0"%char.

Fixpoint list_ceq (a b : list ascii) : bool :=
  match a, b with
  | [], [] => true
  | x :: a', y :: b' => ceq x y && list_ceq a' b'
  | _, _ => false
  end.

(* ---------------------------------------------------------------- str(int) *)
Fixpoint digits_fuel (fuel : nat) (n : Z) : list ascii :=
  match fuel with
  | O => [digit_char n]
  | S f => if n <? 10 then [digit_char n] else digits_fuel f (n / 10) ++ [digit_char (n mod 10)]
  end.
(* n >= 0 *)
Definition digits_of (n : Z) : list ascii := digits_fuel (Z.to_nat (Z.log2 n)) n.
Definition print_Z (n : Z) : list ascii :=
  if n <? 0 then "-"%char :: digits_of (- n) else digits_of n.

(* ---------------------------------------------------------------- xsd:integer lexical space
   (the repaired converters check [ \t\r\n]*[+-]?[0-9]+[ \t\r\n]* before calling int()) *)
Definition take_sign (l : list ascii) : bool * list ascii :=   (* (negative?, rest) *)
  match l with
  | c :: r => if ceq c "-"%char then (true, r) else if ceq c "+"%char then (false, r) else (false, l)
  | [] => (false, [])
  end.

Definition int_parse (s : list ascii) : option Z :=
  let (neg, r1) := take_sign (lstrip is_ws s) in
  let (ds, r2) := span is_digit r1 in
  match ds with
  | [] => None
  | _ => if all_ws r2 then Some (if neg then - digits_val ds else digits_val ds) else None
  end.

(* IntegerConverter: to_py = int_parse, to_xml = str *)
Definition int_to_py (s : string) : option Z := int_parse (chars s).
Definition int_to_xml (n : Z) : string := str (print_Z n).

(* ---------------------------------------------------------------- xsd:boolean as implemented:
   BooleanConverter.to_py = (xml_value in ('true', '1')): never rejects *)
Definition bool_to_py (s : string) : bool :=
  list_ceq (chars s) (chars "true") || list_ceq (chars s) (chars "1").
Definition bool_to_xml (b : bool) : string := if b then "true"%string else "false"%string.
Definition bool_lexical (s : string) : bool :=
  let l := chars s in
  list_ceq l (chars "true") || list_ceq l (chars "false") || list_ceq l (chars "1") || list_ceq l (chars "0").
(* the four literals denote these values *)
Definition bool_denotes (s : string) (b : bool) : Prop :=
  (b = true /\ (s = "true" \/ s = "1"))%string \/ (b = false /\ (s = "false" \/ s = "0"))%string.

(* ---------------------------------------------------------------- enumerations:
   EnumConverter.to_py = klass(xml_value) (ValueError when no member has that value), to_xml = member.value *)
Fixpoint str_mem (s : list ascii) (lits : list (list ascii)) : bool :=
  match lits with
  | [] => false
  | l :: r => list_ceq s l || str_mem s r
  end.
Definition enum_to_py (lits : list string) (s : string) : option string :=
  if str_mem (chars s) (map chars lits) then Some s else None.
