(* C18 -- proofs about the binary64-faithful xsd:duration parser (Scalars/Duration.v, parse_duration_f):
   the timedelta microsecond count is within 0.75 us of the exact decimal value for a fraction of any length
   (exact up to six fraction digits), the returned float is within 1 us, the library's own writer round-trips,
   the accepted language is dur_lexical; and the second field of xsd:dateTime / xsd:time as a float. *)
From Coq Require Import List ZArith Bool Lia ZifyBool String Ascii.
From SDC Require Import Scalars.Lex Scalars.Lex_Proofs Scalars.Timestamp Scalars.Timestamp_Proofs Scalars.Decimal Scalars.Duration Scalars.Duration_Proofs Scalars.DateTime.
Import ListNotations.
Open Scope Z_scope.

(* ---------------------------------------------------------------- (L6) the second field of a date/time *)
Lemma second_float_within_1us : forall n D, 0 <= n -> 0 < D -> n < 60 * D ->
  let x := rnd53 n D in 0 < snd x /\ - (snd x * D) < (fst x * D - n * snd x) * 1000000 < snd x * D.
Proof.
  intros n D Hn HD Hlt x. subst x.
  destruct (rnd53_relerr n D Hn HD) as [Hb H].
  set (a := fst (rnd53 n D)) in *. set (b := snd (rnd53 n D)) in *. clearbody a b.
  change (2 ^ 53) with 9007199254740992 in *.
  split; [exact Hb|].
  assert (HX : n * b < 60 * (b * D)) by nia.
  assert (HX0 : 0 <= n * b) by nia.
  assert (HY : 0 < b * D) by nia.
  set (X := n * b) in *. set (Y := b * D) in *. set (E := a * D - X) in *. clearbody X Y E.
  lia.
Qed.

(* ---------------------------------------------------------------- helpers *)
Lemma pow10_pos : forall k, 0 <= k -> 0 < 10 ^ k.
Proof. intros. apply Z.pow_pos_nonneg; lia. Qed.

Lemma digits_val_lt_pow : forall l, all_digits l = true -> digits_val l < 10 ^ len l.
Proof.
  induction l as [|c l IH] using rev_ind; intros H; [reflexivity|].
  apply all_digits_app in H as [H1 H2].
  unfold all_digits in H2. cbn [forallb] in H2. rewrite andb_true_r in H2.
  rewrite digits_val_snoc, len_app. change (len [c]) with 1.
  pose proof (digit_val_range c H2). specialize (IH H1). pose proof (len_nonneg l).
  rewrite Z.pow_add_r by lia. change (10 ^ 1) with 10. lia.
Qed.

Lemma rnd53_fst_nonneg : forall p q, 0 <= p -> 0 < q -> 0 <= fst (rnd53 p q).
Proof.
  intros p q Hp Hq. destruct (rnd53_relerr p q Hp Hq) as [Hb H].
  set (a := fst (rnd53 p q)) in *. set (b := snd (rnd53 p q)) in *. clearbody a b.
  change (2 ^ 53) with 9007199254740992 in *.
  assert (0 <= p * b) by nia.
  assert (0 <= a * q) by lia. nia.
Qed.

(* ---------------------------------------------------------------- (L1) the microsecond layer *)
(* the core on an arbitrary exact value n / D with n / D <= 2^31 *)
Lemma td_float_us_core : forall n D, 0 <= n -> 0 < D -> n <= 2 ^ 31 * D ->
  let u := td_float_us (rnd53 n D) in
  0 <= u /\ - (3 * D) <= 4 * (u * D - n * 1000000) <= 3 * D.
Proof.
  intros n D Hn HD Hr u. subst u. unfold td_float_us.
  destruct (rnd53_relerr n D Hn HD) as [Hb H1].
  pose proof (rnd53_fst_nonneg n D Hn HD) as Ha.
  set (a := fst (rnd53 n D)) in *. set (b := snd (rnd53 n D)) in *. clearbody a b.
  pose proof (Z.div_mod a b ltac:(lia)) as E.
  pose proof (Z.mod_pos_bound a b Hb) as B.
  assert (Hip : 0 <= a / b) by (apply Z.div_pos; lia).
  set (ip := a / b) in *. set (r := a mod b) in *. clearbody ip r.
  assert (Hr6 : 0 <= r * 1000000) by lia.
  destruct (rnd53_relerr (r * 1000000) b Hr6 Hb) as [Hpb H2].
  pose proof (rnd53_fst_nonneg (r * 1000000) b Hr6 Hb) as Hpa.
  set (pa := fst (rnd53 (r * 1000000) b)) in *. set (pb := snd (rnd53 (r * 1000000) b)) in *. clearbody pa pb.
  pose proof (rne_div_bounds pa pb Hpb) as H3.
  pose proof (rne_div_nonneg pa pb Hpb Hpa) as Hk.
  set (k := rne_div pa pb) in *. clearbody k.
  change (2 ^ 53) with 9007199254740992 in *. change (2 ^ 31) with 2147483648 in *.
  split; [nia|].
  (* common denominator DD = D * b * pb *)
  assert (HDD : 0 < D * b * pb) by nia.
  assert (Hbpb : 0 < b * pb) by nia.
  set (DD := D * b * pb) in *.
  set (T1 := 1000000 * pb * (a * D - n * b)).
  set (T2 := D * b * (k * pb - pa)).
  set (T3 := D * (pa * b - r * 1000000 * pb)).
  assert (EQ : (ip * 1000000 + k) * D * (b * pb) - n * 1000000 * (b * pb) = T1 + T2 + T3).
  { subst T1 T2 T3. rewrite E. ring. }
  (* |T1| <= 10^6 * 2^-22 DD *)
  assert (G1 : - (1000000 * DD) <= T1 * 4194304 <= 1000000 * DD).
  { assert (Hnb : n * b <= 2147483648 * (D * b)) by nia.
    assert (Hnb0 : 0 <= n * b) by nia.
    set (X := n * b) in *. set (Y := D * b) in *. set (Z1 := a * D - X) in *.
    assert (HZ : - (2147483648 * Y) <= Z1 * 9007199254740992 <= 2147483648 * Y) by lia.
    assert (HZ' : - Y <= Z1 * 4194304 <= Y) by lia.
    subst T1 DD. fold Y. clearbody Z1 Y. clear - HZ' Hpb. nia. }
  (* |T2| <= DD / 2 *)
  assert (G2 : - DD <= 2 * T2 <= DD).
  { subst T2 DD. set (Y := D * b) in *. assert (0 < Y) by (subst Y; nia).
    set (Z2 := k * pb - pa) in *. clearbody Z2 Y. clear - H3 H Hpb. nia. }
  (* |T3| <= 10^6 * 2^-53 DD *)
  assert (G3 : - (1000000 * DD) <= T3 * 9007199254740992 <= 1000000 * DD).
  { assert (Hrp : 0 <= r * 1000000 * pb <= 1000000 * (b * pb)) by nia.
    set (X := r * 1000000 * pb) in *. set (Z3 := pa * b - X) in *. set (Y := b * pb) in *.
    assert (HZ : - (1000000 * Y) <= Z3 * 9007199254740992 <= 1000000 * Y) by lia.
    subst T3 DD. replace (D * b * pb) with (D * Y) by (subst Y; ring).
    clearbody Z3 Y. clear - HZ HD. nia. }
  assert (G : - (3 * DD) <= 4 * (T1 + T2 + T3) <= 3 * DD) by lia.
  rewrite <- EQ in G. subst DD.
  set (Y := b * pb) in *. set (W := (ip * 1000000 + k) * D - n * 1000000).
  replace ((ip * 1000000 + k) * D * Y - n * 1000000 * Y) with (W * Y) in G by (subst W; ring).
  replace (D * b * pb) with (D * Y) in G by (subst Y; ring).
  clearbody W Y. clear - G Hbpb HD. split; nia.
Qed.

Lemma td_float_us_bound : forall d f, all_digits d = true -> all_digits f = true ->
  let n := digits_val (d ++ f) in let D := 10 ^ len f in
  n <= 2 ^ 31 * D ->
  let u := td_float_us (sec_float d f) in
  0 <= u /\ - (3 * D) <= 4 * (u * D - n * 1000000) <= 3 * D.
Proof.
  intros d f Hd Hf n D Hr u. subst u. unfold sec_float. fold n D.
  apply td_float_us_core.
  - subst n. apply digits_val_nonneg. apply all_digits_app. auto.
  - subst D. apply pow10_pos, len_nonneg.
  - exact Hr.
Qed.

(* ---------------------------------------------------------------- (L2) exact up to six fraction digits *)
Lemma td_float_us_exact6 : forall d f, all_digits d = true -> all_digits f = true -> len f <= 6 ->
  digits_val d < 2 ^ 31 ->
  td_float_us (sec_float d f) = digits_val d * 1000000 + digits_val f * 10 ^ (6 - len f).
Proof.
  intros d f Hd Hf L6 Hr.
  pose proof (len_nonneg f) as L0.
  pose proof (digits_val_lt_pow f Hf) as Flt.
  pose proof (digits_val_nonneg f Hf) as F0.
  pose proof (digits_val_nonneg d Hd) as D0.
  assert (HD : 0 < 10 ^ len f) by (apply pow10_pos; lia).
  assert (HE : 10 ^ len f * 10 ^ (6 - len f) = 1000000).
  { rewrite <- Z.pow_add_r by lia. replace (len f + (6 - len f)) with 6 by lia. reflexivity. }
  assert (Hn : digits_val (d ++ f) = digits_val d * 10 ^ len f + digits_val f).
  { rewrite digits_val_app. reflexivity. }
  destruct (td_float_us_bound d f Hd Hf) as [U0 UB].
  { cbv zeta. rewrite Hn. change (2 ^ 31) with 2147483648 in *. nia. }
  cbv zeta in UB. rewrite Hn in UB.
  set (u := td_float_us (sec_float d f)) in *. clearbody u.
  set (D := 10 ^ len f) in *. set (E := 10 ^ (6 - len f)) in *.
  set (dv := digits_val d) in *. set (fv := digits_val f) in *. clearbody D E dv fv.
  assert (EQ : (dv * D + fv) * 1000000 = (dv * 1000000 + fv * E) * D) by (rewrite <- HE; ring).
  rewrite EQ in UB.
  set (K := dv * 1000000 + fv * E) in *. clearbody K.
  replace (u * D - K * D) with ((u - K) * D) in UB by ring.
  assert (u - K = 0) by nia. lia.
Qed.

(* ---------------------------------------------------------------- the three groups on a canonical lexical form *)
Definition LF : ascii := ascii_of_N 10.

Lemma tail_ok_secs_nl : forall x o nl, wf_secs o -> ceq "S"%char x = false -> ceq "."%char x = false ->
  ceq LF x = false -> (nl = [] \/ nl = [LF]) -> tail_ok x (secs o ++ nl).
Proof.
  intros x [[d [|c f]]|] nl W S D L NL; cbn [secs].
  - destruct W as [A [N F]]. rewrite <- app_assoc. cbn [app]. right. exists d, "S"%char, nl. auto.
  - destruct W as [A [N F]]. rewrite <- app_assoc. cbn [app].
    right. exists d, "."%char, ((c :: f ++ ["S"%char]) ++ nl). auto.
  - cbn [app]. destruct NL as [->| ->]; [now left|]. right. exists [], LF, []. auto.
Qed.

Lemma opt_seconds_secs_nl : forall o nl, wf_secs o -> (nl = [] \/ nl = [LF]) ->
  opt_seconds (secs o ++ nl) = (o, nl).
Proof.
  intros o nl W NL.
  assert (T : forall c, is_digit c = false -> c :: nl = [] \/ exists c' r', c :: nl = c' :: r' /\ is_digit c' = false)
    by (intros c Hc; right; eauto).
  destruct o as [[d [|c f]]|]; cbn [secs].
  - destruct W as [A [N F]]. unfold opt_seconds. rewrite <- app_assoc. cbn [app].
    rewrite (span_exact is_digit d ("S"%char :: nl) A) by (apply T; reflexivity).
    destruct d; [congruence|]. reflexivity.
  - destruct W as [A [N F]]. unfold opt_seconds. rewrite <- app_assoc. cbn [app].
    match goal with |- context [span is_digit (d ++ ?r)] =>
      rewrite (span_exact is_digit d r A) by (right; eauto) end.
    destruct d; [congruence|].
    change (ceq "."%char "S"%char) with false. change (is_dot "."%char) with true. cbv iota.
    rewrite <- app_assoc. cbn [app].
    change (c :: f ++ "S"%char :: nl) with ((c :: f) ++ "S"%char :: nl).
    rewrite (span_exact is_digit (c :: f) ("S"%char :: nl) F) by (apply T; reflexivity).
    reflexivity.
  - cbn [app]. destruct NL as [->| ->]; reflexivity.
Qed.

Lemma dur_fields_canonical_nl : forall oh om os nl, wf_fld oh -> wf_fld om -> wf_secs os ->
  is_some oh || is_some om || is_some os = true -> (nl = [] \/ nl = [LF]) ->
  dur_fields ("P"%char :: "T"%char :: fld "H"%char oh ++ fld "M"%char om ++ secs os ++ nl) = Some (oh, om, os).
Proof.
  intros oh om os nl Wh Wm Ws Some1 NL. unfold dur_fields.
  change (ceq "P"%char "P"%char && ceq "T"%char "T"%char) with true. cbv iota.
  rewrite (opt_field_fld "H"%char oh) by
    (try reflexivity; try assumption;
     apply tail_ok_fld_app; try reflexivity; try assumption; apply tail_ok_secs_nl; try reflexivity; assumption).
  rewrite (opt_field_fld "M"%char om) by
    (try reflexivity; try assumption; apply tail_ok_secs_nl; try reflexivity; assumption).
  rewrite (opt_seconds_secs_nl os nl Ws NL).
  rewrite Some1. destruct NL as [->| ->]; reflexivity.
Qed.

Lemma dur_fields_canonical : forall oh om os, wf_fld oh -> wf_fld om -> wf_secs os ->
  is_some oh || is_some om || is_some os = true ->
  dur_fields ("P"%char :: "T"%char :: fld "H"%char oh ++ fld "M"%char om ++ secs os) = Some (oh, om, os).
Proof.
  intros oh om os Wh Wm Ws Some1.
  rewrite <- (dur_fields_canonical_nl oh om os [] Wh Wm Ws Some1 (or_introl eq_refl)).
  rewrite app_nil_r. reflexivity.
Qed.

Lemma optval_nonneg : forall o, wf_fld o -> 0 <= optval o.
Proof. intros [d|] W; cbn [optval]; [|lia]. destruct W as [A _]. now apply digits_val_nonneg. Qed.

(* ---------------------------------------------------------------- (L3) the returned float is within 1 us *)
(* int / 10**6 of a microsecond count that is within 0.75 us of N / D <= 2^31 s *)
Lemma float_of_us_1us : forall u N D, 0 <= u -> 0 < D -> N <= 2 ^ 31 * 1000000 * D ->
  - (3 * D) <= 4 * (u * D - N) <= 3 * D ->
  let x := rnd53 u 1000000 in
  u <= 2 ^ 31 * 1000000 /\ 0 < snd x /\ - (snd x * D) < fst x * D * 1000000 - N * snd x < snd x * D.
Proof.
  intros u N D Hu HD HN HW x. subst x.
  destruct (rnd53_relerr u 1000000 Hu ltac:(lia)) as [Hb H].
  set (a := fst (rnd53 u 1000000)) in *. set (b := snd (rnd53 u 1000000)) in *. clearbody a b.
  change (2 ^ 53) with 9007199254740992 in *. change (2 ^ 31) with 2147483648 in *.
  assert (HU : u <= 2147483648 * 1000000) by nia.
  split; [exact HU|]. split; [exact Hb|].
  assert (HY : 0 < b * D) by nia.
  assert (EQ : a * D * 1000000 - N * b = D * (a * 1000000 - u * b) + b * (u * D - N)) by ring.
  rewrite EQ.
  assert (G2 : - (3 * (b * D)) <= 4 * (b * (u * D - N)) <= 3 * (b * D)).
  { set (W := u * D - N) in *. clearbody W. clear - HW Hb. nia. }
  assert (G1 : - (1000000 * (b * D)) <= D * (a * 1000000 - u * b) * 4194304 <= 1000000 * (b * D)).
  { assert (Hub : 0 <= u * b <= 2147483648 * 1000000 * b) by nia.
    set (X := u * b) in *. set (E := a * 1000000 - X) in *.
    assert (HE : - (1000000 * b) <= E * 4194304 <= 1000000 * b) by lia.
    clearbody E. clear - HE HD. nia. }
  set (Y := b * D) in *. set (Z1 := D * (a * 1000000 - u * b)) in *. set (Z2 := b * (u * D - N)) in *.
  clearbody Y Z1 Z2. lia.
Qed.

Lemma parse_duration_f_1us : forall oh om os nl, wf_fld oh -> wf_fld om -> wf_secs os ->
  is_some oh || is_some om || is_some os = true -> (nl = [] \/ nl = [ascii_of_N 10]) ->
  let s := "P"%char :: "T"%char :: fld "H"%char oh ++ fld "M"%char om ++ secs os ++ nl in
  let N := fst (dur_exact_us oh om os) in let D := snd (dur_exact_us oh om os) in
  N <= 2 ^ 31 * 1000000 * D ->
  exists u a b, parse_duration_f s = DfOk u (a, b) /\ 0 < b /\ 0 < D /\
     - (3 * D) <= 4 * (u * D - N) <= 3 * D /\
     - (b * D) < a * D * 1000000 - N * b < b * D.
Proof.
  intros oh om os nl Wh Wm Ws Some1 NL s N D HN.
  pose proof (optval_nonneg oh Wh) as Hh. pose proof (optval_nonneg om Wm) as Hm.
  assert (K : 0 <= dur_total_us oh om os /\ 0 < D /\
              - (3 * D) <= 4 * (dur_total_us oh om os * D - N) <= 3 * D).
  { subst N D. unfold dur_total_us, dur_exact_us in *. destruct os as [[d f]|]; cbn [fst snd] in *; [|lia].
    destruct Ws as [Ad [Nd Af]].
    assert (HD : 0 < 10 ^ len f) by (apply pow10_pos, len_nonneg).
    destruct (td_float_us_bound d f Ad Af) as [U0 UB].
    { cbv zeta. change (2 ^ 31) with 2147483648 in *.
      set (n := digits_val (d ++ f)) in *. set (D := 10 ^ len f) in *.
      set (HM := optval oh * 3600000000 + optval om * 60000000) in *.
      assert (0 <= HM * D) by (subst HM; nia). clearbody n D HM. lia. }
    cbv zeta in UB.
    set (us := td_float_us (sec_float d f)) in *. set (n := digits_val (d ++ f)) in *.
    set (D := 10 ^ len f) in *. set (HM := optval oh * 3600000000 + optval om * 60000000) in *.
    assert (0 <= HM) by (subst HM; lia).
    split; [lia|]. split; [exact HD|].
    replace ((HM + us) * D - (HM * D + n * 1000000)) with (us * D - n * 1000000) by ring.
    exact UB. }
  destruct K as [U0 [HD HW]].
  destruct (float_of_us_1us _ N D U0 HD HN HW) as [HU [Hb HF]]. cbv zeta in Hb, HF.
  exists (dur_total_us oh om os), (fst (rnd53 (dur_total_us oh om os) 1000000)),
         (snd (rnd53 (dur_total_us oh om os) 1000000)).
  split; [|auto].
  subst s. unfold parse_duration_f.
  rewrite (dur_fields_canonical_nl oh om os nl Wh Wm Ws Some1 NL). cbv zeta.
  replace (max_us <=? dur_total_us oh om os) with false.
  - rewrite <- surjective_pairing. reflexivity.
  - symmetry. apply Z.leb_gt. unfold max_us. change (2 ^ 31) with 2147483648 in HU. lia.
Qed.

(* ---------------------------------------------------------------- (L4) the library's own writer round-trips *)
Lemma duration_f_py_xml_py : forall u, 0 <= u < max_us ->
  parse_duration_f (duration_string_us u) = DfOk u (rnd53 u 1000000).
Proof.
  intros u [U0 U1].
  destruct (Z.eq_dec u 0) as [->|NZ]; [vm_compute; reflexivity|].
  unfold duration_string_us. destruct (Z.leb_spec u 0) as [L|L]; [lia|]. cbv zeta.
  set (s0 := u / 1000000). set (us := u mod 1000000).
  set (mi0 := s0 / 60). set (s := s0 mod 60).
  set (h := mi0 / 60). set (mi := mi0 mod 60).
  pose proof (Z.div_mod u 1000000 ltac:(lia)) as E1. fold s0 us in E1.
  pose proof (Z.mod_pos_bound u 1000000 ltac:(lia)) as B1. fold us in B1.
  assert (S0 : 0 <= s0) by (apply Z.div_pos; lia).
  pose proof (Z.div_mod s0 60 ltac:(lia)) as E2. fold mi0 s in E2.
  pose proof (Z.mod_pos_bound s0 60 ltac:(lia)) as B2. fold s in B2.
  assert (M0 : 0 <= mi0) by (apply Z.div_pos; lia).
  pose proof (Z.div_mod mi0 60 ltac:(lia)) as E3. fold h mi in E3.
  pose proof (Z.mod_pos_bound mi0 60 ltac:(lia)) as B3. fold mi in B3.
  assert (H0 : 0 <= h) by (apply Z.div_pos; lia).
  clearbody s0 us mi0 s h mi.
  set (F := rstrip0 (zfill6 (digits_of us))).
  assert (FS : 0 <? us = true ->
               all_digits F = true /\ F <> [] /\ len F <= 6 /\ digits_val F * 10 ^ (6 - len F) = us).
  { intros P. apply fraction_spec. lia. }
  clearbody F.
  replace (s =? 0) with (negb (0 <? s)) by lia.
  destruct (digits_of_spec s ltac:(lia)) as [As [Ns Vs]].
  rewrite duration_string_shape.
  2:{ intros P. assert (s = 0) by lia. subst s. reflexivity. }
  2:{ intros P. now destruct (FS P) as [_ [N _]]. }
  unfold parse_duration_f. rewrite dur_fields_canonical.
  - cbv zeta.
    match goal with |- context [max_us <=? ?t] => assert (TOT : t = u); [|rewrite !TOT] end.
    { unfold dur_total_us. rewrite !optval_digits_of by lia.
      destruct (0 <? s) eqn:Ps; destruct (0 <? us) eqn:Pus; cbn [orb].
      all: try (destruct (FS eq_refl) as [AF [_ [FL FV]]]).
      all: try (rewrite td_float_us_exact6 by first [assumption | reflexivity | (change (len []) with 0; lia) | (rewrite Vs; change (2 ^ 31) with 2147483648; lia)]).
      all: rewrite ?Vs, ?FV; change (digits_val []) with 0; lia. }
    replace (max_us <=? u) with false by lia. reflexivity.
  - apply wf_fld_digits_of; lia.
  - apply wf_fld_digits_of; lia.
  - destruct (0 <? s) eqn:Ps; destruct (0 <? us) eqn:Pus; cbn [orb wf_secs]; auto.
    + destruct (FS eq_refl) as [AF _]. auto.
    + destruct (FS eq_refl) as [AF _]. auto.
  - destruct (0 <? h) eqn:Ph; destruct (0 <? mi) eqn:Pm; destruct (0 <? s) eqn:Ps; destruct (0 <? us) eqn:Pus;
      cbn [is_some orb]; try reflexivity. lia.
Qed.

(* ---------------------------------------------------------------- (L5) rejection *)
Lemma frac_us_nonneg : forall f, all_digits f = true -> 0 <= frac_us f.
Proof.
  intros f A. unfold frac_us. pose proof (digits_val_nonneg f A).
  destruct (Z.leb_spec (len f) 6).
  - apply Z.mul_nonneg_nonneg; [assumption|]. apply Z.pow_nonneg. lia.
  - apply rne_div_nonneg; [apply pow10_pos; lia|assumption].
Qed.

Lemma parse_result_not_reject : forall h m sf, 0 <= optval h -> 0 <= optval m ->
  (forall d f, sf = Some (d, f) -> 0 <= digits_val d /\ 0 <= frac_us f) ->
  parse_result h m sf <> D_REJECT.
Proof.
  intros h m sf Hh Hm Hs. unfold parse_result, D_REJECT, D_UNMODELLED, D_OVERFLOW.
  destruct sf as [[d f]|].
  - destruct (Hs d f eq_refl) as [Hd Hf].
    destruct ((15 <? sig_len d) || (negb (is_nil f) && (5 <? sig_len d))); [lia|]. cbv zeta.
    destruct (Z.leb_spec max_us (optval h * 3600000000 + optval m * 60000000 + digits_val d * 1000000 + frac_us f)); lia.
  - cbv zeta. destruct (Z.leb_spec max_us (optval h * 3600000000 + optval m * 60000000)); lia.
Qed.

Lemma opt_field_optval_nonneg : forall x l o r, opt_field x l = (o, r) -> 0 <= optval o.
Proof.
  intros x l o r H. apply opt_field_inv in H as [[-> _]|[d [-> [[_ A] _]]]]; cbn [optval]; [lia|].
  now apply digits_val_nonneg.
Qed.

Lemma dur_fields_none_iff : forall s, dur_fields s = None <-> parse_duration_us s = D_REJECT.
Proof.
  intros s. unfold dur_fields, parse_duration_us.
  destruct s as [|p [|t r0]]; try (split; reflexivity).
  destruct (ceq p "P"%char && ceq t "T"%char); [|split; reflexivity].
  destruct (opt_field "H"%char r0) as [h r1] eqn:OH.
  destruct (opt_field "M"%char r1) as [m r2] eqn:OM.
  destruct (opt_seconds r2) as [sf r3] eqn:OS.
  match goal with |- (if ?c then _ else _) = _ <-> _ => destruct c end; [|split; reflexivity].
  split; [discriminate|]. intros H. exfalso.
  change (parse_result h m sf = D_REJECT) in H. revert H. apply parse_result_not_reject.
  - eapply opt_field_optval_nonneg; eassumption.
  - eapply opt_field_optval_nonneg; eassumption.
  - intros d f ->. apply opt_seconds_inv in OS as [[E _]|[[d' [E [[_ A] _]]]|[d' [f' [E [[_ A] [[_ A'] _]]]]]]].
    + discriminate.
    + inversion E; subst. split; [now apply digits_val_nonneg|]. now apply frac_us_nonneg.
    + inversion E; subst. split; [now apply digits_val_nonneg|]. now apply frac_us_nonneg.
Qed.

Lemma parse_duration_f_rejects_non_lexical : forall s, parse_duration_f s <> DfReject -> dur_lexical s.
Proof.
  intros s H. apply duration_rejects_non_lexical. intros R. apply dur_fields_none_iff in R.
  apply H. unfold parse_duration_f. rewrite R. reflexivity.
Qed.

(* ---------------------------------------------------------------- the repaired second field (clamped below 60) *)
Lemma clamp_second_within_1us : forall n D, 0 <= n -> 0 < D -> n < 60 * D ->
  let x := clamp_second (rnd53 n D) in
  0 < snd x /\ fst x < 60 * snd x /\ - (snd x * D) < (fst x * D - n * snd x) * 1000000 < snd x * D.
Proof.
  intros n D Hn HD Hlt. cbv zeta. unfold clamp_second.
  pose proof (second_float_within_1us n D Hn HD Hlt) as W. cbv zeta in W.
  pose proof (rnd53_relerr n D Hn HD) as R.
  destruct (rnd53 n D) as [a b]. cbn [fst snd] in *.
  destruct W as [Hb W]. destruct R as [_ R].
  destruct (Z.leb_spec (60 * b) a) as [Hge|Hlt60].
  - unfold max_second. cbn [fst snd].
    change (2 ^ 47) with 140737488355328. change (2 ^ 53) with 9007199254740992 in R.
    assert (E : 60 * b * D <= a * D) by nia.
    assert (K : (60 * D - n) * 9007199254740992 <= 60 * D).
    { assert (a * D * 9007199254740992 <= n * b * 9007199254740993) by nia.
      assert (60 * b * D * 9007199254740992 <= n * b * 9007199254740993) by nia.
      assert (60 * D * 9007199254740992 <= n * 9007199254740993) by nia. lia. }
    repeat split; try lia.
  - cbn [fst snd]. repeat split; try lia.
Qed.

(* the code before the repair rejects a valid second field: 59.999999999999999 rounds to 60.0 *)
Lemma second_rounds_to_60 : 59999999999999999 < 60 * 10 ^ 15 /\
  60 * snd (rnd53 59999999999999999 (10 ^ 15)) <= fst (rnd53 59999999999999999 (10 ^ 15)).
Proof. vm_compute. split; [reflexivity|discriminate]. Qed.
Lemma second_rounds_to_60_ex : exists n D, 0 <= n /\ 0 < D /\ n < 60 * D /\
  60 * snd (rnd53 n D) <= fst (rnd53 n D).
Proof.
  exists 59999999999999999, (10 ^ 15). destruct second_rounds_to_60 as [A B].
  split; [discriminate|]. split; [reflexivity|]. split; assumption.
Qed.
