(* C18 -- xsd:duration restricted to hours/minutes/seconds (src/sdc11073/xml_types/isoduration.py:
   parse_duration, duration_string; used by DurationConverter) on integer microseconds.

   duration_string(seconds): tdt = timedelta(seconds=float(seconds)); the model starts from
   total_us = tdt.days*86_400_000_000 + tdt.seconds*1_000_000 + tdt.microseconds  (the float ->
   microsecond rounding of timedelta is an oracle: modelled, not verified).
   parse_duration(s): the regular expression (with re.ASCII, see fixes/C18_ascii_digits_only)
       ^PT(?:(\d+)H)?(?:(\d+)M)?(?:(\d+)(?:\.(\d+))?S)?(?<!PT)$
   then timedelta(hours, minutes, seconds=float('<seconds>.<fraction>')).total_seconds(); the model
   returns the timedelta's integer microseconds.  Fractions longer than 6 digits are rounded half-even
   on the exact decimal value (the implementation rounds the binary64 value: differs only next to ties).
   Definitions only. *)
From Coq Require Import List ZArith Bool String Ascii.
From SDC Require Import Scalars.Lex Scalars.Timestamp Scalars.Decimal.
Import ListNotations.
Open Scope Z_scope.

Definition rstrip0 (l : list ascii) : list ascii := rev (lstrip is_zero_char (rev l)).
Definition zfill6 (l : list ascii) : list ascii := zeros (6 - len l) ++ l.
Definition when (b : bool) (l : list ascii) : list ascii := if b then l else [].

(* duration_string for total_us >= 0 (negative values raise ValueError before this point) *)
Definition duration_string_us (u : Z) : list ascii :=
  if u <=? 0 then chars "PT0S" else
  let s0 := u / 1000000 in let us := u mod 1000000 in
  let mi0 := s0 / 60 in let s := s0 mod 60 in
  let h := mi0 / 60 in let mi := mi0 mod 60 in
  chars "PT"
  ++ when (0 <? h) (digits_of h ++ ["H"%char])
  ++ when (0 <? mi) (digits_of mi ++ ["M"%char])
  ++ when (0 <? s) (digits_of s)
  ++ (if 0 <? us then when (s =? 0) ["0"%char] ++ "."%char :: rstrip0 (zfill6 (digits_of us)) ++ ["S"%char]
      else when (0 <? s) ["S"%char]).

(* results of parse_duration: total microseconds >= 0, or *)
Definition D_REJECT : Z := -1.      (* ValueError: not in the lexical space *)
Definition D_OVERFLOW : Z := -2.    (* OverflowError from timedelta (|days| > 999999999) *)
Definition D_UNMODELLED : Z := -3.  (* seconds field too large for the microsecond model of float() *)

Definition max_us : Z := 1000000000 * 86400 * 1000000.   (* timedelta.max + 1 us *)

(* (\d+)X : a non-empty digit run followed by the letter X *)
Definition opt_field (x : ascii) (l : list ascii) : option (list ascii) * list ascii :=
  let (d, r) := span is_digit l in
  match d, r with
  | _ :: _, c :: r' => if ceq c x then (Some d, r') else (None, l)
  | _, _ => (None, l)
  end.

(* (\d+)(?:\.(\d+))?S : Some (seconds, fraction) and the rest; None when the group does not match *)
Definition opt_seconds (l : list ascii) : option (list ascii * list ascii) * list ascii :=
  let (d, r) := span is_digit l in
  match d, r with
  | _ :: _, c :: r' =>
      if ceq c "S"%char then (Some (d, []), r')
      else if is_dot c then
        let (f, r2) := span is_digit r' in
        match f, r2 with
        | _ :: _, c2 :: r3 => if ceq c2 "S"%char then (Some (d, f), r3) else (None, l)
        | _, _ => (None, l)
        end
      else (None, l)
  | _, _ => (None, l)
  end.

(* microseconds of a fraction digit string, half-even beyond 6 digits *)
Definition frac_us (f : list ascii) : Z :=
  if len f <=? 6 then digits_val f * 10 ^ (6 - len f)
  else rne_div (digits_val f) (10 ^ (len f - 6)).

Definition optval (o : option (list ascii)) : Z := match o with Some d => digits_val d | None => 0 end.
Definition is_some {A} (o : option A) : bool := match o with Some _ => true | None => false end.
Definition sig_len (d : list ascii) : Z := len (lstrip is_zero_char d).

Definition parse_duration_us (s : list ascii) : Z :=
  match s with
  | p :: t :: r0 =>
      if ceq p "P"%char && ceq t "T"%char then
        let (h, r1) := opt_field "H"%char r0 in
        let (m, r2) := opt_field "M"%char r1 in
        let (sf, r3) := opt_seconds r2 in
        let at_end := match r3 with [] => true | [c] => N.eqb (code c) 10 | _ => false end in
        if at_end && (is_some h || is_some m || is_some sf) then
          match sf with
          | Some (d, f) =>
              if (15 <? sig_len d) || (negb (is_nil f) && (5 <? sig_len d)) then D_UNMODELLED
              else
                let total := optval h * 3600000000 + optval m * 60000000 + digits_val d * 1000000 + frac_us f in
                if max_us <=? total then D_OVERFLOW else total
          | None =>
              let total := optval h * 3600000000 + optval m * 60000000 in
              if max_us <=? total then D_OVERFLOW else total
          end
        else D_REJECT
      else D_REJECT
  | _ => D_REJECT
  end.

Definition duration_to_xml (u : Z) : string := str (duration_string_us u).
Definition duration_to_py (s : string) : Z := parse_duration_us (chars s).

(* the lexical space as an explicit regular language (no parser): PT [digits H] [digits M] [digits [. digits] S] [LF],
   at least one field *)
Definition digit_run (d : list ascii) : Prop := d <> [] /\ all_digits d = true.
Definition dur_field (x : ascii) (l : list ascii) : Prop := l = [] \/ exists d, digit_run d /\ l = d ++ [x].
Definition dur_seconds (l : list ascii) : Prop :=
  l = [] \/ (exists d, digit_run d /\ l = d ++ ["S"%char]) \/
  (exists d f, digit_run d /\ digit_run f /\ l = d ++ "."%char :: f ++ ["S"%char]).
Definition dur_lexical (s : list ascii) : Prop :=
  exists fh fm fs nl, s = chars "PT" ++ fh ++ fm ++ fs ++ nl /\
    dur_field "H"%char fh /\ dur_field "M"%char fm /\ dur_seconds fs /\
    (nl = [] \/ nl = [ascii_of_N 10]) /\ fh ++ fm ++ fs <> [].

Definition check_duration (u : Z) : bool := parse_duration_us (duration_string_us u) =? u.

(* ---------------------------------------------------------------- parse_duration, binary64-faithful
   The code computes  timedelta(hours=int, minutes=int, seconds=float('<seconds>.<fraction>')).total_seconds().
     float(str)                : the binary64 nearest to the decimal value (correctly rounded, [rnd53])
     timedelta(seconds=x)      : x is split with modf; floor(x) * 10^6 is added exactly; the fraction is multiplied by
                                 1e6 IN BINARY64 (one rounding) and the product is rounded half-even to an integer
                                 (CPython Modules/_datetimemodule.c: accum() + the leftover_us rounding of delta_new)
     total_seconds()           : microseconds / 10**6 (int / int, correctly rounded)
   So a fraction of ANY length is ROUNDED (half-even, decided on the binary64 value), never truncated and never
   mis-scaled; no part of the lexical space is outside this model. *)
Inductive durf := DfReject | DfOverflow | DfOk (us : Z) (secs : Z * Z).

(* the three groups of the regular expression; None: the string does not match (ValueError) *)
Definition dur_fields (s : list ascii)
  : option (option (list ascii) * option (list ascii) * option (list ascii * list ascii)) :=
  match s with
  | p :: t :: r0 =>
      if ceq p "P"%char && ceq t "T"%char then
        let (h, r1) := opt_field "H"%char r0 in
        let (m, r2) := opt_field "M"%char r1 in
        let (sf, r3) := opt_seconds r2 in
        let fin := match r3 with [] => true | [c] => N.eqb (code c) 10 | _ => false end in
        if fin && (is_some h || is_some m || is_some sf) then Some (h, m, sf) else None
      else None
  | _ => None
  end.

(* float('<d>.<f>'); an absent fraction ([]) is written as ".0" by the code: the same value *)
Definition sec_float (d f : list ascii) : Z * Z := rnd53 (digits_val (d ++ f)) (10 ^ len f).

(* microseconds of timedelta(seconds=x) for a non-negative binary64 x = fst x / snd x *)
Definition td_float_us (x : Z * Z) : Z :=
  let ip := fst x / snd x in
  let p := rnd53 ((fst x mod snd x) * 1000000) (snd x) in
  ip * 1000000 + rne_div (fst p) (snd p).

Definition dur_total_us (h m : option (list ascii)) (sf : option (list ascii * list ascii)) : Z :=
  optval h * 3600000000 + optval m * 60000000 +
  match sf with Some (d, f) => td_float_us (sec_float d f) | None => 0 end.

Definition parse_duration_f (s : list ascii) : durf :=
  match dur_fields s with
  | None => DfReject
  | Some (h, m, sf) =>
      let u := dur_total_us h m sf in
      if max_us <=? u then DfOverflow else DfOk u (rnd53 u 1000000)
  end.

(* the exact value of the lexical form in microseconds, as a fraction (numerator, denominator) *)
Definition dur_exact_us (h m : option (list ascii)) (sf : option (list ascii * list ascii)) : Z * Z :=
  match sf with
  | Some (d, f) => ((optval h * 3600000000 + optval m * 60000000) * 10 ^ len f + digits_val (d ++ f) * 1000000, 10 ^ len f)
  | None => (optval h * 3600000000 + optval m * 60000000, 1)
  end.

(* correspondence: (-1, 1) rejected, (-2, 1) overflow, else the returned binary64 as a fraction *)
Definition duration_to_py_f (s : string) : Z * Z :=
  match parse_duration_f (chars s) with
  | DfReject => (D_REJECT, 1)
  | DfOverflow => (D_OVERFLOW, 1)
  | DfOk _ r => r
  end.
(* ... and the integer microseconds of the timedelta *)
Definition duration_to_py_us (s : string) : Z :=
  match parse_duration_f (chars s) with
  | DfReject => D_REJECT
  | DfOverflow => D_OVERFLOW
  | DfOk u _ => u
  end.
(* boolean twin of the 1 us clause on one string: |r - exact| < 1 us whenever the exact value is at most 2^31 s *)
Definition check_duration_1us (s : list ascii) : bool :=
  match dur_fields s with
  | None => true
  | Some (h, m, sf) =>
      let (N, D) := dur_exact_us h m sf in
      match parse_duration_f s with
      | DfOk _ (a, b) =>
          negb (N <=? 2 ^ 31 * 1000000 * D) ||
          ((- (b * D) <? a * D * 1000000 - N * b) && (a * D * 1000000 - N * b <? b * D))
      | DfOverflow => negb (N <=? 2 ^ 31 * 1000000 * D)
      | DfReject => false
      end
  end.
