(* C18 -- TimestampConverter (src/sdc11073/xml_types/dataconverters.py).

     to_py  xml = int(xml) / 1000            (int / int: correctly rounded binary64 quotient)
     to_xml x   = str(round(x * 1000))       (binary64 product, then round-half-even to an integer)
                  [before the repair: str(int(x * 1000)), truncation]

   binary64 round-to-nearest-even is modelled by an executable function [rnd53] on exact positive
   rationals p/q.  A float is represented by an exact fraction (a, b) with b a power of two
   (what Python's float.as_integer_ratio() returns), so no negative exponents occur anywhere.
   Range restriction of the model: results in the normal range of binary64 (no subnormals, no
   overflow), i.e. 2^-1022 <= p/q < 2^1024; every value that occurs for timestamps is inside.
   Definitions only. *)
From Coq Require Import List ZArith Bool String Ascii.
From SDC Require Import Scalars.Lex.
Import ListNotations.
Open Scope Z_scope.

(* nearest integer to num/den (den > 0), ties to even *)
Definition rne_div (num den : Z) : Z :=
  let q := num / den in
  let r := num mod den in
  if 2 * r <? den then q
  else if den <? 2 * r then q + 1
  else if Z.even q then q else q + 1.

(* The binary64 value nearest to p/q (p >= 0, q > 0), as a fraction (a, b), b = 2^S.
   P = p * 2^S with S = log2 q + 53 makes P/q >= 2^52; t = floor(log2 (P/q)) - 52 >= 0 is the number
   of bits to drop so that the mantissa m = rne(P / (q * 2^t)) has 53 bits; value = m * 2^t / 2^S. *)
Definition rnd53 (p q : Z) : Z * Z :=
  if p =? 0 then (0, 1) else
  let S := Z.log2 q + 53 in
  let P := p * 2 ^ S in
  let t := Z.log2 (P / q) - 52 in
  (rne_div P (q * 2 ^ t) * 2 ^ t, 2 ^ S).

(* mantissa of the rounding, for the 53-bit claim *)
Definition rnd53_mant (p q : Z) : Z :=
  let S := Z.log2 q + 53 in
  let P := p * 2 ^ S in
  let t := Z.log2 (P / q) - 52 in
  rne_div P (q * 2 ^ t).

(* binary exponent of the rounding: rnd53 p q = rnd53_mant p q * 2^(rnd53_exp p q) *)
Definition rnd53_exp (p q : Z) : Z :=
  let S := Z.log2 q + 53 in
  let P := p * 2 ^ S in
  Z.log2 (P / q) - 52 - S.

(* a float given by mantissa and binary exponent, as a fraction *)
Definition fr_of_me (m e : Z) : Z * Z := if e <? 0 then (m, 2 ^ (- e)) else (m * 2 ^ e, 1).

(* int(n) / 1000, n >= 0 *)
Definition ts_to_py (n : Z) : Z * Z := rnd53 n 1000.
(* float * 1000 *)
Definition mul1000 (x : Z * Z) : Z * Z := rnd53 (fst x * 1000) (snd x).
(* round(float) *)
Definition round_fr (y : Z * Z) : Z := rne_div (fst y) (snd y).
(* int(float), non-negative *)
Definition trunc_fr (y : Z * Z) : Z := fst y / snd y.

(* repaired code: str(round(py_value * 1000)) for a float py_value = a/b >= 0 *)
Definition ts_to_xml (x : Z * Z) : Z := round_fr (mul1000 x).
(* the code before the repair: str(int(py_value * 1000)) *)
Definition ts_to_xml_trunc (x : Z * Z) : Z := trunc_fr (mul1000 x).
(* int and Decimal arguments are multiplied exactly: round(Decimal * 1000), int * 1000 *)
Definition ts_to_xml_exact (x : Z * Z) : Z := rne_div (fst x * 1000) (snd x).

(* string level: to_py(xml) with the xsd:integer lexical check; a negative count gives the negated float *)
Definition ts_to_py_str (s : string) : option (Z * Z) :=
  match int_parse (chars s) with
  | None => None
  | Some n => if n <? 0 then let (a, b) := rnd53 (- n) 1000 in Some (- a, b) else Some (rnd53 n 1000)
  end.
Definition ts_to_xml_str (x : Z * Z) : string := str (print_Z (ts_to_xml x)).

(* equality of fractions (the harness passes what float.as_integer_ratio() returned) *)
Definition fr_eqb (x y : Z * Z) : bool := fst x * snd y =? fst y * snd x.

(* checker twins over a window of millisecond counts [lo, lo+len) *)
Fixpoint count_changed (f : Z * Z -> Z) (lo : Z) (len : nat) : Z :=
  match len with
  | O => 0
  | S k => (if f (ts_to_py lo) =? lo then 0 else 1) + count_changed f (lo + 1) k
  end.
