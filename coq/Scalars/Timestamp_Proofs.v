(* C18 -- proofs about the timestamp model: relative error of [rnd53], exactness of
   xml -> py -> xml, sub-millisecond py -> xml -> py. *)
From Coq Require Import List ZArith Bool Lia ZifyBool String QArith Qabs.
From SDC Require Import Scalars.Lex Scalars.Timestamp.
Import ListNotations.
Open Scope Z_scope.

(* ---------------------------------------------------------------- round half even *)
Lemma rne_div_bounds : forall num den, 0 < den ->
  - den <= 2 * (rne_div num den * den - num) <= den.
Proof.
  intros num den Hd. unfold rne_div.
  pose proof (Z.div_mod num den ltac:(lia)) as E.
  pose proof (Z.mod_pos_bound num den Hd) as B.
  set (q := num / den) in *. set (r := num mod den) in *.
  destruct (Z.ltb_spec (2 * r) den); [lia|].
  destruct (Z.ltb_spec den (2 * r)); [lia|].
  destruct (Z.even q); lia.
Qed.

Lemma rne_div_unique : forall num den n, 0 < den ->
  - den < 2 * (n * den - num) < den -> rne_div num den = n.
Proof.
  intros num den n Hd H. unfold rne_div.
  pose proof (Z.div_mod num den ltac:(lia)) as E.
  pose proof (Z.mod_pos_bound num den Hd) as B.
  set (q := num / den) in *. set (r := num mod den) in *.
  assert (K : n = q \/ n = q + 1) by nia.
  destruct (Z.ltb_spec (2 * r) den).
  - destruct K; [lia|]. subst n. nia.
  - destruct K as [K|K]; subst n; [nia|].
    destruct (Z.ltb_spec den (2 * r)); [lia|]. nia.
Qed.

Lemma rne_div_nonneg : forall num den, 0 < den -> 0 <= num -> 0 <= rne_div num den.
Proof. intros num den Hd Hn. pose proof (rne_div_bounds num den Hd). nia. Qed.

(* ---------------------------------------------------------------- binary64 rounding *)
Lemma rnd53_scale : forall p q, 0 < p -> 0 < q ->
  let S := Z.log2 q + 53 in
  let P := p * 2 ^ S in
  let t := Z.log2 (P / q) - 52 in
  0 <= t /\ q * 2 ^ t * 2 ^ 52 <= P < q * 2 ^ t * 2 ^ 53.
Proof.
  intros p q Hp Hq S P t.
  pose proof (Z.log2_nonneg q) as Hl.
  destruct (Z.log2_spec q Hq) as [_ Hq2].
  assert (HS : 0 < 2 ^ S) by (apply Z.pow_pos_nonneg; subst S; lia).
  assert (HPS : 2 ^ S <= P) by (subst P; nia).
  assert (E : 2 ^ S = 2 ^ (Z.succ (Z.log2 q)) * 2 ^ 52).
  { subst S. rewrite <- Z.pow_add_r by lia. f_equal. lia. }
  assert (H52 : 0 < 2 ^ 52) by (apply Z.pow_pos_nonneg; lia).
  assert (HQ0 : 2 ^ 52 <= P / q).
  { apply Z.div_le_lower_bound; [lia|]. nia. }
  assert (HQpos : 0 < P / q) by lia.
  destruct (Z.log2_spec (P / q) HQpos) as [L1 L2].
  assert (Ht : 52 <= Z.log2 (P / q)).
  { replace 52 with (Z.log2 (2 ^ 52)) by (rewrite Z.log2_pow2; lia). apply Z.log2_le_mono. lia. }
  assert (Et : 2 ^ Z.log2 (P / q) = 2 ^ t * 2 ^ 52).
  { subst t. rewrite <- Z.pow_add_r by lia. f_equal. lia. }
  assert (Et' : 2 ^ Z.succ (Z.log2 (P / q)) = 2 ^ t * 2 ^ 53).
  { subst t. rewrite <- Z.pow_add_r by lia. f_equal. lia. }
  assert (Htp : 0 < 2 ^ t) by (apply Z.pow_pos_nonneg; subst t; lia).
  pose proof (Z.mul_div_le P q Hq) as M1.
  pose proof (Z.mul_succ_div_gt P q Hq) as M2.
  split; [subst t; lia|]. rewrite Et in L1. rewrite Et' in L2. split; nia.
Qed.

(* |rnd53 (p/q) - p/q| <= (p/q) * 2^-53, on fractions *)
Lemma rnd53_relerr : forall p q, 0 <= p -> 0 < q ->
  0 < snd (rnd53 p q) /\
  - (p * snd (rnd53 p q)) <= (fst (rnd53 p q) * q - p * snd (rnd53 p q)) * 2 ^ 53 <= p * snd (rnd53 p q).
Proof.
  intros p q Hp Hq. unfold rnd53.
  destruct (Z.eqb_spec p 0) as [->|Hp0]; [simpl; lia|].
  cbv zeta. simpl fst. simpl snd.
  destruct (rnd53_scale p q ltac:(lia) Hq) as [Ht [B1 B2]]. cbv zeta in *.
  set (S := Z.log2 q + 53) in *. set (P := p * 2 ^ S) in *.
  set (t := Z.log2 (P / q) - 52) in *.
  assert (HS : 0 < 2 ^ S) by (apply Z.pow_pos_nonneg; subst S; pose proof (Z.log2_nonneg q); lia).
  assert (Htp : 0 < 2 ^ t) by (apply Z.pow_pos_nonneg; lia).
  assert (HD : 0 < q * 2 ^ t) by nia.
  pose proof (rne_div_bounds P (q * 2 ^ t) HD) as R.
  set (m := rne_div P (q * 2 ^ t)) in *.
  split; [exact HS|].
  replace (m * 2 ^ t * q - p * 2 ^ S) with (m * (q * 2 ^ t) - P) by (subst P; ring).
  fold P. change (2 ^ 53) with (2 * 2 ^ 52). change (2 ^ 53) with (2 * 2 ^ 52) in B2.
  set (D := q * 2 ^ t) in *. set (c := 2 ^ 52) in *.
  assert (0 < c) by (subst c; reflexivity).
  nia.
Qed.

Lemma rnd53_mant_53bit : forall p q, 0 < p -> 0 < q ->
  2 ^ 52 <= rnd53_mant p q <= 2 ^ 53.
Proof.
  intros p q Hp Hq. unfold rnd53_mant.
  destruct (rnd53_scale p q Hp Hq) as [Ht [B1 B2]]. cbv zeta in *.
  set (S := Z.log2 q + 53) in *. set (P := p * 2 ^ S) in *.
  set (t := Z.log2 (P / q) - 52) in *.
  assert (Htp : 0 < 2 ^ t) by (apply Z.pow_pos_nonneg; lia).
  assert (HD : 0 < q * 2 ^ t) by nia.
  pose proof (rne_div_bounds P (q * 2 ^ t) HD) as R.
  set (m := rne_div P (q * 2 ^ t)) in *. set (D := q * 2 ^ t) in *.
  change (2 ^ 52) with 4503599627370496 in *. change (2 ^ 53) with 9007199254740992 in *.
  split; nia.
Qed.

(* ---------------------------------------------------------------- xml -> py -> xml *)
Lemma mul_lt_cancel : forall x y b, 0 < b -> x * b < y * b -> x < y.
Proof. intros. nia. Qed.

Lemma ts_xml_py_xml : forall n, 0 <= n -> n * 1000 < 2 ^ 53 -> ts_to_xml (ts_to_py n) = n.
Proof.
  intros n Hn Hb. unfold ts_to_xml, ts_to_py, mul1000, round_fr.
  destruct (rnd53_relerr n 1000 Hn ltac:(lia)) as [Hb1 H1].
  set (a1 := fst (rnd53 n 1000)) in *. set (b1 := snd (rnd53 n 1000)) in *.
  change (2 ^ 53) with 9007199254740992 in *.
  assert (Ha1 : 0 <= a1 * 1000) by nia.
  destruct (rnd53_relerr (a1 * 1000) b1 Ha1 Hb1) as [Hb2 H2].
  set (a2 := fst (rnd53 (a1 * 1000) b1)) in *. set (b2 := snd (rnd53 (a1 * 1000) b1)) in *.
  change (2 ^ 53) with 9007199254740992 in *.
  apply rne_div_unique; [exact Hb2|].
  (* common denominator b1 * b2: everything becomes linear *)
  assert (HDD : 0 < b1 * b2) by nia.
  set (DD := b1 * b2) in *.
  set (X := n * DD). set (U := a1 * 1000 * b2). set (W := a2 * b1).
  assert (G1 : - X <= (U - X) * 9007199254740992 <= X).
  { subst X U DD. split.
    - replace (- (n * (b1 * b2))) with (- (n * b1) * b2) by ring.
      replace ((a1 * 1000 * b2 - n * (b1 * b2)) * 9007199254740992)
        with ((a1 * 1000 - n * b1) * 9007199254740992 * b2) by ring.
      apply Z.mul_le_mono_nonneg_r; lia.
    - replace (n * (b1 * b2)) with (n * b1 * b2) by ring.
      replace ((a1 * 1000 * b2 - n * b1 * b2) * 9007199254740992)
        with ((a1 * 1000 - n * b1) * 9007199254740992 * b2) by ring.
      apply Z.mul_le_mono_nonneg_r; lia. }
  assert (G2 : - U <= (W - U) * 9007199254740992 <= U) by (subst U W; lia).
  assert (G3 : X * 1000 < 9007199254740992 * DD) by (subst X; nia).
  assert (G0 : 0 <= X) by (subst X; nia).
  assert (G : - DD < 2 * (X - W) < DD) by lia.
  subst X W DD. split.
  - apply (mul_lt_cancel _ _ b1 Hb1). nia.
  - apply (mul_lt_cancel _ _ b1 Hb1). nia.
Qed.

(* ---------------------------------------------------------------- py -> xml -> py *)
Lemma ts_to_xml_nonneg : forall a b, 0 <= a -> 0 < b -> 0 <= ts_to_xml (a, b).
Proof.
  intros a b Ha Hb. unfold ts_to_xml, mul1000, round_fr. simpl fst. simpl snd.
  destruct (rnd53_relerr (a * 1000) b ltac:(lia) Hb) as [Hb2 H2].
  change (2 ^ 53) with 9007199254740992 in *.
  apply rne_div_nonneg; [exact Hb2|]. nia.
Qed.

(* x = a/b >= 0 with 1000 x <= 2^50;  x' = to_py (to_xml x) = a3/b3;  |x' - x| < 1/1000 *)
Lemma ts_py_xml_py : forall a b, 0 <= a -> 0 < b -> a * 1000 <= 2 ^ 50 * b ->
  let x' := ts_to_py (ts_to_xml (a, b)) in
  0 < snd x' /\ - (b * snd x') < (fst x' * b - a * snd x') * 1000 < b * snd x'.
Proof.
  intros a b Ha Hb Hr x'. subst x'.
  pose proof (ts_to_xml_nonneg a b Ha Hb) as HN.
  unfold ts_to_py. unfold ts_to_xml, mul1000, round_fr in *. simpl fst in *. simpl snd in *.
  destruct (rnd53_relerr (a * 1000) b ltac:(lia) Hb) as [Hb2 H2].
  set (a2 := fst (rnd53 (a * 1000) b)) in *. set (b2 := snd (rnd53 (a * 1000) b)) in *.
  pose proof (rne_div_bounds a2 b2 Hb2) as HR.
  set (N := rne_div a2 b2) in *.
  destruct (rnd53_relerr N 1000 HN ltac:(lia)) as [Hb3 H3].
  set (a3 := fst (rnd53 N 1000)) in *. set (b3 := snd (rnd53 N 1000)) in *.
  change (2 ^ 53) with 9007199254740992 in *. change (2 ^ 50) with 1125899906842624 in *.
  split; [exact Hb3|].
  (* common denominator D = b * b2 * b3 *)
  assert (HD : 0 < b * b2 * b3) by nia.
  set (D := b * b2 * b3) in *.
  set (V := a * 1000 * b2 * b3). set (U := a2 * b * b3). set (NN := N * D). set (W := a3 * 1000 * b * b2).
  assert (HV : 0 <= V) by (subst V; nia).
  assert (G0 : V <= 1125899906842624 * D).
  { subst V D. replace (a * 1000 * b2 * b3) with (a * 1000 * (b2 * b3)) by ring.
    replace (1125899906842624 * (b * b2 * b3)) with (1125899906842624 * b * (b2 * b3)) by ring.
    apply Z.mul_le_mono_nonneg_r; nia. }
  assert (G1 : - V <= (U - V) * 9007199254740992 <= V).
  { subst U V. split.
    - replace (- (a * 1000 * b2 * b3)) with (- (a * 1000 * b2) * b3) by ring.
      replace ((a2 * b * b3 - a * 1000 * b2 * b3) * 9007199254740992)
        with ((a2 * b - a * 1000 * b2) * 9007199254740992 * b3) by ring.
      apply Z.mul_le_mono_nonneg_r; lia.
    - replace ((a2 * b * b3 - a * 1000 * b2 * b3) * 9007199254740992)
        with ((a2 * b - a * 1000 * b2) * 9007199254740992 * b3) by ring.
      replace (a * 1000 * b2 * b3) with (a * 1000 * b2 * b3) by ring.
      apply Z.mul_le_mono_nonneg_r; lia. }
  assert (Hbb3 : 0 < b * b3) by nia.
  assert (G2 : - D <= 2 * (NN - U) <= D).
  { subst NN U D. split.
    - replace (- (b * b2 * b3)) with (- b2 * (b * b3)) by ring.
      replace (2 * (N * (b * b2 * b3) - a2 * b * b3)) with (2 * (N * b2 - a2) * (b * b3)) by ring.
      apply Z.mul_le_mono_nonneg_r; lia.
    - replace (b * b2 * b3) with (b2 * (b * b3)) by ring.
      replace (2 * (N * (b2 * (b * b3)) - a2 * b * b3)) with (2 * (N * b2 - a2) * (b * b3)) by ring.
      apply Z.mul_le_mono_nonneg_r; lia. }
  assert (Hbb2 : 0 < b * b2) by nia.
  assert (G3 : - NN <= (W - NN) * 9007199254740992 <= NN).
  { subst NN W D. split.
    - replace (- (N * (b * b2 * b3))) with (- (N * b3) * (b * b2)) by ring.
      replace ((a3 * 1000 * b * b2 - N * (b * b2 * b3)) * 9007199254740992)
        with ((a3 * 1000 - N * b3) * 9007199254740992 * (b * b2)) by ring.
      apply Z.mul_le_mono_nonneg_r; lia.
    - replace (N * (b * b2 * b3)) with (N * b3 * (b * b2)) by ring.
      replace ((a3 * 1000 * b * b2 - N * b3 * (b * b2)) * 9007199254740992)
        with ((a3 * 1000 - N * b3) * 9007199254740992 * (b * b2)) by ring.
      apply Z.mul_le_mono_nonneg_r; lia. }
  assert (G : - D < W - V < D) by lia.
  subst W V D. split.
  - apply (mul_lt_cancel _ _ b2 Hb2). nia.
  - apply (mul_lt_cancel _ _ b2 Hb2). nia.
Qed.

(* the same statement with rational values: |x' - x| < 1/1000 *)
Definition frQ (x : Z * Z) : Q := Qmake (fst x) (Z.to_pos (snd x)).

Lemma ts_py_xml_py_Q : forall a b, 0 <= a -> 0 < b -> a * 1000 <= 2 ^ 50 * b ->
  (Qabs (frQ (ts_to_py (ts_to_xml (a, b))) - frQ (a, b)) < 1 # 1000)%Q.
Proof.
  intros a b Ha Hb Hr. destruct (ts_py_xml_py a b Ha Hb Hr) as [Hb3 [L U]].
  set (x' := ts_to_py (ts_to_xml (a, b))) in *.
  unfold frQ, Qminus, Qplus, Qopp, Qabs, Qlt. simpl.
  rewrite Pos2Z.inj_mul, !Z2Pos.id by assumption.
  clearbody x'. set (p := fst x') in *. set (q := snd x') in *. clearbody p q.
  destruct (Z.abs_spec (p * b + - a * q)) as [[_ ->]|[_ ->]]; lia.
Qed.

(* ---------------------------------------------------------------- the code before the repair *)
Lemma ts_trunc_refuted : exists n, 0 <= n /\ n * 1000 < 2 ^ 53 /\ ts_to_xml_trunc (ts_to_py n) <> n.
Proof. exists 1001. vm_compute. repeat split; congruence. Qed.
