(* C18 -- the float path of DecimalConverter.to_xml never writes exponent notation. *)
From Coq Require Import List ZArith Bool Lia ZifyBool String Ascii.
From SDC Require Import Scalars.Lex Scalars.Lex_Proofs Scalars.Timestamp Scalars.Timestamp_Proofs
  Scalars.Decimal Scalars.Decimal_Proofs Scalars.DecimalFloat.
Import ListNotations.
Open Scope Z_scope.

Lemma forallb_app' : forall (p : ascii -> bool) a b, forallb p (a ++ b) = forallb p a && forallb p b.
Proof. intros. apply forallb_app. Qed.

Lemma digits_plain : forall l, all_digits l = true -> forallb plain_char l = true.
Proof. intros l H. unfold all_digits in H. eapply forallb_imp; [|exact H]. intros c Hc. now apply digit_plain. Qed.

Lemma rnd53_fst_nonneg' : forall p q, 0 <= p -> 0 < q -> 0 <= fst (rnd53 p q).
Proof.
  intros p q Hp Hq. destruct (rnd53_relerr p q Hp Hq) as [Hb H].
  set (a := fst (rnd53 p q)) in *. set (b := snd (rnd53 p q)) in *. clearbody a b.
  change (2 ^ 53) with 9007199254740992 in H. nia.
Qed.

Lemma pow10_pos' : forall n, 0 <= n -> 0 < 10 ^ n.
Proof. intros. apply Z.pow_pos_nonneg; lia. Qed.

Lemma fdigits_range : forall a b, 1 <= fdigits a b <= 3.
Proof. intros. unfold fdigits. destruct (100 * b <=? a); [lia|]. destruct (10 * b <=? a); lia. Qed.

Lemma float_units_nonneg : forall a b, 0 <= a -> 0 < b -> 0 <= float_units a b.
Proof.
  intros a b Ha Hb. unfold float_units, format_nf, round_nd.
  pose proof (fdigits_range a b) as R. set (n := fdigits a b) in *.
  pose proof (pow10_pos' n ltac:(lia)) as P.
  assert (K : 0 <= rne_div (a * 10 ^ n) b) by (apply rne_div_nonneg; nia).
  pose proof (rnd53_fst_nonneg' _ _ K P) as F.
  destruct (rnd53_relerr _ _ K P) as [S _].
  apply rne_div_nonneg; [exact S|nia].
Qed.

Lemma float_format_plain : forall neg a b, 0 <= a -> 0 < b -> forallb plain_char (float_format_l neg a b) = true.
Proof.
  intros neg a b Ha Hb. unfold float_format_l. fold (float_units a b).
  pose proof (float_units_nonneg a b Ha Hb) as K. set (k := float_units a b) in *.
  pose proof (fdigits_range a b) as R. set (n := fdigits a b) in *.
  pose proof (pow10_pos' n ltac:(lia)) as P.
  rewrite forallb_app'. apply andb_true_intro. split; [destruct neg; reflexivity|].
  rewrite forallb_app'. apply andb_true_intro. split.
  - apply digits_plain. apply digits_of_spec. apply Z.div_pos; lia.
  - cbn [forallb]. apply andb_true_intro. split; [reflexivity|].
    unfold padn. rewrite forallb_app'. apply andb_true_intro. split.
    + apply digits_plain. apply all_digits_zeros.
    + apply digits_plain. apply digits_of_spec. apply Z.mod_pos_bound. lia.
Qed.

(* only digits, '.' and '-' are written: no 'e', no '+', no 'inf' / 'nan' *)
Lemma float_no_exponent : forall neg a b, 0 <= a -> 0 < b -> forallb plain_char (float_to_xml_l neg a b) = true.
Proof. intros. unfold float_to_xml_l. apply surgery_plain. now apply float_format_plain. Qed.

(* the documented rounding: what is printed (before trailing zeros are removed) is within half a unit of the n-th
   digit of round(x, n), which is within half a unit of x; y = round(x, n) is the binary64 nearest to a decimal *)
Lemma float_units_of_round : forall a b, 0 <= a -> 0 < b ->
  let n := fdigits a b in let y := round_nd a b n in
  0 < snd y /\ - snd y <= 2 * (float_units a b * snd y - fst y * 10 ^ n) <= snd y.
Proof.
  intros a b Ha Hb n y. subst n y. unfold float_units, format_nf.
  pose proof (fdigits_range a b) as R. set (n := fdigits a b) in *.
  pose proof (pow10_pos' n ltac:(lia)) as P. unfold round_nd.
  assert (K : 0 <= rne_div (a * 10 ^ n) b) by (apply rne_div_nonneg; nia).
  destruct (rnd53_relerr _ _ K P) as [S _].
  split; [exact S|]. apply rne_div_bounds. exact S.
Qed.
