(* C18 -- lemmas about digit strings, integer printing / parsing, booleans and enumerations. *)
From Coq Require Import List ZArith NArith Bool Lia ZifyBool Ascii String.
From SDC Require Import Scalars.Lex.
Import ListNotations.
Open Scope Z_scope.

(* ---------------------------------------------------------------- strings <-> char lists *)
Lemma chars_str : forall l, chars (str l) = l.
Proof. exact list_ascii_of_string_of_list_ascii. Qed.
Lemma str_chars : forall s, str (chars s) = s.
Proof. exact string_of_list_ascii_of_string. Qed.

Lemma ceq_eq : forall a b, ceq a b = true <-> a = b.
Proof.
  intros a b. unfold ceq, code. rewrite N.eqb_eq. split; [|now intros ->].
  intros H. rewrite <- (ascii_N_embedding a), <- (ascii_N_embedding b). now rewrite H.
Qed.
Lemma ceq_refl : forall a, ceq a a = true.
Proof. intros. now apply ceq_eq. Qed.

Lemma list_ceq_eq : forall a b, list_ceq a b = true <-> a = b.
Proof.
  induction a as [|x a IH]; intros [|y b]; simpl; split; try congruence; try discriminate.
  - intros H. apply andb_prop in H as [H1 H2]. apply ceq_eq in H1. apply IH in H2. congruence.
  - intros [= -> ->]. rewrite ceq_refl. simpl. now apply IH.
Qed.

(* ---------------------------------------------------------------- span / lstrip *)
Lemma span_spec : forall p l a b, span p l = (a, b) ->
  l = a ++ b /\ forallb p a = true /\ (b = [] \/ exists c b', b = c :: b' /\ p c = false).
Proof.
  induction l as [|c r IH]; simpl; intros a b H.
  - inversion H. auto.
  - destruct (p c) eqn:E.
    + destruct (span p r) as [a' b'] eqn:S. inversion H; subst. destruct (IH a' b eq_refl) as [-> [F T]].
      simpl. rewrite E, F. auto.
    + inversion H; subst. simpl. split; [reflexivity|]. split; [reflexivity|]. right. eauto.
Qed.

Lemma span_exact : forall p a r, forallb p a = true ->
  (r = [] \/ exists c r', r = c :: r' /\ p c = false) -> span p (a ++ r) = (a, r).
Proof.
  induction a as [|x a IH]; simpl; intros r F T.
  - destruct T as [->|[c [r' [-> E]]]]; simpl; [reflexivity|]. now rewrite E.
  - apply andb_prop in F as [F1 F2]. rewrite F1, (IH r F2 T). reflexivity.
Qed.

Lemma lstrip_spec : forall p l, exists a, l = a ++ lstrip p l /\ forallb p a = true /\
  (lstrip p l = [] \/ exists c r, lstrip p l = c :: r /\ p c = false).
Proof.
  induction l as [|c r IH]; simpl.
  - exists []. auto.
  - destruct (p c) eqn:E.
    + destruct IH as [a [H1 [H2 H3]]]. exists (c :: a). simpl. rewrite E, H2. split; [congruence|auto].
    + exists []. simpl. split; [reflexivity|]. split; [reflexivity|]. right. eauto.
Qed.

Lemma lstrip_exact : forall p a r, forallb p a = true ->
  (r = [] \/ exists c r', r = c :: r' /\ p c = false) -> lstrip p (a ++ r) = r.
Proof.
  induction a as [|x a IH]; simpl; intros r F T.
  - destruct T as [->|[c [r' [-> E]]]]; simpl; [reflexivity|]. now rewrite E.
  - apply andb_prop in F as [F1 F2]. rewrite F1. now apply IH.
Qed.

(* ---------------------------------------------------------------- digit values *)
Lemma digits_val_acc : forall l acc,
  fold_left (fun a c => a * 10 + digit_val c) l acc = acc * 10 ^ Z.of_nat (List.length l) + digits_val l.
Proof.
  unfold digits_val. induction l as [|c l IH]; intros acc.
  - simpl. lia.
  - cbn [fold_left List.length]. rewrite IH. rewrite (IH (0 * 10 + digit_val c)).
    rewrite Nat2Z.inj_succ, Z.pow_succ_r by lia. ring.
Qed.

Lemma digits_val_app : forall a b,
  digits_val (a ++ b) = digits_val a * 10 ^ Z.of_nat (List.length b) + digits_val b.
Proof. intros a b. unfold digits_val at 1. rewrite fold_left_app. fold (digits_val a). apply digits_val_acc. Qed.

Lemma digits_val_snoc : forall l c, digits_val (l ++ [c]) = digits_val l * 10 + digit_val c.
Proof. intros. rewrite digits_val_app. simpl. unfold digits_val at 2. simpl. lia. Qed.

Lemma digits_val_cons : forall c l,
  digits_val (c :: l) = digit_val c * 10 ^ Z.of_nat (List.length l) + digits_val l.
Proof. intros. change (c :: l) with ([c] ++ l). rewrite digits_val_app. unfold digits_val at 1. simpl. lia. Qed.

Lemma digit_val_range : forall c, is_digit c = true -> 0 <= digit_val c <= 9.
Proof. intros c H. unfold is_digit, digit_val in *. lia. Qed.

Lemma digits_val_nonneg : forall l, all_digits l = true -> 0 <= digits_val l.
Proof.
  induction l as [|c l IH] using rev_ind; intros H; [unfold digits_val; simpl; lia|].
  unfold all_digits in *. rewrite forallb_app in H. apply andb_prop in H as [H1 H2]. simpl in H2.
  rewrite digits_val_snoc. pose proof (digit_val_range c). specialize (IH H1). lia.
Qed.

Lemma digits_val_zero_cons : forall l, digits_val ("0"%char :: l) = digits_val l.
Proof. intros. rewrite digits_val_cons. change (digit_val "0") with 0. lia. Qed.

Lemma digits_val_lstrip0 : forall l, digits_val (lstrip is_zero_char l) = digits_val l.
Proof.
  induction l as [|c l IH]; simpl; [reflexivity|].
  destruct (is_zero_char c) eqn:E; [|reflexivity].
  unfold is_zero_char in E. apply ceq_eq in E. subst c. now rewrite digits_val_zero_cons.
Qed.

Lemma digits_val_repeat0 : forall k, digits_val (repeat "0"%char k) = 0.
Proof. induction k; simpl; [reflexivity|]. now rewrite digits_val_zero_cons. Qed.

Lemma digit_char_spec : forall d, 0 <= d < 10 -> is_digit (digit_char d) = true /\ digit_val (digit_char d) = d.
Proof.
  intros d H.
  assert (C : d = 0 \/ d = 1 \/ d = 2 \/ d = 3 \/ d = 4 \/ d = 5 \/ d = 6 \/ d = 7 \/ d = 8 \/ d = 9) by lia.
  repeat (destruct C as [->|C]; [split; reflexivity|]). subst d. split; reflexivity.
Qed.

(* ---------------------------------------------------------------- str(int) *)
Lemma digits_fuel_spec : forall fuel n, 0 <= n < 2 ^ (Z.of_nat fuel + 1) ->
  all_digits (digits_fuel fuel n) = true /\ digits_fuel fuel n <> [] /\ digits_val (digits_fuel fuel n) = n.
Proof.
  induction fuel as [|f IH]; intros n H.
  - simpl in *. change (2 ^ 1) with 2 in H. destruct (digit_char_spec n ltac:(lia)) as [D V].
    unfold all_digits. simpl. rewrite D. repeat split; try discriminate.
    unfold digits_val. simpl. lia.
  - cbn [digits_fuel]. destruct (Z.ltb_spec n 10) as [L|L].
    + destruct (digit_char_spec n ltac:(lia)) as [D V].
      unfold all_digits. simpl. rewrite D. repeat split; try discriminate. unfold digits_val. simpl. lia.
    + assert (Hq : 0 <= n / 10 < 2 ^ (Z.of_nat f + 1)).
      { split; [apply Z.div_pos; lia|]. apply Z.div_lt_upper_bound; [lia|].
        rewrite Nat2Z.inj_succ in H. replace (Z.succ (Z.of_nat f) + 1) with (Z.succ (Z.of_nat f + 1)) in H by lia.
        rewrite Z.pow_succ_r in H by lia. lia. }
      destruct (IH _ Hq) as [A [B C]].
      pose proof (Z.mod_pos_bound n 10 ltac:(lia)) as M.
      destruct (digit_char_spec (n mod 10) M) as [D V].
      split; [|split].
      * unfold all_digits in *. rewrite forallb_app, A. simpl. now rewrite D.
      * intros E. apply app_eq_nil in E as [_ E]. discriminate.
      * rewrite digits_val_snoc, C, V. pose proof (Z.div_mod n 10 ltac:(lia)). lia.
Qed.

Lemma digits_of_spec : forall n, 0 <= n ->
  all_digits (digits_of n) = true /\ digits_of n <> [] /\ digits_val (digits_of n) = n.
Proof.
  intros n Hn. unfold digits_of. apply digits_fuel_spec. split; [lia|].
  destruct (Z.eq_dec n 0) as [->|N0]; [simpl; lia|].
  rewrite Z2Nat.id by apply Z.log2_nonneg.
  replace (Z.log2 n + 1) with (Z.succ (Z.log2 n)) by lia. apply Z.log2_spec. lia.
Qed.

(* a number below 10^k prints with at most k digits (k >= 1) *)
Lemma digits_fuel_length : forall fuel n k, 0 <= n < 10 ^ Z.of_nat (S k) ->
  (List.length (digits_fuel fuel n) <= S k)%nat.
Proof.
  induction fuel as [|f IH]; intros n k H; [simpl; lia|].
  cbn [digits_fuel]. destruct (Z.ltb_spec n 10) as [L|L]; [simpl; lia|].
  destruct k as [|k]; [change (10 ^ Z.of_nat 1) with 10 in H; lia|].
  rewrite app_length. simpl List.length.
  assert (Hq : 0 <= n / 10 < 10 ^ Z.of_nat (S k)).
  { split; [apply Z.div_pos; lia|]. apply Z.div_lt_upper_bound; [lia|].
    rewrite (Nat2Z.inj_succ (S k)), Z.pow_succ_r in H by lia. lia. }
  specialize (IH _ _ Hq). lia.
Qed.

Lemma digits_of_length : forall n k, 0 <= n < 10 ^ Z.of_nat (S k) -> (List.length (digits_of n) <= S k)%nat.
Proof. intros. now apply digits_fuel_length. Qed.

(* no leading zero *)
Lemma digits_fuel_head : forall fuel n, 0 < n < 2 ^ (Z.of_nat fuel + 1) ->
  exists c r, digits_fuel fuel n = c :: r /\ is_zero_char c = false.
Proof.
  induction fuel as [|f IH]; intros n H.
  - simpl in *. change (2 ^ 1) with 2 in H. assert (n = 1) by lia. subst. eexists _, _. split; reflexivity.
  - cbn [digits_fuel]. destruct (Z.ltb_spec n 10) as [L|L].
    + assert (C : n = 1 \/ n = 2 \/ n = 3 \/ n = 4 \/ n = 5 \/ n = 6 \/ n = 7 \/ n = 8 \/ n = 9) by lia.
      repeat (destruct C as [->|C]; [eexists _, _; split; reflexivity|]). subst. eexists _, _; split; reflexivity.
    + assert (Hq : 0 < n / 10 < 2 ^ (Z.of_nat f + 1)).
      { split; [apply Z.div_str_pos; lia|]. apply Z.div_lt_upper_bound; [lia|].
        rewrite Nat2Z.inj_succ in H. replace (Z.succ (Z.of_nat f) + 1) with (Z.succ (Z.of_nat f + 1)) in H by lia.
        rewrite Z.pow_succ_r in H by lia. lia. }
      destruct (IH _ Hq) as [c [r [E Z0]]]. rewrite E. simpl. eauto.
Qed.

Lemma digits_of_head : forall n, 0 < n -> exists c r, digits_of n = c :: r /\ is_zero_char c = false.
Proof.
  intros n Hn. unfold digits_of. apply digits_fuel_head. split; [lia|].
  rewrite Z2Nat.id by apply Z.log2_nonneg.
  replace (Z.log2 n + 1) with (Z.succ (Z.log2 n)) by lia. apply Z.log2_spec. lia.
Qed.

(* ---------------------------------------------------------------- xsd:integer *)
Lemma is_digit_not_ws : forall c, is_digit c = true -> is_ws c = false.
Proof. intros c. unfold is_digit, is_ws. lia. Qed.

Lemma int_parse_digits : forall ds, ds <> [] -> all_digits ds = true -> int_parse ds = Some (digits_val ds).
Proof.
  intros ds N D. unfold int_parse.
  destruct ds as [|c r]; [congruence|].
  assert (Dc : is_digit c = true) by (unfold all_digits in D; simpl in D; lia).
  assert (W : lstrip is_ws (c :: r) = c :: r) by (simpl; now rewrite is_digit_not_ws).
  rewrite W. unfold take_sign.
  assert (ceq c "-" = false /\ ceq c "+" = false) as [E1 E2].
  { unfold ceq, is_digit in *. change (code "-") with 45%N. change (code "+") with 43%N. lia. }
  rewrite E1, E2.
  replace (c :: r) with ((c :: r) ++ []) by apply app_nil_r.
  rewrite (span_exact is_digit (c :: r) [] D (or_introl eq_refl)). simpl. rewrite ?app_nil_r. reflexivity.
Qed.

(* py -> xml -> py is the identity on all integers *)
Lemma int_print_parse : forall n, int_parse (print_Z n) = Some n.
Proof.
  intros n. unfold print_Z. destruct (Z.ltb_spec n 0) as [L|L].
  - destruct (digits_of_spec (- n) ltac:(lia)) as [A [B C]].
    unfold int_parse. cbn [lstrip]. change (is_ws "-") with false. cbv iota.
    unfold take_sign. change (ceq "-" "-") with true. cbv iota.
    replace (digits_of (- n)) with (digits_of (- n) ++ []) by apply app_nil_r.
    rewrite (span_exact is_digit _ [] A (or_introl eq_refl)). rewrite ?app_nil_r.
    destruct (digits_of (- n)) eqn:E; [congruence|]. simpl all_ws. cbv iota. f_equal. lia.
  - destruct (digits_of_spec n L) as [A [B C]]. rewrite int_parse_digits by assumption. now rewrite C.
Qed.

(* whatever the parser accepts lies in the lexical space  ws* [+-]? digit+ ws*  and denotes the returned value *)
Definition int_lexical (s : list ascii) (v : Z) : Prop :=
  exists w1 sg ds w2, s = w1 ++ sg ++ ds ++ w2 /\ all_ws w1 = true /\ all_ws w2 = true /\
    ds <> [] /\ all_digits ds = true /\
    ((sg = [] /\ v = digits_val ds) \/ (sg = ["+"%char] /\ v = digits_val ds) \/ (sg = ["-"%char] /\ v = - digits_val ds)).

Lemma int_parse_lexical : forall s v, int_parse s = Some v -> int_lexical s v.
Proof.
  intros s v H. unfold int_parse in H.
  destruct (lstrip_spec is_ws s) as [w1 [E1 [W1 _]]].
  destruct (take_sign (lstrip is_ws s)) as [neg r1] eqn:TS.
  destruct (span is_digit r1) as [ds r2] eqn:SP.
  destruct (span_spec _ _ _ _ SP) as [E2 [D _]].
  destruct ds as [|d0 ds']; [discriminate|].
  destruct (all_ws r2) eqn:W2; [|discriminate].
  inversion H; subst v; clear H.
  unfold take_sign in TS.
  destruct (lstrip is_ws s) as [|c r] eqn:L.
  - inversion TS; subst. discriminate.
  - destruct (ceq c "-") eqn:C1; [|destruct (ceq c "+") eqn:C2].
    + inversion TS; subst. apply ceq_eq in C1. subst c.
      exists w1, ["-"%char], (d0 :: ds'), r2. repeat split; auto; try discriminate;
        try (rewrite E1; now rewrite <- app_assoc); tauto.
    + inversion TS; subst. apply ceq_eq in C2. subst c.
      exists w1, ["+"%char], (d0 :: ds'), r2. repeat split; auto; try discriminate;
        try (rewrite E1; now rewrite <- app_assoc); tauto.
    + inversion TS; subst. exists w1, [], (d0 :: ds'), r2. repeat split; auto; try discriminate;
        try (simpl; now rewrite H1); tauto.
Qed.

(* ---------------------------------------------------------------- xsd:boolean *)
Lemma bool_to_py_on_lexical : forall s, bool_lexical s = true -> bool_denotes s (bool_to_py s).
Proof.
  intros s H. unfold bool_lexical, bool_to_py, bool_denotes in *.
  repeat (apply orb_prop in H as [H|H]); apply list_ceq_eq in H;
    apply (f_equal str) in H; rewrite !str_chars in H; subst s; vm_compute; intuition.
Qed.

Lemma bool_xml_py_xml_canonical : forall b, bool_to_py (bool_to_xml b) = b.
Proof. destruct b; reflexivity. Qed.

Lemma bool_rejects_refuted : exists s, bool_lexical s = false /\ bool_to_py s = false.
Proof. exists "foo"%string. split; reflexivity. Qed.

(* ---------------------------------------------------------------- enumerations *)
Lemma str_mem_In : forall s lits, str_mem s lits = true <-> In s lits.
Proof.
  induction lits as [|l r IH]; simpl; [split; [discriminate|tauto]|].
  rewrite orb_true_iff, IH, list_ceq_eq. split; intros [H|H]; auto.
Qed.

Lemma enum_accepts_iff : forall lits s, (exists v, enum_to_py lits s = Some v) <-> In s lits.
Proof.
  intros lits s. unfold enum_to_py. destruct (str_mem (chars s) (map chars lits)) eqn:E.
  - apply str_mem_In in E. apply in_map_iff in E as [x [E I]].
    apply (f_equal str) in E. rewrite !str_chars in E. subst x. split; eauto.
  - split; [intros [v H]; discriminate|]. intros I. exfalso.
    assert (str_mem (chars s) (map chars lits) = true) by (apply str_mem_In, in_map, I). congruence.
Qed.

Lemma enum_roundtrip : forall lits s v, enum_to_py lits s = Some v -> v = s.
Proof. intros lits s v. unfold enum_to_py. destruct (str_mem _ _); congruence. Qed.
