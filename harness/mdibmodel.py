"""Translate implementation traces of the MDIB history streams into Coq literals for the provider model
(coq/Mdib/Model.v, Run.v): the same history as a list of model transactions, and the observed deltas."""
from __future__ import annotations

from mdibgen import TX_OF_TYPE, Tables

KIND = {'metric': 0, 'metric_str': 0, 'alert': 1, 'comp': 2, 'op': 3, 'rt': 4, 'ctx': 5}
TXK = {'metric': 0, 'alert': 1, 'comp': 2, 'op': 3, 'rt': 4, 'ctx': 5}
ASSOC = {None: 0, 'No': 0, 'Pre': 1, 'Assoc': 2, 'Dis': 3}
CODE = {'ok': 0, 'KeyError': 1, 'ValueError': 2, 'ApiUsageError': 3, 'Abort': 4}


class Interner:
    def __init__(self):
        self.handles: dict[str, int] = {}
        self.pay: dict[str, int] = {}

    def h(self, s):
        if s is None:
            return None
        s = str(s)
        if s not in self.handles:
            self.handles[s] = len(self.handles) + 1
        return self.handles[s]

    def p(self, s):
        if s not in self.pay:
            self.pay[s] = len(self.pay) + 1
        return self.pay[s]


def oz(x):
    return 'None' if x is None else f'(Some ({x}))'


def zz(x):
    return f'({x})' if x is not None else '(-1)'


class Translator:
    def __init__(self, inventories):
        self.it = Interner()
        self.inv = inventories
        self.kind_of = {}
        for inv in inventories.values():
            for k, num in KIND.items():
                for h in inv[k]:
                    self.kind_of[h] = num
            for h, t in inv['types'].items():
                self.kind_of.setdefault(h, 2)
        self.init_defs = {}

    # ------------------------------------------------------------------ records
    def kind(self, handle, nodetype=None):
        if handle in self.kind_of:
            return self.kind_of[handle]
        if nodetype and nodetype in TX_OF_TYPE:
            return TXK[TX_OF_TYPE[nodetype]]
        return 2

    def enc_d(self, x):
        return [zz(self.it.h(x[1])), self.kind(x[0], x[2]), x[3], self.it.p(x[4])]

    def enc_s(self, x):
        return [x[3], x[2], self.it.p(x[4])]

    def enc_c(self, x):
        return [self.it.h(x[1]), x[3], x[2], ASSOC.get(x[4], 9), zz(x[5]), zz(x[6]), self.it.p(x[7])]

    def init_literal(self, name, snap):
        ds = '; '.join(f'({self.it.h(x[0])}, mkDescr {oz(self.it.h(x[1]))} {self.kind(x[0], x[2])} {x[3]} {self.it.p(x[4])})'
                       for x in snap['descrs'])
        ss = '; '.join(f'({self.it.h(x[0])}, mkState {x[3]} {x[2]} {self.it.p(x[4])})' for x in snap['states'])
        cs = '; '.join(f'({self.it.h(x[0])}, mkCState {self.it.h(x[1])} {x[3]} {x[2]} {ASSOC.get(x[4], 9)} {oz(x[5])} {oz(x[6])} {self.it.p(x[7])})'
                       for x in snap['cstates'])
        sv = snap.get('saved') or {}
        if any(sv.get(k) for k in ('d', 's', 'c')):
            # the history starts after transactions that removed something (commits during the consumer's first load)
            tabs = ' '.join('([' + '; '.join(f'({self.it.h(e[0])}, {e[1]})' for e in sv.get(k, [])) + '] : list (H * Z))'
                            for k in ('d', 's', 'c'))
            return f'Definition {name} : mdib := mk_mdib_sv [{ds}] [{ss}] [{cs}] {snap["ver"]} {tabs}.'
        return f'Definition {name} : mdib := mk_mdib [{ds}] [{ss}] [{cs}] {snap["ver"]}.'

    # ------------------------------------------------------------------ one case
    def case(self, case, result):
        """returns (init_name, init_def, universe literal, history literal, expected literal)"""
        snap = result['init']['prov']
        import hashlib, json
        core = {k: snap[k] for k in ('descrs', 'states', 'cstates', 'ver')}
        core['saved'] = snap.get('saved')
        name = 'init_' + hashlib.sha1(json.dumps(core, sort_keys=True).encode()).hexdigest()[:10]
        if name not in self.init_defs:
            self.init_defs[name] = self.init_literal(name, snap)
        tb = Tables(snap)
        hist, exp = [], []
        base_kinds = dict(self.kind_of)      # generated handles are local to a case
        for op, st in zip(case['ops'], result['trace']):
            d = st['prov']
            new = {t: {str(x[0]): x for x in d[t]['set']} for t in ('descrs', 'states', 'cstates')}
            created_c = [h for h in new['cstates'] if h not in tb.t['cstates']]

            def pay(table, handle, pos):
                x = new[table].get(str(handle))
                return self.it.p(x[pos]) if x else 0

            acts = []
            k = 6
            # an application exception after i body statements: exactly the first i statements are executed.  One
            # statement can be several model actions, so the executed prefix is translated and the model aborts
            # after all of it.
            ab = op.get('abort_at')
            entity = op.get('iface') == 'entity'
            # statements that have no effect on the transaction: a rejected call that the application caught inside
            # the body (the rejected call itself leaves nothing behind), a get_state that was taken back (unget_state)
            gone = {c[0] for c in st.get('caught') or []}
            ug = op.get('unget')
            gone |= set([ug] if isinstance(ug, int) else (ug or []))

            def live(seq):
                return [x for i, x in enumerate(seq) if i not in gone]
            if op['k'] == 'read':
                k = 0          # entities.by_handle outside any transaction: nothing happens
            elif op['k'] == 'state':
                k = TXK[op['tx']]
                seen = set()
                for h, _n, *_slot in live(op['items'] if ab is None else op['items'][:ab]):
                    if entity and h in seen:
                        # StateTransactionBase.write_entity does not refuse a second write of the same handle (unlike
                        # get_state): it replaces the first, version = current + 1, the last content wins - and the
                        # content used here is the observed one
                        continue
                    seen.add(h)
                    acts.append(f'AState {self.it.h(h)} {pay("states", h, 4)}')
            elif op['k'] == 'location':
                k = 5
                dh = next((h for h, t in self.inv[case['mdib']]['types'].items() if t == 'LocationContextDescriptor'), None)
                gen = next((h for h in created_c if h.startswith('gen')), None)
                acts.append(f'ACtxDisAll {self.it.h(dh)} None')
                acts.append(f'ACtxMk {self.it.h(dh)} {self.it.h(gen) if gen else 0} false true {pay("cstates", gen, 7)}')
            elif op['k'] == 'ctx':
                k = 5
                todo = live(op['actions'] if ab is None else op['actions'][:ab])
                if entity:
                    # ContextStateTransaction.write_entity replaces an earlier write of the same state handle in the
                    # same transaction (the classic getters refuse it): the last one counts
                    key = [a[2] if a[0] == 'mk' else a[1] if a[0] in ('get', 'delstate') else None for a in todo]
                    todo = [a for i, a in enumerate(todo) if key[i] is None or key[i] not in key[i + 1:]]
                for a in todo:
                    if a[0] == 'mk':
                        _, dh, handle, assoc, _n, *_slot = a
                        hh = handle
                        if hh is None:
                            hh = next((h for h in created_c if h.startswith('gen')), None)
                        hid = self.it.h(hh) if hh else 0
                        acts.append(f'ACtxMk {self.it.h(dh)} {hid} {"true" if handle is not None else "false"} '
                                    f'{"true" if assoc else "false"} {pay("cstates", hh, 7)}')
                    elif a[0] == 'get':
                        _, handle, _n, assoc, *_slot = a
                        av = 'None' if assoc is None else ('(Some 2)' if assoc else '(Some 3)')
                        acts.append(f'ACtxGet {self.it.h(handle)} {pay("cstates", handle, 7)} {av}')
                    elif a[0] == 'disall':
                        acts.append(f'ACtxDisAll {self.it.h(a[1])} {oz(self.it.h(a[2]))}')
                    elif a[0] == 'delstate':
                        acts.append(f'ACtxDel {self.it.h(a[1])}')
                    elif a[0] == 'wr':       # one write_entity call for several (existing) context states
                        for hh in a[2]:
                            acts.append(f'ACtxGet {self.it.h(hh)} {pay("cstates", hh, 7)} None')
            elif op['k'] == 'descr':
                k = 6
                for a in live(op['actions'] if ab is None else op['actions'][:ab]):
                    if a[0] == 'add' and op.get('iface') == 'entity' and str(a[1]) in tb.t['descrs']:
                        # write_entity of a handle that exists is an UPDATE of that entity (descriptor and state are
                        # written), not a rejected creation as add_descriptor would be
                        acts.append(f'ADUpd {self.it.h(a[1])} {pay("descrs", a[1], 4)}')
                        if self.kind(a[1], tb.t['descrs'][str(a[1])][2]) != KIND['ctx'] and str(a[1]) in tb.t['states']:
                            acts.append(f'ADState {self.it.h(a[1])} {pay("states", a[1], 4)}')
                    elif a[0] == 'add':
                        _, h, parent, tname, _n, _ws, *_slot = a
                        kk = TXK[TX_OF_TYPE[tname]]
                        self.kind_of.setdefault(h, kk)
                        acts.append(f'ADAdd {self.it.h(h)} {oz(self.it.h(parent))} {kk} {pay("descrs", h, 4)} {pay("states", h, 4)}')
                    elif a[0] in ('upd', 'updsrc'):
                        acts.append(f'ADUpd {self.it.h(a[1])} {pay("descrs", a[1], 4)}')
                        cur = tb.t['descrs'].get(str(a[1]))
                        if a[0] == 'upd' and op.get('iface') == 'entity' and cur is not None:
                            # write_entity also writes the state(s) of the entity
                            if self.kind(a[1], cur[2]) == KIND['ctx']:       # (a SystemContextDescriptor is a component)
                                for ch, x in tb.t['cstates'].items():
                                    if str(x[1]) == str(a[1]):
                                        acts.append(f'ACtxGet {self.it.h(ch)} {pay("cstates", ch, 7)} None')
                            elif len(a) > 3:       # a stale entity: the state content is the one read earlier
                                acts.append(f'ADState {self.it.h(a[1])} {pay("states", a[1], 4)}')
                    elif a[0] == 'del':
                        acts.append(f'ADDel {self.it.h(a[1])}')
                    elif a[0] == 'state':
                        acts.append(f'ADState {self.it.h(a[1])} {pay("states", a[1], 4)}')
            ab = '(@None nat)' if ab is None else f'(Some {len(acts)}%nat)'
            hist.append(f'({k}, {ab}, [{"; ".join(acts)}])')
            exp.append((CODE.get(st['res'].split(':')[0], 9), d['ver'],
                        [(self.it.h(x[0]), self.enc_d(x)) for x in d['descrs']['set']] + [(self.it.h(h), []) for h in d['descrs']['del']],
                        [(self.it.h(x[0]), self.enc_s(x)) for x in d['states']['set']] + [(self.it.h(h), []) for h in d['states']['del']],
                        [(self.it.h(x[0]), self.enc_c(x)) for x in d['cstates']['set']] + [(self.it.h(h), []) for h in d['cstates']['del']])
                       + tuple([(self.it.h(e[0]), [e[1]]) for e in d.get('saved', {}).get(k_, [])] +
                               [(self.it.h(h), []) for h in d.get('saved_del', {}).get(k_, [])] for k_ in ('d', 's', 'c')))
            tb.apply(d)
        self.kind_of = base_kinds
        universe = sorted(self.it.handles.values())
        ulit = '[' + '; '.join(str(u) for u in universe) + ']'

        def dl(lst):
            lst = sorted(lst, key=lambda e: e[0])
            return '[' + '; '.join(f'({h}, [{"; ".join(str(v) for v in enc)}])' for h, enc in lst) + ']'

        explit = '([' + '; '.join(f'({c}, {v}, ' + ', '.join(dl(x) for x in rest) + ')' for c, v, *rest in exp) + '] : list obs)'
        return name, ulit, '([' + '; '.join(hist) + '] : list (Z * option nat * list action))', explit


NOTIF = {'metrics_by_handle': 0, 'alert_by_handle': 0, 'component_by_handle': 0, 'operation_by_handle': 0,
         'waveform_by_handle': 0, 'context_by_handle': 1, 'new_descriptors_by_handle': 2,
         'updated_descriptors_by_handle': 3, 'deleted_descriptors_by_handle': 4}
MOD = {'Crt': 0, 'Upt': 1, 'Del': 2}


class ConsumerTranslator(Translator):
    """wire reports + consumer deltas of a trace -> literals for coq/Mdib/CRun.v"""

    def cinit_literal(self, name, snap, seq_id, inst):
        ds = '; '.join(f'({self.it.h(x[0])}, mkDescr {oz(self.it.h(x[1]))} {self.kind(x[0], x[2])} {x[3]} {self.it.p(x[4])})'
                       for x in snap['descrs'])
        ss = '; '.join(f'({self.it.h(x[0])}, mkState {x[3]} {x[2]} {self.it.p(x[4])})' for x in snap['states'])
        cs = '; '.join(f'({self.it.h(x[0])}, mkCState {self.it.h(x[1])} {x[3]} {x[2]} {ASSOC.get(x[4], 9)} {oz(x[5])} {oz(x[6])} {self.it.p(x[7])})'
                       for x in snap['cstates'])
        return f'Definition {name} : cmdib := mk_cmdib [{ds}] [{ss}] [{cs}] {snap["ver"]} {seq_id} ({inst if inst is not None else -1}).'

    def st(self, x):
        return f'({self.it.h(x[0])}, mkState {x[3]} {x[2]} {self.it.p(x[4])})'

    def cst(self, x):
        return (f'({self.it.h(x[0])}, mkCState {self.it.h(x[1])} {x[3]} {x[2]} {ASSOC.get(x[4], 9)} {oz(x[5])} '
                f'{oz(x[6])} {self.it.p(x[7])})')

    def report(self, r, seqs):
        seq = seqs.setdefault(r['seq'], len(seqs) + 1)
        vg = f'(mkVg {r["ver"]} {seq} ({r["inst"] if r["inst"] is not None else -1}))'
        if r['kind'] == 'DescriptionModificationReport':
            parts = []
            for p in r['parts']:
                ds = '; '.join(f'({self.it.h(x[0])}, mkDescr {oz(self.it.h(x[1]))} {self.kind(x[0], x[2])} {x[3]} {self.it.p(x[4])})'
                               for x in p['descrs'])
                ss = '; '.join(self.st(x) for x in p['states'] if len(x) == 5)
                cs = '; '.join(self.cst(x) for x in p['states'] if len(x) >= 8)
                parts.append(f'mkDPart {MOD[p["mod"]]} [{ds}] [{ss}] [{cs}]')
            return f'RDescr {vg} [{"; ".join(parts)}]'
        items = [x for p in r['parts'] for x in p['states']]
        if r['kind'] == 'EpisodicContextReport':
            return f'RCtx {vg} [{"; ".join(self.cst(x) for x in items)}]'
        return f'RState {vg} [{"; ".join(self.st(x) for x in items)}]'

    def consumer_case(self, case, result, delivered=None):
        """delivered: optional per-step list of report lists actually handed to the consumer (fault streams);
        default = the reports the provider sent in that step."""
        import hashlib, json
        snap = result['init']['prov']
        seqs = {snap['seq']: 1}
        core = {k: snap[k] for k in ('descrs', 'states', 'cstates', 'ver')}
        # the consumer model starts with the version group the real consumer holds after its first load
        cvg = result['init'].get('cons_vg') or [snap['ver'], snap['seq'], snap['inst']]
        cseq = seqs.setdefault(cvg[1], len(seqs) + 1)
        core['cvg'] = [cseq, cvg[2]]
        name = 'cinit_' + hashlib.sha1(json.dumps(core, sort_keys=True).encode()).hexdigest()[:10]
        base_kinds = dict(self.kind_of)
        for op in case['ops']:
            for a in op.get('actions', []):
                if a[0] == 'add':
                    self.kind_of.setdefault(a[1], TXK[TX_OF_TYPE[a[3]]])
        if name not in self.init_defs:
            self.init_defs[name] = self.cinit_literal(name, snap, cseq, cvg[2])
        steps, exp = [], []
        for n, st in enumerate(result['trace']):
            reps = delivered[n] if delivered is not None else [r for r in st['reports'] if not r.get('other') and r['kind'] != 'UNPARSABLE']
            steps.append('[' + '; '.join(self.report(r, seqs) for r in reps) + ']')
            d = st['cons']
            notes = sorted((NOTIF[name_], self.it.h(k)) for name_, keys in st.get('notif', []) for k in keys)
            exp.append((d['ver'], {'invalid': 0, 'initializing': 1, 'initialized': 2}.get(st.get('cmode'), 2),
                        [(self.it.h(x[0]), self.enc_d(x)) for x in d['descrs']['set']] + [(self.it.h(h), []) for h in d['descrs']['del']],
                        [(self.it.h(x[0]), self.enc_s(x)) for x in d['states']['set']] + [(self.it.h(h), []) for h in d['states']['del']],
                        [(self.it.h(x[0]), self.enc_c(x)) for x in d['cstates']['set']] + [(self.it.h(h), []) for h in d['cstates']['del']],
                        notes))
        self.kind_of = base_kinds
        universe = sorted(self.it.handles.values())
        ulit = '[' + '; '.join(str(u) for u in universe) + ']'

        def dl(lst):
            lst = sorted(lst, key=lambda e: e[0])
            return '[' + '; '.join(f'({h}, [{"; ".join(str(v) for v in enc)}])' for h, enc in lst) + ']'

        explit = '([' + '; '.join(
            f'({v}, {m}, {dl(a)}, {dl(b)}, {dl(cc)}, [{"; ".join(f"({x}, {y})" for x, y in nn)}])'
            for v, m, a, b, cc, nn in exp) + '] : list cobs)'
        return name, ulit, '([' + '; '.join(steps) + '] : list (list report))', explit
