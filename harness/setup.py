"""setup_cmd: regenerate the generated model files from /repo, then build every .v file (full .vo)."""
import sys
import time
from pathlib import Path

sys.path.insert(0, str(Path(__file__).resolve().parent))
import lib  # noqa: E402

# every harness/impl/gen_*.py is a translator; it names its output file in its "rel" key


def main():
    t0 = time.time()
    ctx = lib.Ctx('C00', 'quick', 1)
    for f in sorted((lib.VERIF / 'harness' / 'impl').glob('gen_*.py')):
        ctx.regenerate(f.stem)
    ok, log, dt = ctx.coq_make(['all'], timeout=3400)
    print(log[-3000:])
    print(f'setup: coq build {"ok" if ok else "FAILED"} in {time.time() - t0:.0f}s')
    return 0 if ok else 1


if __name__ == '__main__':
    sys.exit(main())
