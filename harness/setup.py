"""setup_cmd: regenerate the generated model files from /repo, then build every .v file (full .vo)."""
import sys
import time
from pathlib import Path

sys.path.insert(0, str(Path(__file__).resolve().parent))
import lib  # noqa: E402

# (translator script, generated file)
GENERATORS = [
    ('gen_wsd_params', 'Wsd/Gen_Params.v'),
    ('gen_multikey_tables', 'Multikey/Gen_Tables.v'),
]


def main():
    t0 = time.time()
    ctx = lib.Ctx('C00', 'quick', 1)
    for script, rel in GENERATORS:
        if not (lib.VERIF / 'harness' / 'impl' / f'{script}.py').exists():
            continue
        ctx.regenerate(script, rel)
    ok, log, dt = ctx.coq_make(['all'], timeout=3400)
    print(log[-3000:])
    print(f'setup: coq build {"ok" if ok else "FAILED"} in {time.time() - t0:.0f}s')
    return 0 if ok else 1


if __name__ == '__main__':
    sys.exit(main())
