"""setup_cmd: regenerate the generated model files from /repo, then build every .v file (full .vo)."""
import sys
import time
from pathlib import Path

sys.path.insert(0, str(Path(__file__).resolve().parent))
import lib  # noqa: E402

# every harness/impl/gen_*.py is a translator; it names its output file in its "rel" key


def main():
    t0 = time.time()
    ctx = lib.Ctx('C00', 'quick', 1)
    for f in sorted((lib.VERIF / 'harness' / 'impl').glob('gen_*.py')):
        ctx.regenerate(f.stem)
    ok, log, dt = ctx.coq_make(['-k', 'all'], timeout=3400)
    print(log[-3000:])
    # files of properties that are still under construction may fail; what counts are the claimed ones
    import json
    manifest = json.loads((lib.VERIF / 'MANIFEST.json').read_text())
    missing = [c['property_id'] for c in manifest['checks']
               if not (lib.COQ / 'Props' / f"{c['property_id']}.vo").exists()]
    print(f'setup: coq build {"ok" if ok else "with failures"} in {time.time() - t0:.0f}s; '
          f'claimed properties without compiled theorems: {missing or "none"}')
    return 0 if not missing else 1


if __name__ == '__main__':
    sys.exit(main())
