"""Shared driver for the MDIB history streams: generate histories, run them on the implementation in
parallel subprocesses, return (case, result) pairs."""
from __future__ import annotations

import random
from concurrent.futures import ThreadPoolExecutor

import mdibgen

_INV = {}


def inventory(ctx, mdib_file):
    if mdib_file not in _INV:
        r = ctx.impl('mdib_impl', {'inventory': mdib_file}, timeout=120)
        if r.get('_crash'):
            raise RuntimeError('inventory failed: ' + r['stderr'][-800:])
        _INV[mdib_file] = r['inventory']
    return _INV[mdib_file]


def make_cases(ctx, ncases, nops, weights=None, consumer=True, mdib_files=('70041_MDIB_Final.xml',), iface_mix=0.35,
               scenarios=True):
    """the first cases are the crafted scenario histories of mdibgen.SCENARIOS (each on every MDIB file, followed by
    a short random tail), the rest are random histories"""
    cases = []
    nscen = len(mdibgen.SCENARIOS) * len(mdib_files) * (1 if ncases < 400 else 3) if scenarios else 0
    nscen = min(nscen, ncases // 2)
    for i in range(ncases):
        f = mdib_files[i % len(mdib_files)]
        rng = random.Random(ctx.rng.getrandbits(48))
        g = mdibgen.Gen(rng, inventory(ctx, f), weights, iface_mix)
        # InstanceId of the provider (None = absent is the library default, the test device uses 1), and - in a
        # third of the cases with a consumer - transactions of every kind that the provider commits while the
        # consumer's FIRST GetMdib is in flight
        inst = rng.choice([1, 1, 0, 0, None, 7])
        during = None
        if consumer and rng.random() < 0.34:
            keep, g.w['delstate'] = g.w.get('delstate', 0), 0     # (a deletion the consumer cannot follow: known finding)
            during = g.every_kind_ops() if rng.random() < 0.6 else g.history(rng.randint(1, 4))
            g.w['delstate'] = keep
        if i < nscen:
            j = i // len(mdib_files)
            ops = mdibgen.scenario(g, j, rng.choice(['classic', 'entity', None, None]))
            if not any(a[0] == 'delstate' for o in ops for a in o.get('actions', [])):
                ops += g.history(rng.randint(0, 3))      # (nothing after a deletion the consumer cannot follow)
            c = {'mdib': f, 'seed': i + 1, 'consumer': consumer, 'ops': ops, 'scenario': mdibgen.SCENARIOS[j % len(mdibgen.SCENARIOS)].__name__}
        else:
            c = {'mdib': f, 'seed': i + 1, 'consumer': consumer, 'ops': g.history(rng.randint(max(2, nops // 3), nops))}
        c['inst'] = inst
        if during:
            c['init_during'] = during
        c['_gen'] = g
        cases.append(c)
    return cases


def run_histories(ctx, stream, ncases, nops, weights=None, consumer=True, mdib_files=('70041_MDIB_Final.xml',),
                  iface_mix=0.35, batch=6, workers=12, extra=None, scenarios=True):
    cases = make_cases(ctx, ncases, nops, weights, consumer, mdib_files, iface_mix, scenarios)
    for c in cases:
        rng = random.Random(ctx.rng.getrandbits(48))
        g = c.pop('_gen')
        if extra:
            c.update(extra(rng, c, g) if callable(extra) else extra)
    # long (crafted) histories first, spread over the batches
    order = sorted(range(len(cases)), key=lambda i: -len(cases[i]['ops']))
    nb = max(1, (len(cases) + batch - 1) // batch)
    batches = [[cases[i] for i in order[b::nb]] for b in range(nb)]

    def one(b):
        return ctx.impl('mdib_impl', {'cases': b}, timeout=900)

    with ThreadPoolExecutor(max_workers=workers) as ex:
        outs = list(ex.map(one, batches))
    pairs = []
    crashes = []
    for b, o in zip(batches, outs):
        if o.get('_crash'):
            crashes.append(o['stderr'][-800:])
            continue
        for c, r in zip(b, o['results']):
            if 'crash' in r:
                crashes.append(r['crash'][-800:])
            else:
                pairs.append((c, r))
    for cr in crashes[:1]:
        ctx.broken('correspondence', f'{stream}: implementation run crashed', {'crashes': len(crashes), 'first': cr})
    return pairs


def op_histogram(pairs):
    """measured on the executed histories: operation kinds, results, the generator's tags (only for operations that
    committed, 'aborted-recreate' for those that did not), delete / re-create cycles and files"""
    hist = {}

    def inc(key, n=1):
        hist[key] = hist.get(key, 0) + n
    for c, r in pairs:
        inc('file=' + c.get('mdib', ''))
        inc('InstanceId=' + str(c.get('inst', 'default')))
        # reports that reached the consumer while its GetMdib was in flight (first load / reload_all): committed after
        # the snapshot = buffered and replayed; committed before it = buffered and dropped as older
        logs = [('first-load', r['init'].get('during'))] + [('reload', st.get('during')) for st in r['trace']]
        for name, log in logs:
            if log:
                inc(f'{name}-with-commits-in-flight')
                for sub in log[1:]:
                    for kind, ver in sub.get('reports', []):
                        inc(f'in-flight/{name}/{"newer" if ver is not None and ver > log[0]["snapshot_ver"] else "older"}:{kind}')
        for st in r['trace']:
            for d in st.get('inflight') or []:
                if d.get('kind') and not d.get('other') and d.get('cmode') == 'initializing':
                    inc(f'in-flight/reload/sent-before-the-snapshot:{d["kind"]}')
        if c.get('scenario'):
            inc('crafted' + c['scenario'])
        tb = mdibgen.Tables(r['init']['prov'])
        gone = {t: {} for t in ('descrs', 'cstates')}       # handle -> number of times it left the table
        back = {t: {} for t in ('descrs', 'cstates')}
        for op, st in zip(c['ops'], r['trace']):
            key = op['k'] + ('/' + op.get('tx', '') if op['k'] == 'state' else '') + \
                ('/entity' if op.get('iface') == 'entity' else '')
            inc(key)
            res = st['res'].split(':')[0]
            inc('res=' + res)
            for t in op.get('tag', []):
                if (res == 'ok') != (t == 'aborted-recreate'):
                    inc('tag:' + t)
            keys = [it[0] for it in op.get('items', [])] + \
                [('mk', a[2]) if a[0] == 'mk' else (a[0] in ('get', 'delstate') and 's', a[1]) for a in op.get('actions', [])
                 if a[0] in ('mk', 'get', 'delstate', 'upd', 'add', 'del')]
            if len(keys) != len(set(keys)):
                inc(f'same-handle-twice:{op["k"]}/{op.get("iface", "classic")}={res}')
            d = st['prov']
            for t in gone:
                for x in d[t]['set']:
                    h = str(x[0])
                    if h not in tb.t[t] and gone[t].get(h):
                        back[t][h] = back[t].get(h, 0) + 1
                for h in d[t]['del']:
                    gone[t][h] = gone[t].get(h, 0) + 1
            if res == 'ok' and op['k'] == 'descr':
                for a in op['actions']:
                    cur = tb.t['descrs'].get(str(a[1]))
                    if a[0] == 'upd' and cur is not None and cur[2].endswith('ContextDescriptor') and cur[2] != 'SystemContextDescriptor':
                        k = sum(1 for x in d['cstates']['set'] if str(x[1]) == str(a[1]))
                        inc(f'context-descriptor-updated-with-{min(k, 3)}{"+" if k >= 3 else ""}-states' +
                            ('/entity' if op.get('iface') == 'entity' else ''))
            roots = [x for x in d['descrs']['set'] if x[1] is None and str(x[0]) not in tb.t['descrs']]
            if roots and len(d['descrs']['set']) == len(roots) and not d['descrs']['del']:
                inc('tx-creates-only-root-descriptors')
            tb.apply(d)
        for t, name in (('descrs', 'descriptor'), ('cstates', 'context-state')):
            for h, k in back[t].items():
                inc(f'{name}-handles-recreated-{min(k, 3)}x')
    return dict(sorted(hist.items()))


# ----------------------------------------------------------------------------- generic property driver
import re  # noqa: E402

import mdibmodel  # noqa: E402

HEADER = ('From Coq Require Import List ZArith Bool.\nImport ListNotations.\n'
          'From SDC Require Import Mdib.Model Mdib.Run.\nOpen Scope Z_scope.\n')


def signature_of(prop, why, op, res):
    """stable signature of a failing step: property clause + kind of the operation that exposed it"""
    clause = re.sub(r"'[^']*'|\[[^\]]*\]|[0-9a-fx_.A-Za-z]*[0-9][0-9a-fx_.A-Za-z]*", '#', why)[:70].strip()
    kinds = []
    if op:
        kinds.append(op['k'] + ('/' + op.get('tx', '') if op['k'] == 'state' else ''))
        if op.get('iface') == 'entity':
            kinds.append('entity')
        for a in op.get('actions', []):
            if a[0] not in kinds:
                kinds.append(a[0])
    return {'clause': clause, 'op': '+'.join(kinds), 'res': (res or '').split(':')[0]}


def judge(ctx, stream, pairs, oracles, props):
    """run the oracles; report findings that belong to `props` (first failing step of a case only: later ones
    are usually consequences)"""
    nfail = 0
    for c, r in pairs:
        allf = []
        for orc in oracles:
            allf += [f for f in orc(c, r)]
        allf.sort(key=lambda f: f[1])
        if not allf:
            continue
        n0 = allf[0][1]
        for prop, n, why in allf:
            if n != n0:
                break
            if prop not in props:
                continue
            nfail += 1
            op = c['ops'][n] if n >= 0 else None
            res = r['trace'][n]['res'] if n >= 0 else None
            short = dict(c)
            short['ops'] = c['ops'][:n + 1]
            ctx.fail(f'{stream}: step {n} {json_short(op)} -> {why}', signature_of(prop, why, op, res),
                     {'stream': stream, 'case': short, 'failing_step': n,
                      'impl_trace_tail': r['trace'][max(0, n - 1):n + 1] if n >= 0 else r['init'].get('mirror0'),
                      'oracle': {'verdict': 'fail', 'property': prop, 'clause': why}})
    return nfail


def json_short(x, n=160):
    import json
    return json.dumps(x)[:n]


def model_correspondence(ctx, stream, pairs, mdib_files):
    """provider model (coq/Mdib/Model.v) vs implementation on the same histories"""
    tr = mdibmodel.Translator({f: inventory(ctx, f) for f in mdib_files})
    cases = []
    for c, r in pairs:
        name, u, h, e = tr.case(c, r)
        cases.append((f'({name}, {u}, {h})', e))
    header = HEADER + '\n'.join(tr.init_defs.values())
    run = "fun c => let '(m, u, h) := c in run u u m h"
    mism, err = ctx.coq_mism(stream, header, 'trace_eqb', run, cases, shard=8, deps=['Mdib/Run.vo'])
    if err:
        ctx.broken('correspondence', f'{stream} (coq evaluation)', err[-1500:])
    if mism:
        i = mism[0]
        c, r = pairs[i]
        out = ctx.coq_eval(header, f'({run}) {cases[i][0]}')
        ctx.broken('correspondence', f'{stream}: provider model vs implementation',
                   {'disagreements': len(mism), 'first_case': c, 'expected(impl)': cases[i][1][:3000],
                    'model': re.sub(r'\s+', ' ', out)[-3000:]})
    ctx.cov.setdefault('distinct_initial_snapshots', 0)
    ctx.cov['distinct_initial_snapshots'] = max(ctx.cov['distinct_initial_snapshots'], len(tr.init_defs))
    return mism


CHEADER = ('From Coq Require Import List ZArith Bool.\nImport ListNotations.\n'
           'From SDC Require Import Mdib.Model Mdib.Run Mdib.Consumer Mdib.CRun.\nOpen Scope Z_scope.\n')


DHEADER = ('From Coq Require Import List ZArith Bool.\nImport ListNotations.\n'
           'From SDC Require Import Mdib.Model Mdib.Run Mdib.Consumer Mdib.CRun Mdib.DRun.\nOpen Scope Z_scope.\n')


def report_correspondence(ctx, stream, pairs, mdib_files):
    """the reports the provider MODEL predicts for every step of a history (coq/Mdib/DRun.v `dreports`: the Coq
    functions `descr_reports` / `state_report` that the C01 mirror theorems are stated about) vs the reports seen on the
    wire; insensitive only to the orders the wire does not fix (items of one list, DELETE parts of one removed tree)"""
    tr = mdibmodel.ConsumerTranslator({f: inventory(ctx, f) for f in mdib_files})
    cases = []
    for c, r in pairs:
        name, _u, h, _e = tr.case(c, r)
        _cname, _cu, steps, _cexp = tr.consumer_case(c, r)
        inst = r['init']['prov'].get('inst')
        inst = -1 if inst is None else inst
        cases.append((f'({name}, {inst}, {h})', steps))
    header = DHEADER + '\n'.join(tr.init_defs.values())
    run = "fun c => let '(m, inst, h) := c in dreports 1 inst m h"
    mism, err = ctx.coq_mism(stream + '-predicted-reports', header, 'dtrace_eqb', run, cases, shard=8, deps=['Mdib/DRun.vo'])
    if err:
        ctx.broken('correspondence', f'{stream} predicted reports (coq evaluation)', err[-1500:])
    if mism:
        i = mism[0]
        c, r = pairs[i]
        steps_bad = ctx.coq_eval(header, f"dmism (({run}) {cases[i][0]}) {cases[i][1]}")
        ctx.broken('correspondence', f'{stream}: reports predicted by the provider model vs reports on the wire',
                   {'disagreements': len(mism), 'first_case': c, 'steps_that_differ': re.sub(r'\s+', ' ', steps_bad)[-300:],
                    'wire': cases[i][1][:2500]})
    return mism


def consumer_correspondence(ctx, stream, pairs, mdib_files, delivered=None):
    """consumer model (coq/Mdib/Consumer.v) fed with the reports seen on the wire vs the real ConsumerMdib"""
    tr = mdibmodel.ConsumerTranslator({f: inventory(ctx, f) for f in mdib_files})
    cases = []
    for i, (c, r) in enumerate(pairs):
        name, u, h, e = tr.consumer_case(c, r, delivered[i] if delivered else None)
        cases.append((f'({name}, {u}, {h})', e))
    header = CHEADER + '\n'.join(tr.init_defs.values())
    run = "fun c => let '(m, u, h) := c in crun_steps u m h"
    mism, err = ctx.coq_mism(stream + '-consumer', header, 'ctrace_eqb', run, cases, shard=8, deps=['Mdib/CRun.vo'])
    if err:
        ctx.broken('correspondence', f'{stream} consumer (coq evaluation)', err[-1500:])
    if mism:
        i = mism[0]
        c, r = pairs[i]
        out = ctx.coq_eval(header, f'({run}) {cases[i][0]}')
        ctx.broken('correspondence', f'{stream}: consumer model vs implementation',
                   {'disagreements': len(mism), 'first_case': c, 'expected(impl)': cases[i][1][:3000],
                    'model': re.sub(r'\s+', ' ', out)[-3000:]})
    return mism
