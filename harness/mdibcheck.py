"""Shared driver for the MDIB history streams: generate histories, run them on the implementation in
parallel subprocesses, return (case, result) pairs."""
from __future__ import annotations

import random
from concurrent.futures import ThreadPoolExecutor

import mdibgen

_INV = {}


def inventory(ctx, mdib_file):
    if mdib_file not in _INV:
        r = ctx.impl('mdib_impl', {'inventory': mdib_file}, timeout=120)
        if r.get('_crash'):
            raise RuntimeError('inventory failed: ' + r['stderr'][-800:])
        _INV[mdib_file] = r['inventory']
    return _INV[mdib_file]


def run_histories(ctx, stream, ncases, nops, weights=None, consumer=True, mdib_files=('70041_MDIB_Final.xml',),
                  iface_mix=0.35, batch=6, workers=12, extra=None):
    cases = []
    for i in range(ncases):
        f = mdib_files[i % len(mdib_files)]
        rng = random.Random(ctx.rng.getrandbits(48))
        g = mdibgen.Gen(rng, inventory(ctx, f), weights, iface_mix)
        c = {'mdib': f, 'seed': i + 1, 'consumer': consumer, 'ops': g.history(rng.randint(max(2, nops // 3), nops))}
        if extra:
            c.update(extra)
        cases.append(c)
    batches = [cases[i:i + batch] for i in range(0, len(cases), batch)]

    def one(b):
        return ctx.impl('mdib_impl', {'cases': b}, timeout=900)

    with ThreadPoolExecutor(max_workers=workers) as ex:
        outs = list(ex.map(one, batches))
    pairs = []
    crashes = []
    for b, o in zip(batches, outs):
        if o.get('_crash'):
            crashes.append(o['stderr'][-800:])
            continue
        for c, r in zip(b, o['results']):
            if 'crash' in r:
                crashes.append(r['crash'][-800:])
            else:
                pairs.append((c, r))
    for cr in crashes[:1]:
        ctx.broken('correspondence', f'{stream}: implementation run crashed', {'crashes': len(crashes), 'first': cr})
    return pairs


def op_histogram(pairs):
    hist = {}
    for c, r in pairs:
        for op, st in zip(c['ops'], r['trace']):
            key = op['k'] + ('/' + op.get('tx', '') if op['k'] == 'state' else '') + \
                ('/entity' if op.get('iface') == 'entity' else '')
            hist[key] = hist.get(key, 0) + 1
            res = st['res'].split(':')[0]
            hist['res=' + res] = hist.get('res=' + res, 0) + 1
    return hist
