"""Generator of transaction histories for the MDIB streams and the oracles that evaluate the MDIB
properties directly on implementation traces (harness side)."""
from __future__ import annotations

import copy

CHILD_TYPE = {'MdsDescriptor': 'VmdDescriptor', 'VmdDescriptor': 'ChannelDescriptor',
              'ChannelDescriptor': 'NumericMetricDescriptor'}
TX_OF_TYPE = {'NumericMetricDescriptor': 'metric', 'ChannelDescriptor': 'comp', 'VmdDescriptor': 'comp',
              'MdsDescriptor': 'comp'}

DEFAULT_WEIGHTS = {'state': 5, 'ctx': 2, 'location': 1, 'descr': 3, 'reject': 1, 'abort': 1}


class Gen:
    """keeps a symbolic picture of the provider MDIB so that most generated operations are valid"""

    def __init__(self, rng, inv, weights=None, iface_mix=0.35):
        self.rng = rng
        self.inv = inv
        self.w = dict(DEFAULT_WEIGHTS)
        if weights:
            self.w.update(weights)
        self.iface_mix = iface_mix
        self.tree = dict(inv['tree'])            # handle -> parent   (live descriptors)
        self.types = dict(inv['types'])
        self.deleted = {}                        # handle -> (parent, type) of deleted generated descriptors
        self.ctx_states = {}                     # canonical handle -> descriptor handle
        self.n = 0
        self.ngen = 0
        self.nctx = 0
        self.kinds = {k: list(inv[k]) for k in ('metric', 'metric_str', 'rt', 'alert', 'comp', 'op', 'ctx')}

    def fresh(self):
        self.n += 1
        return self.n

    def iface(self):
        return 'entity' if self.rng.random() < self.iface_mix else 'classic'

    def live(self, kind):
        return [h for h in self.kinds[kind] if h in self.tree]

    # ------------------------------------------------------------------ op makers
    def op_state(self):
        tx = self.rng.choice(['metric', 'metric', 'alert', 'comp', 'op', 'rt'])
        pool = self.live(tx) + (self.live('metric_str') if tx == 'metric' else [])
        if not pool:
            return None
        k = min(len(pool), self.rng.choice([1, 1, 1, 2, 3]))
        handles = self.rng.sample(pool, k)
        return {'k': 'state', 'tx': tx, 'iface': self.iface(), 'items': [[h, self.fresh()] for h in handles]}

    def op_ctx(self):
        r = self.rng.random()
        dhs = self.live('ctx')
        if not dhs:
            return None
        dh = self.rng.choice(dhs)
        mine = [h for h, d in self.ctx_states.items() if d == dh]
        acts = []
        iface = self.iface()
        if r < 0.45 or not mine:
            self.nctx += 1
            explicit = self.rng.random() < 0.6
            handle = f'cs{self.nctx}' if explicit else None
            assoc = self.rng.random() < 0.7
            if assoc and self.rng.random() < 0.8 and iface == 'classic':
                acts.append(['disall', dh, None])
            acts.append(['mk', dh, handle, assoc, self.fresh()])
            self.ctx_states[handle or f'gen{self._next_gen()}'] = dh
        elif r < 0.8 - self.w.get('delstate', 0) * 0.1:
            h = self.rng.choice(mine)
            acts.append(['get', h, self.fresh(), self.rng.choice([None, None, True, False])])
        elif r < 0.8:
            h = self.rng.choice(mine)          # entity interface only: delete a context state
            acts.append(['delstate', h])
            self.ctx_states.pop(h)
            iface = 'entity'
        else:
            acts.append(['disall', dh, self.rng.choice([None] + mine)])
            iface = 'classic'
        return {'k': 'ctx', 'iface': iface, 'actions': acts}

    def _next_gen(self):
        self.ngen += 1
        return self.ngen

    def op_location(self):
        # set_location creates a state with a uuid handle
        for dh in self.live('ctx'):
            if self.types.get(dh) == 'LocationContextDescriptor':
                self.ctx_states[f'gen{self._next_gen()}'] = dh
                return {'k': 'location', 'n': self.fresh()}
        return None

    def op_descr(self):
        r = self.rng.random()
        iface = self.iface()
        acts = []
        parents = [h for h, t in self.types.items() if h in self.tree and t in CHILD_TYPE]
        generated = [h for h in self.tree if h.startswith('g_')]
        nested = [(c, p) for c, p in self.tree.items() if c in generated and p in generated]
        if nested and self.rng.random() < 0.3:
            # one transaction that removes a subtree AND touches something inside it
            c, p = self.rng.choice(nested)
            k = self.rng.random()
            if k < 0.35:          # remove a child and its ancestor (either order): allowed, the subtree goes once
                acts = [['del', c], ['del', p]]
                if self.rng.random() < 0.5:
                    acts.reverse()
                self._del(p)
            elif k < 0.7:         # update a descriptor inside the removed subtree: must be rejected as a whole
                acts = [['upd', c, self.fresh()], ['del', p]]
                if self.rng.random() < 0.5:
                    acts.reverse()
            else:                 # create a descriptor below a removed one: must be rejected as a whole
                t = self.types[p]
                if t not in CHILD_TYPE:
                    return None
                acts = [['add', f'g_{self.fresh()}', p, CHILD_TYPE[t], self.fresh(), None], ['del', p]]
                if self.rng.random() < 0.5:
                    acts.reverse()
            return {'k': 'descr', 'iface': iface, 'actions': acts, 'subtree_conflict': True}
        if r < 0.35 and parents:
            p = self.rng.choice(parents)
            t = CHILD_TYPE[self.types[p]]
            recreate = [h for h, (pp, tt) in self.deleted.items() if pp in self.tree and h not in self.tree]
            if recreate and self.rng.random() < 0.5:
                h = self.rng.choice(recreate)
                p, t = self.deleted.pop(h)
            else:
                h = f'g_{self.fresh()}'
            acts.append(['add', h, p, t, self.fresh(), self.fresh() if self.rng.random() < 0.5 else None])
            self._add(h, p, t)
            if self.rng.random() < 0.3:      # parent update + child add in ONE transaction, either order
                upd = ['upd', p, self.fresh()]
                if self.rng.random() < 0.5:
                    acts.insert(0, upd)
                else:
                    acts.append(upd)
            elif self.rng.random() < 0.3:                         # a second child of the same parent (siblings)
                h2 = f'g_{self.fresh()}'
                acts.append(['add', h2, p, t, self.fresh(), None])
                self._add(h2, p, t)
            elif self.rng.random() < 0.25 and t in CHILD_TYPE:   # add a grandchild in the same transaction
                h2 = f'g_{self.fresh()}'
                acts.append(['add', h2, h, CHILD_TYPE[t], self.fresh(), None])
                self._add(h2, h, CHILD_TYPE[t])
        elif r < 0.6:
            cands = [h for h in self.tree if self.types[h] in TX_OF_TYPE or self.types[h].startswith('Alert')]
            h = self.rng.choice(cands)
            acts.append(['upd', h, self.fresh()])
            if self.rng.random() < 0.35 and iface == 'classic' and self.types[h] in TX_OF_TYPE:
                acts.append(['state', h, self.fresh()])         # descriptor and its state in one transaction
        elif r < 0.72 and self.inv['alert_cond']:
            live_c = [h for h in self.inv['alert_cond'] if h in self.tree]
            live_s = [h for h in self.inv['alert_sig'] if h in self.tree]
            metrics = self.live('metric')
            iface = 'classic'
            if live_c and metrics and (self.rng.random() < 0.6 or not live_s):
                acts.append(['updsrc', self.rng.choice(live_c),
                             self.rng.sample(metrics, min(len(metrics), self.rng.randint(0, 2)))])
            elif live_s and live_c:
                acts.append(['updsrc', self.rng.choice(live_s), [self.rng.choice(live_c)]])
            else:
                return None
        elif generated:
            h = self.rng.choice(generated)
            acts.append(['del', h])
            sib = [g for g in generated if g != h and self.tree.get(g) == self.tree.get(h) and g in self.tree]
            self._del(h)
            if sib and self.rng.random() < 0.4:                  # remove a sibling in the same transaction
                h2 = self.rng.choice(sib)
                if h2 in self.tree:
                    acts.append(['del', h2])
                    self._del(h2)
        else:
            return None
        return {'k': 'descr', 'iface': iface, 'actions': acts}

    def _add(self, h, p, t):
        self.tree[h] = p
        self.types[h] = t
        self.kinds[TX_OF_TYPE[t]].append(h)

    def _del(self, h):
        for c in [c for c, p in self.tree.items() if p == h]:
            self._del(c)
        self.deleted[h] = (self.tree.pop(h), self.types[h])

    def op_reject(self):
        """an API call the transaction must reject; the whole transaction is then abandoned"""
        r = self.rng.random()
        metrics, alerts = self.live('metric'), self.live('alert')
        if r < 0.2:
            return {'k': 'state', 'tx': 'metric', 'items': [['no_such_handle', 1]], 'expect': 'reject'}
        if r < 0.4 and alerts:
            return {'k': 'state', 'tx': 'metric', 'items': [[self.rng.choice(alerts), self.fresh()]], 'expect': 'reject'}
        if r < 0.6 and len(metrics) > 1:
            h = self.rng.choice(metrics)
            other = self.rng.choice([m for m in metrics if m != h])
            return {'k': 'state', 'tx': 'metric', 'items': [[other, self.fresh()], [h, self.fresh()], [h, self.fresh()]],
                    'expect': 'reject'}
        if r < 0.75:
            h = self.rng.choice(list(self.tree))
            return {'k': 'descr', 'actions': [['upd', self.rng.choice(list(self.tree)), self.fresh()],
                                              ['add', h, self.tree[h] or h, 'ChannelDescriptor', 1, None]],
                    'expect': 'reject'}
        if r < 0.9 and metrics:
            return {'k': 'ctx', 'actions': [['mk', self.rng.choice(metrics), 'bad', True, 1]], 'expect': 'reject'}
        return {'k': 'descr', 'actions': [['del', 'no_such_handle']], 'expect': 'reject'}

    def history(self, nops):
        ops = []
        choices = [k for k, w in self.w.items() if k in ('state', 'ctx', 'location', 'descr', 'reject', 'abort')
                   for _ in range(w)]
        guard = 0
        while len(ops) < nops and guard < 10 * nops:
            guard += 1
            k = self.rng.choice(choices)
            if k == 'abort':
                snap = self._save()
                base = self.rng.choice([self.op_state, self.op_ctx, self.op_descr])()
                self._restore(snap)          # an aborted transaction leaves the symbolic picture unchanged
                if base is None:
                    continue
                n = len(base.get('items') or base.get('actions'))
                base['abort_at'] = self.rng.randint(0, n)
                base['expect'] = 'abort'
                ops.append(base)
                continue
            if k == 'reject':
                op = self.op_reject()
            else:
                op = {'state': self.op_state, 'ctx': self.op_ctx, 'location': self.op_location,
                      'descr': self.op_descr}[k]()
            if op is not None:
                ops.append(op)
        return ops

    def _save(self):
        return copy.deepcopy((self.tree, self.types, self.deleted, self.ctx_states, self.kinds, self.ngen, self.nctx))

    def _restore(self, s):
        self.tree, self.types, self.deleted, self.ctx_states, self.kinds, self.ngen, self.nctx = s


# ----------------------------------------------------------------------------- oracles on implementation traces
class Tables:
    """full tables rebuilt from the deltas of a trace"""

    def __init__(self, snap):
        self.ver = snap['ver']
        self.t = {k: {str(x[0]): x for x in snap[k]} for k in ('descrs', 'states', 'cstates')}

    def apply(self, d):
        self.ver = d['ver']
        for k in ('descrs', 'states', 'cstates'):
            for x in d[k]['set']:
                self.t[k][str(x[0])] = x
            for h in d[k]['del']:
                self.t[k].pop(h, None)


VER_POS = {'descrs': (3,), 'states': (2, 3), 'cstates': (2, 3)}


def oracle_provider(case, result):
    """C02 + C03(atomicity) + C11(mdib-index) on the provider side of one trace; yields (property, step, why)."""
    init = result['init']['prov']
    tb = Tables(init)
    last_ver = {k: {} for k in VER_POS}          # highest version ever seen per handle (survives deletion)
    for k in VER_POS:
        for h, x in tb.t[k].items():
            last_ver[k][h] = [x[p] for p in VER_POS[k]]
    if init['index_problems']:
        yield 'C11', -1, 'provider: ' + init['index_problems'][0]
    for n, (op, st) in enumerate(zip(case['ops'], result['trace'])):
        d = st['prov']
        prev_ver = tb.ver
        changed = any(d[k]['set'] or d[k]['del'] for k in VER_POS)
        if st['res'] != 'ok':
            if changed or d['ver'] != prev_ver:
                yield 'C03', n, f'transaction ended with {st["res"].split(":")[0]} but the MDIB changed (version {prev_ver}->{d["ver"]})'
            if st['reports']:
                yield 'C03', n, f'transaction ended with {st["res"].split(":")[0]} but a report was sent'
            if st['res'].startswith('Other'):
                yield 'C03', n, 'unexpected exception: ' + st['res'][:300]
        else:
            want = prev_ver + 1 if changed else prev_ver
            if d['ver'] != want and not (d['ver'] == prev_ver + 1 and not changed and _nonempty(op)):
                yield 'C02', n, f'MdibVersion {prev_ver}->{d["ver"]} although the transaction changed {"something" if changed else "nothing"}'
        if d['index_problems']:
            yield 'C11', n, 'provider: ' + d['index_problems'][0]
        # version counters
        for k in VER_POS:
            for x in d[k]['set']:
                h = str(x[0])
                newv = [x[p] for p in VER_POS[k]]
                old = tb.t[k].get(h)
                seen = last_ver[k].get(h)
                if seen is not None:
                    if newv[0] < seen[0]:
                        yield 'C02', n, f'{k[:-1]} {h}: version went back {seen[0]}->{newv[0]}'
                    elif old is None and newv[0] <= seen[0]:
                        yield 'C02', n, f'{k[:-1]} {h}: re-created with version {newv[0]} <= last version {seen[0]}'
                    elif old is not None and newv[0] == seen[0] and _content(old) != _content(x):
                        yield 'C02', n, f'{k[:-1]} {h}: content changed but version stayed {newv[0]}'
                last_ver[k][h] = [max(a, b) for a, b in zip(newv, seen)] if seen else newv
        tb.apply(d)
        # referential consistency
        for h, x in tb.t['states'].items():
            dd = tb.t['descrs'].get(h)
            if dd is None:
                yield 'C02', n, f'state {h} has no descriptor'
            elif dd[3] != x[3]:
                yield 'C02', n, f'state {h} carries DescriptorVersion {x[3]} but the descriptor has {dd[3]}'
        for h, x in tb.t['cstates'].items():
            dd = tb.t['descrs'].get(str(x[1]))
            if dd is None:
                yield 'C02', n, f'context state {h} has no descriptor'
            elif dd[3] != x[3]:
                yield 'C02', n, f'context state {h} carries DescriptorVersion {x[3]} but the descriptor has {dd[3]}'
        for h, x in tb.t['descrs'].items():
            if x[1] is not None and str(x[1]) not in tb.t['descrs']:
                yield 'C02', n, f'descriptor {h}: parent {x[1]} does not exist'


def _nonempty(op):
    return bool(op.get('items') or op.get('actions') or op['k'] == 'location')


def _content(x):
    return [v for i, v in enumerate(x)]


def oracle_reports(case, result):
    """C04 (content): the reports of a commit carry the committed version group and exactly the changed objects
    with their committed values; yields (property, step, why)."""
    tb = Tables(result['init']['prov'])
    seq, inst = result['init']['prov']['seq'], result['init']['prov']['inst']
    for n, (op, st) in enumerate(zip(case['ops'], result['trace'])):
        d = st['prov']
        tb.apply(d)
        reps = [r for r in st['reports'] if not r.get('other')]
        for r in reps:
            if r['kind'] == 'UNPARSABLE':
                yield 'C04', n, 'a notification could not be parsed: ' + r.get('err', '')
                continue
            if r.get('status') != 200:
                yield 'C04', n, f'{r["kind"]} was answered with HTTP {r.get("status")}'
            if r['ver'] != d['ver'] or r['seq'] != seq or r['inst'] != inst:
                yield 'C04', n, f'{r["kind"]} carries version group ({r["ver"]},{r["inst"]}) but the commit made ({d["ver"]},{inst})'
        if st['res'] != 'ok':
            continue
        # every changed state / context state is reported with its committed value; nothing else is
        changed_states = {str(x[0]): x for x in d['states']['set']}
        changed_c = {str(x[0]): x for x in d['cstates']['set']}
        rep_states = {}
        for r in reps:
            if r['kind'] in ('UNPARSABLE', 'DescriptionModificationReport'):
                continue
            seen_here = set()
            for part in r['parts']:
                for s in part['states']:
                    h = str(s[0])
                    if h in seen_here:
                        yield 'C04', n, f'{r["kind"]} lists state {h} twice'
                    seen_here.add(h)
                    rep_states[h] = s
        # states are grouped under the MDS they belong to
        def mds_of(dh):
            seen = 0
            cur = tb.t['descrs'].get(str(dh))
            while cur is not None and cur[1] is not None and seen < 50:
                cur = tb.t['descrs'].get(str(cur[1]))
                seen += 1
            return cur[0] if cur is not None else None
        for r in reps:
            if r['kind'] in ('UNPARSABLE', 'DescriptionModificationReport', 'WaveformStream'):
                continue
            for part in r['parts']:
                for s_ in part['states']:
                    dh = s_[1] if len(s_) == 8 else s_[0]
                    want_mds = mds_of(dh)
                    if part.get('mds') is not None and want_mds is not None and part['mds'] != want_mds:
                        yield 'C04', n, f'state {s_[0]} is reported under MDS {part["mds"]} but belongs to {want_mds}'
        for h, x in list(changed_states.items()) + list(changed_c.items()):
            if h not in rep_states:
                yield 'C04', n, f'state {h} changed in the commit but is in no episodic report'
            elif rep_states[h] != x:
                yield 'C04', n, f'state {h} reported as {rep_states[h]} but committed as {x}'
        for h, s in rep_states.items():
            if h not in changed_states and h not in changed_c:
                cur = tb.t['states'].get(h) or tb.t['cstates'].get(h)
                if cur != s:
                    yield 'C04', n, f'state {h} reported as {s} but the MDIB holds {cur}'
        dm = [r for r in reps if r['kind'] == 'DescriptionModificationReport']
        d_changed = {str(x[0]): x for x in d['descrs']['set']}
        d_deleted = set(d['descrs']['del'])
        if (d_changed or d_deleted) and not dm:
            yield 'C04', n, 'descriptors changed but no DescriptionModificationReport was sent'
        rep_d, rep_del = {}, set()
        for r in dm:
            for part in r['parts']:
                for x in part['descrs']:
                    h = str(x[0])
                    if part['mod'] == 'Del':
                        rep_del.add(h)
                        continue
                    if h in rep_d and rep_d[h] != x:
                        yield 'C04', n, f'descriptor {h} reported twice with different content/version: {rep_d[h]} vs {x}'
                    elif h in rep_d:
                        yield 'C04', n, f'descriptor {h} reported twice'
                    rep_d[h] = x
        for h, x in d_changed.items():
            if h not in rep_d:
                yield 'C04', n, f'descriptor {h} changed but is not in the DescriptionModificationReport'
            elif rep_d[h] != x:
                yield 'C04', n, f'descriptor {h} reported as {rep_d[h]} but committed as {x}'
        for h in d_deleted - rep_del:
            yield 'C04', n, f'descriptor {h} deleted but not reported as deleted'
        for h in rep_del - d_deleted:
            yield 'C04', n, f'descriptor {h} reported as deleted but still present or never existed'


def oracle_consumer(case, result):
    """C01 (mirror + notifications), C11 (consumer index), C06-style regressions; yields (property, step, why)."""
    if result['init'].get('mirror0'):
        yield 'C01', -1, f'after the initial load the consumer differs from the provider: {result["init"]["mirror0"][0]}'
    for n, (op, st) in enumerate(zip(case['ops'], result['trace'])):
        if 'cons' not in st:
            return
        if st['mirror']:
            yield 'C01', n, f'consumer differs from provider: {st["mirror"][0]}'
        if st['cons']['index_problems']:
            yield 'C11', n, 'consumer: ' + st['cons']['index_problems'][0]
        # notifications name exactly the entities the reports changed
        c = st['cons']
        named_states = set()
        for name, keys in st.get('notif', []):
            if name.endswith('descriptors_by_handle'):
                continue
            named_states |= set(keys)
        changed = {str(x[0]) for x in c['states']['set']} | {str(x[0]) for x in c['cstates']['set']}
        has_dm = any(r.get('kind') == 'DescriptionModificationReport' for r in st['reports'])
        if not has_dm:
            if named_states != changed:
                yield 'C01', n, (f'state notifications name {sorted(named_states)} but the reports changed '
                                 f'{sorted(changed)}')
        new = {k for name, keys in st.get('notif', []) if name == 'new_descriptors_by_handle' for k in keys}
        upd = {k for name, keys in st.get('notif', []) if name == 'updated_descriptors_by_handle' for k in keys}
        dele = {k for name, keys in st.get('notif', []) if name == 'deleted_descriptors_by_handle' for k in keys}
        if dele != set(c['descrs']['del']):
            yield 'C01', n, f'deleted-descriptor notifications name {sorted(dele)} but {sorted(c["descrs"]["del"])} were removed'
        if (new | upd) != {str(x[0]) for x in c['descrs']['set']}:
            yield 'C01', n, (f'descriptor notifications name {sorted(new | upd)} but '
                             f'{sorted(str(x[0]) for x in c["descrs"]["set"])} changed')


# ----------------------------------------------------------------------------- C06: delivery schedules
def fault_schedule(rng, nops):
    """per transaction step a list of delivery tokens (see harness/impl/mdib_impl.py)"""
    sched = []
    for _ in range(nops):
        r = rng.random()
        if r < 0.35:
            toks = ['all']
        elif r < 0.5:
            toks = ['hold']
        elif r < 0.6:
            toks = ['drop']
        elif r < 0.72:
            toks = ['dup']
        elif r < 0.84:
            toks = ['rev']
        else:
            toks = ['newest']
        if rng.random() < 0.3:
            toks.append(['replay', rng.randrange(1000)])
        if rng.random() < 0.1:
            toks.insert(0, ['replay', rng.randrange(1000)])
        if rng.random() < 0.25:
            toks.append('last')          # a duplicate of the newest report the consumer has seen (same MdibVersion)
        sched.append(toks)
    return sched


def oracle_faults(case, result):
    """C06 on an implementation trace with a fault-injecting transport; yields (property, step, why)."""
    init = result['init']['prov']
    published = {t: {} for t in ('descrs', 'states', 'cstates')}      # handle -> set of every value the provider ever held

    def publish(snap_or_delta, is_delta):
        for t in published:
            items = snap_or_delta[t]['set'] if is_delta else snap_or_delta[t]
            for x in items:
                published[t].setdefault(str(x[0]), set()).add(repr(x))
    publish(init, False)
    ct = Tables(init)                      # the consumer starts as a mirror (checked by C01's oracle)
    if result['init'].get('mirror0'):
        yield 'C06', -1, 'after the initial load the consumer is not a mirror'
    frozen = False
    cur_seq = init['seq']                  # the SequenceId the consumer mdib currently follows
    for n, (op, st) in enumerate(zip(case['ops'], result['trace'])):
        publish(st['prov'], True)
        c = st['cons']
        if st['res'].startswith('Other'):
            yield 'C06', n, 'unexpected exception: ' + st['res'][:200]
        reloaded = op['k'] == 'reload' and st['res'] == 'ok'
        if reloaded:
            if st['mirror']:
                yield 'C06', n, f'after reload_all the consumer is not a mirror of the provider: {st["mirror"][0]}'
            if st.get('cmode') != 'initialized':
                yield 'C06', n, f'after reload_all the consumer state is {st.get("cmode")}'
            frozen = False
            ct = Tables({'ver': c['ver'], 'descrs': [], 'states': [], 'cstates': []})
            ct.apply(c)      # after a reload the tables are simply what the delta says relative to before
            if c.get('seqinst'):
                cur_seq = c['seqinst'][0]
            continue
        if c['index_problems']:
            yield 'C06', n, 'consumer lookups inconsistent: ' + c['index_problems'][0]
        changed = any(c[t]['set'] or c[t]['del'] for t in ('descrs', 'states', 'cstates')) or c['ver'] != ct.ver
        if frozen and changed:
            yield 'C06', n, 'the consumer changed although SequenceId/InstanceId had changed and it was not reloaded'
        if c['ver'] is not None and ct.ver is not None and c['ver'] < ct.ver:
            yield 'C06', n, f'MdibVersion went back {ct.ver}->{c["ver"]}'
        for t, pos in (('states', 2), ('cstates', 2), ('descrs', 3)):
            for x in c[t]['set']:
                h = str(x[0])
                old = ct.t[t].get(h)
                if old is not None and x[pos] < old[pos]:
                    yield 'C06', n, f'{t[:-1]} {h}: version went back {old[pos]}->{x[pos]}'
                if repr(x) not in published[t].get(h, ()):
                    yield 'C06', n, f'{t[:-1]} {h}: the consumer holds {x}, which the provider never published'
        ct.apply(c)
        if st.get('cmode') == 'invalid':
            frozen = True
        # per delivery (the executor fingerprints the consumer MDIB around every delivery): a report from another
        # sequence / instance and a notification that was delivered before must not change anything
        PART = ['MdibVersion', 'SequenceId', 'InstanceId', 'descriptor versions', 'state versions', 'context state versions',
                'waveform samples']
        for r in st.get('delivered', []):
            if 'changed' not in r:
                continue
            if r.get('seq') is not None and r.get('seq') != cur_seq and r['changed']:
                yield 'C06', n, ('a report with a different SequenceId was applied: it changed ' +
                                 ', '.join(PART[k] for k in r['changed']))
            elif r.get('again') and r['changed']:
                yield 'C06', n, ('a notification that had been delivered before changed the consumer again: ' +
                                 ', '.join(PART[k] for k in r['changed']) + f' ({r.get("kind")})')
        if c.get('seqinst') and not reloaded:
            yield 'C06', n, f'the consumer adopted SequenceId/InstanceId {c["seqinst"]} without a reload'
        # a delivered report with a foreign sequence / instance id must invalidate an initialised consumer
        for r in st.get('delivered', []):
            if r.get('seq') is not None and r.get('seq') != cur_seq and st.get('cmode') == 'initialized':
                yield 'C06', n, 'a report with a different SequenceId was delivered but the consumer is still "initialized"'
